#!/bin/bash
# Build the verification framework from files on disk only (offline): regenerate the Lean sources
# that are translated from /repo, build the model driver and every property module.
set -e
cd "$(dirname "$0")"
REPO="${VERIF_REPO:-/repo}"
/venv/bin/python tools/translate.py --repo "$REPO"
cd lean
mods=$(ls Bluebell/Props/*.lean | sed 's|/|.|g; s|\.lean$||')
lake build drv $mods
echo "setup ok"
