#!/bin/bash
# Build the verification framework from files on disk only (offline): regenerate the Lean sources
# that are translated from /repo, build the proof library and the model driver.
set -e
cd "$(dirname "$0")"
REPO="${VERIF_REPO:-/repo}"
/venv/bin/python tools/translate.py --repo "$REPO"
cd lean
lake build drv Bluebell
echo "setup ok"
