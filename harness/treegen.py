"""Random Akoma Ntoso trees over bluebell's element vocabulary with adversarial text (for C05/C06)."""
from . import gen

TEXT_BITS = (gen.ALL_KEYWORDS + ['**', '//', '__', '{{', '}}', '{{*', '{{^', '{{>', '{{FOOTNOTE 1}}', '{{IMG a b}}', '\\', '\\\\', '*', '/', '_', '{', '}',
                                 ' - ', '-', ' ', '  ', 'a', 'b c', 'Z', '1.', '(a)', 'é', 'א', '\U0001F600', 'P ', 'P.', 'P{', 'ITEM', 'FROM x', 'TC', 'TR', 'TH',
                                 '***', '///', '___', '*', '**x', 'x**', '\n', '\t', ' x ', 'SUBPART 2', 'HEADING', 'nn'])
_NOTE = [0]
INLINE = ['b', 'i', 'u', 'sup', 'sub', 'ref', 'term', 'abbr', 'def', 'ins', 'del', 'inline', 'remark', 'span', 'em']
HIER = [k.lower() for k in gen.HIER[:27]]


def rtext(rng, n=None, safe_edges=False):
    n = n or rng.choice([1, 1, 2, 3, 5])
    s = ''.join(rng.choice(TEXT_BITS) for _ in range(n))
    if safe_edges:
        s = s.strip() or 'x'
    return s


def rinline(rng, depth=0):
    """mixed inline content: list of strings / inline elements (adjacent strings merged)"""
    out = []
    for _ in range(rng.choice([1, 1, 2, 3, 4])):
        k = rng.random()
        if depth > 2 or k < 0.55:
            out.append(rtext(rng))
        elif k < 0.6:
            out.append(['img', {'src': rng.choice(['http://a/b.png', 'a b.png', 'x']), **({'alt': rtext(rng, 1).replace('\n', ' ').replace('}', ')').replace('|', '/')} if rng.random() < 0.5 else {})}, []])
        elif k < 0.65:
            _NOTE[0] += 1
            out.append(['authorialNote', {'marker': str(_NOTE[0]), 'placement': 'bottom'}, [rp(rng, depth + 1)]])
        else:
            t = rng.choice(INLINE)
            attrs = {}
            if t == 'ref':
                attrs = {'href': rng.choice(['http://x.y/z', '#a', 'a b'])}
            elif t == 'term':
                attrs = {'refersTo': '#t'}
            elif t == 'abbr':
                attrs = {'title': 'T'}
            elif t == 'inline':
                attrs = {'name': rng.choice(['em', 'foo'])}
            elif t == 'remark':
                attrs = {'status': 'editorial'}
            elif t == 'em':
                t, attrs = 'inline', {'name': 'em'}
            kids = rinline(rng, depth + 1)
            if t == 'remark' and rng.random() < 0.3:
                kids = kids + [['br', {}, []]] + rinline(rng, depth + 1)
            out.append([t, attrs, kids])
    return merge(out)


def merge(kids):
    out = []
    for k in kids:
        if isinstance(k, str):
            if k == '':
                continue
            if out and isinstance(out[-1], str):
                out[-1] += k
            else:
                out.append(k)
        else:
            out.append(k)
    return out


def rattrs(rng, p=0.2, base=None):
    """block attributes as the text syntax writes them: .class(es) and/or an explicit {name value|...} list"""
    out = dict(base or {})
    if rng.random() >= p:
        return out
    k = rng.random()
    if k < 0.55:
        out['class'] = rng.choice(['c', 'c d', 'k-1'])
    if k > 0.35:
        for name in rng.sample(['refersTo', 'status', 'title', 'period'], rng.choice([1, 1, 2])):
            out[name] = {'refersTo': '#forms', 'status': 'editorial', 'title': rng.choice(['a b', 'T']), 'period': '#p1'}[name]
        if len(out) >= 2 and rng.random() < 0.25:
            out[list(out)[-1]] = ''   # a later attribute without a value
    return out


def rp(rng, depth=0):
    attrs = rattrs(rng, 0.12)
    return ['p', attrs, rinline(rng, depth)]


def rblock(rng, depth=0):
    k = rng.random()
    if depth > 2 or k < 0.5:
        return rp(rng, depth)
    if k < 0.6:
        items = [['item', rattrs(rng, 0.1), ([['num', {}, [rtext(rng, 1, True)]]] if rng.random() < 0.7 else []) + ([['heading', {}, rinline(rng, 2)]] if rng.random() < 0.3 else []) + [rblock(rng, depth + 1)]] for _ in range(rng.randint(1, 3))]
        intro = [['listIntroduction', {}, rinline(rng, 1)]] if rng.random() < 0.4 else []
        wrap = [['listWrapUp', {}, rinline(rng, 1)]] if rng.random() < 0.3 else []
        return ['blockList', rattrs(rng), intro + items + wrap]
    if k < 0.7:
        return ['ul', rattrs(rng), [['li', {}, [rp(rng, depth + 1)] + ([rp(rng, depth + 1)] if rng.random() < 0.3 else [])] for _ in range(rng.randint(1, 3))]]
    if k < 0.8:
        return ['table', rattrs(rng), [['tr', {}, [[rng.choice(['td', 'th']), rattrs(rng, 0.1, {'colspan': '2'} if rng.random() < 0.2 else {}), [rblock(rng, depth + 1)]] for _ in range(rng.randint(1, 2))]] for _ in range(rng.randint(1, 2))]]
    if k < 0.87:
        return ['block', {'name': 'quote'}, [['embeddedStructure', rattrs(rng, 0.15, {'startQuote': '"'} if rng.random() < 0.3 else {}), [rblock(rng, depth + 1)]]]]
    if k < 0.94:
        return ['blockContainer', rattrs(rng), [rblock(rng, depth + 1) for _ in range(rng.randint(1, 2))]]
    return rp(rng, depth)


def rhier(rng, depth=0):
    t = rng.choice(HIER)
    kids = []
    if rng.random() < 0.8:
        kids.append(['num', {}, [rtext(rng, 1, True).replace('\n', ' ')]])
    if rng.random() < 0.5:
        kids.append(['heading', {}, rinline(rng, 1)])
    if rng.random() < 0.2:
        kids.append(['subheading', {}, rinline(rng, 1)])
    if depth < 2 and rng.random() < 0.5:
        body = []
        if rng.random() < 0.4:
            body.append(['intro', {}, [rblock(rng, 1)]])
        for _ in range(rng.randint(1, 2)):
            body.append(rhier(rng, depth + 1))
            if rng.random() < 0.2:
                body.append(['crossHeading', rattrs(rng, 0.15), rinline(rng, 1)])
        if rng.random() < 0.3:
            body.append(['wrapUp', {}, [rblock(rng, 1)]])
        kids += body
    else:
        kids.append(['content', {}, [rblock(rng, 0) for _ in range(rng.randint(1, 2))]])
    attrs = rattrs(rng, 0.2)
    return [t, attrs, kids]


def rdoc(rng):
    """a whole document or a fragment"""
    _NOTE[0] = 0
    k = rng.random()
    if k < 0.35:
        return rhier(rng)
    if k < 0.55:
        return rblock(rng)
    if k < 0.65:
        return rp(rng)
    body = []
    for _ in range(rng.randint(1, 3)):
        if rng.random() < 0.6 or (body and body[-1][0] == 'hcontainer'):
            body.append(rhier(rng))
        else:
            body.append(['hcontainer', {'name': 'hcontainer'}, [['content', {}, [rblock(rng) for _ in range(rng.randint(1, 2))]]]])
    pre = [['preface', rattrs(rng, 0.15), [rblock(rng, 1)]]] if rng.random() < 0.3 else []
    atts = [['attachments', {}, [rattachment(rng) for _ in range(rng.randint(1, 2))]]] if rng.random() < 0.4 else []
    return ['akomaNtoso', {}, [['act', {'name': 'act'}, [['meta', {}, []]] + pre + [['body', {}, body]] + atts]]]


def rattachment(rng, depth=0):
    """attachment: optional heading and subheading, attributes (class and/or explicit list), a nested doc
    named after the keyword, possibly with attachments of its own"""
    kw = rng.choice(['schedule', 'annexure', 'appendix', 'attachment'])
    kids = []
    if rng.random() < 0.7:
        kids.append(['heading', {}, rinline(rng, 1)])
        if rng.random() < 0.25:
            kids.append(['subheading', {}, rinline(rng, 1)])
    main = [rhier(rng, 1) for _ in range(rng.randint(1, 2))] if rng.random() < 0.4 else [rblock(rng, 1) for _ in range(rng.randint(1, 2))]
    inner = [['attachments', {}, [rattachment(rng, depth + 1)]]] if depth < 1 and rng.random() < 0.25 else []
    kids.append(['doc', {'name': kw}, [['meta', {}, []], ['mainBody', {}, main]] + inner])
    return ['attachment', rattrs(rng, 0.5), kids]
