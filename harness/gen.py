"""Input generators. Every random choice comes from the `random.Random` passed in (seeded from VERIF_SEED)."""
import random, re

HIER = ('ALINEA ARTICLE BOOK CHAPTER CLAUSE DIVISION INDENT LEVEL LIST PARAGRAPH PART POINT PROVISO RULE SECTION '
        'SUBCHAPTER SUBCLAUSE SUBDIVISION SUBLIST SUBPARAGRAPH SUBPART SUBRULE SUBSECTION SUBTITLE TITLE TOME '
        'TRANSITIONAL ART CHAP PARA SEC SUBCHAP SUBPARA SUBSEC').split()
SPEECH_CONTAINERS = ('ADDRESS ADJOURNMENT ADMINISTRATIONOFOATH COMMUNICATION DEBATESECTION DECLARATIONOFVOTE '
                     'MINISTERIALSTATEMENTS NATIONALINTEREST NOTICESOFMOTION ORALSTATEMENTS PAPERS PERSONALSTATEMENTS '
                     'PETITIONS POINTOFORDER PRAYERS PROCEDURALMOTIONS QUESTIONS RESOLUTIONS ROLLCALL '
                     'WRITTENSTATEMENTS').split()
SPEECH_GROUPS = 'SPEECHGROUP SPEECH QUESTION ANSWER'.split()
SPEECH_BLOCKS = 'SCENE NARRATIVE SUMMARY'.split()
ATTACH = 'ATTACHMENT APPENDIX SCHEDULE ANNEXURE'.split()
CONTAINERS = 'PREFACE PREAMBLE BODY CONCLUSIONS INTRODUCTION BACKGROUND ARGUMENTS REMEDIES MOTIVATION DECISION'.split()
BLOCKS = 'BLOCKLIST ITEMS ITEM BULLETS TABLE TR TH TC LONGTITLE SUBHEADING CROSSHEADING P BLOCKS QUOTE FOOTNOTE FROM'.split()
ALL_KEYWORDS = HIER + SPEECH_CONTAINERS + SPEECH_GROUPS + SPEECH_BLOCKS + ATTACH + CONTAINERS + BLOCKS
INLINE_TAGS = ['abbr', 'def', 'em', 'inline', 'term', '-', '+']
ROOTS6 = ['act', 'bill', 'doc', 'statement', 'debateReport', 'judgment']
ROOTS7 = ROOTS6 + ['debate']

# characters that are legal in XML 1.0 documents and that lxml accepts in text
SAFE_ODD = ['é', 'ß', 'Ω', 'ж', 'א', 'ب', 'क', '中', ' ', ' ', '​', ' ', '　', '⸺', '“', '”', '§', '\U0001F600', '\U00010348', '�', '\u0085', ' ', ' ', '\x1c', '\x1d', '\x1e', '\x1f',
            # not in Unicode normal form (NFC / NFKC would rewrite them): decomposed accent, singleton compatibility characters,
            # combining marks out of canonical order, compatibility ligature / superscript / fullwidth
            'e\u0301', '\u212b', '\u2126', '\u212a', '\u037e', '\uf900', 'a\u0307\u0323', '\ufb01', '\u00b2', '\uff21']
UNSAFE = ['\x00', '\x01', '\x0b', '\x0c', '\x0e', '\x0f', '\x08', '￾', '￿']


class Words:
    """Distinct payload tokens (for C03): w1, w2 ... optionally in other scripts."""

    def __init__(self, rng, scripts=False):
        self.rng = rng
        self.n = 0
        self.scripts = scripts
        self.lone = True

    def one(self):
        self.n += 1
        if self.scripts:
            k = self.rng.random()
            if k < 0.1:
                return '\u05e9%d\u05dd' % self.n
            if k < 0.2:
                return '\u0628%d\u062a' % self.n
            if k < 0.3:
                return '\U00010348%d\U0001F600' % self.n
            if k < 0.4:
                return '\u0436%d\u044f' % self.n
            if k < 0.48:
                # not in Unicode normal form: ANGSTROM SIGN ... e + COMBINING ACUTE (a normalising stage would change the word)
                return '\u212b%de\u0301' % self.n
        return 'w%d' % self.n

    def some(self, n=None):
        ws = [self.one() for _ in range(n or self.rng.randint(1, 4))]
        out = ws[0]
        for w in ws[1:]:
            # now and then a lone marker character between two words (and/or, a*b, snake_case): the grammar reads it as a
            # text node of its own, so such runs reach the XML builder as several adjacent text nodes
            out += (self.rng.choice(['/', '*', '_', ' / ', ' * ']) if self.lone and self.rng.random() < 0.06 else ' ') + w
        return out


# ------------------------------------------------------------------ noise
MARKERS = ['**', '//', '__', '{{', '}}', '{{*', '{{^', '{{_', '{{>', '{{FOOTNOTE ', '{{IMG ', '{{abbr', '{{term', '{{em',
           '{{inline', '{{def', '{{-', '{{+', '{', '}', '|', '.', ' - ', '-', '*', '/', '_', '\\', '\\\\', '\\*', '\\{', ' ', '  ',
           '{a b}', '{a b|c d}', '.cls', '{class x}', '{eId foo}', '*  ', '* ']


def noise_token(rng, unsafe=False):
    r = rng.random()
    if r < 0.30:
        return rng.choice(ALL_KEYWORDS)
    if r < 0.36:
        k = rng.choice(ALL_KEYWORDS)
        return rng.choice([k[:-1], k + 'S', k.lower(), k + rng.choice('XYZ'), k[:rng.randint(1, len(k))],
                           k + '.', k + '{', k + '.x', k + '{a b}', k + '. ', k + '{a'])
    if r < 0.62:
        return rng.choice(MARKERS)
    if r < 0.66:
        return rng.choice(INLINE_TAGS)
    if r < 0.72:
        return rng.choice(SAFE_ODD)
    if r < 0.74 and unsafe:
        return rng.choice(UNSAFE)
    if r < 0.80:
        return rng.choice(['1', '1.', '(a)', '2A', 'nn', '2_2', 'http://a.b/c', '#ref', '1.2.3', 'A-1'])
    if r < 0.84:
        return ' '
    return ''.join(rng.choice('abcdefg XYZ') for _ in range(rng.randint(1, 6)))


KEYWORD_TAILS = ['', ' ', '.', '{', '. text', '.text', '{x', '{x y}', '{x y} text', '.a', '.a text', '.a{b c} d', '.a.b', 'x', 'S foo',
                 ' - h', ' 1', ' 1 - h', '{', '{}', '{ }', '.', '..', '.{', '{{', '|', '\\', ' \\']


def keyword_lines(keywords, tails=KEYWORD_TAILS):
    """Every keyword followed by every tail, as (a) the only line, (b) a line after a paragraph, (c) a line after an
    indented block, (d) an indented line under a container keyword: the places where the grammar's bare-prefix guards
    (`!attachment_marker`, `!conclusions_marker`, `!body_marker` ...) and the rules they protect must agree."""
    out = []
    for k in keywords:
        for t in tails:
            line = k + t
            out.append(line + '\n')
            out.append('text\n' + line + '\n')
            out.append('PART 1\n  text\n' + line + '\nmore\n')
            out.append('PREFACE\n  ' + line + '\nBODY\n  ' + line + '\n  x\n')
    return out


def noise_line(rng, unsafe=False):
    n = rng.choice([0, 1, 1, 2, 2, 3, 4, 6, 9])
    toks = [noise_token(rng, unsafe) for _ in range(n)]
    sep = rng.choice(['', ' ', ' ', ' '])
    return sep.join(toks)


def noise_text(rng, max_lines=12, unsafe=False, max_indent=6, tabs=True):
    """Raw text: random indentation (spaces and tabs), keywords, markers, odd characters."""
    lines = []
    ind = 0
    for _ in range(rng.randint(0, max_lines)):
        r = rng.random()
        if r < 0.35:
            ind = min(max_indent * 2, ind + rng.choice([1, 2, 2, 2, 3, 4]))
        elif r < 0.65:
            ind = max(0, ind - rng.choice([1, 2, 2, 2, 4, 6]))
        line = noise_line(rng, unsafe)
        if rng.random() < 0.1:
            line = ''
        pre = ' ' * ind
        if tabs and rng.random() < 0.1:
            pre = '\t' * (ind // 2) + ' ' * (ind % 2)
        trail = rng.choice(['', '', '', ' ', '  ', '\t'])
        lines.append(pre + line + trail)
    return '\n'.join(lines) + rng.choice(['', '\n', '\n\n'])


def noise_marked(rng, max_lines=10):
    """Pre-parsed style text with arbitrary (also unbalanced) INDENT/DEDENT marker lines, for the
    rule-level tie where the parser sees marker text directly."""
    lines = []
    for _ in range(rng.randint(0, max_lines)):
        r = rng.random()
        if r < 0.2:
            lines.append('\x0e')
        elif r < 0.4:
            lines.append('\x0f')
        elif r < 0.45:
            lines.append('')
        else:
            lines.append(noise_line(rng))
    return '\n'.join(lines) + rng.choice(['', '\n'])


# ------------------------------------------------------------------ documented markup
class DocGen:
    """Documents over the documented vocabulary (README + grammar keywords)."""

    def __init__(self, rng, scripts=False, footnotes=True, max_depth=3, attrs_p=0.3, risky=False, corners=0.0, scatter=None):
        self.rng = rng
        self.w = Words(rng, scripts)
        self.footnotes = footnotes
        self.max_depth = max_depth
        self.attrs_p = attrs_p
        self.fn = 0
        # risky = also emit constructs known to violate some property on the unchanged tree
        self.risky = risky
        self.corners = corners
        # scatter = footnote blocks are not kept next to their reference: some come later (pending), some earlier
        # (promised: a container holding only FOOTNOTE blocks whose references follow)
        self.scatter = (footnotes and rng.random() < 0.3) if scatter is None else scatter
        self.pending = []
        self.promised = []

    def fn_block(self, ind, m):
        return ['  ' * ind + 'FOOTNOTE ' + m] + self.para_plain(ind + 1)

    def flush(self, ind):
        out = []
        for m in self.pending:
            out += self.fn_block(ind, m)
        self.pending = []
        return out

    def promise(self, ind):
        out = []
        for _ in range(self.rng.randint(1, 2)):
            self.fn += 1
            m = str(self.fn)
            self.promised.append(m)
            out += self.fn_block(ind, m)
        return out

    def words(self, n=None):
        return self.w.some(n)

    def inline(self, depth=0):
        rnd = self.rng
        r = rnd.random()
        if depth > 2 or r < 0.5:
            return self.words()
        k = rnd.choice(['b', 'i', 'u', 'sup', 'sub', 'ref', 'term', 'abbr', 'em', 'ins', 'del', 'def', 'inline', 'remark', 'img'])
        if k == 'img':
            return '{{IMG http://a/b%d.png %s}}' % (rnd.randint(0, 9), self.words())
        inner = self.inline(depth + 1)
        fmt = {'b': '**%s**', 'i': '//%s//', 'u': '__%s__', 'sup': '{{^%s}}', 'sub': '{{_%s}}',
               'ref': '{{>http://x.y/z %s}}', 'term': '{{term{refersTo #t} %s}}', 'abbr': '{{abbr{title T} %s}}',
               'em': '{{em %s}}', 'ins': '{{+%s}}', 'del': '{{-%s}}', 'def': '{{def %s}}',
               'inline': '{{inline{name foo} %s}}', 'remark': '{{*%s}}'}[k]
        if k in ('term', 'abbr', 'inline', 'em') and rnd.random() < 0.12:
            fmt = '{{%s{} %%s}}' % k     # an attribute list that is present but empty
        return fmt % inner

    def text(self):
        return ' '.join(self.inline() for _ in range(self.rng.randint(1, 3)))

    def attrs(self):
        if self.rng.random() >= self.attrs_p:
            return ''
        if self.rng.random() < 0.15:
            # payload words as classes: a dotted class whose name is a prefix of the first explicit class
            a, b = self.w.one(), self.w.one()
            return '.%s{class %s00 %s}' % (a, a, b) if self.rng.random() < 0.6 else '.%s.%s' % (a, b)
        return self.rng.choice(['.cls', '.a.b', '{status editorial}', '.c{refersTo #x}', '{class z}', '.col{class column-wide}', '.foo.b{class foo bar|refersTo #x}', '{}'])

    def corner(self, ind):
        """legal but unusual forms: bare keywords, empty elements, headings without nums, odd nums"""
        rnd = self.rng
        p = '  ' * ind
        k = rnd.choice(['xh', 'xh', 'lt', 'hier-empty', 'hier-dash', 'hier-numonly', 'item-bare', 'bullets-bare', 'tc-empty',
                        'sub-only', 'p-attr', 'num-odd', 'same-num', 'blocks', 'quote', 'fn-unref', 'fn-dup', 'fn-missing'])
        if k == 'xh':
            return [p + 'CROSSHEADING']
        if k == 'lt':
            return [p + 'LONGTITLE']
        if k == 'hier-empty':
            return [p + rnd.choice(HIER)]
        if k == 'hier-dash':
            return [p + rnd.choice(HIER) + rnd.choice([' -', ' - ' + self.words(2), ' 1 -', ' - '])]
        if k == 'hier-numonly':
            return [p + rnd.choice(HIER) + ' ' + self.num(), p + '  ' + self.words()]
        if k == 'item-bare':
            return [p + 'ITEMS', p + '  ITEM', p + '    SUBHEADING ' + self.words(2), p + '    ' + self.words(), p + '  ITEM', p + '  ITEM - ' + self.words(1)]
        if k == 'bullets-bare':
            return [p + 'BULLETS', p + '  *', p + '  * ' + self.words(), p + '  ' + self.words(1), p + '  *' + self.words(1)]
        if k == 'tc-empty':
            return [p + 'TABLE', p + '  TR', p + '    TC', p + '    TH', p + '      ' + self.words()]
        if k == 'sub-only':
            return [p + rnd.choice(HIER) + ' ' + self.num(), p + '  SUBHEADING ' + self.words(2)]
        if k == 'p-attr':
            return [p + 'P{class a|style b}.c ' + self.words()]
        if k == 'num-odd':
            return [p + rnd.choice(['PARA', 'SEC', 'PART', 'ITEMS\n' + p + '  ITEM']) + ' ' + rnd.choice(['(—)', '...', '(A)', '(a)', 'nn', '2_2', '1.', '1', '(-)', '“2.3“', '3a bis', '§ 5'])]
        if k == 'same-num':
            kw = rnd.choice(['PARA', 'SEC', 'SUBSEC', 'LIST'])
            n = rnd.choice(['1.', '(a)', '1'])
            return [p + kw + ' ' + n, p + '  ' + self.words(1), p + kw + ' ' + rnd.choice([n, n.upper(), n]), p + '  ' + self.words(1), p + rnd.choice(['BLOCKLIST', kw])] + ([p + '  ITEM 1', p + '    x'] if rnd.random() < 0.5 else [])
        if k == 'blocks':
            return [p + 'BLOCKS', p + '  ' + self.words(), p + '  BLOCKS', p + '    ' + self.words()]
        if k == 'quote':
            return [p + 'QUOTE', p + '  ' + self.words()]
        if k == 'fn-unref':
            return ([p + self.words(), p + 'FOOTNOTE 9' + str(rnd.randint(0, 9))] + [p + '  ' + self.words() for _ in range(rnd.randint(1, 3))]
                    + ([p + '  BULLETS', p + '    * ' + self.words()] if rnd.random() < 0.3 else []))
        if k == 'fn-dup':
            return [p + 'FOOTNOTE 1', p + '  ' + self.words(1), p + self.words(1) + '{{FOOTNOTE 1}}' + rnd.choice(['', ' and {{FOOTNOTE 1}}']), p + 'FOOTNOTE 1', p + '  ' + self.words(1)]
        return [p + self.words() + '{{FOOTNOTE x}}']

    def para(self, ind):
        rnd = self.rng
        p = '  ' * ind
        if self.corners and rnd.random() < self.corners:
            return self.corner(ind)
        r = rnd.random()
        if r < 0.05:
            return self.para_multiline_remark(ind)
        if r < 0.12:
            return [p + 'P' + rnd.choice(['.x', '{class y}', '']) + ' ' + self.text()]
        if r < 0.24 and self.footnotes:
            if self.promised and rnd.random() < 0.6:
                return [p + self.text() + '{{FOOTNOTE %s}}' % self.promised.pop(0)]
            self.fn += 1
            m = str(self.fn)
            if rnd.random() < 0.15:
                # markers are free text up to the closing braces: quotes, brackets, symbols, other scripts
                m = rnd.choice(['"%s"', "%s'", '[%s]', '*%s', '%s)', '\u00a7%s', '\u05d0%s', '%s&<', '%s/x', 'a %s']) % m
            ref = [p + self.text() + '{{FOOTNOTE %s}}' % m]
            if self.scatter and rnd.random() < 0.6:
                self.pending.append(m)
                return ref
            blk = [p + 'FOOTNOTE ' + m] + self.para_plain(ind + 1)
            # the block may also come before the line that refers to it (it is looked up in the enclosing elements)
            return blk + ref if rnd.random() < 0.25 else ref + blk
        return [p + self.text()]

    def para_multiline_remark(self, ind):
        """an editorial remark spanning lines (each line break is a <br/>), possibly inside another inline; continuation lines
        start with text or with an inline, the closing braces may stand on a line of their own"""
        rnd = self.rng
        p = '  ' * ind
        lines = [self.words(1) + ' {{*' + self.words()]
        for _ in range(rnd.randint(1, 2)):
            k = rnd.random()
            lines.append(self.words() if k < 0.4 else rnd.choice(['**%s**', '//%s//', '{{>http://x.y/z %s}}', '{{^%s}}']) % self.words(1)
                         + (' ' + self.words(1) if rnd.random() < 0.5 else ''))
        if rnd.random() < 0.25:
            lines.append('}} ' + self.words(1))
        else:
            lines[-1] += '}} ' + self.words(1)
        if rnd.random() < 0.25:
            # the whole remark inside a superscript / subscript / bold
            o, c = rnd.choice([('{{^', '}}'), ('{{_', '}}'), ('**', '**')])
            lines[0] = lines[0].replace(' {{*', ' ' + o + self.words(1) + ' {{*', 1)
            lines[-1] = lines[-1].replace('}} ', '}}' + c + ' ', 1)
        return [p + l for l in lines]

    def para_plain(self, ind):
        return ['  ' * ind + self.text()]

    def block(self, ind, depth):
        if self.pending and self.rng.random() < 0.25:
            return self.flush(ind) + self.block1(ind, depth)
        return self.block1(ind, depth)

    def block1(self, ind, depth):
        rnd = self.rng
        p = '  ' * ind
        r = rnd.random()
        if depth > self.max_depth - 1 or r < 0.5:
            return self.para(ind)
        if r < 0.6:
            out = [p + rnd.choice(['ITEMS', 'BLOCKLIST']) + self.attrs()]
            if rnd.random() < 0.5:
                if self.footnotes and rnd.random() < 0.35:
                    self.fn += 1
                    out += [p + '  ' + self.text() + '{{FOOTNOTE %d}}' % self.fn, p + '  FOOTNOTE %d' % self.fn, p + '    ' + self.words()]
                else:
                    out.append(p + '  ' + self.text())
            for i in range(rnd.randint(1, 3)):
                out.append(p + '  ' + 'ITEM ' + rnd.choice(['(%s)' % chr(97 + i), '%d.' % i]) + (' - ' + self.text() if rnd.random() < 0.3 else ''))
                if rnd.random() < 0.3:
                    out.append(p + '    ' + 'SUBHEADING ' + self.text())
                for _ in range(rnd.randint(1, 2)):
                    out += self.block(ind + 2, depth + 1)
            if rnd.random() < 0.4:
                if self.footnotes and rnd.random() < 0.35:
                    self.fn += 1
                    out += [p + '  ' + self.text() + '{{FOOTNOTE %d}}' % self.fn, p + '  FOOTNOTE %d' % self.fn, p + '    ' + self.words()]
                else:
                    out.append(p + '  ' + self.text())
            return out
        if r < 0.7:
            out = [p + 'BULLETS' + self.attrs()]
            for i in range(rnd.randint(1, 3)):
                out.append(p + '  ' + '* ' + self.text())
                if rnd.random() < 0.3:
                    out += self.para_plain(ind + 2)
                elif rnd.random() < 0.15:
                    out += [p + '    BULLETS', p + '      * ' + self.text()]
                elif self.risky and rnd.random() < 0.2:
                    out += self.block(ind + 2, depth + 1)
            return out
        if r < 0.8:
            out = [p + 'TABLE' + self.attrs()]
            for i in range(rnd.randint(1, 2)):
                out.append(p + '  TR')
                for j in range(rnd.randint(1, 3)):
                    out.append(p + '    ' + rnd.choice(['TH', 'TC']) + rnd.choice(['', '', '{colspan 2}', '.c']))
                    for _ in range(rnd.randint(0, 2)):
                        out += self.block(ind + 3, depth + 1)
            return out
        if r < 0.87:
            out = [p + 'QUOTE' + rnd.choice(['', '{startQuote "}'])]
            for _ in range(rnd.randint(1, 2)):
                out += self.hier(ind + 1, depth + 1) if rnd.random() < 0.4 else self.block(ind + 1, depth + 1)
            return out
        if r < 0.94:
            out = [p + 'BLOCKS' + self.attrs()]
            for _ in range(rnd.randint(1, 3)):
                out += self.block(ind + 1, depth + 1)
            return out
        return self.para(ind)

    def num(self):
        rnd = self.rng
        return rnd.choice(['%d.' % rnd.randint(1, 99), '(%s)' % rnd.choice('abcxyz'), '%d(bis)' % rnd.randint(1, 9),
                           'A\\-1', '%d' % rnd.randint(1, 9), '%d.%d' % (rnd.randint(1, 9), rnd.randint(1, 9))])

    def hier(self, ind, depth):
        rnd = self.rng
        p = '  ' * ind
        head = rnd.choice(HIER) + self.attrs()
        if rnd.random() < 0.8:
            head += ' ' + self.num()
        if rnd.random() < 0.5:
            head += ' - ' + self.text()
        out = [p + head]
        if rnd.random() < 0.3:
            out.append(p + '  SUBHEADING ' + self.text())
        for _ in range(rnd.randint(0, 4)):
            r = rnd.random()
            if depth < self.max_depth and r < 0.45:
                out += self.hier(ind + 1, depth + 1)
            elif r < 0.55:
                out.append(p + '  CROSSHEADING' + self.attrs() + ' ' + self.text())
            else:
                out += self.block(ind + 1, depth)
        return out

    def bodyitems(self, ind):
        rnd = self.rng
        out = []
        for _ in range(rnd.randint(1, 4)):
            r = rnd.random()
            if r < 0.6:
                out += self.hier(ind, 0)
            elif r < 0.7:
                out.append('  ' * ind + 'CROSSHEADING ' + self.text())
            else:
                out += self.block(ind, 0)
        return out + self.flush(ind)

    def speech(self, ind, depth):
        rnd = self.rng
        p = '  ' * ind
        r = rnd.random()
        if depth < 2 and r < 0.3:
            head = rnd.choice(SPEECH_CONTAINERS) + self.attrs()
            if rnd.random() < 0.5:
                head += ' ' + self.num()
            if rnd.random() < 0.5:
                head += ' - ' + self.text()
            out = [p + head]
            if rnd.random() < 0.3:
                out.append(p + '  SUBHEADING ' + self.text())
            for _ in range(rnd.randint(1, 3)):
                out += self.speech(ind + 1, depth + 1)
            return out
        if depth < 3 and r < 0.6:
            head = rnd.choice(SPEECH_GROUPS) + rnd.choice(['', '', '{by #me}', '{by /ontology/person/%s}' % self.w.one()])
            if rnd.random() < 0.3:
                head += ' ' + self.num()
            out = [p + head, p + '  FROM ' + self.text()]
            for _ in range(rnd.randint(1, 3)):
                out += self.speech(ind + 1, depth + 2)
            return out
        if r < 0.75:
            return [p + rnd.choice(SPEECH_BLOCKS) + self.attrs() + ' ' + self.text()]
        if r < 0.85:
            return self.block(ind, 2) if rnd.random() < 0.5 else self.para(ind)
        return self.para(ind)

    def attachment(self, ind, depth):
        rnd = self.rng
        p = '  ' * ind
        out = [p + rnd.choice(ATTACH) + self.attrs() + (' ' + (self.inline(1) + ' ' if rnd.random() < 0.3 else '') + self.text() if rnd.random() < 0.7 else '')]
        if rnd.random() < 0.3:
            out.append(p + '  SUBHEADING ' + self.text())
        out += self.bodyitems(ind + 1)
        if depth < 2 and rnd.random() < 0.3:
            for _ in range(rnd.randint(1, 2)):
                out += self.attachment(ind + 1, depth + 1)
        return out

    def doc_lines(self, root):
        rnd = self.rng
        out = []
        if root == 'judgment':
            for part in ['INTRODUCTION', 'BACKGROUND', 'ARGUMENTS', 'REMEDIES', 'MOTIVATION', 'DECISION']:
                if rnd.random() < 0.5:
                    out.append(part)
                    out += self.bodyitems(1)
        elif root == 'debate':
            if rnd.random() < 0.3:
                out.append('PREFACE' + self.attrs())
                for _ in range(rnd.randint(1, 2)):
                    out += self.block(1, 1)
                out.append('BODY')
            ind = 1 if out else rnd.choice([0, 1])
            for _ in range(rnd.randint(1, 3)):
                head = rnd.choice(SPEECH_CONTAINERS) + self.attrs() + (' ' + self.num() if rnd.random() < 0.5 else '') + (' - ' + self.text() if rnd.random() < 0.5 else '')
                out.append('  ' * ind + head)
                for _ in range(rnd.randint(0, 3)):
                    out += self.speech(ind + 1, 1)
        else:
            if rnd.random() < 0.4:
                out.append('PREFACE' + self.attrs())
                if self.scatter and rnd.random() < 0.35:
                    out += self.promise(1)
                else:
                    if rnd.random() < 0.5 and root in ('act', 'bill'):
                        out.append('  LONGTITLE ' + self.text())
                    for _ in range(rnd.randint(1, 2)):
                        out += self.block(1, 1)
            if rnd.random() < 0.4:
                out.append('PREAMBLE')
                if self.scatter and rnd.random() < 0.35:
                    out += self.promise(1)
                else:
                    for _ in range(rnd.randint(1, 2)):
                        out += self.block(1, 1)
            if out:
                out.append('BODY')
                out += self.bodyitems(1)
            else:
                out += self.bodyitems(rnd.choice([0, 1]))
        if rnd.random() < 0.3 or (self.pending and rnd.random() < 0.5):
            out.append('CONCLUSIONS')
            if self.pending and rnd.random() < 0.6:
                out += self.flush(1)
            else:
                for _ in range(rnd.randint(1, 2)):
                    out += self.block(1, 1)
                out += self.flush(1)
        if rnd.random() < 0.4:
            for _ in range(rnd.randint(1, 3)):
                out += self.attachment(0, 0)
        return out

    def doc(self, root):
        lines = self.doc_lines(root)
        return ('\n\n' if self.rng.random() < 0.5 else '\n').join(lines) + '\n'


def doc_text(rng, root, **kw):
    return DocGen(rng, **kw).doc(root)


# ------------------------------------------------------------------ grammar-directed sentences
class GrammarGen:
    """Random sentences from the grammar read as a CFG (PEG predicates ignored), used to reach deep
    into each rule when it is used as a start symbol. `rules` is the normal form of tools/peggrammar."""

    ALPHABET = list('abcXYZ 019.-(){}|*/_\\') + ['\n', 'é', 'א', '\U0001F600', '\x0e', '\x0f']

    def __init__(self, rules, rng):
        self.rules = rules
        self.rng = rng
        self.min = {r: None for r in rules}
        changed = True
        while changed:
            changed = False
            for r, e in rules.items():
                m = self._min(e)
                if m is not None and (self.min[r] is None or len(m) < len(self.min[r])):
                    self.min[r] = m
                    changed = True

    def _cls_char(self, neg, chars, rng=None):
        if not neg:
            return (rng or self.rng).choice(chars) if chars else None
        cands = [c for c in self.ALPHABET if c not in chars]
        return (rng or self.rng).choice(cands) if rng or True else cands[0]

    def _min(self, e):
        k = e[0]
        if k == 'lit':
            return e[1]
        if k == 'class':
            if e[1]:
                for c in 'a ':
                    if c not in e[2]:
                        return c
                return 'z'
            return e[2][0] if e[2] else None
        if k == 'ref':
            return self.min.get(e[1])
        if k == 'seq':
            out = ''
            for _, x in e[1]:
                m = self._min(x)
                if m is None:
                    return None
                out += m
            return out
        if k == 'choice':
            ms = [m for m in (self._min(x) for x in e[1]) if m is not None]
            return min(ms, key=len) if ms else None
        if k in ('opt', 'star', 'not', 'and'):
            return ''
        if k == 'plus':
            return self._min(e[1])
        if k == 'type':
            return self._min(e[2])
        raise ValueError(k)

    def gen(self, e, depth):
        rng = self.rng
        k = e[0]
        if k == 'lit':
            return e[1]
        if k == 'class':
            if e[1]:
                cands = [c for c in self.ALPHABET if c not in e[2]]
                return rng.choice(cands)
            return rng.choice(e[2])
        if k == 'ref':
            if depth <= 0:
                return self.min.get(e[1]) or ''
            return self.gen(self.rules[e[1]], depth - 1)
        if k == 'seq':
            return ''.join(self.gen(x, depth) for _, x in e[1])
        if k == 'choice':
            return self.gen(rng.choice(e[1]), depth)
        if k == 'opt':
            return self.gen(e[1], depth) if rng.random() < 0.6 else ''
        if k == 'star':
            return ''.join(self.gen(e[1], depth - 1) for _ in range(rng.choice([0, 1, 1, 2, 3])))
        if k == 'plus':
            return ''.join(self.gen(e[1], depth - 1) for _ in range(rng.choice([1, 1, 2, 3, 5])))
        if k in ('not', 'and'):
            return ''
        if k == 'type':
            return self.gen(e[2], depth)
        raise ValueError(k)

    def sentence(self, rule, depth=8):
        return self.gen(['ref', rule], depth)


def mutate(rng, s):
    """Small random edit of a string (delete / insert / replace / duplicate a slice)."""
    if not s:
        return rng.choice(GrammarGen.ALPHABET)
    r = rng.random()
    i = rng.randrange(len(s))
    if r < 0.3:
        return s[:i] + s[i + 1:]
    if r < 0.6:
        return s[:i] + rng.choice(GrammarGen.ALPHABET + MARKERS) + s[i:]
    if r < 0.8:
        return s[:i] + rng.choice(GrammarGen.ALPHABET) + s[i + 1:]
    j = min(len(s), i + rng.randint(1, 8))
    return s[:j] + s[i:j] + s[j:]


# ------------------------------------------------------------------ pairwise nesting (deterministic)
def _ind(lines, n):
    return [('  ' * n + l) if l else l for l in lines]


# words marked ~ are payload: pairwise_docs(tokens=True) turns each into a distinct token w<N> (C03), otherwise the mark is dropped
PW_INLINES = ['**~b**', '//~i//', '__~u__', '{{^~sup}}', '{{_~sub}}', '{{>http://x.y/z ~ref}}', '{{>#sec_1 **~b**}}', '{{term{refersTo #t} ~term}}',
              '{{abbr{title T} ~abbr}}', '{{em ~em}}', '{{+~ins}}', '{{-~del}}', '{{def ~def}}', '{{inline{name foo} ~inl}}', '{{*~remark}}',
              '{{IMG http://a/b.png alt}}', '**~b** //~i//', '~a \\*\\* ~b', '{{em{class c} ~x}}',
              '**~a****~b**', '//~a////~b//', '__~a____~b__', '~see **~note*** ~and ~also **~this**']


def pw_inner_blocks():
    """named multi-line block-level constructs"""
    out = [('para', ['~plain ~words ~here']), ('para2', ['~first ~para', '~second ~para']),
           ('p-attr', ['P.cls{status editorial} ~with ~attrs']), ('p-bare', ['P ~just ~p']),
           ('items', ['ITEMS', '  ~intro ~line', '  ITEM (a)', '    ~item ~one', '  ITEM (b) - ~Head', '    SUBHEADING ~sub', '    ~item ~two', '  ~wrap ~line']),
           ('items-bare', ['ITEMS', '  ITEM', '  ITEM (b)']),
           ('bullets', ['BULLETS', '  * ~one', '  * ~two', '    ~more']),
           ('bullets-empty', ['BULLETS', '  *', '', '    ~under ~empty']),
           ('table', ['TABLE', '  TR', '    TH', '      ~head', '    TC{colspan 2}', '      ~cell']),
           ('quote', ['QUOTE', '  ~quoted ~para']), ('quote-hier', ['QUOTE{startQuote "}', '  SEC 9.', '    ~in ~quote']),
           ('blocks', ['BLOCKS', '  ~in ~blocks', '  ~again']),
           ('xh', ['CROSSHEADING ~cross ~heading']), ('xh-bare', ['CROSSHEADING']), ('lt', ['LONGTITLE ~long ~title']), ('lt-bare', ['LONGTITLE']),
           ('fn', ['~with ~note{{FOOTNOTE 7}}', 'FOOTNOTE 7', '  ~note ~text']), ('fn-before', ['FOOTNOTE 8', '  ~early ~note', '~refers{{FOOTNOTE 8}}']),
           ('fn-unref', ['FOOTNOTE 9', '  ~orphan ~note']), ('fn-unref3', ['FOOTNOTE 9', '  ~first ~block', '  ~second ~block', '  ITEMS', '    ITEM (a)', '      ~third']),
           ('fn-oddmarker', ['~odd{{FOOTNOTE "a"}} ~and{{FOOTNOTE it\'s}}{{FOOTNOTE *}}', 'FOOTNOTE "a"', '  ~quoted ~marker', 'FOOTNOTE it\'s', '  ~apostrophe', 'FOOTNOTE *', '  ~star']), ('fn-missing', ['~no ~block{{FOOTNOTE 6}}']),
           ('fn-nested', ['~outer{{FOOTNOTE 4}}', 'FOOTNOTE 4', '  ~inner{{FOOTNOTE 5}}', '  FOOTNOTE 5', '    ~deepest']),
           ('hier', ['SUBSEC (1) - ~Sub ~head', '  ~sub ~text']), ('hier-bare', ['PARA']), ('hier-sub', ['SEC 2.', '  SUBHEADING ~subhead', '  ~body ~text']),
           ('escaped', ['\\PART 1 \\- \\*\\*~x\\*\\*']), ('keywordish', ['PARTS ~of ~speech', 'SECTIONAL ~title', 'ITEMised']),
           ('odd-num', ['PARA (\u2014)', '  ~x', 'PARA nn', '  ~y', 'PARA 2_2', '  ~z'])]
    for i, inl in enumerate(PW_INLINES):
        out.append(('inl%d' % i, ['~text ' + inl + ' ~tail', inl, inl + inl]))
    return out


def pw_contexts():
    """named contexts: function(lines) -> (document lines, root)"""
    def top(b):
        return b, 'act'

    def hier(b):
        return ['SEC 1. - ~Heading'] + _ind(b, 1), 'act'

    def hier_attrs(b):
        return ['PART.a{refersTo #r} A - ~Part', '  CHAPTER I', '    SEC 1.'] + _ind(b, 3), 'bill'

    def item(b):
        return ['SEC 1.', '  ITEMS', '    ITEM (a)'] + _ind(b, 3), 'act'

    def bullet(b):
        return ['BULLETS', '  *'] + _ind(b, 2), 'doc'

    def cell(b):
        return ['TABLE', '  TR', '    TC'] + _ind(b, 3), 'statement'

    def quote(b):
        return ['SEC 1.', '  QUOTE'] + _ind(b, 2), 'act'

    def blocks(b):
        return ['BLOCKS{class k}'] + _ind(b, 1), 'doc'

    def footnote(b):
        return ['~holder{{FOOTNOTE 1}}', 'FOOTNOTE 1'] + _ind(b, 1), 'act'

    def attachment(b):
        return ['~body ~text', 'SCHEDULE ~Sched ~heading', '  SUBHEADING ~sched ~sub'] + _ind(b, 1) + ['  ANNEXURE ~inner ~annex'] + _ind(b, 2), 'act'

    def preface(b):
        return ['PREFACE'] + _ind(b, 1) + ['PREAMBLE'] + _ind(b, 1) + ['BODY', '  SEC 1.', '    ~x', 'CONCLUSIONS'] + _ind(b, 1), 'act'

    def judgment(b):
        return ['INTRODUCTION'] + _ind(b, 1) + ['DECISION'] + _ind(b, 1), 'judgment'

    def speech(b):
        return ['DEBATESECTION 1 - ~Debate', '  SPEECH', '    FROM ~The ~Speaker'] + _ind(b, 2) + ['  QUESTION{by #q}', '    FROM ~Mr ~Q'] + _ind(b, 2), 'debate'

    def speech_attrs(b):
        return ['DEBATESECTION.opening{refersTo #p} 1 - ~Debate', '  PRAYERS{}', '    SPEECHGROUP.g', '      FROM ~Chair', '      SPEECH{by #me}.s', '        FROM ~A ~Member'] + _ind(b, 4), 'debate'

    def report(b):
        return ['SEC 1.'] + _ind(b, 1), 'debateReport'
    return [('top', top), ('hier', hier), ('hier-attrs', hier_attrs), ('item', item), ('bullet', bullet), ('cell', cell), ('quote', quote),
            ('blocks', blocks), ('footnote', footnote), ('attachment', attachment), ('preface', preface), ('judgment', judgment),
            ('speech', speech), ('speech-attrs', speech_attrs), ('report', report)]


def _pw_finish(t, tokens):
    if not tokens:
        return t.replace('~', '')
    n = [0]

    def rep(m):
        n[0] += 1
        return 'w%d' % n[0]
    return re.sub(r'~\w+', rep, t)


def pairwise_docs(tokens=False):
    """every context x every inner block construct, plus every inline form in every one-line position; deterministic.
    A construct used twice in one document (preface/preamble/conclusions, attachment and nested attachment, two speeches)
    gets distinct tokens each time."""
    out = []
    for cn, cf in pw_contexts():
        for bn, b in pw_inner_blocks():
            lines, root = cf(b)
            out.append(('%s/%s' % (cn, bn), _pw_finish('\n'.join(lines) + '\n', tokens), root))
    for i, inl in enumerate(PW_INLINES):
        for pn, tmpl in [('heading', 'SEC 1. - ~H %s ~end\n  ~x\n'), ('subheading', 'SEC 1.\n  SUBHEADING ~S %s\n  ~x\n'),
                         ('crossheading', 'CROSSHEADING ~C %s\nSEC 1.\n  ~x\n'), ('longtitle', 'PREFACE\n  LONGTITLE ~L %s\nBODY\n  ~x\n'),
                         ('listintro', 'ITEMS\n  ~intro %s\n  ITEM (a)\n    ~x\n  ~wrap %s\n'), ('itemhead', 'ITEMS\n  ITEM (a) - %s\n    ~x\n'),
                         ('bulletline', 'BULLETS\n  * ~b %s\n'), ('atthead', '~x\nSCHEDULE ~S %s\n  SUBHEADING %s\n  ~y\n'),
                         ('from', 'DEBATESECTION\n  SPEECH\n    FROM %s\n    ~x\n'), ('scene', 'DEBATESECTION\n  SCENE %s\n'),
                         ('fninline', '~x{{FOOTNOTE 1}}\nFOOTNOTE 1\n  ~n %s\n'), ('nestedinline', '~p {{em ~a %s ~b}} **~c %s ~d**\n')]:
            t = tmpl.replace('%s', inl)
            root = 'debate' if pn in ('from', 'scene') else 'act'
            out.append(('%s/inl%d' % (pn, i), _pw_finish(t, tokens), root))
    # a footnote reference 0-3 inline levels deep in every one-line position, its block where the position's element takes it
    for d, wrap in enumerate(['%s', '**%s**', '**//%s//**', '{{^**%s**}}', '{{em __//%s//__}}']):
        ref = wrap % '~w{{FOOTNOTE 1}}'
        for pn, tmpl in [('para', '~p %s ~q\nFOOTNOTE 1\n  ~note\n'), ('heading', 'SEC 1. - ~H %s ~end\n  FOOTNOTE 1\n    ~note\n  ~x\n'),
                         ('subheading', 'SEC 1.\n  SUBHEADING ~S %s\n  FOOTNOTE 1\n    ~note\n  ~x\n'),
                         ('crossheading', 'CROSSHEADING ~C %s\nFOOTNOTE 1\n  ~note\nSEC 1.\n  ~x\n'),
                         ('listintro', 'ITEMS\n  ~intro %s\n  FOOTNOTE 1\n    ~note\n  ITEM (a)\n    ~x\n'),
                         ('itemhead', 'ITEMS\n  ITEM (a) - %s\n    FOOTNOTE 1\n      ~note\n    ~x\n'),
                         ('bulletline', 'BULLETS\n  * ~b %s\n    FOOTNOTE 1\n      ~note\n'),
                         ('atthead', '~x\nSCHEDULE ~S %s\n  FOOTNOTE 1\n    ~note\n  ~y\n'),
                         ('attsub', '~x\nSCHEDULE ~S\n  SUBHEADING %s\n  FOOTNOTE 1\n    ~note\n  ~y\n'),
                         ('cell', 'TABLE\n  TR\n    TC\n      ~c %s\n      FOOTNOTE 1\n        ~note\n'),
                         ('listwrap', 'ITEMS\n  ITEM (a)\n    ~x\n  ~wrap %s\n  FOOTNOTE 1\n    ~note\n'),
                         ('longtitle', 'PREFACE\n  LONGTITLE ~L %s\n  FOOTNOTE 1\n    ~note\nBODY\n  ~x\n'),
                         ('scene', 'DEBATESECTION\n  SCENE ~s %s\n  FOOTNOTE 1\n    ~note\n'),
                         ('narrative', 'DEBATESECTION\n  SPEECH\n    FROM ~a\n    NARRATIVE ~n %s\n    FOOTNOTE 1\n      ~note\n'),
                         ('summary', 'DEBATESECTION\n  SUMMARY ~s %s\n  FOOTNOTE 1\n    ~note\n')]:
            out.append(('%s/fn-depth%d' % (pn, d), _pw_finish(tmpl.replace('%s', ref), tokens), 'debate' if pn in ('scene', 'narrative', 'summary') else 'act'))
    # a judgment container written with its marker and nothing in it, before / after a container with content
    JM = ['INTRODUCTION', 'BACKGROUND', 'ARGUMENTS', 'REMEDIES', 'MOTIVATION', 'DECISION']
    for i, m in enumerate(JM):
        other = JM[(i + 1) % len(JM)] if i + 1 < len(JM) else None
        if other:
            out.append(('judgment/empty-%s-first' % m.lower(), _pw_finish('%s\n%s\n  ~x\n' % (m, other), tokens), 'judgment'))
        if i > 0:
            out.append(('judgment/empty-%s-last' % m.lower(), _pw_finish('%s\n  ~x\n%s\n' % (JM[i - 1], m), tokens), 'judgment'))
    # a remark that spans two lines, in every position that holds inline content (the continuation line at the line's own indentation)
    for pn, tmpl, root in [('para', '~p {{*~a\n~b}} ~q\n', 'act'), ('hierpara', 'SEC 1.\n  ~p {{*~a\n  ~b}} ~q\n', 'act'),
                           ('heading', 'PART 1\n  SEC 1. - ~H {{*~a\n  ~b}}\n    ~x\n', 'act'), ('subheading', 'SEC 1.\n  SUBHEADING ~S {{*~a\n  ~b}}\n  ~x\n', 'act'),
                           ('crossheading', 'PART 1\n  CROSSHEADING ~C {{*~a\n  ~b}}\n  SEC 1.\n    ~x\n', 'act'),
                           ('listintro', 'ITEMS\n  ~intro {{*~a\n  ~b}}\n  ITEM (a)\n    ~x\n', 'act'), ('listwrap', 'ITEMS\n  ITEM (a)\n    ~x\n  ~wrap {{*~a\n  ~b}}\n', 'act'),
                           ('itempara', 'ITEMS\n  ITEM (a)\n    ~x {{*~a\n    ~b}}\n', 'act'), ('bullet2', 'BULLETS\n  * ~one\n    ~two {{*~a\n    ~b}} ~c\n', 'act'),
                           ('cell', 'TABLE\n  TR\n    TC\n      ~c {{*~a\n      ~b}}\n', 'act'), ('quote', 'QUOTE\n  ~q {{*~a\n  ~b}}\n', 'act'),
                           ('footnote', '~x{{FOOTNOTE 1}}\nFOOTNOTE 1\n  ~n {{*~a\n  ~b}}\n', 'act'), ('attpara', '~x\nSCHEDULE ~S\n  ~y {{*~a\n  ~b}}\n', 'act'),
                           ('from', 'DEBATESECTION\n  SPEECH\n    FROM ~who {{*~a\n    ~b}}\n    ~x\n', 'debate'), ('scene', 'DEBATESECTION\n  SCENE ~s {{*~a\n  ~b}}\n', 'debate'),
                           ('speechpara', 'DEBATESECTION\n  SPEECH\n    FROM ~who\n    ~x {{*~a\n    ~b}}\n', 'debate'),
                           ('nested', 'SEC 1.\n  ~p **{{^{{*~a\n  ~b}}}}** ~q\n', 'act')]:
        out.append(('%s/remark2' % pn, _pw_finish(tmpl, tokens), root))
    return out


def fn_nest_docs():
    """FOOTNOTE blocks nested in FOOTNOTE blocks (depth 2 and 3) with a reference inside the innermost block whose marker is that of
    an enclosing block, of its own block, of a sibling block or of none; the enclosing block claimed by an earlier reference, by a
    later one, or by nobody; in a section, at top level, in a list item and in a table cell. Deterministic."""
    out = []
    ctxs = [('top', [], 0), ('sec', ['SEC 1. - ~H'], 1), ('item', ['ITEMS', '  ITEM (a)'], 2), ('cell', ['TABLE', '  TR', '    TC'], 3)]
    for cn, head, ind in ctxs:
        p = '  ' * ind
        for depth in (2, 3):
            marks = ['1', '2', '3'][:depth]
            for target in marks + ['9']:
                for claim in ('none', 'before', 'after'):
                    lines = list(head)
                    lines.append(p + '~a' + ('{{FOOTNOTE 1}}' if claim == 'before' else ''))
                    for d, m in enumerate(marks):
                        q = p + '  ' * d
                        lines += [q + 'FOOTNOTE ' + m, q + '  ~n' + m]
                    q = p + '  ' * depth
                    lines[-1] = q + '~in{{FOOTNOTE %s}} ~again' % target
                    if claim == 'after':
                        lines.append(p + '~z{{FOOTNOTE 1}}')
                    out.append(('fn-nest/%s-d%d-t%s-%s' % (cn, depth, target, claim), '\n'.join(lines).replace('~', '') + '\n', 'act'))
    return out
