"""Client for the Lean model driver (line protocol: one JSON request per line, one response per line)."""
import json, os, subprocess, threading

VERIF = os.path.dirname(os.path.dirname(os.path.abspath(__file__)))
LEAN_DIR = os.path.join(VERIF, 'lean')
DRV = os.path.join(LEAN_DIR, '.lake', 'build', 'bin', 'drv')


class DriverError(Exception):
    pass


class Driver:
    """Runs requests through the compiled model driver. `batch` pipelines many requests through one
    process (writer thread + reader) so 10^5 requests cost seconds."""

    def __init__(self, exe=DRV):
        self.exe = exe
        if not os.path.exists(exe):
            raise DriverError(f'model driver not built: {exe}')

    def batch(self, reqs, timeout=3600):
        reqs = list(reqs)
        if not reqs:
            return []
        data = ''.join(json.dumps(r, ensure_ascii=True) + '\n' for r in reqs)
        p = subprocess.run([self.exe], input=data.encode('ascii'), stdout=subprocess.PIPE, stderr=subprocess.PIPE, timeout=timeout)
        lines = p.stdout.decode('utf-8').split('\n')
        if lines and lines[-1] == '':
            lines.pop()
        if p.returncode != 0 or len(lines) != len(reqs):
            raise DriverError(f'driver exit {p.returncode}, {len(lines)} responses for {len(reqs)} requests; stderr: {p.stderr.decode()[:500]}')
        return [json.loads(l) for l in lines]

    def call(self, req):
        """One request through a persistent driver process (started on first use)."""
        p = getattr(self, '_proc', None)
        if p is None or p.poll() is not None:
            p = self._proc = subprocess.Popen([self.exe], stdin=subprocess.PIPE, stdout=subprocess.PIPE, stderr=subprocess.DEVNULL)
        p.stdin.write((json.dumps(req, ensure_ascii=True) + '\n').encode('ascii'))
        p.stdin.flush()
        line = p.stdout.readline()
        if not line:
            raise DriverError('driver closed its output')
        return json.loads(line.decode('utf-8'))

    def close(self):
        p = getattr(self, '_proc', None)
        if p is not None and p.poll() is None:
            try:
                p.stdin.close()
                p.wait(timeout=5)
            except Exception:
                p.kill()
        self._proc = None

    def __del__(self):
        try:
            self.close()
        except Exception:
            pass

    def batch_parallel(self, reqs, jobs=8, timeout=3600):
        reqs = list(reqs)
        if len(reqs) < 64 or jobs <= 1:
            return self.batch(reqs, timeout)
        n = len(reqs)
        size = (n + jobs - 1) // jobs
        chunks = [reqs[i:i + size] for i in range(0, n, size)]
        out = [None] * len(chunks)
        errs = []

        def work(i):
            try:
                out[i] = self.batch(chunks[i], timeout)
            except Exception as ex:  # noqa
                errs.append(ex)
        ts = [threading.Thread(target=work, args=(i,)) for i in range(len(chunks))]
        for t in ts:
            t.start()
        for t in ts:
            t.join()
        if errs:
            raise errs[0]
        return [r for c in out for r in c]
