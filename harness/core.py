"""Shared machinery of ./check: build + audit of the Lean development, evidence, replay files,
known findings, verdicts. Python 3 standard library only."""
import os, sys, json, time, fcntl, subprocess, hashlib, random, re, glob, traceback

VERIF = os.path.dirname(os.path.dirname(os.path.abspath(__file__)))
LEAN_DIR = os.path.join(VERIF, 'lean')
WORK = os.path.join(VERIF, '.work')
ALLOWED_AXIOMS = {'propext', 'Classical.choice', 'Quot.sound'}
FORBIDDEN_RE = re.compile(r'\bsorry\b|\badmit\b|^\s*axiom\s|native_decide|bv_decide|implemented_by|\bunsafe\s|maxHeartbeats\s+0\b', re.M)

TRUSTED_BASE = [
    "Lean 4.33.0 kernel; axioms propext, Classical.choice, Quot.sound only (audited with #print axioms on every run)",
    "translators /verif/tools (T1 akn.peg reader, T2 akn.py decompiler, T3 table readers): trusted to read the source faithfully",
    "correspondence harness /verif/harness (stage runners, canonicalisers, differ)",
    "hand-written Lean models of parser.py, types.py, xml.py, akn_text.xsl, cli.py: tied to the code by behaviour, not by construction",
    "CPython str/re/json, lxml/libxml2/libxslt, cobalt: parameters with assumed behaviour, exercised by the tie",
]


class Ctx:
    def __init__(self, pid, tier, seed, repo):
        self.pid = pid
        self.tier = tier
        self.seed = seed
        self.repo = repo
        self.rng = random.Random((seed * 1000003) ^ int(hashlib.sha256(pid.encode()).hexdigest()[:8], 16))
        self.t0 = time.time()
        self.work = os.path.join(WORK, f'{pid}-{os.getpid()}')
        os.makedirs(self.work, exist_ok=True)
        self.obligations = []   # dicts {name, kind, ok, detail}
        self.notes = []

    def budget(self, quick, thorough):
        return thorough if self.tier == 'thorough' else quick

    def oblige(self, name, kind, ok, detail=''):
        self.obligations.append({'name': name, 'kind': kind, 'ok': bool(ok), 'detail': detail})
        return ok

    def elapsed(self):
        return time.time() - self.t0


def sh(cmd, cwd=None, timeout=3600, env=None):
    p = subprocess.run(cmd, cwd=cwd, stdout=subprocess.PIPE, stderr=subprocess.STDOUT, timeout=timeout, env=env)
    return p.returncode, p.stdout.decode('utf-8', 'replace')


class BuildLock:
    def __enter__(self):
        os.makedirs(WORK, exist_ok=True)
        self.f = open(os.path.join(WORK, 'build.lock'), 'w')
        fcntl.flock(self.f, fcntl.LOCK_EX)
        return self

    def __exit__(self, *a):
        fcntl.flock(self.f, fcntl.LOCK_UN)
        self.f.close()


def translate(ctx):
    """Regenerate Gen/*.lean from ctx.repo. Returns status dict (errors recorded, never raises)."""
    rc, out = sh(['/venv/bin/python', os.path.join(VERIF, 'tools', 'translate.py'), '--repo', ctx.repo], timeout=600)
    try:
        status = json.load(open(os.path.join(LEAN_DIR, 'Bluebell', 'Gen', 'status.json')))
    except Exception:
        status = {'errors': {'translate': out[-2000:]}}
    if rc != 0:
        status.setdefault('errors', {})['translate'] = out[-2000:]
    return status


def lake_build(targets, timeout=3000):
    rc, out = sh(['lake', 'build'] + list(targets), cwd=LEAN_DIR, timeout=timeout)
    return rc, out


_ERR_RE = re.compile(r'^error: ([^:\n]+\.lean):(\d+):(\d+): (.*)$', re.M)


def failing_decls(build_output):
    """Map `error: file:line:col: msg` lines of a lake build to the enclosing theorem/def name."""
    out = []
    for m in _ERR_RE.finditer(build_output):
        f, ln, _, msg = m.group(1), int(m.group(2)), m.group(3), m.group(4)
        path = f if os.path.isabs(f) else os.path.join(LEAN_DIR, f)
        name = None
        try:
            lines = open(path, encoding='utf-8').read().split('\n')
            for i in range(min(ln, len(lines)) - 1, -1, -1):
                mm = re.match(r'\s*(?:@\[[^\]]*\]\s*)?(?:private\s+|protected\s+)?(theorem|lemma|def|example|instance|abbrev)\s+([^\s:({\[]+)?', lines[i])
                if mm:
                    name = mm.group(2) or mm.group(1)
                    break
        except Exception:
            pass
        out.append({'file': os.path.relpath(path, LEAN_DIR), 'line': ln, 'decl': name, 'msg': msg[:300]})
    return out


def strip_comments(src):
    # remove nested block comments and line comments
    out = []
    i = 0
    depth = 0
    n = len(src)
    while i < n:
        if src.startswith('/-', i):
            depth += 1
            i += 2
        elif depth and src.startswith('-/', i):
            depth -= 1
            i += 2
        elif depth:
            i += 1
        elif src.startswith('--', i):
            while i < n and src[i] != '\n':
                i += 1
        elif src[i] == '"':
            j = i + 1
            while j < n and src[j] != '"':
                j += 2 if src[j] == '\\' else 1
            out.append('""')
            i = j + 1
        else:
            out.append(src[i])
            i += 1
    return ''.join(out)


def source_scan():
    """grep for sorry/admit/axiom/native_decide/... over the Lean sources (comments and strings stripped)."""
    hits = []
    for path in glob.glob(os.path.join(LEAN_DIR, '**', '*.lean'), recursive=True):
        if os.sep + '.lake' + os.sep in path:
            continue
        if os.sep + 'Gen' + os.sep in path:
            continue
        s = strip_comments(open(path, encoding='utf-8').read())
        for m in FORBIDDEN_RE.finditer(s):
            hits.append(f'{os.path.relpath(path, LEAN_DIR)}: {m.group(0).strip()}')
    return hits


def audit(ctx, module, theorems):
    """#print axioms for each theorem; returns {theorem: [axioms] | None(error)}."""
    path = os.path.join(ctx.work, 'Audit.lean')
    with open(path, 'w') as f:
        f.write(f'import {module}\n')
        for t in theorems:
            f.write(f'#print axioms {t}\n')
    rc, out = sh(['lake', 'env', 'lean', path], cwd=LEAN_DIR, timeout=1200)
    res = {t: None for t in theorems}
    for m in re.finditer(r"'([^']+)' depends on axioms: \[([^\]]*)\]", out):
        res[m.group(1)] = [a.strip() for a in m.group(2).replace('\n', ' ').split(',') if a.strip()]
    for m in re.finditer(r"'([^']+)' does not depend on any axioms", out):
        res[m.group(1)] = []
    return res, out


def prepare(ctx, module, theorems, need_driver=True, extra_targets=()):
    """translate + build + audit. Records obligations on ctx; returns dict describing what is usable."""
    info = {'driver': False, 'module': False, 'translate': None, 'build_errors': [], 'audit': {}}
    with BuildLock():
        st = translate(ctx)
        info['translate'] = st
        for k, v in (st.get('errors') or {}).items():
            ctx.oblige(f'translator {k}', 'translate', False, json.dumps(v)[:1500])
        if need_driver:
            rc, out = lake_build(['drv'])
            info['driver'] = (rc == 0)
            if rc != 0:
                info['build_errors'] += failing_decls(out)
                info['driver_log'] = out[-3000:]
        rc, out = lake_build([module] + list(extra_targets))
        info['module'] = (rc == 0)
        if rc != 0:
            errs = failing_decls(out)
            info['build_errors'] += errs
            info['module_log'] = out[-3000:]
        if info['module']:
            res, raw = audit(ctx, module, theorems)
            info['audit'] = res
            if ctx.tier == 'thorough':
                # independent re-check of the compiled module by the toolchain's external checker
                rc2, out2 = sh(['lake', 'env', 'leanchecker', module], cwd=LEAN_DIR, timeout=3000)
                ctx.oblige(f'leanchecker {module}', 'audit', rc2 == 0, out2[-600:])
    failed = {e['decl'] for e in info['build_errors'] if e.get('decl')}
    for t in theorems:
        short = t.split('.')[-1]
        if not info['module']:
            ok = False
            if failed and short not in failed and not any(e['file'].endswith(module.replace('.', '/') + '.lean') is False for e in info['build_errors']):
                detail = 'module failed to build (another declaration is broken)'
            else:
                detail = 'build failed: ' + '; '.join(f"{e['file']}:{e['line']} {e['decl']}: {e['msg']}" for e in info['build_errors'][:3])
            ctx.oblige(t, 'theorem', ok, detail)
        else:
            ax = info['audit'].get(t)
            if ax is None:
                ctx.oblige(t, 'theorem', False, 'theorem not found by #print axioms')
            else:
                bad = [a for a in ax if a not in ALLOWED_AXIOMS]
                ctx.oblige(t, 'theorem', not bad, ('axioms: ' + ', '.join(ax)) if ax else 'no axioms')
    hits = source_scan()
    ctx.oblige('source scan (sorry/admit/axiom/native_decide/bv_decide/implemented_by/unsafe/maxHeartbeats 0)', 'audit', not hits, '; '.join(hits[:5]))
    return info


# ----------------------------------------------------------------------------- findings / verdict
def load_known():
    try:
        return json.load(open(os.path.join(VERIF, 'known_findings.json')))
    except FileNotFoundError:
        return {'findings': []}


def write_replay(ctx, payload):
    os.makedirs(os.path.join(VERIF, 'replays'), exist_ok=True)
    body = json.dumps(payload, sort_keys=True, ensure_ascii=True, indent=1)
    h = hashlib.sha256(body.encode()).hexdigest()[:12]
    path = os.path.join(VERIF, 'replays', f'{ctx.pid}-{h}.json')
    with open(path, 'w') as f:
        f.write(body)
    return os.path.relpath(path, VERIF)


def write_evidence(ctx, coverage, violations, assumptions=None, level='proof'):
    os.makedirs(os.path.join(VERIF, 'evidence'), exist_ok=True)
    obl = ctx.obligations
    cov = dict(coverage)
    cov['obligations'] = len(obl)
    cov['discharged'] = sum(1 for o in obl if o['ok'])
    cov['obligation_list'] = obl
    cov.setdefault('checker_cmd', f'cd /verif/lean && lake build Bluebell.Props.{ctx.pid} && lake env lean <audit file with #print axioms>; then /verif/check {ctx.pid} tie + oracle stages')
    cov.setdefault('trusted_base', TRUSTED_BASE)
    ev = {
        'property_id': ctx.pid, 'tier': ctx.tier, 'seed': ctx.seed, 'level': level,
        'coverage': cov, 'assumptions': assumptions or [], 'wall_s': round(ctx.elapsed(), 2),
        'violations': violations,
    }
    path = os.path.join(VERIF, 'evidence', f'{ctx.pid}.json')
    tmp = path + f'.{os.getpid()}.tmp'
    with open(tmp, 'w') as f:
        json.dump(ev, f, indent=1, ensure_ascii=True, sort_keys=True)
    os.replace(tmp, path)
    return path


def cleanup(ctx):
    import shutil
    shutil.rmtree(ctx.work, ignore_errors=True)


def shrink_text(text, pred, max_calls=300):
    """Greedy shrink of a failing text: delete whole lines, then chunks of characters, while
    `pred(text)` stays true. Bounded number of predicate calls."""
    calls = [0]

    def ok(t):
        calls[0] += 1
        if calls[0] > max_calls:
            return False
        try:
            return bool(pred(t))
        except Exception:
            return False
    cur = text
    lines = cur.split('\n')
    n = len(lines)
    step = max(1, n // 2)
    while step >= 1 and calls[0] <= max_calls:
        i = 0
        changed = False
        while i < len(lines) and calls[0] <= max_calls:
            cand = lines[:i] + lines[i + step:]
            if cand != lines and ok('\n'.join(cand)):
                lines = cand
                changed = True
            else:
                i += step
        if not changed:
            step //= 2
    cur = '\n'.join(lines)
    step = max(1, len(cur) // 2)
    while step >= 1 and calls[0] <= max_calls:
        i = 0
        changed = False
        while i < len(cur) and calls[0] <= max_calls:
            cand = cur[:i] + cur[i + step:]
            if cand != cur and ok(cand):
                cur = cand
                changed = True
            else:
                i += step
        if not changed:
            step //= 2
    return cur
