"""AKN 3.0 schema validation of real outputs (cobalt's lenient XSD) with structured error records."""
import os, re

_xsd = None


def xsd():
    global _xsd
    if _xsd is None:
        import cobalt
        from lxml import etree
        _xsd = etree.XMLSchema(etree.parse(os.path.join(os.path.dirname(cobalt.__file__), 'xsd', 'akomantoso30-lenient.xsd')))
    return _xsd


def _ln(tag):
    return tag.split('}', 1)[-1] if isinstance(tag, str) else str(tag)


def errors(etree_root):
    """list of {'tag', 'parent', 'msg', 'kind'} for every schema error (empty = valid)"""
    from lxml import etree
    x = xsd()
    # validate a re-parsed copy so that line numbers / paths are available
    doc = etree.fromstring(etree.tostring(etree_root))
    if x.validate(doc):
        return []
    out = []
    for e in x.error_log:
        el = None
        try:
            found = doc.getroottree().xpath(e.path) if e.path else []
            el = found[0] if found else None
        except Exception:
            el = None
        tag = _ln(el.tag) if el is not None else None
        parent = _ln(el.getparent().tag) if el is not None and el.getparent() is not None else None
        msg = re.sub(r'\{[^}]*\}', '', e.message)
        kind = ('unexpected-element' if 'This element is not expected' in msg else
                'missing-child' if 'Missing child element' in msg else
                'bad-attr-value' if 'is not a valid value' in msg else
                'bad-attr' if "attribute" in msg and 'not allowed' in msg else
                'not-allowed-text' if 'Character content' in msg else 'other')
        out.append({'tag': tag, 'parent': parent, 'msg': msg[:200], 'kind': kind})
    return out
