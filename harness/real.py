"""Stage runners for the real code. Import after `use_repo(path)`."""
import sys, os, json, importlib

_repo = None


def use_repo(path):
    """Make `import bluebell` resolve to the tree at `path` (the repository under test)."""
    global _repo
    path = os.path.abspath(path)
    if _repo == path:
        return
    if _repo is not None:
        raise RuntimeError('repo already selected')
    sys.path.insert(0, path)
    for m in list(sys.modules):
        if m == 'bluebell' or m.startswith('bluebell.'):
            del sys.modules[m]
    import bluebell  # noqa
    got = os.path.dirname(os.path.dirname(os.path.abspath(bluebell.__file__)))
    if os.path.realpath(got) != os.path.realpath(path):
        raise RuntimeError(f'bluebell imported from {got}, wanted {path}')
    _repo = path


def repo():
    return _repo


# ------------------------------------------------------------------ parse trees
def _labels(n):
    out = []
    for k, v in vars(n).items():
        if k in ('text', 'offset', 'elements'):
            continue
        idx = [i for i, e in enumerate(n.elements) if e is v]
        out.append((idx[0] if idx else -1, k))
    out.sort()
    return ' '.join(f'{k}={i}' for i, k in out)


def _types(n):
    ts = []
    c = type(n)
    while len(c.__bases__) == 2:
        ts.insert(0, c.__bases__[1].__name__)
        c = c.__bases__[0]
    return ts


def dump_tree(n):
    parts = []

    def go(n):
        parts.append('(%d %d [%s] [%s]' % (n.offset, n.offset + len(n.text), ' '.join(_types(n)), _labels(n)))
        for k in n.elements:
            parts.append(' ')
            go(k)
        parts.append(')')
    go(n)
    return ''.join(parts)


def parse_rule(rule, text):
    """Real `Parser(text)._read_<rule>()`: returns {'res': 'ok'|'fail', 'stop', 'tree'} or {'res': 'exc', ...}."""
    from bluebell.parser import Parser
    import bluebell.types as types
    from bluebell.akn import FAILURE
    p = Parser(text, actions=None, types=types)
    try:
        t = getattr(p, '_read_' + rule)()
    except RecursionError:
        return {'res': 'recursion'}
    except Exception as ex:  # noqa
        return {'res': 'exc', 'exc': type(ex).__name__, 'msg': str(ex)[:200]}
    if t is FAILURE:
        return {'res': 'fail'}
    return {'res': 'ok', 'stop': p._offset, 'tree': dump_tree(t)}
