"""Stage runners for the real code. Import after `use_repo(path)`."""
import sys, os, json, importlib

_repo = None


def use_repo(path):
    """Make `import bluebell` resolve to the tree at `path` (the repository under test)."""
    global _repo
    path = os.path.abspath(path)
    if _repo == path:
        return
    if _repo is not None:
        raise RuntimeError('repo already selected')
    sys.path.insert(0, path)
    for m in list(sys.modules):
        if m == 'bluebell' or m.startswith('bluebell.'):
            del sys.modules[m]
    import bluebell  # noqa
    got = os.path.dirname(os.path.dirname(os.path.abspath(bluebell.__file__)))
    if os.path.realpath(got) != os.path.realpath(path):
        raise RuntimeError(f'bluebell imported from {got}, wanted {path}')
    _repo = path


def repo():
    return _repo


# ------------------------------------------------------------------ parse trees
def _labels(n):
    out = []
    for k, v in vars(n).items():
        if k in ('text', 'offset', 'elements'):
            continue
        idx = [i for i, e in enumerate(n.elements) if e is v]
        out.append((idx[0] if idx else -1, k))
    out.sort()
    return ' '.join(f'{k}={i}' for i, k in out)


def _types(n):
    ts = []
    c = type(n)
    while len(c.__bases__) == 2:
        ts.insert(0, c.__bases__[1].__name__)
        c = c.__bases__[0]
    return ts


def dump_tree(n):
    parts = []

    def go(n):
        parts.append('(%d %d [%s] [%s]' % (n.offset, n.offset + len(n.text), ' '.join(_types(n)), _labels(n)))
        for k in n.elements:
            parts.append(' ')
            go(k)
        parts.append(')')
    go(n)
    return ''.join(parts)


def parse_rule(rule, text):
    """Real `Parser(text)._read_<rule>()`: returns {'res': 'ok'|'fail', 'stop', 'tree'} or {'res': 'exc', ...}."""
    from bluebell.parser import Parser
    import bluebell.types as types
    from bluebell.akn import FAILURE
    p = Parser(text, actions=None, types=types)
    try:
        t = getattr(p, '_read_' + rule)()
    except RecursionError:
        return {'res': 'recursion'}
    except Exception as ex:  # noqa
        return {'res': 'exc', 'exc': type(ex).__name__, 'msg': str(ex)[:200]}
    if t is FAILURE:
        return {'res': 'fail'}
    return {'res': 'ok', 'stop': p._offset, 'tree': dump_tree(t)}


# ------------------------------------------------------------------ conversion, canonical XML
DEFAULT_URI = '/akn/za/act/2009/10'


def localname(tag):
    return tag.split('}', 1)[-1] if isinstance(tag, str) else str(tag)


def canon(el, stub_meta=True):
    """Canonical JSON-able form of an element: [tag, {attr: value}, [children]], children being
    strings (text, adjacent pieces merged) or elements. `meta` blocks are replaced by a stub that
    keeps what bluebell itself controls: the work FRBRthis value and the title alias."""
    tag = localname(el.tag)
    if stub_meta and tag == 'meta':
        ns = el.nsmap.get(None)
        q = lambda p: el.find(p.replace('a:', '{%s}' % ns)) if ns else el.find(p.replace('a:', ''))
        this = q('a:identification/a:FRBRWork/a:FRBRthis')
        alias = q('a:identification/a:FRBRWork/a:FRBRalias')
        ethis = q('a:identification/a:FRBRExpression/a:FRBRthis')
        mthis = q('a:identification/a:FRBRManifestation/a:FRBRthis')
        return ['meta', {'this': this.get('value') if this is not None else '',
                         'alias': alias.get('value') if alias is not None else '',
                         'expr': ethis.get('value') if ethis is not None else '',
                         'manif': mthis.get('value') if mthis is not None else ''}, []]
    kids = []

    def add_text(t):
        if t:
            if kids and isinstance(kids[-1], str):
                kids[-1] += t
            else:
                kids.append(t)
    add_text(el.text)
    for k in el:
        if isinstance(k.tag, str):
            kids.append(canon(k, stub_meta))
        add_text(k.tail)
    return [tag, {localname(a): v for a, v in sorted(el.attrib.items())}, kids]


def make_parser(uri=DEFAULT_URI, prefix=''):
    from bluebell.parser import AkomaNtosoParser
    from cobalt import FrbrUri
    return AkomaNtosoParser(FrbrUri.parse(uri) if uri else None, prefix)


def classify_exc(ex):
    return {'exc': type(ex).__name__, 'msg': str(ex)[:300]}


def convert(text, root, prefix='', uri=DEFAULT_URI, parser=None):
    """Real parse_to_xml: {'xml': canonical} or {'exc': class, 'msg': ...}."""
    p = parser or make_parser(uri, prefix)
    try:
        x = p.parse_to_xml(text, root)
    except RecursionError:
        return {'exc': 'RecursionError', 'msg': ''}
    except Exception as ex:  # noqa
        return classify_exc(ex)
    return {'xml': canon(x), 'etree': x}


def convert_via_dict(text, root, prefix='', uri=DEFAULT_URI, parser=None):
    """The documented three-step path on one parser object: parse(), to_dict() serialised and reloaded, xml_from_dict()."""
    import json as _json
    p = parser or make_parser(uri, prefix)
    try:
        tree = p.parse(text, root)
        d = _json.loads(_json.dumps(tree.to_dict()))
        x = p.generator.xml_from_dict(d, getattr(tree, 'is_root', False))
    except RecursionError:
        return {'exc': 'RecursionError', 'msg': ''}
    except Exception as ex:  # noqa
        return classify_exc(ex)
    return {'xml': canon(x), 'etree': x}


def strip_etree(r):
    return {k: v for k, v in r.items() if k != 'etree'}


def to_dict(pre_text, root):
    """Real grammar parse of already pre-parsed text + to_dict(): {'res': 'ok', 'dict': ...} / fail / exc."""
    from bluebell.parser import Parser, ROOT_ALIASES
    import bluebell.types as types
    from bluebell.akn import FAILURE
    root = ROOT_ALIASES.get(root, root)
    p = Parser(pre_text, actions=None, types=types)
    try:
        t = getattr(p, '_read_' + root)()
    except RecursionError:
        return {'res': 'recursion'}
    if t is FAILURE:
        return {'res': 'fail'}
    if p._offset != p._input_size:
        return {'res': 'leftover', 'stop': p._offset}
    if not hasattr(t, 'to_dict'):
        return {'res': 'ok', 'kind': 'none'}
    try:
        return {'res': 'ok', 'kind': 'dict', 'dict': t.to_dict(), 'tree': t}
    except Exception as ex:  # noqa
        return {'res': 'exc', 'exc': type(ex).__name__, 'msg': str(ex)[:200]}


def uris_for(uri=DEFAULT_URI):
    """The FRBR URI strings the model takes as parameters (computed by cobalt)."""
    from cobalt import FrbrUri
    f = FrbrUri.parse(uri)
    b = f.clone()
    b.work_component = None
    return {'work': f.work_uri(), 'expr': f.expression_uri(), 'manif': f.manifestation_uri(),
            'workBase': b.work_uri(work_component=False) if _takes_wc(b) else b.work_uri(),
            'exprBase': b.expression_uri(work_component=False) if _takes_wc(b) else b.expression_uri(),
            'manifBase': b.manifestation_uri(work_component=False) if _takes_wc(b) else b.manifestation_uri()}


def _takes_wc(f):
    import inspect
    try:
        return 'work_component' in inspect.signature(f.work_uri).parameters
    except Exception:
        return False


def model_convert_req(text, root, prefix='', uri=DEFAULT_URI):
    return {'op': 'convert', 'text': text, 'root': root, 'prefix': prefix, 'uris': uris_for(uri)}


def unparse_tree(tree):
    """real unparse of a canonical tree: {'text', 'tree' (as left behind by the call)} or {'exc'}"""
    from . import eidlib
    from bluebell.parser import AkomaNtosoParser
    el = eidlib.to_etree(tree)
    try:
        text = AkomaNtosoParser(None).unparse(el)
    except Exception as ex:  # noqa
        return classify_exc(ex)
    return {'text': text, 'tree': canon(el, stub_meta=False)}


def full_canon(el):
    return canon(el, stub_meta=False)
