"""Shared end-to-end pieces: case generation, the convert tie, exception recognisers."""
import json, re
from . import real, gen, core

ATTACH_RE = re.compile(r'^(ATTACHMENT|APPENDIX|SCHEDULE|ANNEXURE)')
TEXT_OK = [(9, 10), (13, 13), (32, 55295), (57344, 65533), (65536, 1114111)]


def text_ok(ch):
    o = ord(ch)
    return any(a <= o <= b for a, b in TEXT_OK)


def gen_cases(rng, n, roots=gen.ROOTS6, noise=0.35, corners=0.3, unsafe=0.0, prefixes=('', '', 'att_1'), risky=True, scripts=False):
    out = []
    for _ in range(n):
        root = rng.choice(roots)
        k = rng.random()
        if k < noise:
            t = gen.noise_text(rng, unsafe=(rng.random() < unsafe))
        else:
            t = gen.doc_text(rng, root if root in gen.ROOTS7 else 'act', corners=corners, risky=risky, scripts=scripts)
            if rng.random() < 0.15:
                t = gen.mutate(rng, t)
        out.append((t, root, rng.choice(list(prefixes))))
    return out


def same_result(a, b):
    return a.get('xml') == b.get('xml') and a.get('exc') == b.get('exc')


def tie_convert(ctx, drv, cases, failures, label='tie convert: real parse_to_xml = model convert (tree or exception class)'):
    """Differential run of the whole pipeline. Returns the real results (without etree)."""
    reals = [real.strip_etree(real.convert(t, r, prefix=p)) for t, r, p in cases]
    if drv is None:
        return reals
    ms = drv.batch_parallel([real.model_convert_req(t, r, p) for t, r, p in cases], jobs=12)
    bad = []
    for (t, r, p), rl, m in zip(cases, reals, ms):
        if not same_result(rl, m):
            bad.append({'text': t, 'root': r, 'prefix': p, 'real': _short(rl), 'model': _short(m)})
    ctx.oblige(label, 'tie', not bad, f'{len(bad)} disagreements; first: {json.dumps(bad[0])[:800]}' if bad else f'{len(cases)} cases agree')
    for b in bad[:3]:
        failures.append({'kind': 'tie', 'summary': 'convert disagreement', 'case': b})
    return reals


def _short(r):
    if 'xml' in r:
        return {'xml': json.dumps(r['xml'])[:1500]}
    return r


# ---------------------------------------------------------------- recognisers for known C01 findings
def attachment_prefix_lines(text):
    """indices of lines that start with an attachment keyword but are not a well-formed attachment header"""
    from bluebell.parser import Parser
    import bluebell.types as types
    from bluebell.akn import FAILURE
    out = []
    for i, l in enumerate(text.split('\n')):
        # what the grammar sees of a line: indentation (blanks, tabs) and trailing blanks removed; other white space
        # (U+0085, U+00A0, ...) is only stripped at the two ends of the whole text
        s = l.strip(' \t')
        if ATTACH_RE.match(s):
            p = Parser(s + '\n', actions=None, types=types)
            try:
                r = p._read_attachment()
            except Exception:
                r = FAILURE
            if r is FAILURE:
                out.append(i)
    return out


def neutralise_attachment_prefixes(text):
    ls = text.split('\n')
    for i in attachment_prefix_lines(text):
        l = ls[i]
        k = len(l) - len(l.lstrip(' \t'))
        ls[i] = l[:k] + '\\' + l[k:]
    return '\n'.join(ls)


def strip_non_xml(text):
    return ''.join(c for c in text if text_ok(c))


def classify_c01(text, root, prefix, res):
    """finding id for a raising conversion, or None. Causal: the input is repaired for that finding
    class only and must then convert."""
    exc, msg = res.get('exc'), res.get('msg', '')
    text = text.strip()   # what pre_parse does first
    if exc == 'ParseError':
        bad = [c for c in text if not text_ok(c)]
        t2 = strip_non_xml(text) if bad else text
        if bad and 'xml' in real.convert(t2, root, prefix=prefix):
            return 'F2'
        t3 = neutralise_attachment_prefixes(t2)
        if t3 != t2 and 'xml' in real.convert(t3, root, prefix=prefix):
            return 'F1' if not bad else 'F2'
        return None
    if exc == 'ValueError':
        if 'All strings must be XML compatible' in msg and any(not text_ok(c) for c in text):
            t2 = strip_non_xml(text)
            r2 = real.convert(t2, root, prefix=prefix)
            if 'xml' in r2 or r2.get('msg') != msg:
                return 'F2'
        m = re.match(r"Invalid attribute name '?(.*?)'?$", msg)
        if m and '{' in text:
            return 'F3'
        if 'cannot append parent to itself' in msg and 'FOOTNOTE' in text:
            return 'F23'
        return None
    if exc == 'TypeError' and "multiple values for keyword argument 'tag'" in msg:
        return 'F22'
    return None
