"""Shared pieces for C07/C08/C09: tree generator, real/model runners for the eId rewriter."""
import copy, json
from . import real, gen

AKN = 'http://docs.oasis-open.org/legaldocml/ns/akn/3.0'
HIER_TAGS = [k.lower() for k in gen.HIER[:27]]
NUM_EXPECTED = set("alinea article book chapter clause division indent item level list paragraph part point proviso rule section subchapter subclause subdivision sublist subparagraph subpart subrule subsection subtitle title tome transitional".split())
PASS = "arguments background conclusions decision header intro introduction motivation preamble preface remedies wrapUp".split()
EXEMPT = ("akomaNtoso act amendment amendmentList bill debate debateReport doc documentCollection judgment officialGazette portion statement"
          " amendmentBody attachments body collectionBody components coverPage debateBody judgmentBody mainBody meta portionBody"
          " br tr td th num heading subheading content abbr b i u sub sup ins del inline img remark span").split()
OTHER = ['p', 'blockList', 'item', 'listIntroduction', 'listWrapUp', 'ul', 'li', 'table', 'hcontainer', 'crossHeading',
         'longTitle', 'block', 'embeddedStructure', 'blockContainer', 'authorialNote', 'attachment', 'debateSection',
         'speech', 'speechGroup', 'question', 'answer', 'from', 'ref', 'term', 'def', 'address', 'component',
         'citation', 'recital', 'quotedStructure', 'foreign', 'unknownThing']
NUMS = ['1', '1.', '(a)', '(A)', '2A', 'nn', '2_2', '1_2', '1.2.3', '(—)', '...', '-', ' ', '3a bis', '“2.3“', 'a b', '1 ', ' 1', 'I', 'i',
        'é', '§ 5', '⸺', '١', '1-2', '1--2', 'a.b', '_', 'x_', '(1)(a)', '\t7\n']
OLD_EIDS = [None, None, None, '', 'x', 'sec_1', 'sec_1', 'part_A', 'dup', 'dup', 'hcontainer_1', 'sec_1__p_1', ' ', 'a b']


def rand_tree(rng, depth=0, max_depth=5, in_meta=False, palette=None):
    """`palette` (chosen per tree): a few tags and nums that are reused with high probability, so that
    siblings collide (same tag, same / case-twin / punctuation-variant num) far more often than by chance."""
    if palette is None:
        twins = rng.choice([['(a)', '(A)', 'a.', 'A'], ['1', '1.', '(1)', ' 1 '], ['i', 'I', '(i)'], ['2_2', '2', '2_2'], ['(—)', '...', '-', ''],
                            ['2e\u0300me', '2\u00e8me', '2eme'], ['\u212b', '\u00c5', 'A\u030a']])   # the last two: canonically equivalent, different strings
        palette = {'tags': [rng.choice(HIER_TAGS + ['p', 'blockList', 'hcontainer', 'debateSection', 'speech']) for _ in range(3)],
                   'nums': twins + [rng.choice(NUMS)], 'p': rng.choice([0.0, 0.3, 0.6, 0.8])}
    r = rng.random()
    if depth == 0:
        tag = rng.choice(['act', 'doc', 'judgment', 'body', 'section', 'mainBody', 'akomaNtoso', 'chapter', 'preface'])
    elif rng.random() < palette['p']:
        tag = rng.choice(palette['tags'])
    elif r < 0.35:
        tag = rng.choice(HIER_TAGS)
    elif r < 0.5:
        tag = rng.choice(PASS)
    elif r < 0.7:
        tag = rng.choice(EXEMPT)
    else:
        tag = rng.choice(OTHER)
    attrs = {}
    old = rng.choice(OLD_EIDS)
    if old is not None:
        attrs['eId'] = old
    if rng.random() < 0.15:
        attrs[rng.choice(['name', 'class', 'refersTo', 'id'])] = rng.choice(['x', 'y z', ''])
    kids = []
    if rng.random() < 0.2:
        kids.append(rng.choice(['text', ' ', 'w1 w2']))
    if tag not in ('num', 'br', 'img') and rng.random() < 0.6:
        nk = []
        if rng.random() < 0.85:
            nk.append(rng.choice(palette['nums']) if rng.random() < palette['p'] else rng.choice(NUMS) if rng.random() < 0.8 else chr(rng.choice([rng.randrange(0x20, 0x250), rng.randrange(0x2000, 0x2070), rng.randrange(0x2e00, 0x2e80), rng.randrange(0x3000, 0x3100)])))
        if rng.random() < 0.1:
            nk.append(['b', {}, ['x']])
            if rng.random() < 0.5:
                nk.append('tail')
        nattrs = {'eId': 'numid'} if rng.random() < 0.05 else {}
        nk = [x for x in nk if x != '']
        kids.append(['num', nattrs, nk])
        if rng.random() < 0.1:
            kids.append(['num', {}, [rng.choice(NUMS)]])
    if depth < max_depth and tag not in ('num', 'br', 'img'):
        for _ in range(rng.choice([0, 0, 1, 1, 2, 2, 3, 4]) if depth else rng.randint(1, 4)):
            kids.append(rand_tree(rng, depth + 1, max_depth, in_meta or tag == 'meta', palette))
            if rng.random() < 0.1:
                kids.append(rng.choice(['tail text', '\n  ']))
    # merge adjacent strings (an element tree cannot hold two adjacent text nodes)
    merged = []
    for k in kids:
        if isinstance(k, str) and merged and isinstance(merged[-1], str):
            merged[-1] += k
        elif isinstance(k, str) and k == '':
            continue
        else:
            merged.append(k)
    return [tag, attrs, merged]


def to_etree(t, ns=None):
    from lxml import etree
    tag, attrs, kids = t
    ns = ns or AKN
    el = etree.Element('{%s}%s' % (ns, tag), nsmap={None: ns})
    for k, v in attrs.items():
        el.set(k, v)
    last = None
    for k in kids:
        if isinstance(k, str):
            if last is None:
                el.text = (el.text or '') + k
            else:
                last.tail = (last.tail or '') + k
        else:
            last = to_etree_child(k, el, ns)
    return el


def to_etree_child(t, parent, ns=None):
    from lxml import etree
    tag, attrs, kids = t
    ns = ns or AKN
    el = etree.SubElement(parent, '{%s}%s' % (ns, tag))
    for k, v in attrs.items():
        el.set(k, v)
    last = None
    for k in kids:
        if isinstance(k, str):
            if last is None:
                el.text = (el.text or '') + k
            else:
                last.tail = (last.tail or '') + k
        else:
            last = to_etree_child(k, el, ns)
    return el


def real_rewrite(tree, prefix, gen_obj=None):
    from bluebell.xml import IdGenerator
    el = to_etree(tree)
    g = gen_obj or IdGenerator()
    try:
        m = g.rewrite_all_eids(el, prefix)
    except Exception as ex:  # noqa
        return {'exc': type(ex).__name__, 'msg': str(ex)[:200]}
    return {'tree': real.canon(el, stub_meta=False), 'mapping': sorted([k, v] for k, v in dict(m).items())}


def model_req(tree, prefix):
    return {'op': 'eids', 'tree': tree, 'prefix': prefix}


def norm_model(m):
    return {'tree': m.get('tree'), 'mapping': sorted(m.get('mapping') or [])}


def iter_elems(t, in_meta=False, path=()):
    """yield (node, in_meta, path) for all element nodes of a canonical tree"""
    yield t, in_meta, path
    for i, k in enumerate(t[2]):
        if not isinstance(k, str):
            yield from iter_elems(k, in_meta or t[0] == 'meta', path + (i,))


def erase_eids(t, in_meta=False):
    tag, attrs, kids = t
    a = dict(attrs)
    if not in_meta and tag != 'meta' and tag not in EXEMPT and tag not in PASS:
        a.pop('eId', None)
    return [tag, a, [k if isinstance(k, str) else erase_eids(k, in_meta or tag == 'meta') for k in kids]]


def strip_all_eids(t, in_meta=False):
    """erase every eId outside meta (for "touches nothing else")"""
    tag, attrs, kids = t
    a = dict(attrs)
    if tag != 'meta' and not in_meta:
        a.pop('eId', None)
    return [tag, a, [k if isinstance(k, str) else strip_all_eids(k, in_meta or tag == 'meta') for k in kids]]


def ordered(t):
    """the tree with attributes as a list of [name, value] pairs, so that the model driver sees them in document order"""
    if isinstance(t, str):
        return t
    return [t[0], [[k, v] for k, v in t[1].items()], [ordered(k) for k in t[2]]]
