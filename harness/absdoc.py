"""Abstract documents over the documented vocabulary, an independent printer (render) and the prescribed
element tree (expected) — the specification side of C04. Written from the README and the AKN naming of the
keywords; it does not call bluebell."""
from . import gen

HIER_MAP = {k: k.lower() for k in gen.HIER[:27]}
HIER_MAP.update({'ART': 'article', 'CHAP': 'chapter', 'PARA': 'paragraph', 'SEC': 'section', 'SUBCHAP': 'subchapter',
                 'SUBPARA': 'subparagraph', 'SUBSEC': 'subsection'})
SPEECH_MAP = {'ADDRESS': 'address', 'ADJOURNMENT': 'adjournment', 'ADMINISTRATIONOFOATH': 'administrationOfOath', 'COMMUNICATION': 'communication',
              'DEBATESECTION': 'debateSection', 'DECLARATIONOFVOTE': 'declarationOfVote', 'MINISTERIALSTATEMENTS': 'ministerialStatements',
              'NATIONALINTEREST': 'nationalInterest', 'NOTICESOFMOTION': 'noticesOfMotion', 'ORALSTATEMENTS': 'oralStatements', 'PAPERS': 'papers',
              'PERSONALSTATEMENTS': 'personalStatements', 'PETITIONS': 'petitions', 'POINTOFORDER': 'pointOfOrder', 'PRAYERS': 'prayers',
              'PROCEDURALMOTIONS': 'proceduralMotions', 'QUESTIONS': 'questions', 'RESOLUTIONS': 'resolutions', 'ROLLCALL': 'rollCall',
              'WRITTENSTATEMENTS': 'writtenStatements'}
GROUP_MAP = {'SPEECHGROUP': 'speechGroup', 'SPEECH': 'speech', 'QUESTION': 'question', 'ANSWER': 'answer'}
ATTACH_MAP = {'ATTACHMENT': 'attachment', 'APPENDIX': 'appendix', 'SCHEDULE': 'schedule', 'ANNEXURE': 'annexure'}


class G:
    """random abstract documents; every node is a tuple ('kind', ...)"""

    def __init__(self, rng):
        self.rng = rng
        self.n = 0
        self.fn = 0

    def w(self, k=None):
        out = []
        for _ in range(k or self.rng.randint(1, 3)):
            self.n += 1
            out.append('w%d' % self.n)
        return ' '.join(out)

    # ---- inlines: list of pieces
    def inl(self, depth=0, allow_fn=True, inside=frozenset()):
        rng = self.rng
        out = [self.w()]
        for _ in range(rng.choice([0, 0, 1, 2])):
            k = rng.choice([x for x in ['b', 'i', 'u', 'sup', 'sub', 'ref', 'abbr', 'def', 'term', 'em', 'inline', 'ins', 'del', 'remark', 'img', 'fn'] if x not in inside])
            if depth > 1 and k not in ('img',):
                k = 'img'
            if k == 'img':
                out.append(('img', 'http://a/b%d.png' % rng.randint(0, 9), self.w(2) if rng.random() < 0.6 else None))
            elif k == 'fn':
                if not allow_fn:
                    continue
                self.fn += 1
                out.append(('fn', str(self.fn), [self.para(allow_fn=False)]))
            elif k == 'ref':
                out.append(('ref', 'http://x.y/z', self.inl(depth + 1, False, inside)))
            elif k == 'abbr':
                out.append(('abbr', 'Title', self.inl(depth + 1, False, inside)))
            elif k == 'term':
                out.append(('term', '#t%d' % rng.randint(1, 3), self.inl(depth + 1, False, inside)))
            elif k == 'inline':
                out.append(('inline', 'foo', self.inl(depth + 1, False, inside)))
            else:
                out.append((k, self.inl(depth + 1, False, inside | ({k} if k in ('b', 'i', 'u') else set()))))
                if k in ('b', 'i', 'u') and rng.random() < 0.2:
                    out.append((k, [self.w(1)]))   # a second element of the same kind touching the first: **a****b**
            out.append(' ' + self.w(1))
        return out

    def attrs(self):
        r = self.rng.random()
        if r < 0.75:
            return {}
        # 'xclass' is the part of the class list written as an explicit {class ...} pair; it comes first in the result
        return self.rng.choice([{'class': 'cls'}, {'class': 'a b'}, {'status': 'editorial'}, {'class': 'c', 'refersTo': '#x'},
                                {'xclass': 'column-wide', 'class': 'col'}, {'xclass': 'foo bar', 'class': 'foo'}, {'xclass': 'z'},
                                {'xclass': 'numeric right', 'class': 'num a', 'refersTo': '#x'}])

    # ---- blocks
    def para(self, allow_fn=True):
        a = self.attrs() if self.rng.random() < 0.3 else {}
        return ('p', a, self.inl(allow_fn=allow_fn))

    def para_br(self):
        """a paragraph holding an editorial remark that spans lines ("remarks may span multiple lines and may contain other
        inline elements"): every line break inside the remark is a <br/>. Line breaks are followed by text, by a nested
        inline, or directly by the closing braces; the remark may itself sit inside another inline."""
        rng = self.rng
        rem = [self.w()]
        for _ in range(rng.randint(1, 3)):
            rem.append(('br',))
            k = rng.random()
            if k < 0.4:
                rem.append(self.w())
            elif k < 0.8:
                kind = rng.choice(['b', 'i', 'ref', 'term', 'sup'])
                inner = [self.w(1)]
                rem.append(('ref', 'http://x.y/z', inner) if kind == 'ref' else ('term', '#t1', inner) if kind == 'term' else (kind, inner))
                if rng.random() < 0.5:
                    rem.append(' ' + self.w(1))
        if rng.random() < 0.25:
            rem.append(('br',))
        piece = ('remark', rem)
        wrap = rng.random()
        if wrap < 0.2:
            piece = (rng.choice(['sup', 'sub', 'b', 'em']), [self.w(1) + ' ', piece])
        pieces = ([self.w() + ' '] if rng.random() < 0.7 else []) + [piece] + ([' ' + self.w()] if rng.random() < 0.7 else [])
        return ('p', {}, pieces)

    def block(self, depth=0):
        rng = self.rng
        r = rng.random()
        if r < 0.07:
            return self.para_br()
        if depth > 1 or r < 0.55:
            return self.para()
        if r < 0.67:
            items = []
            for i in range(rng.randint(1, 3)):
                items.append((rng.choice(['(%s)' % chr(97 + i), '%d.' % (i + 1), None]), self.inl(1, False) if rng.random() < 0.3 else None,
                              self.inl(1, False) if rng.random() < 0.2 else None, [self.block(depth + 1) for _ in range(rng.randint(1, 2))]))
            return ('items', rng.choice(['ITEMS', 'BLOCKLIST']), self.attrs(), self.inl(1, False) if rng.random() < 0.4 else None, items,
                    self.inl(1, False) if rng.random() < 0.3 else None)
        if r < 0.77:
            return ('bullets', self.attrs(), [[self.para()] + ([self.para()] if rng.random() < 0.3 else []) for _ in range(rng.randint(1, 3))])
        if r < 0.87:
            rows = [[(rng.choice(['th', 'td']), rng.choice([{}, {}, {'colspan': '2'}, {'class': 'c'}]), [self.block(depth + 1) for _ in range(rng.randint(1, 2))])
                     for _ in range(rng.randint(1, 3))] for _ in range(rng.randint(1, 2))]
            return ('table', self.attrs(), rows)
        if r < 0.93:
            return ('quote', rng.choice([{}, {'startQuote': '"'}]), [self.hier(2) if rng.random() < 0.3 else self.block(depth + 1) for _ in range(rng.randint(1, 2))])
        return ('blocks', self.attrs(), [self.block(depth + 1) for _ in range(rng.randint(1, 2))])

    def num(self):
        rng = self.rng
        return rng.choice(['%d.' % rng.randint(1, 99), '(%s)' % rng.choice('abcxyz'), '%d(bis)' % rng.randint(1, 9), '%dA' % rng.randint(1, 9), 'A-1'])

    def hier(self, depth=0):
        rng = self.rng
        kw = rng.choice(gen.HIER)
        kids = []
        for _ in range(rng.randint(0, 3)):
            r = rng.random()
            if depth < 2 and r < 0.45:
                kids.append(self.hier(depth + 1))
            elif r < 0.55:
                kids.append(('crossheading', self.attrs(), self.inl(1, False)))
            else:
                kids.append(self.block(1))
        return ('hier', kw, self.attrs(), self.num() if rng.random() < 0.8 else None, self.inl(1, False) if rng.random() < 0.5 else None,
                self.inl(1, False) if rng.random() < 0.25 else None, kids)

    def body_items(self):
        rng = self.rng
        out = []
        for _ in range(rng.randint(1, 4)):
            r = rng.random()
            out.append(self.hier() if r < 0.55 else ('crossheading', {}, self.inl(1, False)) if r < 0.65 else self.block())
        return out

    def speech(self, depth=0):
        rng = self.rng
        r = rng.random()
        if depth < 1 and r < 0.3:
            return ('speechc', rng.choice(gen.SPEECH_CONTAINERS), self.attrs(), self.num() if rng.random() < 0.4 else None,
                    self.inl(1, False) if rng.random() < 0.5 else None, None, [self.speech(depth + 1) for _ in range(rng.randint(1, 2))])
        if depth < 5 and r < 0.65:
            by = {'by': rng.choice(['#spk', '/ontology/person/za/mongella', 'mongella', 'http://example.org/p/m'])} if rng.random() < 0.25 else {}
            return ('speechg', rng.choice(gen.SPEECH_GROUPS), by, self.num() if rng.random() < 0.2 else None, None, None,
                    self.inl(2, False), [self.speech(depth + 2) for _ in range(rng.randint(1, 2))])
        if r < 0.8:
            return ('speechb', rng.choice(gen.SPEECH_BLOCKS), self.attrs(), self.inl(1, False))
        return self.para()

    def attachment(self, depth=0):
        rng = self.rng
        return ('attachment', rng.choice(gen.ATTACH), self.attrs(), self.inl(1, False) if rng.random() < 0.7 else None,
                self.inl(1, False) if rng.random() < 0.25 else None, self.body_items(),
                [self.attachment(depth + 1) for _ in range(rng.randint(1, 2))] if depth < 2 and rng.random() < 0.3 else [])

    def doc(self, root):
        rng = self.rng
        d = {'root': root, 'preface': None, 'preamble': None, 'conclusions': None, 'attachments': [], 'parts': None, 'body': None}
        if root == 'judgment':
            d['parts'] = [(p, self.body_items()) for p in ['INTRODUCTION', 'BACKGROUND', 'ARGUMENTS', 'REMEDIES', 'MOTIVATION', 'DECISION'] if rng.random() < 0.5]
            if not d['parts']:
                d['parts'] = [('INTRODUCTION', self.body_items())]
        elif root == 'debate':
            if rng.random() < 0.3:
                d['preface'] = (self.attrs(), [self.block(1) for _ in range(rng.randint(1, 2))])
            d['body'] = [('speechc', rng.choice(gen.SPEECH_CONTAINERS), {}, self.num() if rng.random() < 0.4 else None, self.inl(1, False) if rng.random() < 0.5 else None,
                          self.inl(1, False) if rng.random() < 0.2 else None, [self.speech(1) for _ in range(rng.randint(1, 3))]) for _ in range(rng.randint(1, 2))]
        else:
            if rng.random() < 0.4:
                blocks = [self.block(1) for _ in range(rng.randint(1, 2))]
                if root in ('act', 'bill') and rng.random() < 0.5:
                    blocks.insert(0, ('longtitle', self.inl(1, False)))
                d['preface'] = (self.attrs(), blocks)
            if rng.random() < 0.4:
                d['preamble'] = ({}, [self.block(1) for _ in range(rng.randint(1, 2))])
            d['body'] = self.body_items()
        if rng.random() < 0.3:
            d['conclusions'] = [self.block(1) for _ in range(rng.randint(1, 2))]
        if rng.random() < 0.4:
            d['attachments'] = [self.attachment() for _ in range(rng.randint(1, 3))]
        # the first line of an *indented* container body may be ordinary text that happens to start with an attachment keyword
        # ("SCHEDULE of hearings ..."): indented, it is a paragraph like any other
        def keywordish(items):
            if items and items[0][0] == 'p' and not items[0][1] and isinstance(items[0][2][0], str) and rng.random() < 0.3:
                kw = rng.choice(gen.ATTACH)
                items[0] = ('p', items[0][1], [kw + ' of ' + items[0][2][0]] + list(items[0][2][1:]))
        if d['parts'] is not None:
            for _, items in d['parts']:
                keywordish(items)
        elif root != 'debate' and (d['preface'] is not None or d['preamble'] is not None):
            keywordish(d['body'])
        return d


# ---------------------------------------------------------------------------- render (independent printer)
def r_attrs(a):
    a = dict(a)
    out = ''
    if 'class' in a:
        out += ''.join('.' + c for c in a.pop('class').split())
    if 'xclass' in a:
        a = {'class': a.pop('xclass'), **a}
    if a:
        out += '{' + '|'.join(f'{k} {v}' for k, v in a.items()) + '}'
    return out


BR = '\x00'   # a line break inside a remark: expanded by render() to a newline plus the indentation of its line


def r_inl(pieces, notes):
    out = []
    for p in pieces:
        if isinstance(p, str):
            out.append(p)
            continue
        k = p[0]
        if k == 'br':
            out.append(BR)
        elif k == 'img':
            out.append('{{IMG %s%s}}' % (p[1], ' ' + p[2] if p[2] else ''))
        elif k == 'fn':
            out.append('{{FOOTNOTE %s}}' % p[1])
            notes.append(p)
        elif k == 'ref':
            out.append('{{>%s %s}}' % (p[1], r_inl(p[2], notes)))
        elif k == 'abbr':
            out.append('{{abbr{title %s} %s}}' % (p[1], r_inl(p[2], notes)))
        elif k == 'term':
            out.append('{{term{refersTo %s} %s}}' % (p[1], r_inl(p[2], notes)))
        elif k == 'inline':
            out.append('{{inline{name %s} %s}}' % (p[1], r_inl(p[2], notes)))
        else:
            fmt = {'b': '**%s**', 'i': '//%s//', 'u': '__%s__', 'sup': '{{^%s}}', 'sub': '{{_%s}}', 'def': '{{def %s}}', 'em': '{{em %s}}',
                   'ins': '{{+%s}}', 'del': '{{-%s}}', 'remark': '{{*%s}}'}[k]
            out.append(fmt % r_inl(p[1], notes))
    return ''.join(out)


def r_notes(notes, ind):
    out = []
    for n in notes:
        out.append('  ' * ind + 'FOOTNOTE ' + n[1])
        for b in n[2]:
            out += r_block(b, ind + 1)
    return out


def r_block(b, ind):
    p = '  ' * ind
    k = b[0]
    notes = []
    if k == 'p':
        text = r_inl(b[2], notes)
        line = p + ('P' + r_attrs(b[1]) + ' ' if b[1] else '') + text
        return [line] + r_notes(notes, ind)
    if k == 'longtitle':
        return [p + 'LONGTITLE ' + r_inl(b[1], notes)]
    if k == 'items':
        out = [p + b[1] + r_attrs(b[2])]
        if b[3] is not None:
            out.append(p + '  ' + r_inl(b[3], notes))
        for num, heading, sub, blocks in b[4]:
            out.append(p + '  ITEM' + (' ' + num if num else '') + (' - ' + r_inl(heading, notes) if heading is not None else ''))
            if sub is not None:
                out.append(p + '    SUBHEADING ' + r_inl(sub, notes))
            for x in blocks:
                out += r_block(x, ind + 2)
        if b[5] is not None:
            out.append(p + '  ' + r_inl(b[5], notes))
        return out
    if k == 'bullets':
        out = [p + 'BULLETS' + r_attrs(b[1])]
        for item in b[2]:
            first = r_block(item[0], 0)
            out.append(p + '  * ' + first[0])
            out += [p + '    ' + l for l in first[1:]]
            for x in item[1:]:
                out += r_block(x, ind + 2)
        return out
    if k == 'table':
        out = [p + 'TABLE' + r_attrs(b[1])]
        for row in b[2]:
            out.append(p + '  TR')
            for kind, a, blocks in row:
                out.append(p + '    ' + ('TH' if kind == 'th' else 'TC') + r_attrs(a))
                for x in blocks:
                    out += r_block(x, ind + 3)
        return out
    if k == 'quote':
        out = [p + 'QUOTE' + r_attrs(b[1])]
        for x in b[2]:
            out += r_hier(x, ind + 1) if x[0] == 'hier' else r_block(x, ind + 1)
        return out
    if k == 'blocks':
        out = [p + 'BLOCKS' + r_attrs(b[1])]
        for x in b[2]:
            out += r_block(x, ind + 1)
        return out
    raise ValueError(k)


def esc_num(n):
    return n.replace('-', '\\-')


def r_hier(h, ind):
    p = '  ' * ind
    if h[0] == 'crossheading':
        return [p + 'CROSSHEADING' + r_attrs(h[1]) + ' ' + r_inl(h[2], [])]
    if h[0] != 'hier':
        return r_block(h, ind)
    _, kw, a, num, heading, sub, kids = h
    notes = []
    out = [p + kw + r_attrs(a) + (' ' + esc_num(num) if num else '') + (' - ' + r_inl(heading, notes) if heading is not None else '')]
    if sub is not None:
        out.append(p + '  SUBHEADING ' + r_inl(sub, notes))
    out += r_notes(notes, ind + 1)
    for k in kids:
        out += r_hier(k, ind + 1)
    return out


def r_speech(s, ind):
    p = '  ' * ind
    k = s[0]
    if k == 'p':
        return r_block(s, ind)
    if k == 'speechb':
        return [p + s[1] + r_attrs(s[2]) + ' ' + r_inl(s[3], [])]
    if k == 'speechc':
        _, kw, a, num, heading, sub, kids = s
        out = [p + kw + r_attrs(a) + (' ' + esc_num(num) if num else '') + (' - ' + r_inl(heading, []) if heading is not None else '')]
        if sub is not None:
            out.append(p + '  SUBHEADING ' + r_inl(sub, []))
        for x in kids:
            out += r_speech(x, ind + 1)
        return out
    _, kw, a, num, heading, sub, frm, kids = s
    out = [p + kw + r_attrs(a) + (' ' + esc_num(num) if num else '')]
    out.append(p + '  FROM ' + r_inl(frm, []))
    for x in kids:
        out += r_speech(x, ind + 1)
    return out


def r_attachment(a, ind):
    p = '  ' * ind
    _, kw, attrs, heading, sub, body, nested = a
    out = [p + kw + r_attrs(attrs) + (' ' + r_inl(heading, []) if heading is not None else '')]
    if sub is not None:
        out.append(p + '  SUBHEADING ' + r_inl(sub, []))
    for x in body:
        out += r_hier(x, ind + 1)
    for n in nested:
        out += r_attachment(n, ind + 1)
    return out


def render(d, blank_lines=False):
    out = []
    if d['preface'] is not None:
        out.append('PREFACE' + r_attrs(d['preface'][0]))
        for b in d['preface'][1]:
            out += r_block(b, 1)
    if d['preamble'] is not None:
        out.append('PREAMBLE' + r_attrs(d['preamble'][0]))
        for b in d['preamble'][1]:
            out += r_block(b, 1)
    if d['parts'] is not None:
        for name, items in d['parts']:
            out.append(name)
            for x in items:
                out += r_hier(x, 1)
    elif d['root'] == 'debate':
        ind = 1 if out else 0
        if out:
            out.append('BODY')
        for s in d['body']:
            out += r_speech(s, ind)
    else:
        ind = 1 if out else 0
        if out:
            out.append('BODY')
        for x in d['body']:
            out += r_hier(x, ind)
    if d['conclusions'] is not None:
        out.append('CONCLUSIONS')
        for b in d['conclusions']:
            out += r_block(b, 1)
    for a in d['attachments']:
        out += r_attachment(a, 0)
    lines = []
    for l in out:
        if BR in l:
            ind = l[:len(l) - len(l.lstrip(' '))]
            parts = l.split(BR)
            l = parts[0] + ''.join('\n' + ind + x for x in parts[1:])
        lines.append(l)
    return ('\n\n' if blank_lines else '\n').join(lines) + '\n'


# ---------------------------------------------------------------------------- expected tree (no meta, no eIds)
def E(tag, attrs, kids):
    out = []
    for k in kids:
        if isinstance(k, str):
            if not k:
                continue
            if out and isinstance(out[-1], str):
                out[-1] += k
            else:
                out.append(k)
        else:
            out.append(k)
    attrs = dict(attrs)
    if 'xclass' in attrs:
        # README: dotted classes are added to an explicit class attribute
        x = attrs.pop('xclass')
        attrs['class'] = x + (' ' + attrs['class'] if attrs.get('class') else '')
    return [tag, attrs, out]


def x_inl(pieces):
    out = []
    for p in pieces:
        if isinstance(p, str):
            out.append(p)
            continue
        k = p[0]
        if k == 'br':
            out.append(E('br', {}, []))
        elif k == 'img':
            a = {'src': p[1]}
            if p[2]:
                a['alt'] = p[2]
            out.append(E('img', a, []))
        elif k == 'fn':
            out.append(E('authorialNote', {'marker': p[1], 'placement': 'bottom'}, [x_block(b) for b in p[2]]))
        elif k == 'ref':
            out.append(E('ref', {'href': p[1]}, x_inl(p[2])))
        elif k == 'abbr':
            out.append(E('abbr', {'title': p[1]}, x_inl(p[2])))
        elif k == 'term':
            out.append(E('term', {'refersTo': p[1]}, x_inl(p[2])))
        elif k == 'inline':
            out.append(E('inline', {'name': p[1]}, x_inl(p[2])))
        elif k == 'em':
            out.append(E('inline', {'name': 'em'}, x_inl(p[1])))
        elif k == 'remark':
            out.append(E('remark', {'status': 'editorial'}, x_inl(p[1])))
        else:
            out.append(E({'b': 'b', 'i': 'i', 'u': 'u', 'sup': 'sup', 'sub': 'sub', 'def': 'def', 'ins': 'ins', 'del': 'del'}[k], {}, x_inl(p[1])))
    return out


def x_block(b):
    k = b[0]
    if k == 'p':
        return E('p', b[1], x_inl(b[2]))
    if k == 'longtitle':
        return E('longTitle', {}, [E('p', {}, x_inl(b[1]))])
    if k == 'items':
        kids = []
        if b[3] is not None:
            kids.append(E('listIntroduction', {}, x_inl(b[3])))
        for num, heading, sub, blocks in b[4]:
            ik = []
            if num:
                ik.append(E('num', {}, [num]))
            if heading is not None:
                ik.append(E('heading', {}, x_inl(heading)))
            if sub is not None:
                ik.append(E('subheading', {}, x_inl(sub)))
            ik += [x_block(x) for x in blocks]
            kids.append(E('item', {}, ik))
        if b[5] is not None:
            kids.append(E('listWrapUp', {}, x_inl(b[5])))
        return E('blockList', b[2], kids)
    if k == 'bullets':
        return E('ul', b[1], [E('li', {}, [x_block(x) for x in item]) for item in b[2]])
    if k == 'table':
        return E('table', b[1], [E('tr', {}, [E(kind, a, [x_block(x) for x in blocks]) for kind, a, blocks in row]) for row in b[2]])
    if k == 'quote':
        return E('block', {'name': 'quote'}, [E('embeddedStructure', b[1], [x_hier(x) for x in b[2]])])
    if k == 'blocks':
        return E('blockContainer', b[1], [x_block(x) for x in b[2]])
    raise ValueError(k)


def is_hierish(x):
    return x[0] in ('hier', 'crossheading')


def x_hier(h):
    if h[0] == 'crossheading':
        return E('crossHeading', h[1], x_inl(h[2]))
    if h[0] != 'hier':
        return x_block(h)
    _, kw, a, num, heading, sub, kids = h
    out = []
    if num:
        out.append(E('num', {}, [num]))
    if heading is not None:
        out.append(E('heading', {}, x_inl(heading)))
    if sub is not None:
        out.append(E('subheading', {}, x_inl(sub)))
    if not kids:
        pass   # an element without content gets no (empty) content wrapper
    elif not any(is_hierish(k) for k in kids):
        out.append(E('content', {}, [x_hier(k) for k in kids]))
    else:
        groups = []
        for k in kids:
            if groups and groups[-1][0] == is_hierish(k):
                groups[-1][1].append(k)
            else:
                groups.append((is_hierish(k), [k]))
        seen = False
        for i, (ish, grp) in enumerate(groups):
            xs = [x_hier(k) for k in grp]
            if ish:
                seen = True
                out += xs
            elif not seen:
                out.append(E('intro', {}, xs))
            elif i == len(groups) - 1:
                out.append(E('wrapUp', {}, xs))
            else:
                out.append(E('hcontainer', {'name': 'hcontainer'}, [E('content', {}, xs)]))
    return E(HIER_MAP[kw], a, out)


def x_main(items, body_mode):
    """top-level content of body (act/bill: content and crossheadings wrapped) or mainBody (only crossheadings wrapped)"""
    out = []

    def cls(x):
        if x[0] == 'crossheading':
            return 'cross'
        if x[0] == 'hier':
            return 'hier'
        return 'content' if body_mode else 'other'
    i = 0
    while i < len(items):
        c = cls(items[i])
        j = i
        while j < len(items) and cls(items[j]) == c:
            j += 1
        grp = [x_hier(x) for x in items[i:j]]
        if c == 'cross':
            out.append(E('hcontainer', {'name': 'hcontainer'}, grp))
        elif c == 'content':
            out.append(E('hcontainer', {'name': 'hcontainer'}, [E('content', {}, grp)]))
        else:
            out += grp
        i = j
    return out


def x_speech(s):
    k = s[0]
    if k == 'p':
        return x_block(s)
    if k == 'speechb':
        return E(s[1].lower(), s[2], x_inl(s[3]))
    if k == 'speechc':
        _, kw, a, num, heading, sub, kids = s
        name = SPEECH_MAP[kw]
        a = dict(a)
        if name == 'debateSection':
            a.setdefault('name', 'debateSection')
        out = []
        if num:
            out.append(E('num', {}, [num]))
        if heading is not None:
            out.append(E('heading', {}, x_inl(heading)))
        if sub is not None:
            out.append(E('subheading', {}, x_inl(sub)))
        return E(name, a, out + [x_speech(x) for x in kids])
    _, kw, a, num, heading, sub, frm, kids = s
    out = []
    if num:
        out.append(E('num', {}, [num]))
    out.append(E('from', {}, x_inl(frm)))
    return E(GROUP_MAP[kw], a, out + [x_speech(x) for x in kids])


def x_attachment(a):
    _, kw, attrs, heading, sub, body, nested = a
    kids = []
    if heading is not None:
        kids.append(E('heading', {}, x_inl(heading)))
    if sub is not None:
        kids.append(E('subheading', {}, x_inl(sub)))
    doc = [E('mainBody', {}, x_main(body, False))]
    if nested:
        doc.append(E('attachments', {}, [x_attachment(n) for n in nested]))
    kids.append(E('doc', {'name': ATTACH_MAP[kw]}, doc))
    return E('attachment', attrs, kids)


def expected(d):
    root = d['root']
    kids = []
    if d['preface'] is not None:
        kids.append(E('preface', d['preface'][0], [x_block(b) for b in d['preface'][1]]))
    if d['preamble'] is not None:
        kids.append(E('preamble', d['preamble'][0], [x_block(b) for b in d['preamble'][1]]))
    if root == 'judgment':
        kids.append(E('header', {}, []))
        kids.append(E('judgmentBody', {}, [E(name.lower(), {}, x_main(items, False)) for name, items in d['parts']]))
    elif root == 'debate':
        kids.append(E('debateBody', {}, [x_speech(s) for s in d['body']]))
    elif root in ('act', 'bill'):
        kids.append(E('body', {}, x_main(d['body'], True)))
    else:
        kids.append(E('mainBody', {}, x_main(d['body'], False)))
    if d['conclusions'] is not None:
        kids.append(E('conclusions', {}, [x_block(b) for b in d['conclusions']]))
    if d['attachments']:
        kids.append(E('attachments', {}, [x_attachment(a) for a in d['attachments']]))
    return E('akomaNtoso', {}, [E(root, {'name': root}, kids)])
