"""C08 — eIds follow the naming convention and are stable under unrelated edits."""
import json, copy
from .. import core, real, gen, eidlib
from ..leandrv import Driver

MODULE = 'Bluebell.Props.C08'
THEOREMS = ['Bluebell.C08_decomposition', 'Bluebell.C08_pass_through_prefix', 'Bluebell.C08_unnumbered', 'Bluebell.C08_numbered', 'Bluebell.C08_clash_suffix', 'Bluebell.C08_stability_step', 'Bluebell.C08_stability', 'Bluebell.C08_alias_table']

# ---- the AKN naming convention as this property states it (independent of bluebell's tables)
ABBR = {'alinea': 'al', 'amendmentBody': 'body', 'article': 'art', 'attachment': 'att', 'blockList': 'list', 'chapter': 'chp',
        'citation': 'cit', 'citations': 'cits', 'clause': 'cl', 'component': 'cmp', 'components': 'cmpnts', 'componentRef': 'cref',
        'debateBody': 'body', 'debateSection': 'dbsect', 'division': 'dvs', 'documentRef': 'dref', 'eventRef': 'eref',
        'judgmentBody': 'body', 'listIntroduction': 'intro', 'listWrapUp': 'wrapup', 'mainBody': 'body', 'paragraph': 'para',
        'quotedStructure': 'qstr', 'quotedText': 'qtext', 'recital': 'rec', 'recitals': 'recs', 'section': 'sec',
        'subchapter': 'subchp', 'subclause': 'subcl', 'subdivision': 'subdvs', 'subparagraph': 'subpara', 'subsection': 'subsec',
        'temporalGroup': 'tmpg', 'wrapUp': 'wrapup'}
ASCII_PUNCT = set('!"#$%&\'()*+,-./:;<=>?@[]^_`{|}~')


def is_punct(c):
    o = ord(c)
    return c in ASCII_PUNCT or 0x2000 <= o <= 0x206f or 0x2e00 <= o <= 0x2e7f


def clean_num_spec(num):
    """strip leading/trailing whitespace and punctuation; drop whitespace; punctuation runs -> '-'"""
    cs = list(num)
    while cs and (cs[0].isspace() or is_punct(cs[0])):
        cs.pop(0)
    while cs and (cs[-1].isspace() or is_punct(cs[-1])):
        cs.pop()
    cs = [c for c in cs if not c.isspace()]
    out = []
    for c in cs:
        if is_punct(c):
            if not (out and out[-1] == '\0'):
                out.append('\0')
        else:
            out.append(c)
    return ''.join('-' if c == '\0' else c for c in out)


def expected_eids(tree, prefix):
    """{path: eId} by the convention: ancestor id (+ transparent containers) + '__' + abbreviation + '_' + cleaned num;
    'nn' / positional counter when unnumbered; _2, _3 ... for clashes in document order."""
    issued = {}
    position = {}
    out = {}

    def unique(e, force):
        issued[e] = issued.get(e, 0) + 1
        if issued[e] == 1 and not force:
            return e
        return unique(f'{e}_{issued[e]}', False)

    def visit(node, pfx, path):
        tag, attrs, kids = node
        if tag == 'meta':
            return
        if tag in eidlib.PASS:
            pfx = (pfx + '__' if pfx else '') + tag.lower()
        elif tag not in eidlib.EXEMPT:
            numel = next((k for k in kids if not isinstance(k, str) and k[0] == 'num'), None)
            raw = numel[2][0] if numel is not None and numel[2] and isinstance(numel[2][0], str) else ''
            num = clean_num_spec(raw) if raw else ''
            force = False
            if not num and tag in eidlib.NUM_EXPECTED:
                num, force = 'nn', True
            if not num:
                position[(pfx, tag)] = position.get((pfx, tag), 0) + 1
                num = str(position[(pfx, tag)])
            e = unique((pfx + '__' if pfx else '') + ABBR.get(tag, tag) + '_' + num, force)
            out[path] = e
            pfx = e
        for i, k in enumerate(kids):
            if not isinstance(k, str):
                visit(k, pfx, path + (i,))
    visit(tree, prefix, ())
    return out


def actual_eids(tree):
    return {path: node[1].get('eId') for node, in_meta, path in eidlib.iter_elems(tree)
            if not in_meta and node[0] != 'meta' and node[0] not in eidlib.EXEMPT and node[0] not in eidlib.PASS}


def convention_violation(tree, prefix):
    exp = expected_eids(tree, prefix)
    act = actual_eids(tree)
    for path in exp:
        if act.get(path) != exp[path]:
            return f'element at {path} has eId {act.get(path)!r}, the convention gives {exp[path]!r}'
    return None


# ---- stability under unrelated edits (on trees)
def node_at(tree, path):
    n = tree
    for i in path:
        n = n[2][i]
    return n


def chain_ok(tree, path, ids):
    """every identifiable element on the path is numbered, its id has no clash suffix and is unique as a base"""
    base_count = {}
    exp = ids
    for p, e in exp.items():
        base_count[e] = base_count.get(e, 0) + 1
    for k in range(len(path) + 1):
        sub = path[:k]
        n = node_at(tree, sub)
        if n[0] in eidlib.EXEMPT or n[0] in eidlib.PASS:
            continue
        numel = next((c for c in n[2] if not isinstance(c, str) and c[0] == 'num'), None)
        raw = numel[2][0] if numel is not None and numel[2] and isinstance(numel[2][0], str) else ''
        if not raw or not clean_num_spec(raw):
            return False
        e = exp.get(sub)
        want_tail = ABBR.get(n[0], n[0]) + '_' + clean_num_spec(raw)
        if e is None or not e.endswith(want_tail):
            return False
        # no other element anywhere yields the same id or a suffixed variant of it
        if any(o != sub and (v == e or v.startswith(e + '_')) and len(o) == len(sub) and o[:-1] == sub[:-1] for o, v in exp.items()):
            return False
    return True


def edit_off_path(rng, tree, path):
    """a copy of `tree` with one edit that touches no element on `path` or inside the provision's ancestors' own num"""
    t = copy.deepcopy(tree)
    on_path = {path[:k] for k in range(len(path) + 1)}
    cands = [p for n, m, p in eidlib.iter_elems(t) if p and p not in on_path and not any(p[:len(q)] == q and len(q) == len(path) for q in [path])
             and not m and n[0] not in ('num', 'meta')]
    cands = [p for p in cands if p[:len(path)] != path]
    if not cands:
        return None, None
    p = rng.choice(cands)
    parent = node_at(t, p[:-1])
    kind = rng.choice(['delete', 'insert', 'swap', 'text'])
    idx = p[-1]
    if kind == 'delete':
        del parent[2][idx]
        # the path shifts if a preceding sibling of a path element was removed
        newpath = list(path)
        if len(p) <= len(path) and p[:-1] == path[:len(p) - 1] and idx < path[len(p) - 1]:
            newpath[len(p) - 1] -= 1
        return t, tuple(newpath)
    if kind == 'insert':
        new = rng.choice([['p', {}, ['inserted']], ['hcontainer', {'name': 'hcontainer'}, [['content', {}, [['p', {}, ['x']]]]]],
                          ['blockList', {}, [['item', {}, [['num', {}, ['(zz)']], ['p', {}, ['y']]]]]]])
        parent[2].insert(idx, new)
        newpath = list(path)
        if len(p) <= len(path) and p[:-1] == path[:len(p) - 1] and idx <= path[len(p) - 1]:
            newpath[len(p) - 1] += 1
        return t, tuple(newpath)
    if kind == 'swap':
        sibs = [i for i, k in enumerate(parent[2]) if not isinstance(k, str) and (p[:-1] + (i,)) not in on_path and k[0] != 'num' and i != idx]
        if not sibs:
            return None, None
        j = rng.choice(sibs)
        parent[2][idx], parent[2][j] = parent[2][j], parent[2][idx]
        return t, path
    n = node_at(t, p)
    n[2] = [k for k in n[2] if not isinstance(k, str)] if rng.random() < 0.3 else ['changed ' + rng.choice(['text', 'SEC 1', '1.'])] + [k for k in n[2] if not isinstance(k, str)]
    return t, path


def run(ctx, info):
    rng = ctx.rng
    failures = []
    drv = Driver() if info['driver'] else None
    if not drv:
        ctx.oblige('model driver builds', 'tie', False, info.get('driver_log', '')[-800:])
    nt = ctx.budget(2000, 30000)
    cs = [(eidlib.rand_tree(rng), rng.choice(['', '', 'pfx', 'att_1'])) for _ in range(nt)]
    reals = [eidlib.real_rewrite(t, p) for t, p in cs]
    nb = 0
    for (t, p), r in zip(cs, reals):
        v = convention_violation(r['tree'], p) if 'tree' in r else f"raised {r.get('exc')}"
        if v:
            nb += 1
            if len(failures) < 15:
                failures.append({'kind': 'oracle', 'finding': None, 'summary': f'rewrite_all_eids(prefix={p!r}): {v}', 'case': {'check': 'tree', 'tree': t, 'prefix': p}})
    ctx.oblige('oracle: eIds equal the naming-convention reference on arbitrary trees', 'oracle', nb == 0, f'{nb} violations in {nt}')
    if drv:
        ms = drv.batch_parallel([eidlib.model_req(t, p) for t, p in cs], jobs=12)
        bad = [{'tree': t, 'prefix': p, 'real': r, 'model': eidlib.norm_model(m)} for (t, p), r, m in zip(cs, reals, ms)
               if r.get('tree') != eidlib.norm_model(m)['tree']]
        ctx.oblige('tie eids: IdGenerator.rewrite_all_eids = model rewriteAll', 'tie', not bad,
                   f'{len(bad)} disagreements; first: {json.dumps(bad[0])[:700]}' if bad else f'{nt} trees agree')
        for b in bad[:3]:
            failures.append({'kind': 'tie', 'summary': 'eids disagreement', 'case': b})
    # parser outputs: convention + stability under edits
    nd = ctx.budget(200, 2500)
    nconv = nv = ns = npairs = 0
    for i in range(nd):
        root = rng.choice(gen.ROOTS7)
        pfx = rng.choice(['', '', 'att_2'])
        text = gen.doc_text(rng, root, corners=0.25) if rng.random() < 0.85 else gen.noise_text(rng)
        r = real.convert(text, root, prefix=pfx)
        if 'xml' not in r:
            continue
        nconv += 1
        tree = r['xml']
        v = convention_violation(tree, pfx)
        if v:
            nv += 1
            if len(failures) < 25:
                def pred(tt, root=root, pfx=pfx):
                    rr = real.convert(tt, root, prefix=pfx)
                    return 'xml' in rr and convention_violation(rr['xml'], pfx) is not None
                small = core.shrink_text(text, pred, 120) if nv <= 2 else text
                failures.append({'kind': 'oracle', 'finding': None, 'summary': f'parse_to_xml({small[:100]!r}, {root}): {v}', 'case': {'check': 'doc', 'text': small, 'root': root, 'prefix': pfx}})
            continue
        ids = actual_eids(tree)
        provs = [p for p in ids if p and node_at(tree, p)[0] in eidlib.NUM_EXPECTED and chain_ok(tree, p, ids)]
        rng.shuffle(provs)
        for p in provs[:3]:
            t2, p2 = edit_off_path(rng, tree, p)
            if t2 is None:
                continue
            npairs += 1
            r2 = eidlib.real_rewrite(eidlib.strip_all_eids(t2), pfx)
            if 'tree' not in r2:
                continue
            got = node_at(r2['tree'], p2)[1].get('eId')
            if got != ids[p] and chain_ok(r2['tree'], p2, actual_eids(r2['tree'])):
                ns += 1
                if len(failures) < 30:
                    failures.append({'kind': 'oracle', 'finding': None,
                                     'summary': f'eId of the provision {ids[p]!r} became {got!r} after an edit away from its ancestor path',
                                     'case': {'check': 'edit', 'tree': tree, 'edited': t2, 'path': list(p), 'path2': list(p2), 'prefix': pfx}})
    ctx.oblige('oracle: parser outputs follow the convention', 'oracle', nv == 0, f'{nv} violations in {nconv} documents')
    ctx.oblige('oracle: eId of a uniquely numbered provision unchanged by edits off its ancestor path', 'oracle', ns == 0, f'{ns} changes in {npairs} edit pairs')
    cov = {'evaluations': nt + nconv + npairs, 'distinct_nontrivial': len({json.dumps(t) for t, p in cs if len(json.dumps(t)) > 80}) + nconv + npairs,
           'edit_pairs': npairs,
           'rule': 'random trees and generated documents (with corner constructs) compared with a reference computation written from the naming convention; edit pairs = delete/insert/swap/change-text away from the ancestor path of a uniquely numbered provision; non-trivial = serialisation longer than 80 characters, a converted document, or an edit pair',
           'samples': [{'tree': cs[0][0], 'prefix': cs[0][1]}]}
    return {'coverage': cov, 'failures': failures}


def replay(ctx, rep):
    c = rep.get('case') or {}
    if c.get('check') == 'tree':
        r = eidlib.real_rewrite(c['tree'], c['prefix'])
        v = convention_violation(r['tree'], c['prefix']) if 'tree' in r else 'raised'
    elif c.get('check') == 'doc':
        r = real.convert(c['text'], c['root'], prefix=c['prefix'])
        v = convention_violation(r['xml'], c['prefix']) if 'xml' in r else None
    elif c.get('check') == 'edit':
        a = eidlib.real_rewrite(eidlib.strip_all_eids(c['tree']), c['prefix'])
        b = eidlib.real_rewrite(eidlib.strip_all_eids(c['edited']), c['prefix'])
        ia = node_at(a['tree'], tuple(c['path']))[1].get('eId')
        ib = node_at(b['tree'], tuple(c['path2']))[1].get('eId')
        v = f'{ia!r} != {ib!r}' if ia != ib else None
    else:
        print('replay file names broken obligations only:', json.dumps(rep.get('broken_obligations'))[:1000])
        return 1
    print('REPRODUCED: ' + v if v else 'not reproduced')
    return 1 if v else 0
