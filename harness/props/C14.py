"""C14 — footnotes: every reference gets one note and no content vanishes."""
import json, copy
from .. import core, real, gen, e2e
from ..leandrv import Driver

MODULE = 'Bluebell.Props.C14'
THEOREMS = ['Bluebell.C14_no_placeholder_element', 'Bluebell.C14_unreferenced_kept', 'Bluebell.C14_missing_content_visible', 'Bluebell.C14_match_is_nearest_first', 'Bluebell.C14_examples', 'Bluebell.C14_resolve_ref_total', 'Bluebell.C14_markers_trimmed_alike']


def fn_doc(rng):
    """documents dense in footnote references and blocks: repeated, missing, surplus, out-of-order markers,
    in paragraphs, headings, list intros, table cells, attachments"""
    w = gen.Words(rng)
    marks = rng.choice([['1'], ['1', '2'], ['*', '1', 'a'], ['1', '1', '2'], ['1a', '1 a', '1'], ['ab', 'a b']])   # the last two: markers equal up to an inner blank

    def ref():
        return '{{FOOTNOTE %s}}' % rng.choice(marks)

    def block(ind, depth=0):
        p = '  ' * ind
        out = [p + 'FOOTNOTE ' + rng.choice(marks)]
        for _ in range(rng.randint(1, 2)):
            out.append(p + '  ' + w.some(2) + (ref() if depth < 1 and rng.random() < 0.15 else ''))
            if depth < 1 and rng.random() < 0.15:
                out += block(ind + 1, depth + 1)
        return out

    def para(ind):
        p = '  ' * ind
        out = [p + w.some(2) + (ref() if rng.random() < 0.6 else '') + (' ' + w.one() + ref() if rng.random() < 0.2 else '')]
        if rng.random() < 0.5:
            out += block(ind)
        return out

    lines = []
    for _ in range(rng.randint(1, 4)):
        k = rng.random()
        if k < 0.3:
            lines.append('SEC %d - %s' % (rng.randint(1, 9), w.some(1) + (ref() if rng.random() < 0.5 else '')))
            for _ in range(rng.randint(1, 3)):
                if rng.random() < 0.3:
                    lines += block(1)
                lines += para(1)
                if rng.random() < 0.2:
                    lines.append('  SUBSEC (a)')
                    lines += para(2)
        elif k < 0.45:
            lines += ['ITEMS', '  ' + w.some(1) + ref()] + (block(1) if rng.random() < 0.6 else []) + ['  ITEM 1'] + para(2) + (['  ' + w.some(1) + ref()] + block(1) if rng.random() < 0.4 else [])
        elif k < 0.6:
            lines += ['TABLE', '  TR', '    TC'] + para(3) + ['    TC'] + para(3)
        elif k < 0.7:
            lines += block(0)
        elif k < 0.78:
            # a list whose wrap-up line has a reference and its own block, after an item holding a stray block with the same marker
            m = rng.choice(marks)
            lines += ['ITEMS'] + (['  ' + w.some(1) + ref()] if rng.random() < 0.3 else []) + ['  ITEM 1', '    ' + w.some(2), '    FOOTNOTE ' + m, '      ' + w.some(1),
                                '  ' + w.some(1) + '{{FOOTNOTE %s}}' % m, '  FOOTNOTE ' + m, '    ' + w.some(1)]
        else:
            lines += para(0)
    if rng.random() < 0.4:
        lines.append(rng.choice(gen.ATTACH) + ' ' + w.some(1) + (ref() if rng.random() < 0.4 else ''))
        for _ in range(rng.randint(1, 2)):
            lines += para(1)
    return '\n'.join(lines) + '\n'


PY_WS = ['\xa0', '\u2003', '\x1c', '\x0b', '\x0c', '\r', '\x85', '\u2028', '\u3000', '\x1f']


def dressed_doc(rng):
    """A flat `doc` whose references and FOOTNOTE block lines carry white space other than the blank next to
    the marker (no-break space, carriage return, em space, separators: everything str.strip() removes), some
    with CRLF line endings. Returns (text, [(written marker, expected note text)]) computed from the spec:
    markers compare after trimming white space; each reference takes the first unused block with its marker
    in document order (all blocks are siblings in mainBody), else '(content missing)'."""
    w = gen.Words(rng)
    marks = rng.choice([['1'], ['1', '2'], ['*', 'a'], ['1', '1', '2']])

    def dress(m):
        k = rng.random()
        if k < 0.35:
            return m + rng.choice(PY_WS)
        if k < 0.5:
            return rng.choice(PY_WS) + m
        if k < 0.55:
            return rng.choice(PY_WS) + m + rng.choice(PY_WS)
        return m
    lines, refs, blocks = [], [], []
    for _ in range(rng.randint(1, 4)):
        k = rng.random()
        if k < 0.6:
            m = rng.choice(marks)
            lines.append(w.some(2) + '{{FOOTNOTE %s}}' % dress(m).replace('\r', '\xa0') + ' ' + w.one())
            refs.append(m)
        if k > 0.35:
            m = rng.choice(marks)
            c = w.one()
            lines += ['FOOTNOTE ' + dress(m), '  ' + c]
            blocks.append((m, c))
    if not lines:
        lines = [w.one()]
    used, want = set(), []
    for m in refs:
        hit = next((i for i, (bm, _) in enumerate(blocks) if bm == m and i not in used), None)
        if hit is None:
            want.append((m, '(content missing)'))
        else:
            used.add(hit)
            want.append((m, blocks[hit][1]))
    nl = '\r\n' if rng.random() < 0.25 else '\n'
    return nl.join(lines) + nl, want


def dressed_violation(text, want):
    r = real.convert(text, 'doc')
    if 'xml' not in r:
        return None
    got = [((n[1].get('marker') or ''), first_text(n).strip()) for n in _iter(r['xml']) if n[0] == 'authorialNote']
    if sorted(got) != sorted(want):
        return f'notes (marker, text) {sorted(got)[:4]}, but markers equal up to surrounding white space pair up as {sorted(want)[:4]}'
    return None


def pre_resolution_tree(text, root):
    """element tree before post-processing (the real item_to_xml output), canonical"""
    p = real.make_parser()
    tree = p.parse(text, root)
    d = tree.to_dict()
    x = p.generator.xml_from_tree(d)
    return real.canon(x, stub_meta=False)


def is_nested(tree):
    """a FOOTNOTE block inside a FOOTNOTE block, or a reference inside a block"""
    def rec(n, inside):
        if inside and (n[0] == 'displaced' or 'displaced' in n[1]):
            return True
        return any(rec(k, inside or n[0] == 'displaced') for k in n[2] if not isinstance(k, str))
    return rec(tree, False)


def expected_resolution(tree):
    """Independent computation from the statement for documents without nesting: for each reference in
    document order, the first unused block with the same marker, in document order, inside the closest
    enclosing element that contains one. Returns ([(ref path, block path | None)], [unused block paths])."""
    nodes = []

    def walk(n, anc, path):
        nodes.append((n, anc, path))
        for i, k in enumerate(n[2]):
            if not isinstance(k, str):
                walk(k, [n] + anc, path + (i,))
    walk(tree, [], ())
    path_of = {id(n): pa for n, _, pa in nodes}

    def blocks_in(a):
        out = []

        def rec(n):
            if n[0] == 'displaced':
                out.append(n)
            for k in n[2]:
                if not isinstance(k, str):
                    rec(k)
        rec(a)
        return out
    used = set()
    result = []
    for n, anc, path in nodes:
        if 'displaced' not in n[1]:
            continue
        found = None
        for a in anc:
            for b in blocks_in(a):
                if id(b) not in used and b[1].get('marker') == n[1].get('marker') and b[1].get('name') == n[1].get('displaced'):
                    found = b
                    break
            if found is not None:
                break
        if found is not None:
            used.add(id(found))
        result.append((path, path_of[id(found)] if found is not None else None))
    unused = [pa for n, _, pa in nodes if n[0] == 'displaced' and id(n) not in used]
    return result, unused


def first_text(n):
    out = []

    def rec(x):
        for k in x[2]:
            if isinstance(k, str):
                out.append(k)
            elif k[0] != 'authorialNote':
                rec(k)
    rec(n)
    return ''.join(out)


def violation(text, root):
    r = real.convert(text, root)
    if 'xml' not in r:
        return None  # totality is C01's subject
    out = r['xml']
    try:
        pre = pre_resolution_tree(text, root)
    except Exception as ex:  # noqa
        return f'pre-resolution tree could not be built: {type(ex).__name__}'
    # 1. no placeholder survives
    def scan(n):
        if n[0] == 'displaced':
            return 'a <displaced> element survives'
        if 'displaced' in n[1] and n[0] != 'meta':
            return 'a displaced attribute survives'
        for k in n[2]:
            if not isinstance(k, str):
                v = scan(k)
                if v:
                    return v
        return None
    v = scan(out)
    if v:
        return v
    nested = is_nested(pre)
    nrefs = sum(1 for _ in _iter(pre) if 'displaced' in _[1])
    nnotes = sum(1 for _ in _iter(out) if _[0] == 'authorialNote')
    if nrefs != nnotes:
        return f'{nrefs} references but {nnotes} authorial notes'
    # nothing vanishes: every text piece of the pre-resolution tree is still somewhere in the body
    have = set(_texts(out))
    for piece in _texts(pre):
        if piece not in have and piece.strip():
            return f'text {piece!r} vanished during footnote resolution'
    if nested:
        return None
    exp, unused = expected_resolution(pre)

    def node_at(t, path):
        for i in path:
            t = t[2][i]
        return t
    # 2. each reference is one note with the expected content
    notes = []

    def collect(n):
        if n[0] == 'authorialNote':
            notes.append(n)
        for k in n[2]:
            if not isinstance(k, str):
                collect(k)
    # notes in the order of the pre-resolution references: match by walking both trees is fragile after moves;
    # compare the multiset of (marker, content text) pairs and the count instead, plus order of the top-level ones
    collect([out[0], out[1], [k for k in out[2]]])
    want = []
    for rp, bp in exp:
        ref = node_at(pre, rp)
        if bp is None:
            want.append((ref[1].get('marker'), '(content missing)'))
        else:
            want.append((ref[1].get('marker'), first_text(node_at(pre, bp))))
    got = [(n[1].get('marker'), first_text(n)) for n in notes]
    if len(got) != len(want):
        return f'{len(want)} references but {len(got)} authorial notes'
    if sorted(got) != sorted(want):
        return f'notes (marker, own text) {sorted(got)[:4]} differ from the expected matching {sorted(want)[:4]}'
    # 3. unreferenced blocks stay as ordinary content: their marker line and text are still in the document
    body_text = []

    def alltext(n):
        if n[0] == 'meta':
            return
        for k in n[2]:
            if isinstance(k, str):
                body_text.append(k)
            else:
                alltext(k)
    alltext(out)
    joined = '\x00'.join(body_text)
    for bp in unused:
        b = node_at(pre, bp)
        line = 'FOOTNOTE ' + (b[1].get('marker') or '')
        if line not in body_text:
            return f'unreferenced block {line!r} is not kept as a paragraph'
        for piece in [k for k in _texts(b)]:
            if piece not in joined:
                return f'text {piece!r} of an unreferenced block vanished'
    return None


def _iter(n):
    yield n
    for k in n[2]:
        if not isinstance(k, str):
            yield from _iter(k)


def _texts(n):
    out = []
    for k in n[2]:
        if isinstance(k, str):
            out.append(k)
        else:
            out += _texts(k)
    return out


def run(ctx, info):
    rng = ctx.rng
    failures = []
    drv = Driver() if info['driver'] else None
    if not drv:
        ctx.oblige('model driver builds', 'tie', False, info.get('driver_log', '')[-800:])
    n = ctx.budget(500, 6000)
    cases = []
    for _ in range(n):
        root = rng.choice(['act', 'doc', 'statement', 'judgment'])
        cases.append((fn_doc(rng) if rng.random() < 0.8 else gen.doc_text(rng, root, corners=0.3), root, ''))
    cases += [(t, ['act', 'doc', 'statement', 'judgment'][i % 4], '') for i, (_, t, r) in enumerate(gen.fn_nest_docs())]   # every seed: nested blocks citing enclosing / own / sibling blocks
    e2e.tie_convert(ctx, drv, cases, failures)
    nb = 0
    for t, root, _ in cases:
        v = violation(t, root)
        if v:
            nb += 1
            if len(failures) < 25:
                small = core.shrink_text(t, lambda tt, root=root: violation(tt, root) is not None, 150) if nb <= 2 else t
                failures.append({'kind': 'oracle', 'finding': None, 'summary': f'{small[:120]!r} ({root}): {violation(small, root) or v}',
                                 'case': {'text': small, 'root': root}})
    ctx.oblige('oracle: references resolved as the statement prescribes (independent matching on the pre-resolution tree)', 'oracle', nb == 0,
               f'{nb} violations in {len(cases)} documents')
    dn = ctx.budget(200, 2500)
    dressed = [dressed_doc(rng) for _ in range(dn)]
    e2e.tie_convert(ctx, drv, [(t, 'doc', '') for t, _ in dressed], failures, label='tie convert on documents whose footnote markers carry surrounding white space / CRLF line endings')
    nd = 0
    for t, want in dressed:
        v = dressed_violation(t, want)
        if v:
            nd += 1
            if len(failures) < 25:
                failures.append({'kind': 'oracle', 'finding': None, 'summary': f'{t[:120]!r} (doc): {v}', 'case': {'text': t, 'root': 'doc', 'want': want}})
    ctx.oblige('oracle: a marker written with surrounding white space (no-break space, CR, separators) still pairs reference and block', 'oracle', nd == 0,
               f'{nd} violations in {len(dressed)} documents')
    cov = {'evaluations': len(cases) + len(dressed), 'distinct_nontrivial': len({t for t, r, p in cases if 'FOOTNOTE' in t}),
           'rule': 'footnote-dense documents (repeated, missing, surplus, out-of-order markers; references in paragraphs, headings, list intros, table cells, attachments; nested blocks) and generated documents; non-trivial = distinct text containing a footnote construct',
           'samples': [{'text': cases[0][0][:400], 'root': cases[0][1]}]}
    return {'coverage': cov, 'failures': failures}


def replay(ctx, rep):
    c = rep.get('case') or {}
    if 'text' not in c:
        print('replay file names broken obligations only:', json.dumps(rep.get('broken_obligations'))[:1000])
        return 1
    v = dressed_violation(c['text'], [tuple(x) for x in c['want']]) if 'want' in c else violation(c['text'], c['root'])
    print('REPRODUCED: ' + v if v else 'not reproduced')
    return 1 if v else 0
