"""C07 — every identifiable element gets exactly one eId, unique in the document."""
import json, re
from .. import core, real, gen, eidlib
from ..leandrv import Driver

MODULE = 'Bluebell.Props.C07'
THEOREMS = ['Bluebell.C07_ensureUnique_fresh', 'Bluebell.C07_unique', 'Bluebell.C07_unique_all', 'Bluebell.C07_presence', 'Bluebell.C07_format', 'Bluebell.C07_cleanNum_no_whitespace', 'Bluebell.C07_whitespace_class_is_python_s', 'Bluebell.C07_cleanNum_no_python_whitespace', 'Bluebell.C07_counterexample_exempt_keeps_eid', 'Bluebell.C07_tables']
WS = re.compile(r'\s')


def eid_violation(tree, prefix, parser_output=True):
    """The statement of C07 on a canonical tree. Returns None or (description, finding id | None)."""
    seen = {}
    for node, in_meta, path in eidlib.iter_elems(tree):
        tag, attrs, kids = node
        if in_meta or tag == 'meta':
            continue
        e = attrs.get('eId')
        if tag in eidlib.EXEMPT or tag in eidlib.PASS:
            if e is not None and parser_output:
                return (f'<{tag}> must not carry an eId but has {e!r}', 'F12')
            if e is not None:
                seen.setdefault(e, []).append(tag)
            continue
        if e is None:
            return (f'<{tag}> at {path} has no eId', None)
        if e == '':
            return (f'<{tag}> at {path} has an empty eId', None)
        if WS.search(e) and not WS.search(prefix):
            return (f'eId {e!r} contains whitespace', None)
        if prefix and not e.startswith(prefix):
            return (f'eId {e!r} does not start with the prefix {prefix!r}', None)
        seen.setdefault(e, []).append(tag)
    for e, tags in seen.items():
        if len(tags) > 1:
            fid = 'F12' if any(t in eidlib.EXEMPT or t in eidlib.PASS for t in tags) else None
            return (f'eId {e!r} is shared by {len(tags)} elements ({", ".join(tags[:4])})', fid)
    return None


def doc_cases(ctx, n):
    rng = ctx.rng
    out = []
    for i in range(n):
        root = rng.choice(gen.ROOTS7)
        r = rng.random()
        if r < 0.55:
            t = gen.doc_text(rng, root)
        elif r < 0.8:
            # collision-heavy: few keywords, nums from the adversarial pool
            lines = []
            for _ in range(rng.randint(2, 9)):
                ind = '  ' * rng.choice([0, 0, 1, 1, 2])
                kw = rng.choice(['SEC', 'PARA', 'PART', 'LIST', 'BLOCKLIST', 'ITEMS', 'SUBSEC', 'CROSSHEADING', 'DEBATESECTION', 'SPEECH', 'P', 'text'])
                num = rng.choice(eidlib.NUMS + ['', '', '1', '1', '1.', '(a)', '(A)'])
                if kw in ('BLOCKLIST', 'ITEMS'):
                    lines += [ind + kw, ind + '  ITEM ' + num, ind + '    x']
                elif kw == 'SPEECH':
                    lines += [ind + kw + ' ' + num, ind + '  FROM me', ind + '  said']
                elif kw in ('P', 'text'):
                    lines.append(ind + 'some text')
                else:
                    lines.append(ind + kw + ' ' + num.replace('\n', ' ').replace('\t', ' '))
            t = '\n'.join(lines) + '\n'
        else:
            t = gen.noise_text(rng)
        out.append((t, root, rng.choice(['', '', 'att_1', 'sec_2__subsec_a'])))
    return out


def run(ctx, info):
    rng = ctx.rng
    failures = []
    drv = Driver() if info['driver'] else None
    if not drv:
        ctx.oblige('model driver builds', 'tie', False, info.get('driver_log', '')[-800:])
    # ---- arbitrary trees through the rewriter
    nt = ctx.budget(2500, 40000)
    cs = [(eidlib.rand_tree(rng), rng.choice(['', '', 'pfx', 'att_1', 'sec_1__subsec_2'])) for _ in range(nt)]
    reals = [eidlib.real_rewrite(t, p) for t, p in cs]
    nbad = 0
    known = {}
    for (t, p), r in zip(cs, reals):
        if 'tree' not in r:
            v = (f"rewrite_all_eids raised {r.get('exc')}", None)
        else:
            v = eid_violation(r['tree'], p, parser_output=False)
        if v:
            if v[1]:
                known[v[1]] = known.get(v[1], 0) + 1
            else:
                nbad += 1
            if len(failures) < 20 and (v[1] is None or known.get(v[1]) == 1):
                failures.append({'kind': 'oracle', 'finding': v[1], 'summary': f'rewrite_all_eids(prefix={p!r}): {v[0]}',
                                 'case': {'check': 'tree', 'tree': t, 'prefix': p}})
    ctx.oblige('oracle: eId presence/uniqueness/format after rewrite_all_eids on arbitrary trees', 'oracle', nbad == 0, f'{nbad} violations in {nt} trees')
    if drv:
        ms = drv.batch_parallel([eidlib.model_req(t, p) for t, p in cs], jobs=12)
        bad = []
        for (t, p), r, m in zip(cs, reals, ms):
            m = eidlib.norm_model(m)
            if r.get('tree') != m['tree'] or r.get('mapping') != m['mapping']:
                bad.append({'tree': t, 'prefix': p, 'real': r, 'model': m})
        ctx.oblige('tie eids: IdGenerator.rewrite_all_eids = model rewriteAll (tree and mapping)', 'tie', not bad,
                   f'{len(bad)} disagreements; first: {json.dumps(bad[0])[:700]}' if bad else f'{nt} trees agree')
        for b in bad[:3]:
            failures.append({'kind': 'tie', 'summary': 'eids disagreement', 'case': b})
        # ---- clean_num over code points
        from bluebell.xml import IdGenerator
        g = IdGenerator()
        hi = ctx.budget(0x3100, 0x110000)
        cps = [cp for cp in range(hi) if not (0xD800 <= cp <= 0xDFFF)]
        sample = [chr(cp) for cp in cps] + ['a' + chr(cp) + 'b' for cp in cps if cp < 0x3100]
        mm = drv.batch_parallel([{'op': 'cleannum', 'num': s} for s in sample], jobs=12)
        badn = [(s, g.clean_num(s), m.get('out')) for s, m in zip(sample, mm) if g.clean_num(s) != m.get('out')]
        ctx.oblige('tie clean_num: every code point alone and embedded', 'tie', not badn,
                   f'{len(badn)} disagreements; first: {badn[0]!r}' if badn else f'{len(sample)} strings agree')
        for b in badn[:3]:
            failures.append({'kind': 'tie', 'summary': 'clean_num disagreement', 'case': {'num': b[0], 'real': b[1], 'model': b[2]}})
    # ---- single code points as a num, end to end on the rewriter (oracle)
    nsc = 0
    for cp in list(range(0x20, 0x250)) + list(range(0x2000, 0x2070)) + list(range(0x2e00, 0x2e80)) + [0x3000, 0x1F600]:
        for tag in ('section', 'p'):
            t = ['body', {}, [[tag, {}, [['num', {}, [chr(cp)]]]], [tag, {}, [['num', {}, [chr(cp)]]]], [tag, {}, []]]]
            r = eidlib.real_rewrite(t, '')
            v = eid_violation(r['tree'], '', parser_output=False) if 'tree' in r else ('raised', None)
            if v:
                nsc += 1
                if len(failures) < 25:
                    failures.append({'kind': 'oracle', 'finding': v[1], 'summary': f'num {chr(cp)!r} (U+{cp:04X}) on <{tag}>: {v[0]}', 'case': {'check': 'tree', 'tree': t, 'prefix': ''}})
    # every white-space character *inside* a num (between two letters), where the leading/trailing strip does not reach it
    from lxml import etree as _et
    for cp in range(0x110000):
        ch = chr(cp)
        if not (WS.match(ch) or ch.isspace()):
            continue
        try:
            _et.Element('a').text = ch
        except ValueError:
            continue   # not an XML character: cannot occur in a document
        for num in ('1' + ch + 'bis', 'a' + ch + ch + 'b', '(' + ch + 'x' + ch + ')'):
            t = ['body', {}, [['section', {}, [['num', {}, [num]], ['paragraph', {}, [['num', {}, [num]]]]]]]]
            r = eidlib.real_rewrite(t, 'p')
            v = eid_violation(r['tree'], 'p', parser_output=False) if 'tree' in r else ('raised', None)
            if v:
                nsc += 1
                if len(failures) < 25:
                    failures.append({'kind': 'oracle', 'finding': v[1], 'summary': f'num {num!r} (white space U+{cp:04X} inside): {v[0]}', 'case': {'check': 'tree', 'tree': t, 'prefix': 'p'}})
    ctx.oblige('oracle: every single code point of the punctuation/space blocks as a num; every white-space character inside a num', 'oracle', nsc == 0, f'{nsc} violations')
    # ---- parser outputs
    nd = ctx.budget(250, 3000)
    docs = doc_cases(ctx, nd)
    npb = 0
    nconv = 0
    for t, root, p in docs:
        r = real.convert(t, root, prefix=p)
        if 'xml' not in r:
            continue
        nconv += 1
        v = eid_violation(r['xml'], p, parser_output=True)
        if v:
            if v[1]:
                known[v[1]] = known.get(v[1], 0) + 1
            else:
                npb += 1
            if len(failures) < 30 and (v[1] is None or known.get(v[1]) == 1):
                def pred(tt, root=root, p=p):
                    rr = real.convert(tt, root, prefix=p)
                    vv = eid_violation(rr['xml'], p) if 'xml' in rr else None
                    return vv is not None and vv[1] is None
                small = core.shrink_text(t, pred, 150) if v[1] is None and npb <= 2 else t
                failures.append({'kind': 'oracle', 'finding': v[1], 'summary': f'parse_to_xml({small[:100]!r}, {root}, prefix={p!r}): {v[0]}',
                                 'case': {'check': 'doc', 'text': small, 'root': root, 'prefix': p}})
    ctx.oblige('oracle: eIds of parser outputs', 'oracle', npb == 0, f'{npb} violations in {nconv} converted documents')
    cov = {'evaluations': nt + nconv, 'distinct_nontrivial': len({json.dumps(t) for t, p in cs if len(json.dumps(t)) > 80}) + nconv,
           'known_finding_classes_hit': known,
           'rule': 'random AKN-vocabulary trees with collision-heavy nums and arbitrary pre-existing eIds through rewrite_all_eids; clean_num over code points; generated/collision-heavy/noise documents through parse_to_xml with and without prefix; non-trivial = tree serialisation longer than 80 characters or a converted document',
           'samples': [{'tree': cs[0][0], 'prefix': cs[0][1]}, {'text': docs[0][0][:300], 'root': docs[0][1]}]}
    return {'coverage': cov, 'failures': failures, 'assumptions': ['trees are in the AKN namespace (rewrite_eid reads element.nsmap[None])']}


def replay(ctx, rep):
    c = rep.get('case') or {}
    if c.get('check') == 'tree':
        r = eidlib.real_rewrite(c['tree'], c['prefix'])
        v = eid_violation(r['tree'], c['prefix'], parser_output=False) if 'tree' in r else ('raised', None)
    elif c.get('check') == 'doc':
        r = real.convert(c['text'], c['root'], prefix=c['prefix'])
        v = eid_violation(r['xml'], c['prefix']) if 'xml' in r else None
    else:
        print('replay file names broken obligations only:', json.dumps(rep.get('broken_obligations'))[:1000])
        return 1
    print('REPRODUCED: ' + v[0] if v else 'not reproduced')
    return 1 if v else 0


def witness_fails(ctx, finding):
    w = finding['witness']
    r = real.convert(w['text'], w['root'], prefix=w.get('prefix', ''))
    v = eid_violation(r['xml'], w.get('prefix', '')) if 'xml' in r else None
    return v is not None and v[1] == finding['id']
