"""C15 — attachments are separately identified, correctly nested documents."""
import json
from .. import core, real, gen, e2e
from ..leandrv import Driver

MODULE = 'Bluebell.Props.C15'
THEOREMS = ['Bluebell.C15_name_format', 'Bluebell.C15_counter_advances', 'Bluebell.C15_uris_consistent', 'Bluebell.C15_title_is_heading', 'Bluebell.C15_examples']
URIS = ['/akn/za/act/2009/10', '/akn/za-cpt/act/by-law/2010/public-places', '/akn/na/judgment/nahc/2020/5', '/akn/za/act/2009/10/!main',
        '/akn/ug/doc/report/2021-03-04/annual', '/akn/za-cpt/act/by-law/2014/liquor/afr@2016-03-04', '/akn/za/act/2009/10/eng@2012-06-01',
        '/akn/ke/act/ln/2017/3/swa', '/akn/za/act/2009/10/fra@', '/akn/za/act/2009/10/eng:2020-01-01', '/akn/za/act/2009/10/eng@2012-06-01/!main']


def forest_text(rng, depth=0, ind=0, w=None):
    w = w or gen.Words(rng)
    lines = []
    for _ in range(rng.randint(1, 3) if depth == 0 else rng.randint(1, 2)):
        p = '  ' * ind
        kw = rng.choice(gen.ATTACH)
        head = ''
        r = rng.random()
        if r < 0.3:
            head = ' ' + w.some(2)
        elif r < 0.55:
            head = ' ' + rng.choice(['**%s** %s', '//%s// and **%s**', '{{^%s}}st %s', '%s {{em %s}}', '{{FOOTNOTE 1}} %s %s', '{{IMG x.png %s}} %s']) % (w.one(), w.one())
        elif r < 0.6:
            head = ' '
        lines.append(p + kw + rng.choice(['', '', '.cls', '{class x}']) + head)
        if rng.random() < 0.25:
            lines.append(p + '  SUBHEADING ' + w.some(2))
        indent_body = rng.random() < 0.8
        bi = ind + 1 if indent_body else ind
        for _ in range(rng.randint(0, 2)):
            k = rng.random()
            if k < 0.4:
                lines.append('  ' * bi + w.some(2))
            elif k < 0.7:
                lines += ['  ' * bi + rng.choice(['SEC', 'PARA', 'PART']) + ' %d.' % rng.randint(1, 3), '  ' * (bi + 1) + w.some(2)]
            else:
                lines.append('  ' * bi + 'CROSSHEADING ' + w.some(1))
        if depth < 3 and indent_body and rng.random() < 0.45:
            lines += forest_text(rng, depth + 1, ind + 1, w)
    return lines


def doc_with_attachments(rng, root):
    w = gen.Words(rng)
    pre = []
    if root == 'judgment':
        pre = ['INTRODUCTION', '  ' + w.some(2)] if rng.random() < 0.5 else []
    elif root == 'debate':
        pre = ['DEBATESECTION', '  ' + w.some(2)] if rng.random() < 0.5 else []
    else:
        pre = [w.some(2)] if rng.random() < 0.6 else []
    return '\n'.join(pre + forest_text(rng, w=w)) + '\n'


def attachments_of(node):
    """direct attachment children (through an `attachments` wrapper) of a document element"""
    out = []
    for k in node[2]:
        if not isinstance(k, str) and k[0] == 'attachments':
            out += [a for a in k[2] if not isinstance(a, str) and a[0] == 'attachment']
    return out


def itertext(n):
    return ''.join(k if isinstance(k, str) else itertext(k) for k in n[2])


def violation(tree, uris, prefix):
    seen = set()

    def check_doc(docel, parent_path, parent_eid):
        counts = {}
        for idx, att in enumerate(attachments_of(docel)):
            doc = next((k for k in att[2] if not isinstance(k, str) and k[0] == 'doc'), None)
            if doc is None:
                return 'attachment without a doc'
            kw = doc[1].get('name')
            if kw not in ('attachment', 'appendix', 'schedule', 'annexure'):
                return f'doc name {kw!r} is not an attachment keyword'
            counts[kw] = counts.get(kw, 0) + 1
            comp = (parent_path + '/' if parent_path else '') + f'{kw}_{counts[kw]}'
            meta = next((k for k in doc[2] if not isinstance(k, str) and k[0] == 'meta'), None)
            if meta is None:
                return f'attachment {comp} has no meta'
            m = meta[1]
            if m['this'] != uris['workBase'] + '/!' + comp:
                return f"work FRBRthis {m['this']!r}, expected {uris['workBase'] + '/!' + comp!r}"
            if m['expr'] != uris['exprBase'] + '/!' + comp or m['manif'] != uris['manifBase'] + '/!' + comp:
                return f"expression/manifestation FRBRthis {m['expr']!r} / {m['manif']!r} do not use component {comp!r}"
            if comp in seen:
                return f'component {comp!r} used twice'
            seen.add(comp)
            heading = next((k for k in att[2] if not isinstance(k, str) and k[0] == 'heading'), None)
            want = itertext(heading) if heading is not None else 'Untitled'
            if m['alias'] != want:
                return f"title alias {m['alias']!r}, expected {want!r}"
            eid = att[1].get('eId')
            want_eid = (parent_eid + '__' if parent_eid else '') + f'att_{idx + 1}'
            if eid != want_eid:
                return f'attachment eId {eid!r}, expected {want_eid!r}'

            def eids_under(n, out):
                for k in n[2]:
                    if not isinstance(k, str) and k[0] != 'meta':
                        if 'eId' in k[1]:
                            out.append(k[1]['eId'])
                        eids_under(k, out)
                return out
            for e in eids_under(att, []):
                if not e.startswith(eid + '__'):
                    return f'eId {e!r} inside {eid!r} does not live under it'
            v = check_doc(doc, comp, eid)
            if v:
                return v
        return None
    docel = tree[2][0] if tree[0] == 'akomaNtoso' else tree
    return check_doc(docel, '', prefix)


def run(ctx, info):
    rng = ctx.rng
    failures = []
    drv = Driver() if info['driver'] else None
    if not drv:
        ctx.oblige('model driver builds', 'tie', False, info.get('driver_log', '')[-800:])
    n = ctx.budget(400, 5000)
    cases = []
    for _ in range(n):
        root = rng.choice(gen.ROOTS7)
        cases.append((doc_with_attachments(rng, root) if rng.random() < 0.85 else gen.doc_text(rng, root), root, rng.choice(['', '', 'pfx']), rng.choice(URIS)))
    nb = natt = 0
    bad = []
    reqs = [real.model_convert_req(t, r, p, u) for t, r, p, u in cases] if drv else []
    ms = drv.batch_parallel(reqs, jobs=12) if drv else [None] * len(cases)
    for (t, root, p, u), m in zip(cases, ms):
        res = real.strip_etree(real.convert(t, root, prefix=p, uri=u))
        if m is not None and not e2e.same_result(res, m):
            bad.append({'text': t, 'root': root, 'prefix': p, 'uri': u, 'real': e2e._short(res), 'model': e2e._short(m)})
        if 'xml' not in res:
            continue
        natt += json.dumps(res['xml']).count('"attachment"')
        v = violation(res['xml'], real.uris_for(u), p)
        if v:
            nb += 1
            if len(failures) < 20:
                def pred(tt, root=root, p=p, u=u):
                    rr = real.convert(tt, root, prefix=p, uri=u)
                    return 'xml' in rr and violation(rr['xml'], real.uris_for(u), p) is not None
                small = core.shrink_text(t, pred, 150) if nb <= 2 else t
                failures.append({'kind': 'oracle', 'finding': None, 'summary': f'{small[:100]!r} ({root}, {u}): {v}',
                                 'case': {'text': small, 'root': root, 'prefix': p, 'uri': u}})
    if drv:
        ctx.oblige('tie convert (varied FRBR URIs): real parse_to_xml = model convert', 'tie', not bad,
                   f'{len(bad)} disagreements; first: {json.dumps(bad[0])[:800]}' if bad else f'{len(cases)} cases agree')
        for b in bad[:3]:
            failures.append({'kind': 'tie', 'summary': 'convert disagreement', 'case': b})
    ctx.oblige('oracle: component names, URIs, title aliases and eId prefixes of every attachment', 'oracle', nb == 0, f'{nb} violations; {natt} attachment elements seen')
    cov = {'evaluations': len(cases), 'distinct_nontrivial': len({t for t, *_ in cases if any(k in t for k in gen.ATTACH)}), 'attachments_seen': natt,
           'rule': 'attachment forests: four keywords, nested up to depth 4, with/without headings (plain, starting with inline markup, footnote, image), bodies indented or not, seven roots, five FRBR URIs, with/without eId prefix; non-trivial = distinct text containing an attachment keyword',
           'samples': [{'text': cases[0][0][:400], 'root': cases[0][1], 'uri': cases[0][3]}]}
    return {'coverage': cov, 'failures': failures, 'assumptions': ["cobalt's FrbrUri URI functions are parameters of the model"]}


def replay(ctx, rep):
    c = rep.get('case') or {}
    if 'text' not in c:
        print('replay file names broken obligations only:', json.dumps(rep.get('broken_obligations'))[:1000])
        return 1
    r = real.convert(c['text'], c['root'], prefix=c.get('prefix', ''), uri=c.get('uri', real.DEFAULT_URI))
    v = violation(r['xml'], real.uris_for(c.get('uri', real.DEFAULT_URI)), c.get('prefix', '')) if 'xml' in r else 'raised'
    print('REPRODUCED: ' + v if v else 'not reproduced')
    return 1 if v else 0
