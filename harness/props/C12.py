"""C12 — nesting follows indentation order; layout noise is irrelevant."""
import json, itertools, re
from .. import core, real, gen
from ..leandrv import Driver
from . import C11

MODULE = 'Bluebell.Props.C12'
THEOREMS = ['Bluebell.C12_more_indented_opens_one', 'Bluebell.C12_same_indent_same_block',
            'Bluebell.C12_less_indented_not_deeper', 'Bluebell.C12_depth_chain', 'Bluebell.C12_top_is_indent',
            'Bluebell.C12_consistent_depth_eq_level', 'Bluebell.C12_scale_invariant',
            'Bluebell.C12_tab_is_spaces', 'Bluebell.C12_blank_around',
            'Bluebell.C12_counterexample_first_line', 'Bluebell.C12_counterexample_between_levels',
            'Bluebell.C12_trailing_spaces', 'Bluebell.C12_trailing_spaces_same_document',
            'Bluebell.C12_newlines_are_blank_lines', 'Bluebell.C12_blank_lines_between', 'Bluebell.C12_extra_newlines_between']
IND, DED = '\x0e', '\x0f'


def depth_profile(out):
    """depth of every non-blank content line of a pre_parse result"""
    d = 0
    res = []
    for l in out.split('\n'):
        if l == IND:
            d += 1
        elif l == DED:
            d -= 1
        elif l != '':
            res.append(d)
    return res


def true_indents(text, n):
    """true indentation (after tab expansion) of the non-blank lines pre_parse will see"""
    src = text.replace('\t', ' ' * n)
    out = []
    for l in src.split('\n'):
        if l.strip(' ') == '' or l.strip() == '':
            # lines of other whitespace only are not blank for the stack; but stripped at the edges. keep simple:
            if l.strip(' ') == '':
                continue
        out.append(len(l) - len(l.lstrip(' ')))
    return out


def depth_violation(text, n, out, trace):
    """Check the three depth clauses on consecutive non-blank lines. Returns None or (description, finding-id|None).
    `trace` (from the model, per line: indent as seen, depth, stack top) is used only to classify known findings."""
    if IND in text or DED in text:
        return None
    src = text.replace('\t', ' ' * n).strip()
    if not src:
        return None
    lines = [l for l in src.split('\n') if l.strip(' ') != '']
    # the text was stripped, so the first line lost its own indentation: recover it from the raw text
    raw = text.replace('\t', ' ' * n)
    first_raw = next((l for l in raw.split('\n') if l.strip() != ''), '')
    first_true = len(first_raw) - len(first_raw.lstrip(' ')) if first_raw[:1] == ' ' or first_raw[:1] == '' else 0
    ind = [len(l) - len(l.lstrip(' ')) for l in lines]
    # leading whitespace other than spaces on the first raw line is stripped too; only count spaces
    lead = len(first_raw) - len(first_raw.lstrip())
    first_true = len(first_raw[:lead]) if set(first_raw[:lead]) <= {' '} else None
    dep = depth_profile(out)
    if len(dep) != len(lines):
        return (f'{len(lines)} non-blank lines but {len(dep)} content lines in the result', None)
    for i in range(len(lines) - 1):
        a = ind[i] if i > 0 else (first_true if first_true is not None else 0)
        b = ind[i + 1]
        ok = (dep[i + 1] == dep[i] + 1) if b > a else (dep[i + 1] == dep[i]) if b == a else (dep[i + 1] <= dep[i])
        if not ok:
            fid = None
            if i == 0 and first_true:
                fid = 'F13'
            elif trace and i < len(trace) and trace[i][2] != trace[i][0]:
                fid = 'F20'
            rel = 'more' if b > a else 'equally' if b == a else 'less'
            return (f'line {i + 1} ({lines[i + 1][:30]!r}, indent {b}) is {rel} indented than line {i} (indent {a}) but depth goes {dep[i]} -> {dep[i + 1]}', fid)
    return None


# ---------------------------------------------------------------- layout transformations
def t_trailing(rng, text):
    return '\n'.join(l + rng.choice(['', ' ', '  ', '   ']) for l in text.split('\n'))


def t_tabs(rng, text):
    out = []
    for l in text.split('\n'):
        k = len(l) - len(l.lstrip(' '))
        pairs = k // 2
        use = rng.randint(0, pairs) if rng.random() < 0.5 else pairs
        out.append('\t' * use + ' ' * (k - 2 * use) + l[k:])
    return '\n'.join(out)


def t_scale(rng, text):
    k = rng.choice([2, 3, 4])
    out = []
    for l in text.split('\n'):
        n = len(l) - len(l.lstrip(' '))
        out.append(' ' * (n * k) + l[n:])
    return '\n'.join(out)


def t_around(rng, text):
    return rng.choice(['\n', '\n\n', ' \n', '\n  \n', '']) + text + rng.choice(['\n', '\n\n\n', '\n   \n', ' '])


_BR = re.compile(r'\\.|\{\{|\}\}', re.S)


def t_between(rng, text):
    """blank lines after lines at whose end no brace inline can still be open (a remark may span lines, and a line
    break inside a remark is content); texts without a remark opener get them anywhere"""
    has_remark = '{{*' in text
    out = []
    depth = 0
    for l in text.split('\n'):
        out.append(l)
        for m in _BR.finditer(l + '\n'):
            if m.group(0) == '{{':
                depth += 1
            elif m.group(0) == '}}':
                depth = max(0, depth - 1)
        if rng.random() < 0.4 and (depth == 0 or not has_remark):
            out.extend([''] * rng.randint(1, 2))
    return '\n'.join(out)


TRANSFORMS = {'trailing-spaces': t_trailing, 'tab-for-two-spaces': t_tabs, 'scale-indentation': t_scale,
              'blank-lines-around': t_around, 'blank-lines-between': t_between}


def exhaustive_texts(L, W):
    for ln in range(2, L + 1):
        for seq in itertools.product(range(W + 1), repeat=ln):
            yield '\n'.join(' ' * w + chr(97 + i) for i, w in enumerate(seq)) + '\n'


def consistent_text(rng):
    """consistently indented text: indentation always a multiple of the size, going up one level at a time"""
    n = rng.choice([1, 2, 3, 4])
    lvl = 0
    lines, lvls = [], []
    for i in range(rng.randint(1, 12)):
        lvl = rng.randint(0, lvl + 1) if i else 0
        lines.append(' ' * (n * lvl) + 'w%d' % i)
        lvls.append(lvl)
        if rng.random() < 0.2:
            lines.append('')
    return '\n'.join(lines) + '\n', n, lvls


def run(ctx, info):
    rng = ctx.rng
    failures = []
    drv = Driver() if info['driver'] else None
    if not drv:
        ctx.oblige('model driver builds', 'tie', False, info.get('driver_log', '')[-800:])
    # ---------------- depth clauses: exhaustive small + random
    L, W = ctx.budget((5, 4), (6, 5))
    cs = [(t, 2) for t in exhaustive_texts(L, W)]
    nex = len(cs)
    for _ in range(ctx.budget(2000, 30000)):
        cs.append((C11.random_case(rng), rng.choice([1, 2, 3, 4])))
    reals = [C11.real_pre_parse(t, n) for t, n in cs]
    traces = [None] * len(cs)
    if drv:
        mt = drv.batch_parallel([{'op': 'pptrace', 'n': n, 'text': t} for t, n in cs], jobs=12)
        traces = [m.get('trace') for m in mt]
        mo = drv.batch_parallel([{'op': 'preparse', 'n': n, 'text': t} for t, n in cs], jobs=12)
        bad = [{'text': t, 'indent_size': n, 'real': r, 'model': m} for (t, n), r, m in zip(cs, reals, mo) if r.get('out') != m.get('out')]
        ctx.oblige('tie preparse: real pre_parse = model preParse', 'tie', not bad,
                   f'{len(bad)} disagreements; first: {json.dumps(bad[0])[:500]}' if bad else f'{len(cs)} cases agree')
        for b in bad[:5]:
            failures.append({'kind': 'tie', 'summary': 'preparse disagreement', 'case': b})
    nd = 0
    known_hits = {}
    for (t, n), r, tr in zip(cs, reals, traces):
        if 'out' not in r:
            continue
        v = depth_violation(t, n, r['out'], tr)
        if v:
            desc, fid = v
            if fid:
                known_hits[fid] = known_hits.get(fid, 0) + 1
            else:
                nd += 1
            if fid is None or known_hits.get(fid) == 1:
                if len(failures) < 30:
                    failures.append({'kind': 'oracle', 'finding': fid, 'summary': f'pre_parse({t!r}, indent_size={n}): {desc}',
                                     'case': {'check': 'depth', 'text': t, 'indent_size': n, 'out': r['out']}})
    ctx.oblige('oracle: depth clauses on real pre_parse output (outside listed findings)', 'oracle', nd == 0,
               f'{nd} unlisted violations; listed classes hit: {known_hits}')
    # ---------------- consistently indented text: depth = level
    nc = 0
    ncons = ctx.budget(500, 5000)
    for _ in range(ncons):
        t, n, lvls = consistent_text(rng)
        r = C11.real_pre_parse(t, n)
        if depth_profile(r.get('out', '')) != lvls:
            nc += 1
            if len(failures) < 30:
                failures.append({'kind': 'oracle', 'finding': None, 'summary': f'consistently indented text {t!r} (size {n}): depths {depth_profile(r.get("out", ""))} != levels {lvls}',
                                 'case': {'check': 'consistent', 'text': t, 'indent_size': n, 'levels': lvls}})
    ctx.oblige('oracle: depth = level for consistently indented text', 'oracle', nc == 0, f'{nc} violations in {ncons}')
    # ---------------- layout transformations end to end
    nm = ctx.budget(250, 3000)
    nl = 0
    per = {k: 0 for k in TRANSFORMS}
    samples = []
    for i in range(nm):
        root = rng.choice(gen.ROOTS7)
        text = gen.doc_text(rng, root, corners=rng.choice([0.0, 0.3])) if rng.random() < 0.6 else gen.noise_text(rng, tabs=False)
        base = real.strip_etree(real.convert(text, root))
        for name, fn in TRANSFORMS.items():
            t2 = fn(rng, text)
            if t2 is None or t2 == text:
                continue
            per[name] += 1
            other = real.strip_etree(real.convert(t2, root))
            same = (base.get('xml') == other.get('xml')) and (base.get('exc') == other.get('exc'))
            if not same:
                nl += 1
                if len(failures) < 40:
                    def pred(t, name=name, fn=fn, root=root):
                        import random
                        rr = random.Random(1)
                        a = real.strip_etree(real.convert(t, root))
                        tt = fn(rr, t)
                        if tt is None:
                            return False
                        b = real.strip_etree(real.convert(tt, root))
                        return not ((a.get('xml') == b.get('xml')) and (a.get('exc') == b.get('exc')))
                    small = core.shrink_text(text, pred, 150) if nl <= 2 else text
                    failures.append({'kind': 'oracle', 'finding': None,
                                     'summary': f'{name} changes the document for root {root}: {small[:120]!r}',
                                     'case': {'check': 'layout', 'transform': name, 'root': root, 'text': small, 'original_text': text, 'transformed': t2}})
        if i < 2:
            samples.append({'root': root, 'text': text[:300]})
    ctx.oblige('oracle: parse_to_xml unchanged by the five layout transformations', 'oracle', nl == 0, f'{nl} differences; applied {per}')
    cov = {'evaluations': len(cs) + ncons + sum(per.values()), 'exhaustive_indent_sequences': nex,
           'distinct_nontrivial': len({t for (t, n), r in zip(cs, reals) if IND in r.get('out', '')}) + sum(per.values()),
           'transform_applications': per, 'known_finding_classes_hit': known_hits,
           'rule': 'depth clauses: all indentation sequences up to the bound plus random texts (C11 generators), non-trivial = output contains a marker; consistent texts: random level walks; layout: generated documents and noise x five transformations, each application counted',
           'samples': samples + [{'text': cs[nex][0][:200], 'indent_size': cs[nex][1]}]}
    return {'coverage': cov, 'failures': failures,
            'assumptions': ['blank lines between lines are only inserted into texts without a remark opener "{{*"']}


def replay(ctx, rep):
    c = rep.get('case') or {}
    if 'text' not in c:
        print('replay file names broken obligations only:', json.dumps(rep.get('broken_obligations'))[:1000])
        return 1
    if c.get('check') == 'layout':
        import random
        fn = TRANSFORMS[c['transform']]
        a = real.strip_etree(real.convert(c['text'], c['root']))
        t2 = c.get('transformed') if c.get('original_text') == c['text'] else fn(random.Random(1), c['text'])
        b = real.strip_etree(real.convert(t2, c['root']))
        same = a.get('xml') == b.get('xml') and a.get('exc') == b.get('exc')
        print('REPRODUCED' if not same else 'not reproduced')
        return 0 if same else 1
    n = c.get('indent_size', 2)
    r = C11.real_pre_parse(c['text'], n)
    if c.get('check') == 'consistent':
        bad = depth_profile(r.get('out', '')) != c['levels']
    else:
        bad = depth_violation(c['text'], n, r.get('out', ''), None) is not None
    print('pre_parse ->', json.dumps(r)[:300])
    print('REPRODUCED' if bad else 'not reproduced')
    return 1 if bad else 0


def witness_fails(ctx, finding):
    w = finding['witness']
    n = w.get('indent_size', 2)
    r = C11.real_pre_parse(w['text'], n)
    tr = None
    try:
        tr = Driver().call({'op': 'pptrace', 'n': n, 'text': w['text']}).get('trace')
    except Exception:
        pass
    v = depth_violation(w['text'], n, r.get('out', ''), tr)
    return v is not None and v[1] == finding['id']
