"""C19 — the command-line tool prints exactly what the library returns."""
import json, os, subprocess, tempfile, threading
from .. import core, real, gen, e2e

MODULE = 'Bluebell.Props.C19'
THEOREMS = ['Bluebell.C19_prints_library_result', 'Bluebell.C19_rejects_without_output', 'Bluebell.C19_json_ignores_pretty', 'Bluebell.C19_alias_table']
ODD_SEPARATORS = ['\x0b', '\x0c', '\x1c', '\x1d', '\x1e', '\x85', ' ', ' ', '\r', '\r\n']
FLAGS = [[], ['--pretty'], ['--json'], ['--json', '--pretty']]
URI = '/akn/za/act/2020/1'
# work-level, with a language only (str(FrbrUri) drops it), with expression date, component, portion, subtype and locality
URIS = [URI, URI, '/akn/za/act/2009/10/fra', '/akn/ke/act/ln/2017/3/swa@2018-01-01', '/akn/za-cpt/act/by-law/2020/parks/eng/!main',
        '/akn/za/act/2020/1/afr/~sec_2', '/akn/na/judgment/nahc/2021/5/por@']


def run_cli(repo, uri, root, path, flags, timeout=120):
    env = dict(os.environ)
    env['PYTHONPATH'] = repo + os.pathsep + env.get('PYTHONPATH', '')
    env['PYTHONIOENCODING'] = 'utf-8'
    env.pop('BLUEBELL_VERIF', None)
    code = 'import sys; from bluebell.cli import main; sys.argv[0] = "bluebell"; main()'
    p = subprocess.run(['/venv/bin/python', '-c', code, uri, root, path] + flags, cwd=repo, env=env,
                       stdout=subprocess.PIPE, stderr=subprocess.PIPE, timeout=timeout)
    return p.returncode, p.stdout.decode('utf-8', 'replace'), p.stderr.decode('utf-8', 'replace')


def library(uri, root, text, flags):
    """what the library returns for the same URI, root and text, rendered as the tool's contract says"""
    from cobalt import FrbrUri
    from lxml import etree as ET
    from bluebell.parser import AkomaNtosoParser
    from bluebell.akn import ParseError
    p = AkomaNtosoParser(FrbrUri.parse(uri))
    try:
        tree = p.parse(text, root)
    except ParseError:
        return {'rejected': True}
    if '--json' in flags:
        return {'stdout': json.dumps(tree.to_dict()) + '\n'}
    try:
        xml = p.tree_to_xml(tree)
    except Exception as ex:  # noqa
        return {'raised': type(ex).__name__}
    return {'stdout': ET.tostring(xml, pretty_print='--pretty' in flags, encoding='unicode') + '\n'}


def case_text(rng):
    k = rng.random()
    root = rng.choice(gen.ROOTS6 + ['debatereport', 'debate'])
    groot = 'debateReport' if root == 'debatereport' else root
    if k < 0.5:
        t = gen.doc_text(rng, groot, corners=0.2)
    elif k < 0.8:
        t = gen.noise_text(rng)
    else:
        t = gen.doc_text(rng, groot)
    if rng.random() < 0.5:
        # characters str.splitlines() treats as line breaks, inside lines and at line ends
        ls = t.split('\n')
        for _ in range(rng.randint(1, 3)):
            i = rng.randrange(len(ls))
            j = rng.randint(0, len(ls[i]))
            ls[i] = ls[i][:j] + rng.choice(ODD_SEPARATORS[:8]) + ls[i][j:]
        t = '\n'.join(ls)
    if rng.random() < 0.1:
        root = rng.choice(['table', 'hier_element', 'block_element'])
        t = rng.choice(['TABLE\n  TR\n    TC       cell text\n', 'SEC 1.\n  x\n', 'TABLE\n  TR\n    TC\n      x\n', 'nothing special\n'])
    return t, root


def run(ctx, info):
    rng = ctx.rng
    failures = []
    repo = ctx.repo
    n = ctx.budget(36, 400)
    cases = []
    for _ in range(n):
        t, root = case_text(rng)
        cases.append((t, root, rng.choice(FLAGS)))
    # every flag combination on one fixed document and the alias
    fixed = 'PART 1 - Intro\n  SEC 1.\n    hello **world**\nSCHEDULE\n  x\n'
    for f in FLAGS:
        cases.append((fixed, 'act', f))
        cases.append((fixed, 'debatereport', f))
    # the file's text must reach the library as it is: documents whose layout a "helpful" reader would normalise
    # (a common indent on every line, first line indented less / more than the rest, leading blank lines, tabs, CR LF, a BOM-less
    # first line of blanks, trailing blanks) — every seed, XML and JSON
    body = 'SEC 1.\n  foo\nSEC 2.\n  bar **b**\n  ITEMS\n    ITEM (a)\n      x\n'
    for j, lay in enumerate([lambda t: ''.join('  ' + l + '\n' for l in t.splitlines()),
                             lambda t: ''.join('\t' + l + '\n' for l in t.splitlines()),
                             lambda t: ''.join('    ' + l + '\n' for l in t.splitlines()).replace('    SEC 2.', '  SEC 2.'),
                             lambda t: '\n\n   \n' + ''.join('  ' + l + '\n' for l in t.splitlines()),
                             lambda t: '      ' + t,
                             lambda t: t.replace('\n', '\r\n'),
                             lambda t: t.replace('\n', '  \n') + '\n\n',
                             lambda t: t.replace('  ', '\t')]):
        for f in ([], ['--json'], ['--pretty']):
            cases.append((lay(body), ['act', 'doc', 'statement'][j % 3], f))
    cases.append(('SCHEDULES foo\n', 'act', []))
    cases.append(('SCHEDULES foo\n', 'act', ['--json']))
    uris = [rng.choice(URIS) for _ in cases]
    tmp = os.path.join(ctx.work, 'cli')
    os.makedirs(tmp, exist_ok=True)
    results = [None] * len(cases)

    def work(lo, hi):
        for i in range(lo, hi):
            t, root, flags = cases[i]
            path = os.path.join(tmp, f'in{i}.txt')
            with open(path, 'w', encoding='utf-8', newline='') as f:
                f.write(t)
            try:
                results[i] = run_cli(repo, uris[i], root, path, flags)
            except Exception as ex:  # noqa
                results[i] = (None, '', f'{type(ex).__name__}: {ex}')
    k = 12
    step = (len(cases) + k - 1) // k
    ts = [threading.Thread(target=work, args=(i, min(len(cases), i + step))) for i in range(0, len(cases), step)]
    [t.start() for t in ts]
    [t.join() for t in ts]
    nb = 0
    dist = {}
    for i, ((t, root, flags), (rc, out, err)) in enumerate(zip(cases, results)):
        path = os.path.join(tmp, f'in{i}.txt')
        text = open(path, 'r').read()   # the text as the tool reads it
        lib = library(uris[i], root, text, flags)
        v = None
        if 'stdout' in lib:
            dist['printed'] = dist.get('printed', 0) + 1
            if rc != 0:
                v = f'the library returns a document but the tool exits with status {rc}: {err[-200:]!r}'
            elif out != lib['stdout']:
                v = 'stdout differs from what the library returns'
        elif lib.get('rejected'):
            dist['rejected'] = dist.get('rejected', 0) + 1
            if rc == 0:
                v = 'the grammar rejects the input but the tool exits successfully'
            elif out != '':
                v = 'the grammar rejects the input but the tool printed something to stdout'
        else:
            dist['raised'] = dist.get('raised', 0) + 1
            if rc == 0:
                v = f"the library raises {lib.get('raised')} but the tool exits successfully"
        if v:
            nb += 1
            if len(failures) < 15:
                failures.append({'kind': 'oracle', 'finding': None, 'summary': f'bluebell {uris[i]} {root} <file> {" ".join(flags)}: {v}; text {t[:80]!r}',
                                 'case': {'text': t, 'root': root, 'flags': flags, 'uri': uris[i]}})
    ctx.oblige('tie/oracle cli: stdout and exit status of the real script = library result, byte for byte', 'tie', nb == 0,
               f'{nb} differences in {len(cases)} runs; outcomes {dist}')
    cov = {'evaluations': len(cases), 'distinct_nontrivial': len({(t, r, tuple(f)) for t, r, f in cases if len(t) > 10}), 'outcomes': dist,
           'rule': 'generated documents and noise, with characters that str.splitlines() treats as line breaks and CR/CRLF inserted, x eight roots incl. the debatereport alias and fragment rules x four flag combinations; every run is a real subprocess of bluebell.cli:main; non-trivial = distinct (text, root, flags) with text longer than 10 characters',
           'samples': [{'text': cases[0][0][:200], 'root': cases[0][1], 'flags': cases[0][2]}]}
    return {'coverage': cov, 'failures': failures,
            'assumptions': ['the file is written as UTF-8 and read back the way the tool reads it (text mode, universal newlines); stdout is decoded as UTF-8']}


def replay(ctx, rep):
    c = rep.get('case') or {}
    if 'text' not in c:
        print('replay file names broken obligations only:', json.dumps(rep.get('broken_obligations'))[:1000])
        return 1
    os.makedirs(ctx.work, exist_ok=True)
    path = os.path.join(ctx.work, 'replay.txt')
    with open(path, 'w', encoding='utf-8', newline='') as f:
        f.write(c['text'])
    rc, out, err = run_cli(ctx.repo, c.get('uri', URI), c['root'], path, c['flags'])
    lib = library(c.get('uri', URI), c['root'], open(path).read(), c['flags'])
    bad = (('stdout' in lib) and (rc != 0 or out != lib['stdout'])) or (lib.get('rejected') and (rc == 0 or out != '')) or (lib.get('raised') and rc == 0)
    print('REPRODUCED' if bad else 'not reproduced')
    return 1 if bad else 0
