"""C11 — pre-parsing yields a normal form and keeps every line."""
import itertools, json
from .. import core, real, gen
from ..leandrv import Driver

MODULE = 'Bluebell.Props.C11'
THEOREMS = ['Bluebell.C11_normal_form', 'Bluebell.C11_lines_kept', 'Bluebell.C11_stack_invariant',
            'Bluebell.C11_regexes_as_modelled']
IND, DED = '\x0e', '\x0f'


def real_pre_parse(text, n):
    from bluebell.parser import AkomaNtosoParser
    p = AkomaNtosoParser(None)
    p.indent_size = n
    try:
        return {'out': p.pre_parse(text)}
    except Exception as ex:  # noqa
        return {'exc': type(ex).__name__, 'msg': str(ex)[:200]}


def normal_form_violation(text, n, out):
    """The property's statement, checked directly. Returns None or a description."""
    if IND in text or DED in text:
        return None  # outside the quantifier (marker characters in the input)
    src = text.replace('\t', ' ' * n).strip()
    if src == '':
        return None if out == '' else f'blank input must give the empty string, got {out!r}'
    if not out.endswith('\n'):
        return 'no final newline'
    lines = out[:-1].split('\n')
    if lines[0] == '':
        return 'blank first line'
    depth = 0
    content = []
    for i, l in enumerate(lines):
        if '\t' in l:
            return f'tab in line {i}'
        if l != l.strip(' '):
            return f'leading or trailing space in line {i}: {l!r}'
        if l == IND:
            depth += 1
            nxt = next((x for x in lines[i + 1:] if x != ''), None)
            if nxt is None or nxt == DED:
                return f'empty block opened at line {i}'
        elif l == DED:
            depth -= 1
            if depth < 0:
                return f'more blocks closed than open at line {i}'
        else:
            if IND in l or DED in l:
                return f'marker not alone on its line {i}: {l!r}'
            content.append(l)
    if depth != 0:
        return f'unbalanced markers (depth {depth} at end)'
    want = [l.strip(' ') for l in src.split('\n')]
    if content != want:
        return f'lines not kept: expected {want[:6]!r}… got {content[:6]!r}…'
    return None


def exhaustive_cases(max_len, max_width):
    """All indentation sequences (widths 0..max_width) of length 1..max_len, one visible character per line."""
    for ln in range(1, max_len + 1):
        for seq in itertools.product(range(max_width + 1), repeat=ln):
            yield '\n'.join(' ' * w + chr(97 + i) for i, w in enumerate(seq)) + '\n'


def random_case(rng):
    r = rng.random()
    if r < 0.5:
        t = gen.noise_text(rng, max_lines=10)
    elif r < 0.8:
        # whitespace-heavy: every kind of Python whitespace, tabs anywhere, blank and space-only lines
        ws = [' ', ' ', '  ', '\t', '\x0b', '\x0c', '\r', '\x1c', '\x1d', '\x1e', '\x1f', '\x85', '\xa0', ' ', ' ', '　']
        lines = []
        for _ in range(rng.randint(0, 8)):
            pre = ''.join(rng.choice([' ', ' ', ' ', '\t']) for _ in range(rng.choice([0, 0, 1, 2, 3, 4, 6])))
            body = ''.join(rng.choice(['a', 'b', 'X', '1', rng.choice(ws)]) for _ in range(rng.choice([0, 1, 2, 4])))
            post = ''.join(rng.choice(ws) for _ in range(rng.choice([0, 0, 1, 2])))
            lines.append(pre + body + post)
        t = rng.choice(['', '\n', ' \n', '\t', '\x0b\n']) + '\n'.join(lines) + rng.choice(['', '\n', '\n\n', ' ', '\t\n'])
    else:
        t = gen.doc_text(rng, rng.choice(gen.ROOTS7))
        if rng.random() < 0.5:
            t = t.replace('  ', '\t')
    return t


def build_cases(ctx):
    cs = []
    L, W = ctx.budget((5, 5), (7, 6))
    sizes = [1, 2, 3, 4]
    ex = list(exhaustive_cases(L, W))
    for t in ex:
        for n in sizes:
            cs.append((t, n))
    nex = len(cs)
    for _ in range(ctx.budget(3000, 60000)):
        cs.append((random_case(ctx.rng), ctx.rng.choice(sizes)))
    return cs, nex


def run(ctx, info):
    cs, nex = build_cases(ctx)
    failures = []
    reals = [real_pre_parse(t, n) for t, n in cs]
    # oracle on the real output
    nviol = 0
    for (t, n), r in zip(cs, reals):
        if 'exc' in r:
            v = f"pre_parse raised {r['exc']}: {r['msg']}"
        else:
            v = normal_form_violation(t, n, r['out'])
        if v:
            nviol += 1
            if len(failures) < 20:
                failures.append({'kind': 'oracle', 'finding': None, 'summary': f'pre_parse({t!r}, indent_size={n}): {v}',
                                 'case': {'text': t, 'indent_size': n, 'real': r, 'violation': v}})
    ctx.oblige('oracle: normal form + lines kept on real pre_parse output', 'oracle', nviol == 0, f'{nviol} violations in {len(cs)} cases')
    cov = {'evaluations': len(cs), 'exhaustive_cases': nex,
           'rule': 'all indentation sequences up to the bound (one visible character per line) x indent sizes 1-4, then random texts (noise, whitespace-heavy with every Python whitespace character and tabs, generated documents, tabified); non-trivial = distinct (text, size) whose output contains a marker',
           'exhaustive': False}
    if info['driver']:
        drv = Driver()
        model = drv.batch_parallel([{'op': 'preparse', 'n': n, 'text': t} for t, n in cs], jobs=12)
        bad = []
        for (t, n), r, m in zip(cs, reals, model):
            if r.get('out') != m.get('out'):
                bad.append({'text': t, 'indent_size': n, 'real': r, 'model': m})
        ctx.oblige('tie preparse: real pre_parse = model preParse', 'tie', not bad,
                   f'{len(bad)} disagreements; first: {json.dumps(bad[0])[:500]}' if bad else f'{len(cs)} cases agree')
        for b in bad[:5]:
            failures.append({'kind': 'tie', 'summary': 'preparse disagreement', 'case': b})
    else:
        ctx.oblige('model driver builds', 'tie', False, info.get('driver_log', '')[-800:])
    cov['distinct_nontrivial'] = len({(t, n) for (t, n), r in zip(cs, reals) if IND in r.get('out', '')})
    cov['samples'] = [{'text': t, 'indent_size': n, 'out': r.get('out')} for (t, n), r in list(zip(cs, reals))[nex:nex + 3] + list(zip(cs, reals))[200:202]]
    return {'coverage': cov, 'failures': failures,
            'assumptions': ['levels are compared as leading-space counts (Python compares len/indent_size as floats; same order for indent_size >= 1)',
                            'inputs contain no INDENT/DEDENT characters (outside the property quantifier)']}


def replay(ctx, rep):
    c = rep.get('case') or {}
    if 'text' not in c:
        print('replay file names broken obligations only:', json.dumps(rep.get('broken_obligations'))[:1000])
        return 1
    r = real_pre_parse(c['text'], c.get('indent_size', 2))
    v = f"raised {r['exc']}" if 'exc' in r else normal_form_violation(c['text'], c.get('indent_size', 2), r['out'])
    print('pre_parse ->', json.dumps(r)[:400])
    print('REPRODUCED: ' + v if v else 'not reproduced')
    return 1 if v else 0
