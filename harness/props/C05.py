"""C05 — XML -> text -> XML round trip is the identity on generated documents."""
import json, copy, re
from .. import core, real, gen, e2e, eidlib
from ..leandrv import Driver

MODULE = 'Bluebell.Props.C05'
THEOREMS = ['Bluebell.C05_preserve_covers_mixed', 'Bluebell.C05_keywords_parse_back', 'Bluebell.C05_examples', 'Bluebell.C05_plain_paragraph_written_as_its_text', 'Bluebell.C05_plain_paragraph_round_trip']
BLOCKISH = {'p', 'heading', 'subheading', 'crossHeading', 'listIntroduction', 'listWrapUp', 'num', 'longTitle', 'from', 'scene', 'narrative', 'summary', 'li'}
HIER = {k.lower() for k in gen.HIER[:27]}
FRAG_RULES = {'table': 'table', 'blockList': 'block_list', 'ul': 'bullet_list'}


def norm(t):
    """canonical tree with whitespace at the edges of block text removed"""
    tag, attrs, kids = t
    ks = [k if isinstance(k, str) else norm(k) for k in kids]
    if tag in BLOCKISH:
        if ks and isinstance(ks[0], str):
            ks[0] = ks[0].lstrip()
        if ks and isinstance(ks[-1], str):
            ks[-1] = ks[-1].rstrip()
        ks = [k for k in ks if k != '']
    return [tag, attrs, ks]


def unparse_real(etree_el):
    from bluebell.parser import AkomaNtosoParser
    return AkomaNtosoParser(None).unparse(copy.deepcopy(etree_el))


def round_trip_violation(text, root, prefix=''):
    """None or (description, finding id|None, extra)"""
    r = real.convert(text, root, prefix=prefix)
    if 'etree' not in r:
        return None
    x = r['etree']
    try:
        u = unparse_real(x)
    except Exception as ex:  # noqa
        return (f'unparse raised {type(ex).__name__}', None, {})
    r2 = real.convert(u, root, prefix=prefix)
    if 'etree' not in r2:
        return (f"re-parsing the unparsed text raised {r2.get('exc')}", None, {'unparsed': u})
    if norm(r2['xml']) != norm(r['xml']):
        return ('parse(unparse(x)) differs from x', classify(text, root, r, u, r2, prefix), {'unparsed': u})
    u2 = unparse_real(r2['etree'])
    r3 = real.convert(u2, root, prefix=prefix)
    if r3.get('xml') != r2['xml']:
        return ('a second round trip changes the document', None, {'unparsed': u2})
    # fragments
    for node, in_meta, path in eidlib.iter_elems(r['xml']):
        tag = node[0]
        rule = 'hier_element' if tag in HIER else FRAG_RULES.get(tag)
        if in_meta or rule is None or not path:
            continue
        el = x
        for i in path_to_etree(r['xml'], path):
            el = el[i]
        eid = node[1].get('eId', '')
        parent = eid.rsplit('__', 1)[0] if '__' in eid else ''
        fu = unparse_real(el)
        fr = real.convert(fu, rule, prefix=parent)
        if 'xml' not in fr or norm(fr['xml']) != norm(node):
            if anc_tags(r['xml'], path) & {'attachment', 'embeddedStructure', 'authorialNote'}:
                continue   # eIds inside these depend on document-wide state (see C18)
            last = ABBRS.get(tag, tag)
            if not re.search(r'__?' + re.escape(last) + r'_[^_]+$|^' + re.escape(last) + r'_[^_]+$', eid) or eid.endswith(tuple('_%d' % i for i in range(2, 10))) or '_nn_' in eid or eid.endswith('_nn'):
                continue   # positional / clash-suffixed ids depend on siblings
            return (f'fragment <{tag} eId={eid!r}> unparsed and re-parsed with rule {rule} differs from the element', classify(text, root, r, fu, fr, prefix), {'unparsed': fu})
    return None


ABBRS = {'alinea': 'al', 'article': 'art', 'chapter': 'chp', 'clause': 'cl', 'division': 'dvs', 'paragraph': 'para', 'section': 'sec',
         'subchapter': 'subchp', 'subclause': 'subcl', 'subdivision': 'subdvs', 'subparagraph': 'subpara', 'subsection': 'subsec', 'blockList': 'list'}


def anc_tags(tree, path):
    out = set()
    n = tree
    for i in path:
        out.add(n[0])
        n = n[2][i]
    return out


def path_to_etree(tree, path):
    """canonical child indexes (strings counted) -> element child indexes"""
    out = []
    n = tree
    for i in path:
        out.append(sum(1 for k in n[2][:i] if not isinstance(k, str)))
        n = n[2][i]
    return out


BARE = re.compile(r'^([ \t]*(?:LONGTITLE|CROSSHEADING(?:\.[^ \n|{}.]*)*(?:\{[^\n}]*\})?))[ \t]*$', re.M)
ATT_FN = re.compile(r'^([ \t]*(?:ATTACHMENT|APPENDIX|SCHEDULE|ANNEXURE)[^\n]*?)\{\{FOOTNOTE [^}\n]*\}\}', re.M)


def _unref_footnotes(text):
    """FOOTNOTE lines that no reference outside their own block claims become BLOCKS (a reference inside the block
    cannot take it: fix 13653fd)"""
    raw = text.split('\n')
    ls = text.replace('\t', '  ').split('\n')
    ind = lambda l: len(l) - len(l.lstrip(' '))
    out = list(raw)   # only FOOTNOTE lines are rewritten; every other line stays as it was written
    for i, l in enumerate(ls):
        m = re.match(r'^( *)FOOTNOTE +([^ \n]+) *$', l)
        if not m:
            continue
        j = i + 1
        while j < len(ls) and (not ls[j].strip() or ind(ls[j]) > len(m.group(1))):
            j += 1
        outside = '\n'.join(ls[:i] + ls[j:])
        refs = set(re.findall(r'\{\{FOOTNOTE ([^}\n]*?)\s*\}\}', outside))
        if m.group(2) not in refs:
            out[i] = m.group(1) + 'BLOCKS'
    return '\n'.join(out)


REPAIRS = [
    # id, what the repair removes from the input
    ('F8', lambda t: BARE.sub(lambda m: m.group(1) + ' x', t)),                       # bare LONGTITLE / CROSSHEADING
    ('F30', lambda t: re.sub(r'\{by [^|}\n]*\}', '', re.sub(r'\|by [^|}\n]*', '', re.sub(r'\{by [^|}\n]*\|', '{', t)))),  # explicit by attribute
    ('F7', lambda t: ATT_FN.sub(lambda m: m.group(1), t)),                              # footnote reference in an attachment heading
    ('F6', _unref_footnotes),
    # a reference whose marker contains a blank: no FOOTNOTE block line can carry that marker
    ('F43', lambda t: re.sub(r'\{\{FOOTNOTE ([^}\n]*?)\}\}', lambda m: '{{FOOTNOTE ' + (re.sub(r'\s+', '_', m.group(1).strip()) or 'm') + '}}', t)),
]


def classify(text, root, r, u, r2, prefix=''):
    """Causal: the text is repaired for one known defect class (then for all of them together); if the
    repaired text round-trips, the failure belongs to the class(es) whose repair changed the text."""
    # F31: the synthesised empty debateBody (debateSection holding one empty p) does not survive
    def synth(n):
        if n[0] == 'debateBody':
            ks = [k for k in n[2] if not isinstance(k, str)]
            return len(ks) == 1 and ks[0][0] == 'debateSection' and [k[0] for k in ks[0][2] if not isinstance(k, str)] == ['p'] and not ks[0][2][0][2]
        return any(synth(k) for k in n[2] if not isinstance(k, str))
    if synth(r['xml']):
        return 'F31'
    # F42: the derived `by` of a speech is built from the raw text of the FROM line (keyword and markup included); the
    # unparser writes that markup in canonical form, so `by` changes although nothing else does
    if r2.get('xml') is not None and norm(drop_by(r2['xml'])) == norm(drop_by(r['xml'])) and re.search(r'^[ \t]*FROM [^\n]*[{*/_\\]', text, re.M):
        return 'F42'
    text = text.strip()   # what pre_parse does first (any str.isspace character, not only blanks and tabs)
    changed = []
    allr = text
    for fid, fn in REPAIRS:
        t2 = fn(text)
        if t2 != text:
            changed.append(fid)
            if _plain_violation(t2, root, prefix) is None:
                return fid
        allr = fn(allr)
    if changed and allr != text and _plain_violation(allr, root, prefix) is None:
        return changed[0]
    if changed and allr != text:
        # the listed causes that have a text repair, together with one that has none (F42, F31, F40): what remains after the
        # repairs must itself be a listed class
        rest = round_trip_violation(allr, root, prefix)
        if rest is not None and rest[1] is not None:
            return changed[0]
    # F40: a referenced FOOTNOTE block that was the only member of a wrapper group (hcontainer / intro / wrapUp) leaves
    # the wrapper behind empty; the unparser has nothing to write for it. Causal test on the trees: x with its empty
    # wrappers removed and its eIds regenerated by the real generator is exactly what the round trip gives.
    if _only_empty_wrappers_lost(text, root, prefix):
        return 'F40'
    # two listed causes in one document: the text repairs applied together, then only F40 may remain
    if changed and allr != text and _only_empty_wrappers_lost(allr, root, prefix):
        return changed[0]
    return None


def _only_empty_wrappers_lost(text, root, prefix):
    if not re.search(r'^[ \t]*FOOTNOTE +[^ \n]', text, re.M):
        return False
    r = real.convert(text, root, prefix=prefix)
    if 'etree' not in r:
        return False
    pruned = prune_empty_wrappers(r['xml'])
    if pruned == r['xml']:
        return False
    r2 = real.convert(unparse_real(r['etree']), root, prefix=prefix)
    if 'xml' not in r2:
        return False
    rr = eidlib.real_rewrite(pruned, prefix)
    r2p = eidlib.real_rewrite(prune_empty_wrappers(r2['xml']), prefix)
    if 'tree' in rr and 'tree' in r2p and norm(rr['tree']) == norm(r2p['tree']):
        r3 = real.convert(unparse_real(r2['etree']), root, prefix=prefix)
        return r3.get('xml') == r2['xml']
    # the empty wrapper may also disturb its neighbour (an empty bullet '* ' swallows the next bullet's marker):
    # causal test from the other side — the same document without its empty wrappers round-trips exactly
    if 'tree' not in rr:
        return False
    u = real.unparse_tree(rr['tree'])
    if 'text' not in u:
        return False
    r4 = real.convert(u['text'], root, prefix=prefix)
    return 'xml' in r4 and norm(r4['xml']) == norm(rr['tree'])


def drop_by(n):
    tag, attrs, kids = n
    a = {k: v for k, v in attrs.items() if not (k == 'by' and tag in ('speech', 'question', 'answer', 'speechGroup'))}
    return [tag, a, [k if isinstance(k, str) else drop_by(k) for k in kids]]


WRAPPERS = {'hcontainer', 'intro', 'wrapUp', 'li'}


def prune_empty_wrappers(n):
    tag, attrs, kids = n
    ks = []
    for k in kids:
        if isinstance(k, str):
            ks.append(k)
        elif k[0] in WRAPPERS and not k[2]:
            continue
        elif k[0] == 'li' and len(k[2]) == 1 and not isinstance(k[2][0], str) and k[2][0][0] == 'p' and not k[2][0][2]:
            continue   # what an empty bullet item becomes when it is re-parsed
        else:
            ks.append(prune_empty_wrappers(k))
    return [tag, attrs, ks]


def _plain_violation(text, root, prefix):
    """whole-document round trip only, no classification (used by the recognisers)"""
    r = real.convert(text, root, prefix=prefix)
    if 'etree' not in r:
        return None
    u = unparse_real(r['etree'])
    r2 = real.convert(u, root, prefix=prefix)
    if 'etree' not in r2 or norm(r2['xml']) != norm(r['xml']):
        return 'differs'
    r3 = real.convert(unparse_real(r2['etree']), root, prefix=prefix)
    if r3.get('xml') != r2['xml']:
        return 'second'
    return None


def nested_fn_doc(rng):
    """footnotes inside footnotes; paragraphs that consist of nothing but a reference"""
    w = gen.Words(rng)
    ind = rng.choice([0, 1, 2])
    pre = []
    for d in range(ind):
        pre.append('  ' * d + rng.choice(['SEC', 'PART', 'PARA']) + ' %d' % rng.randint(1, 5))
    p = '  ' * ind
    only = rng.random() < 0.6
    lines = pre + [p + ('' if only else w.some(1)) + '{{FOOTNOTE 1}}' + ('' if only or rng.random() < 0.5 else ' ' + w.some(1)),
                   p + 'FOOTNOTE 1',
                   p + '  ' + (w.some(1) if rng.random() < 0.7 else '') + '{{FOOTNOTE 2}}',
                   p + '  FOOTNOTE 2',
                   p + '    ' + w.some(2)]
    if rng.random() < 0.4:
        lines.append(p + '  ' + w.some(1))
    if rng.random() < 0.4:
        lines.append(p + w.some(2))
    if rng.random() < 0.3:
        lines = ['TABLE', '  TR', '    TC'] + ['      ' + l for l in lines]
    return '\n'.join(lines) + '\n'


def run(ctx, info):
    rng = ctx.rng
    failures = []
    drv = Driver() if info['driver'] else None
    if not drv:
        ctx.oblige('model driver builds', 'tie', False, info.get('driver_log', '')[-800:])
    n = ctx.budget(110, 2500)
    cases = []
    for _ in range(n):
        root = rng.choice(gen.ROOTS7)
        k = rng.random()
        t = gen.doc_text(rng, root, corners=0.25) if k < 0.7 else nested_fn_doc(rng) if k < 0.85 else gen.noise_text(rng)
        cases.append((t, root, rng.choice(['', '', 'att_1'])))
    pw = gen.pairwise_docs()   # every construct inside every context; a third of them in the quick tier, the two small
    # targeted families (footnote references at depth, two-line remarks in every position) on every run
    cases += [(t, r, '') for i, (nm, t, r) in enumerate(pw) if ctx.tier == 'thorough' or i % 3 == ctx.seed % 3 or 'fn-depth' in nm or 'remark2' in nm or 'judgment/empty' in nm]
    nb = 0
    known = {}
    trees = []
    for t, root, p in cases:
        v = round_trip_violation(t, root, p)
        r = real.convert(t, root, prefix=p)
        if 'etree' in r:
            trees.append(real.full_canon(r['etree']))
        if v:
            desc, fid, extra = v
            if fid:
                known[fid] = known.get(fid, 0) + 1
            else:
                nb += 1
            if len(failures) < 20 and (fid is None or known.get(fid) == 1):
                small = t
                if fid is None and nb <= 2:
                    def pred(tt, root=root, p=p):
                        vv = round_trip_violation(tt, root, p)
                        return vv is not None and vv[1] is None
                    small = core.shrink_text(t, pred, 100)
                failures.append({'kind': 'oracle', 'finding': fid, 'summary': f'{small[:100]!r} ({root}): {desc}', 'case': {'text': small, 'root': root, 'prefix': p}})
    ctx.oblige('oracle: parse(unparse(x)) = x, second round trip identical, fragments round-trip (outside listed findings)', 'oracle', nb == 0,
               f'{nb} unlisted violations in {len(cases)} documents; listed classes hit {known}')
    if drv:
        ms = drv.batch_parallel([{'op': 'unparse', 'tree': eidlib.ordered(t)} for t in trees], jobs=12)
        bad = []
        for t, m in zip(trees, ms):
            rl = real.unparse_tree(t)
            if rl.get('text') != m.get('text') or rl.get('tree') != m.get('tree'):
                bad.append({'tree': json.dumps(t)[:1500], 'real': (rl.get('text') or str(rl))[:400], 'model': (m.get('text') or '')[:400]})
        ctx.oblige('tie unparse: real XSLT output (and the tree it leaves behind) = model unparse, on parser outputs', 'tie', not bad,
                   f'{len(bad)} disagreements; first: {json.dumps(bad[0])[:800]}' if bad else f'{len(trees)} trees agree')
        for b in bad[:3]:
            failures.append({'kind': 'tie', 'summary': 'unparse disagreement', 'case': b})
    cov = {'evaluations': len(cases), 'distinct_nontrivial': len({t for t, r, p in cases if len(t) > 10}), 'known_finding_classes_hit': known,
           'rule': 'generated documents (corner constructs) and noise x seven roots x prefixes: whole-document round trip, second round trip, and every hierarchical element / table / list unparsed and re-parsed as a fragment; non-trivial = distinct text longer than 10 characters',
           'samples': [{'text': cases[0][0][:300], 'root': cases[0][1]}]}
    return {'coverage': cov, 'failures': failures}


def witness_fails(ctx, finding):
    w = finding['witness']
    v = round_trip_violation(w['text'], w['root'], w.get('prefix', ''))
    return v is not None and v[1] == finding['id']


def replay(ctx, rep):
    c = rep.get('case') or {}
    if 'text' not in c:
        print('replay file names broken obligations only:', json.dumps(rep.get('broken_obligations'))[:1000])
        return 1
    v = round_trip_violation(c['text'], c['root'], c.get('prefix', ''))
    print('REPRODUCED: ' + v[0] if v else 'not reproduced')
    return 1 if v else 0
