"""C04 — documented markup yields the documented element tree."""
import json
from .. import core, real, gen, e2e, absdoc
from ..leandrv import Driver

MODULE = 'Bluebell.Props.C04'
THEOREMS = ['Bluebell.C04_hier_keyword_table', 'Bluebell.C04_speech_keyword_table', 'Bluebell.C04_attachment_keywords', 'Bluebell.C04_inline_defaults', 'Bluebell.C04_table_cells', 'Bluebell.C04_heading_split', 'Bluebell.C04_examples', 'Bluebell.C04_p_item_to_xml', 'Bluebell.C04_plain_line_is_a_p', 'Bluebell.C04_escaped_line_is_a_p']


def strip(t):
    """drop meta blocks and eIds (a derived `by` attribute is ignored by first_diff; an explicit one is compared)"""
    tag, attrs, kids = t
    a = {k: v for k, v in attrs.items() if k != 'eId'}
    return [tag, a, [k if isinstance(k, str) else strip(k) for k in kids if isinstance(k, str) or k[0] != 'meta']]


def first_diff(want, got, path='$'):
    if isinstance(want, str) or isinstance(got, str):
        return '' if want == got else f'at {path}: expected {want!r}, got {got!r}'[:300]
    if want[0] != got[0]:
        return f'at {path}: expected <{want[0]}>, got <{got[0]}>'
    ga = {k: v for k, v in got[1].items() if k != 'by' or 'by' in want[1]}   # `by` derived from the FROM line is not specified here
    if want[1] != ga:
        return f'at {path}/<{want[0]}>: attributes expected {want[1]}, got {got[1]}'
    for i, (x, y) in enumerate(zip(want[2], got[2])):
        d = first_diff(x, y, f'{path}/{want[0]}[{i}]')
        if d:
            return d
    if len(want[2]) != len(got[2]):
        return f'at {path}/<{want[0]}>: {len(want[2])} children expected, got {len(got[2])}'
    return ''


def violation(d, blank):
    text = absdoc.render(d, blank)
    r = real.convert(text, d['root'])
    if 'xml' not in r:
        return (f"conversion raised {r.get('exc')}: {r.get('msg', '')[:100]}", text)
    got, want = strip(r['xml']), absdoc.expected(d)
    df = first_diff(want, got)
    return (df, text) if df else None


def run(ctx, info):
    rng = ctx.rng
    failures = []
    drv = Driver() if info['driver'] else None
    if not drv:
        ctx.oblige('model driver builds', 'tie', False, info.get('driver_log', '')[-800:])
    n = ctx.budget(400, 6000)
    nb = 0
    texts = []
    kinds = {}
    for _ in range(n):
        root = rng.choice(gen.ROOTS7)
        g = absdoc.G(rng)
        d = g.doc(root)
        blank = rng.random() < 0.5
        v = violation(d, blank)
        texts.append((absdoc.render(d, blank), root, ''))
        kinds[root] = kinds.get(root, 0) + 1
        if v:
            nb += 1
            if len(failures) < 15:
                failures.append({'kind': 'oracle', 'finding': None, 'summary': f'{root}: {v[0]} for {v[1][:120]!r}', 'case': {'text': v[1], 'root': root, 'expected': absdoc.expected(d)}})
    ctx.oblige('oracle: parse_to_xml(render(d)) has exactly the prescribed element tree (meta, eIds and by ignored)', 'oracle', nb == 0,
               f'{nb} differences in {n} abstract documents; roots {kinds}')
    e2e.tie_convert(ctx, drv, texts[:ctx.budget(250, 3000)], failures)
    cov = {'evaluations': n, 'distinct_nontrivial': len({t for t, r, p in texts if len(t) > 20}), 'roots': kinds,
           'rule': 'abstract documents over the documented vocabulary (27 hierarchical keywords + 7 synonyms, containers, judgment parts, 20 speech containers, 4 speech groups, speech blocks, 4 attachment keywords nested, ITEMS/BLOCKLIST, BULLETS, TABLE, BLOCKS, QUOTE, P, LONGTITLE, CROSSHEADING, SUBHEADING, all inline forms, attribute and class syntax, footnotes) rendered by an independent printer, with and without blank lines; non-trivial = distinct rendering longer than 20 characters',
           'samples': [{'text': texts[0][0][:400], 'root': texts[0][1]}]}
    return {'coverage': cov, 'failures': failures,
            'assumptions': ['the expected tree is written from the README and the AKN element names of the keywords (harness/absdoc.py); it does not call bluebell']}


def replay(ctx, rep):
    c = rep.get('case') or {}
    if 'text' not in c:
        print('replay file names broken obligations only:', json.dumps(rep.get('broken_obligations'))[:1000])
        return 1
    r = real.convert(c['text'], c['root'])
    df = first_diff(c['expected'], strip(r['xml'])) if 'xml' in r else 'raised'
    print('REPRODUCED: ' + df if df else 'not reproduced')
    return 1 if df else 0
