"""C16 — results depend only on the arguments, not on what was parsed before."""
import json, copy, threading, types as pytypes
from .. import core, real, gen, e2e, eidlib
from ..leandrv import Driver
from . import C15

MODULE = 'Bluebell.Props.C16'
THEOREMS = ['Bluebell.C16_convert_ignores_state', 'Bluebell.C16_history_independent', 'Bluebell.C16_xmlFromDict_ignores_state', 'Bluebell.C16_rewrite_ignores_state', 'Bluebell.C16_pure_calls_keep_state', 'Bluebell.C16_objects_independent', 'Bluebell.C16_old_behaviour_leaked']

RAISERS = ['SCHEDULE\n  P{1a b} x\n', 'SCHEDULE h\n  ANNEXURE\n    P{tag x} y\n', 'ATTACHMENT\n  x\x01\n', 'APPENDIX\n  FOOTNOTE 1\n    x{{FOOTNOTE 1}}\n',
           'SCHEDULES foo\n', 'x\n\x0f\n',
           # failing at every stage of an attachment: its heading, an inline in its heading, its subheading, its own attribute list,
           # the heading of a nested attachment, the second of two attachments, and before any attachment is reached
           'SCHEDULE h\x01\n  x\n', 'SCHEDULE {{abbr{1a b} x}}\n  y\n', 'SCHEDULE h\n  SUBHEADING s\x01\n  x\n', 'SCHEDULE{1a b} h\n  x\n',
           'SCHEDULE a\n  x\n  ANNEXURE b\x01\n    y\n', 'SCHEDULE a\n  x\nSCHEDULE b\x01\n  y\n', 'PREFACE\n  x\x01\nSCHEDULE\n  y\n']
PROBES = ['x\nSCHEDULE\n  y\n', 'ATTACHMENT a\n  b\nATTACHMENT c\n  d\n', 'SEC 1.\n  a\nANNEXURE\n  SCHEDULE\n    q\n', 'PART 1\n  SEC 2.\n    text\n', 'just text\n']


OTHER_NS = ['http://www.akomantoso.org/2.0', 'http://docs.oasis-open.org/legaldocml/ns/akn/3.0/WD17', 'urn:x-other']


def rand_history(rng):
    calls = []
    if rng.random() < 0.25:
        # the id generator's very first job is a document in another namespace (an older Akoma Ntoso version)
        calls.append({'op': 'rewrite', 'tree': eidlib.rand_tree(rng, max_depth=3), 'prefix': rng.choice(['', 'a']), 'ns': rng.choice(OTHER_NS)})
    for _ in range(rng.randint(1, 5)):
        k = rng.random()
        root = rng.choice(gen.ROOTS6)
        if k < 0.35:
            calls.append({'op': 'convert', 'text': C15.doc_with_attachments(rng, root) if rng.random() < 0.6 else gen.doc_text(rng, root), 'root': root})
        elif k < 0.6:
            calls.append({'op': 'convert', 'text': rng.choice(RAISERS), 'root': root})
        elif k < 0.7:
            calls.append({'op': 'convert', 'text': gen.noise_text(rng, unsafe=True), 'root': root})
        elif k < 0.8:
            calls.append({'op': 'rewrite', 'tree': eidlib.rand_tree(rng, max_depth=3), 'prefix': rng.choice(['', 'a']),
                          'ns': rng.choice([None, None, None] + OTHER_NS)})
        elif k < 0.9:
            calls.append({'op': 'parse', 'text': gen.noise_text(rng), 'root': root})
        else:
            calls.append({'op': 'unparse'})
    return calls


def run_history(p, calls):
    """execute calls on parser object p; returns outputs (canonical) per call"""
    outs = []
    last_xml = None
    for c in calls:
        if c['op'] == 'convert':
            # the same conversion by either documented path: parse_to_xml, or parse + to_dict (serialised) + xml_from_dict
            r = (real.convert_via_dict if c.get('via') == 'dict' else real.convert)(c['text'], c['root'], parser=p)
            if 'etree' in r:
                last_xml = r['etree']
            outs.append(real.strip_etree(r))
        elif c['op'] == 'rewrite':
            el = eidlib.to_etree(c['tree'], c.get('ns'))
            m = p.generator.ids.rewrite_all_eids(el, c['prefix'])
            outs.append({'tree': real.canon(el, stub_meta=False), 'mapping': sorted([k, v] for k, v in dict(m).items())})
        elif c['op'] == 'parse':
            try:
                p.parse(c['text'], c['root'])
                outs.append({})
            except Exception:
                outs.append({})
        elif c['op'] == 'unparse':
            if last_xml is not None:
                try:
                    p.unparse(copy.deepcopy(last_xml))
                except Exception:
                    pass
            outs.append({})
    return outs


def module_state():
    """deep snapshot of every module-level and class-level attribute of bluebell.* (except functions/modules/types)"""
    import sys
    import bluebell, bluebell.parser, bluebell.xml, bluebell.types, bluebell.akn  # noqa: make sure everything is loaded first
    snap = {}
    for name, mod in list(sys.modules.items()):
        if not (name == 'bluebell' or name.startswith('bluebell.')) or mod is None:
            continue
        for k, v in vars(mod).items():
            if k.startswith('__'):
                continue
            if isinstance(v, type):
                if getattr(v, '__module__', '') == name:
                    for ck, cv in vars(v).items():
                        if ck.startswith('__') or callable(cv) or isinstance(cv, (staticmethod, classmethod, property)):
                            continue
                        snap[f'{name}.{k}.{ck}'] = repr(cv)
            elif isinstance(v, (pytypes.ModuleType, pytypes.FunctionType)) or callable(v):
                continue
            else:
                snap[f'{name}.{k}'] = repr(v)[:2000]
    return snap


def run(ctx, info):
    rng = ctx.rng
    failures = []
    drv = Driver() if info['driver'] else None
    if not drv:
        ctx.oblige('model driver builds', 'tie', False, info.get('driver_log', '')[-800:])
    n = ctx.budget(250, 3000)
    before = module_state()
    nb = 0
    known = {}
    tie_bad = []
    reqs, kept = [], []
    for _ in range(n):
        calls = rand_history(rng)
        probe = {'op': 'convert', 'text': rng.choice(PROBES) if rng.random() < 0.7 else C15.doc_with_attachments(rng, 'doc'), 'root': rng.choice(['act', 'doc']),
                 'via': rng.choice(['xml', 'dict'])}
        for c in calls:
            if c['op'] == 'convert' and rng.random() < 0.3:
                c['via'] = 'dict'
        pfx = rng.choice(['', '', 'p', '__attachments'])
        p = real.make_parser(prefix=pfx)
        outs = run_history(p, calls + [probe])
        leaked = bool(p.generator.ids.counters.get('__attachments')) if False else None
        fresh = real.strip_etree(real.convert(probe['text'], probe['root'], prefix=pfx))
        got = outs[-1]
        if got != fresh:
            # classify: the known leak is the `__attachments` counter namespace surviving into the probe
            p2 = real.make_parser(prefix=pfx)
            run_history(p2, calls)
            had = bool(p2.generator.ids.counters.get('__attachments'))
            p2.generator.ids.reset()
            repaired = real.strip_etree(real.convert(probe['text'], probe['root'], parser=p2)) == fresh
            fid = None
            if had and repaired:
                fid = 'F28' if pfx == '__attachments' and not any(('exc' in o) for o in outs[:-1]) else 'F15'
            if fid:
                known[fid] = known.get(fid, 0) + 1
            else:
                nb += 1
            if len(failures) < 20 and (fid is None or known.get(fid) == 1):
                failures.append({'kind': 'oracle', 'finding': fid, 'summary': f'probe {probe["text"][:40]!r} after {len(calls)} calls differs from a fresh parser (prefix {pfx!r})',
                                 'case': {'calls': calls, 'probe': probe, 'prefix': pfx}})
        mc = [c if c['op'] in ('convert', 'rewrite') else {'op': 'pure'} for c in calls + [probe]]
        reqs.append({'op': 'history', 'prefix': pfx, 'uris': real.uris_for(), 'calls': mc})
        kept.append((calls + [probe], outs, pfx))
    ctx.oblige('oracle: a probe conversion after any history equals the same conversion on a fresh parser (outside listed findings)', 'oracle', nb == 0,
               f'{nb} unlisted differences in {n} histories; listed classes hit {known}')
    if drv:
        ms = drv.batch_parallel(reqs, jobs=12)
        for (calls, outs, pfx), m in zip(kept, ms):
            mo = m.get('outs', [])
            for c, o, x in zip(calls, outs, mo):
                if c['op'] == 'convert' and not e2e.same_result(o, x):
                    tie_bad.append({'calls': calls, 'prefix': pfx, 'at': c, 'real': e2e._short(o), 'model': e2e._short(x)})
                    break
                if c['op'] == 'rewrite' and (o.get('tree') != x.get('tree') or o.get('mapping') != sorted(x.get('mapping') or [])):
                    tie_bad.append({'calls': calls, 'prefix': pfx, 'at': 'rewrite'})
                    break
        ctx.oblige('tie history: every call of a history on one object = model runCalls (state threaded through failures)', 'tie', not tie_bad,
                   f'{len(tie_bad)} disagreements; first: {json.dumps(tie_bad[0])[:700]}' if tie_bad else f'{n} histories agree')
        for b in tie_bad[:3]:
            failures.append({'kind': 'tie', 'summary': 'history disagreement', 'case': b})
    after = module_state()
    changed = sorted(k for k in set(before) | set(after) if before.get(k) != after.get(k))
    ctx.oblige('oracle: no module-level or class-level attribute of bluebell.* changed during all histories', 'oracle', not changed, f'changed: {changed[:5]}')
    if changed:
        failures.append({'kind': 'oracle', 'finding': None, 'summary': f'module/class state changed: {changed[:5]}', 'case': {'changed': changed[:20]}})
    # interleaving across objects and threads
    nth = ctx.budget(8, 60)
    nt_bad = 0
    for _ in range(nth):
        jobs = [(C15.doc_with_attachments(rng, 'act'), 'act') for _ in range(4)]
        seq = [real.strip_etree(real.convert(t, r)) for t, r in jobs]
        res = [None] * len(jobs)
        ps = [real.make_parser() for _ in jobs]

        def work(i):
            for _ in range(3):
                res[i] = real.strip_etree(real.convert(jobs[i][0], jobs[i][1], parser=ps[i]))
        ts = [threading.Thread(target=work, args=(i,)) for i in range(len(jobs))]
        [t.start() for t in ts]
        [t.join() for t in ts]
        # interleave at call granularity on distinct objects
        ps2 = [real.make_parser() for _ in jobs]
        inter = [None] * len(jobs)
        for rnd in range(2):
            for i in rng.sample(range(len(jobs)), len(jobs)):
                inter[i] = real.strip_etree(real.convert(jobs[i][0], jobs[i][1], parser=ps2[i]))
        if res != seq or inter != seq:
            nt_bad += 1
            failures.append({'kind': 'oracle', 'finding': None, 'summary': 'conversions on distinct parser objects interfere (threads / interleaving)', 'case': {'jobs': jobs}})
    ctx.oblige('oracle: distinct parser objects do not interfere (threads and call-level interleaving)', 'oracle', nt_bad == 0, f'{nt_bad} of {nth}')
    cov = {'evaluations': n + nth, 'distinct_nontrivial': len({json.dumps(k[0]) for k in kept if len(k[0]) > 2}), 'known_finding_classes_hit': known,
           'rule': 'random histories (successful conversions with attachments, conversions raising at different stages, noise, eId rewrites, parse, unparse) on one parser followed by a probe compared with a fresh parser; prefixes incl. the reserved counter name; module/class attribute snapshots; threads and interleavings on distinct objects; non-trivial = history with more than two calls',
           'samples': [{'calls': [c.get('op') for c in kept[0][0]], 'prefix': kept[0][2]}]}
    return {'coverage': cov, 'failures': failures,
            'assumptions': ['thread scheduling inside lxml/libxml2 is not modelled; only observable results are compared']}


def witness_fails(ctx, finding):
    w = finding['witness']
    p = real.make_parser(prefix=w.get('prefix', ''))
    outs = run_history(p, w['calls'] + [w['probe']])
    fresh = real.strip_etree(real.convert(w['probe']['text'], w['probe']['root'], prefix=w.get('prefix', '')))
    return outs[-1] != fresh


def replay(ctx, rep):
    c = rep.get('case') or {}
    if 'calls' not in c or 'probe' not in c:
        print('replay file names broken obligations only:', json.dumps(rep.get('broken_obligations'))[:1000])
        return 1
    p = real.make_parser(prefix=c.get('prefix', ''))
    outs = run_history(p, c['calls'] + [c['probe']])
    fresh = real.strip_etree(real.convert(c['probe']['text'], c['probe']['root'], prefix=c.get('prefix', '')))
    print('REPRODUCED' if outs[-1] != fresh else 'not reproduced')
    return 1 if outs[-1] != fresh else 0
