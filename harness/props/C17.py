"""C17 — the intermediate parse tree honours its published contract."""
import json, copy, os
from .. import core, real, gen, e2e
from ..leandrv import Driver

MODULE = 'Bluebell.Props.C17'
THEOREMS = ['Bluebell.C17_text_and_marker_have_no_children', 'Bluebell.C17_to_dict_is_a_function', 'Bluebell.C17_two_entry_points_agree', 'Bluebell.C17_types_and_keys_documented', 'Bluebell.C17_speech_type_documented']

def _readme_contract():
    """documented node types and keys, as the translator read them from the repository's README.md on this run"""
    try:
        st = json.load(open(os.path.join(core.LEAN_DIR, 'Bluebell', 'Gen', 'status.json')))
        r = st['tables']['readme']
        return set(r['types']), set(r['keys'])
    except Exception:
        return {'element', 'hier', 'block', 'content', 'inline', 'text', 'marker'}, {'type', 'name', 'attribs', 'children', 'value', 'text', 'num', 'heading', 'subheading'}


DOC_TYPES, DOC_KEYS = _readme_contract()
FRAGMENTS = ['hier_element', 'block_element', 'hier_block_element', 'table', 'block_list', 'bullet_list', 'p', 'line', 'attachments',
             'attachment', 'speech_container', 'footnote', 'block_quote', 'preface', 'judgmentBody', 'body', 'mainBody', 'crossheading', 'longtitle']


def contract_violation(d, path='$'):
    """None, or (description, finding id | None)"""
    if not isinstance(d, dict):
        return (f'{path}: node is {type(d).__name__}, not a dict', None)
    t = d.get('type')
    if t not in DOC_TYPES:
        return (f'{path}: type {t!r} is not a documented type', 'F16' if t == 'speechhier' else None)
    for k in d:
        if k not in DOC_KEYS:
            return (f'{path}: key {k!r} is not documented', 'F16' if k in ('from', 'att_attribs') else None)
    if t == 'text':
        if not isinstance(d.get('value'), str):
            return (f'{path}: text node without a string value', None)
        if 'children' in d:
            return (f'{path}: text node with children', None)
        return None
    if not isinstance(d.get('name'), str):
        return (f'{path}: node without a string name', None)
    if t == 'marker' and d.get('children'):
        return (f'{path}: marker with children', None)
    if 'attribs' in d and not (isinstance(d['attribs'], dict) and all(isinstance(k, str) and isinstance(v, str) for k, v in d['attribs'].items())):
        return (f'{path}: attribs is not a dict of strings', None)
    if 'num' in d and not isinstance(d['num'], str):
        return (f'{path}: num is not a string', None)
    for key in ('children', 'heading', 'subheading', 'from'):
        if key in d:
            if not isinstance(d[key], list):
                return (f'{path}.{key} is not a list', None)
            for i, k in enumerate(d[key]):
                if t == 'block' and key == 'children' and isinstance(k, dict) and k.get('type') == 'hier':
                    return (f'{path}: block node with a hier child', None)
                v = contract_violation(k, f'{path}.{key}[{i}]')
                if v:
                    return v
    return None


def case_violation(text, root):
    from bluebell.parser import AkomaNtosoParser
    from lxml import etree
    p = real.make_parser()
    try:
        tree = p.parse(text, root)
    except Exception:
        return None
    if not hasattr(tree, 'to_dict'):
        return None
    try:
        d1 = tree.to_dict()
    except Exception as ex:  # noqa
        return (f'to_dict raised {type(ex).__name__}: {ex}', None)
    snap = copy.deepcopy(d1)
    v = contract_violation(d1)
    known = None
    if v:
        if v[1] is None:
            return v
        known = v
    try:
        js = json.dumps(d1)
    except Exception as ex:  # noqa
        return (f'dict is not JSON-serialisable: {ex}', None)
    if json.loads(js) != d1:
        return ('JSON round trip changes the dict', None)
    d2 = tree.to_dict()
    if d2 != snap:
        return ('to_dict is not repeatable (second call differs)', None)
    if d1 != snap:
        return ('a later to_dict call modified the dict returned by an earlier one', None)
    if not isinstance(d1, dict) or 'type' not in d1:
        return known
    # two entry points; the dict path runs on a parser object whose previous conversion raised after numbering an attachment
    # (the contract does not ask for a fresh object)
    try:
        used = real.make_parser()
        real.convert('SCHEDULE first\n  P{1a b} x\n', 'act', parser=used)
        a = real.canon(used.generator.xml_from_dict(json.loads(js), getattr(tree, 'is_root', False)))
        ra = None
    except Exception as ex:  # noqa
        a, ra = None, type(ex).__name__
    try:
        b = real.canon(p.tree_to_xml(tree))
        rb = None
    except Exception as ex:  # noqa
        b, rb = None, type(ex).__name__
    if a != b or ra != rb:
        return ('XML from the JSON-reloaded dict differs from tree_to_xml(tree)', None)
    fresh = real.strip_etree(real.convert(text, root))
    if (fresh.get('xml'), fresh.get('exc')) != (b, rb):
        return ('tree_to_xml after to_dict() differs from a fresh parse_to_xml (to_dict has side effects)', None)
    return known


def run(ctx, info):
    global DOC_TYPES, DOC_KEYS
    DOC_TYPES, DOC_KEYS = _readme_contract()   # after this run's translation

    rng = ctx.rng
    failures = []
    drv = Driver() if info['driver'] else None
    if not drv:
        ctx.oblige('model driver builds', 'tie', False, info.get('driver_log', '')[-800:])
    n = ctx.budget(700, 9000)
    cases = []
    for _ in range(n):
        k = rng.random()
        root = rng.choice(gen.ROOTS7) if k < 0.75 else rng.choice(FRAGMENTS)
        r2 = rng.random()
        t = gen.doc_text(rng, rng.choice(gen.ROOTS7), corners=0.35, risky=True) if r2 < 0.6 else gen.noise_text(rng) if r2 < 0.9 else gen.noise_line(rng) + '\n'
        cases.append((t, root))
    cases += [(t, r) for _, t, r in gen.pairwise_docs()]   # every construct inside every context
    # every keyword with attribute syntax after it (classes, pairs, both, empty braces), at the start of a document
    speechy = set(gen.SPEECH_CONTAINERS + gen.SPEECH_GROUPS + gen.SPEECH_BLOCKS + ['FROM'])
    for k in gen.ALL_KEYWORDS:
        for tail in ['.a{b c} d', '{x y}', '.k', '{}', '.k{refersTo #r|class z} 1 - h', '{class a|style b}']:
            body = k + tail + '\n  x\n    y\n'
            if k in speechy:
                cases.append(('DEBATESECTION\n  ' + body.replace('\n', '\n  ') if k != 'DEBATESECTION' else body, 'debate'))
            else:
                cases.append((body, rng.choice(gen.ROOTS6)))
    nb = 0
    known = {}
    for t, root in cases:
        v = case_violation(t, root)
        if v:
            desc, fid = v
            if fid:
                known[fid] = known.get(fid, 0) + 1
            else:
                nb += 1
            if len(failures) < 20 and (fid is None or known.get(fid) == 1):
                small = core.shrink_text(t, lambda tt, root=root: (case_violation(tt, root) or (None, 0))[1] is None and case_violation(tt, root) is not None, 120) if fid is None and nb <= 2 else t
                failures.append({'kind': 'oracle', 'finding': fid, 'summary': f'{small[:100]!r} ({root}): {desc}', 'case': {'text': small, 'root': root}})
    ctx.oblige('oracle: dict contract, JSON round trip, repeatability, no side effects, two entry points agree (outside listed findings)', 'oracle',
               nb == 0, f'{nb} unlisted violations in {len(cases)} cases; listed classes hit {known}')
    if drv:
        from bluebell.parser import AkomaNtosoParser
        pp = AkomaNtosoParser(None)
        pres = [(pp.pre_parse(t), r) for t, r in cases]
        ms = drv.batch_parallel([{'op': 'todict', 'root': r, 'text': t} for t, r in pres], jobs=12)
        bad = []
        for (t, r), m in zip(pres, ms):
            rl = {k: v for k, v in real.to_dict(t, r).items() if k != 'tree'}
            if _jd(rl) != _jd(m):
                bad.append({'pre': t, 'root': r, 'real': _jd(rl)[:600], 'model': _jd(m)[:600]})
        ctx.oblige('tie todict: real tree.to_dict() (as JSON) = model toDict, document roots and fragment rules', 'tie', not bad,
                   f'{len(bad)} disagreements; first: {json.dumps(bad[0])[:800]}' if bad else f'{len(cases)} cases agree')
        for b in bad[:3]:
            failures.append({'kind': 'tie', 'summary': 'todict disagreement', 'case': b})
    cov = {'evaluations': len(cases), 'distinct_nontrivial': len({t for t, r in cases if len(t) > 10}), 'known_finding_classes_hit': known,
           'rule': 'generated documents (corner constructs), noise and single noise lines parsed with the seven document roots and 19 fragment rules; non-trivial = distinct text longer than 10 characters',
           'samples': [{'text': cases[0][0][:300], 'root': cases[0][1]}]}
    return {'coverage': cov, 'failures': failures}


def _jd(x):
    """JSON text of a value; a value that json cannot serialise (itself a violation of the contract, reported by the oracle)
    is rendered with repr so that the tie reports a disagreement instead of crashing"""
    try:
        return json.dumps(x, sort_keys=True)
    except (TypeError, ValueError):
        return 'NOT-JSON-SERIALISABLE ' + repr(x)


def witness_fails(ctx, finding):
    w = finding['witness']
    v = case_violation(w['text'], w['root'])
    return v is not None and v[1] == finding['id']


def replay(ctx, rep):
    c = rep.get('case') or {}
    if 'text' not in c:
        print('replay file names broken obligations only:', json.dumps(rep.get('broken_obligations'))[:1000])
        return 1
    v = case_violation(c['text'], c['root'])
    print('REPRODUCED: ' + v[0] if v else 'not reproduced')
    return 1 if v else 0
