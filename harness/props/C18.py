"""C18 — a provision parsed alone equals the provision parsed in context."""
import json, re
from .. import core, real, gen, e2e, eidlib
from ..leandrv import Driver
from .C08 import ABBR, clean_num_spec

MODULE = 'Bluebell.Props.C18'
THEOREMS = ['Bluebell.C18_fragment_skips_wrapper', 'Bluebell.C18_prefix_seeds_ids', 'Bluebell.C18_examples']
HIER_KW = set(gen.HIER)
HIER_TAGS = set(ABBR) | {k.lower() for k in gen.HIER[:27]}
HEADER = re.compile(r'^( *)([A-Z]+)')


def header_lines(lines):
    out = []
    for i, l in enumerate(lines):
        m = HEADER.match(l)
        if m and m.group(2) in HIER_KW and (len(l) == m.end() or l[m.end()] in ' .{'):
            out.append(i)
    return out


def block_of(lines, i):
    k = len(lines[i]) - len(lines[i].lstrip(' '))
    j = i + 1
    while j < len(lines):
        if lines[j].strip() != '' and (len(lines[j]) - len(lines[j].lstrip(' '))) <= k:
            break
        j += 1
    return [l[k:] if l.strip() else '' for l in lines[i:j]]


def hier_elems(tree, anc=()):
    """(node, ancestors) for hierarchical elements in document order"""
    if tree[0] in {k.lower() for k in gen.HIER[:27]}:
        yield tree, anc
    if tree[0] != 'meta':
        for k in tree[2]:
            if not isinstance(k, str):
                yield from hier_elems(k, anc + (tree,))


def provisions(text, root, prefix):
    """[(fragment text, parent prefix, subtree)] for every uniquely numbered hier element of the document"""
    r = real.convert(text, root, prefix=prefix)
    if 'xml' not in r:
        return []
    lines = text.split('\n')
    heads = header_lines(lines)
    elems = list(hier_elems(r['xml']))
    if len(heads) != len(elems):
        return []   # the simple line/element correspondence does not hold for this text (e.g. keyword-looking text)
    out = []
    all_ids = {n[1].get('eId') for n, _, _ in eidlib.iter_elems(r['xml'])}
    # "uniquely numbered": no other hierarchical element with the same parent prefix, name and cleaned number
    keys = {}
    info = []
    for i, (node, anc) in zip(heads, elems):
        eid = node[1].get('eId', '')
        numel = next((k for k in node[2] if not isinstance(k, str) and k[0] == 'num'), None)
        raw = numel[2][0] if numel is not None and numel[2] and isinstance(numel[2][0], str) else ''
        cn = clean_num_spec(raw) if raw else ''
        parent = eid.rsplit('__', 1)[0] if '__' in eid else ''
        key = (parent, node[0], cn)
        keys[key] = keys.get(key, 0) + 1
        info.append((i, node, anc, cn, parent, key))
    for i, node, anc, cn, parent, key in info:
        if any(a[0] in ('attachment', 'embeddedStructure', 'authorialNote', 'displaced') for a in anc):
            continue
        if not cn or keys[key] != 1:
            continue
        exp = (parent + '__' if parent else '') + ABBR.get(node[0], node[0]) + '_' + cn
        if node[1].get('eId', '') != exp and exp in all_ids:
            continue   # a genuine clash (another element, e.g. a blockList 'list_1' next to LIST 1, holds the id): the suffixed eId is not derived from the number alone
        out.append(('\n'.join(block_of(lines, i)) + '\n', parent, node, i))
    return out


def localise_footnotes(text, i):
    """the text with the footnote markers inside the provision that starts at line i made private to it (suffix L):
    references outside can no longer take its blocks, references inside can no longer take blocks outside"""
    lines = text.split('\n')
    n = len(block_of(lines, i))
    for j in range(i, i + n):
        lines[j] = re.sub(r'\{\{FOOTNOTE ([^}\n]*?)\}\}', lambda m: '{{FOOTNOTE ' + m.group(1) + 'L}}', lines[j])
        lines[j] = re.sub(r'^( *FOOTNOTE +)([^ \n]+)( *)$', lambda m: m.group(1) + m.group(2) + 'L' + m.group(3), lines[j])
    return '\n'.join(lines)


def classify(text, root, pfx, i):
    """F48: footnote resolution is global to the document — a reference without a block of its own inside its provision takes
    the block of another provision (or loses its own block to a reference elsewhere). Causal: with the provision's footnote
    markers made private to it, the provision parsed alone equals its subtree."""
    if '{{FOOTNOTE ' not in text:
        return None
    # the mechanism needs a marker that occurs inside the provision and, character for character, outside it as well
    lines = text.split('\n')
    n = len(block_of(lines, i))
    inside, outside = '\n'.join(lines[i:i + n]), '\n'.join(lines[:i] + lines[i + n:])
    marks = lambda t: ([m.strip() for m in re.findall(r'\{\{FOOTNOTE ([^}\n]*?)\}\}', t)], re.findall(r'^ *FOOTNOTE +([^ \n]+) *$', t, re.M))
    (ri, bi), (ro, bo) = marks(inside), marks(outside)
    if not any(m in ro or m in bo for m in set(ri) | set(bi)):
        return None
    t2 = localise_footnotes(text, i)
    if t2 == text:
        return None
    for frag, parent, node, j in provisions(t2, root, pfx):
        if j == i:
            fr = real.strip_etree(real.convert(frag, 'hier_element', prefix=parent))
            return 'F48' if fr.get('xml') == node else None
    return None


def cross_fn_doc(rng):
    """provisions whose footnote references and blocks are not kept together: a reference in one provision, the block with
    that marker in another"""
    w = gen.Words(rng)
    lines = ['CHAPTER 1']
    marks = rng.choice([['1'], ['1', '2'], ['a'], ['1a', '1 a']])
    for k in range(rng.randint(2, 4)):
        lines.append('  SEC %d' % (k + 1))
        m = rng.choice(marks)
        r = rng.random()
        lines.append('    ' + w.some(2) + ('{{FOOTNOTE %s}}' % m if r < 0.7 else ''))
        if rng.random() < 0.5:
            lines += ['    FOOTNOTE ' + rng.choice(marks), '      ' + w.some(2)]
    return '\n'.join(lines) + '\n'


def twin_doc(rng):
    """siblings whose numbers differ only in case, punctuation or spacing, at random depth"""
    w = gen.Words(rng)
    lines = []
    depth = rng.randint(0, 2)
    for d in range(depth):
        lines.append('  ' * d + rng.choice(['PART', 'CHAPTER', 'SEC']) + ' %d' % rng.randint(1, 5))
    kw = rng.choice(['PARA', 'SUBSEC', 'SUBPARA', 'ITEMS-no', 'SEC'])
    kw = 'PARA' if kw == 'ITEMS-no' else kw
    for num in rng.choice([['(a)', '(A)'], ['(i)', '(I)', '(ii)'], ['1', '1A', '1a'], ['(a)', '(b)', '(B)'], ['x.', 'X.']]):
        lines.append('  ' * depth + kw + ' ' + num + (' - ' + w.some(2) if rng.random() < 0.4 else ''))
        lines.append('  ' * (depth + 1) + w.some(2))
        if rng.random() < 0.5:
            lines.append('  ' * (depth + 1) + rng.choice(['SUBPARA', 'POINT']) + ' ' + rng.choice(['(i)', '(I)', '1']))
            lines.append('  ' * (depth + 2) + w.some(2))
    return '\n'.join(lines) + '\n'


# documents that run first on every seed (shapes that random generation reaches only now and then)
CORPUS = [('SEC 2\n  SUBSEC (1)\n    SUBSEC (1)\n      x\n    SUBSEC (2)\n      y\n', 'act'),          # same type and number as the direct parent
          ('PART 1\n  PARA (1)\n    PARA 1.\n      x\n      SUBPARA (a)\n        y\n', 'act'),         # ... up to punctuation
          ('CHAPTER 1\n  SECTION 3\n    SEC 3\n      x\n', 'act'),                                       # ... through a synonym
          ('SEC 1\n  ITEMS\n    ITEM (a)\n      x\n  LIST 1\n    y\n', 'doc'),                            # blockList and LIST share the abbreviation
          ('PART A\n  SEC 1\n    x{{FOOTNOTE 1}}\n  SEC 2\n    y{{FOOTNOTE 1}}\n    FOOTNOTE 1\n      n\n', 'act')]


def run(ctx, info):
    rng = ctx.rng
    failures = []
    drv = Driver() if info['driver'] else None
    if not drv:
        ctx.oblige('model driver builds', 'tie', False, info.get('driver_log', '')[-800:])
    n = ctx.budget(120, 1500)
    nprov = nb = 0
    known = {}
    frag_cases = []
    for it in range(n + len(CORPUS)):
        root = rng.choice(['act', 'bill', 'doc', 'statement', 'judgment', 'debateReport'])
        pfx = rng.choice(['', '', 'att_3'])
        k = rng.random()
        text = CORPUS[it][0] if it < len(CORPUS) else gen.doc_text(rng, root, corners=0.25, attrs_p=0.2, scatter=False).replace('\n\n', '\n') if k < 0.7 else twin_doc(rng) if k < 0.9 else cross_fn_doc(rng)
        if it < len(CORPUS):
            root = CORPUS[it][1]
        if text[:1] == ' ':
            # the first line's own indentation is discarded by pre_parse (finding F13 of C12); cut provisions from consistently laid out text
            text = 'PREFACE\n  x\nBODY\n' + text if root in ('act', 'bill', 'doc', 'statement', 'debateReport') else 'INTRODUCTION\n' + text
        for frag, parent, node, li in provisions(text, root, pfx)[:6]:
            nprov += 1
            fr = real.strip_etree(real.convert(frag, 'hier_element', prefix=parent))
            frag_cases.append((frag, 'hier_element', parent))
            if fr.get('xml') != node:
                fid = classify(text, root, pfx, li)
                if fid:
                    known[fid] = known.get(fid, 0) + 1
                else:
                    nb += 1
                if len(failures) < 15 and (fid is None or known.get(fid) == 1):
                    failures.append({'kind': 'oracle', 'finding': fid,
                                     'summary': f"provision {node[1].get('eId')!r}: parsed alone (prefix {parent!r}) it differs from its subtree in the document ({root})",
                                     'case': {'text': text, 'root': root, 'prefix': pfx, 'fragment': frag, 'parent': parent, 'eid': node[1].get('eId')}})
    ctx.oblige('oracle: fragment parse with the enclosing eId as prefix = subtree of the whole-document parse (outside listed findings)', 'oracle', nb == 0,
               f'{nb} unlisted differences over {nprov} provisions; listed classes hit {known}')
    e2e.tie_convert(ctx, drv, frag_cases[:ctx.budget(400, 4000)], failures,
                    label='tie convert (fragments): real parse_to_xml(fragment, hier_element, prefix) = model convert')
    cov = {'evaluations': nprov, 'distinct_nontrivial': len({f for f, r, p in frag_cases if f.count('\n') > 1}),
           'rule': 'generated documents; every hierarchical element whose eId is derived from its number and that is outside quotes, footnotes and attachments is cut out by indentation, dedented and parsed with root hier_element and its parent eId as prefix; non-trivial = distinct fragment of more than one line',
           'samples': [{'fragment': frag_cases[0][0][:300], 'parent': frag_cases[0][2]}] if frag_cases else []}
    return {'coverage': cov, 'failures': failures}


def witness_fails(ctx, finding):
    w = finding['witness']
    for frag, parent, node, li in provisions(w['text'], w['root'], w.get('prefix', '')):
        fr = real.strip_etree(real.convert(frag, 'hier_element', prefix=parent))
        if fr.get('xml') != node and classify(w['text'], w['root'], w.get('prefix', ''), li) == finding['id']:
            return True
    return False


def replay(ctx, rep):
    c = rep.get('case') or {}
    if 'fragment' not in c:
        print('replay file names broken obligations only:', json.dumps(rep.get('broken_obligations'))[:1000])
        return 1
    whole = real.convert(c['text'], c['root'], prefix=c.get('prefix', ''))
    node = next((n for n, a in hier_elems(whole['xml']) if n[1].get('eId') == c['eid']), None) if 'xml' in whole else None
    fr = real.strip_etree(real.convert(c['fragment'], 'hier_element', prefix=c['parent']))
    bad = fr.get('xml') != node
    print('REPRODUCED' if bad else 'not reproduced')
    return 1 if bad else 0
