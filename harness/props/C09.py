"""C09 — rewriting eIds is idempotent, history-free and touches nothing else."""
import json, copy
from .. import core, real, gen, eidlib
from ..leandrv import Driver

MODULE = 'Bluebell.Props.C09'
THEOREMS = ['Bluebell.C09_only_eids_change', 'Bluebell.C09_history_free', 'Bluebell.C09_history_free_pair', 'Bluebell.C09_idempotent', 'Bluebell.C09_second_run_empty_mapping', 'Bluebell.C09_mapping_never_identity', 'Bluebell.C09_mapping_records_change', 'Bluebell.C09_mapping_first_writer_wins', 'Bluebell.C09_reset_makes_object_reuse_safe']


def scramble_eids(rng, t, in_meta=False):
    tag, attrs, kids = t
    a = dict(attrs)
    if tag != 'meta' and not in_meta and tag not in eidlib.EXEMPT and tag not in eidlib.PASS:
        r = rng.random()
        if r < 0.3:
            a.pop('eId', None)
        elif r < 0.9:
            a['eId'] = rng.choice(['', 'zzz', 'sec_1', 'dup', 'x y', 'p_1', 'hcontainer_1'])
    return [tag, a, [k if isinstance(k, str) else scramble_eids(rng, k, in_meta or tag == 'meta') for k in kids]]


def near_miss(rng, t, in_meta=False):
    """the correct ids, slightly off: padded with white space, case changed, a character added or dropped"""
    tag, attrs, kids = t
    a = dict(attrs)
    if tag != 'meta' and not in_meta and tag not in eidlib.EXEMPT and tag not in eidlib.PASS and a.get('eId') and rng.random() < 0.5:
        e = a['eId']
        a['eId'] = rng.choice([e + ' ', ' ' + e, e + '\n', '\t' + e + ' ', e.upper(), e + '_', e[:-1], e + '_2'])
    return [tag, a, [k if isinstance(k, str) else near_miss(rng, k, in_meta or tag == 'meta') for k in kids]]


def swap_two(rng, t):
    """two identifiable elements exchange their eIds (each holds the id the other should get)"""
    paths = [p for n, m, p in eidlib.iter_elems(t) if not m and n[0] != 'meta' and n[0] not in eidlib.EXEMPT and n[0] not in eidlib.PASS and n[1].get('eId')]
    if len(paths) < 2:
        return t
    a, b = rng.sample(paths, 2)
    t = json.loads(json.dumps(t))

    def at(path):
        n = t
        for i in path:
            n = n[2][i]
        return n
    na, nb = at(a), at(b)
    na[1]['eId'], nb[1]['eId'] = nb[1]['eId'], na[1]['eId']
    return t


def old_new_pairs(before, after):
    """(old eId, new eId) for identifiable elements outside meta, in document order"""
    out = []
    for (n1, m1, p1), (n2, m2, p2) in zip(eidlib.iter_elems(before), eidlib.iter_elems(after)):
        if m1 or n1[0] == 'meta' or n1[0] in eidlib.EXEMPT or n1[0] in eidlib.PASS:
            continue
        out.append((n1[1].get('eId', ''), n2[1].get('eId', '')))
    return out


def rewrite_violation(rng, tree, prefix):
    r1 = eidlib.real_rewrite(tree, prefix)
    if 'tree' not in r1:
        return f"rewrite_all_eids raised {r1.get('exc')}: {r1.get('msg')}"
    out = r1['tree']
    mapping = dict((k, v) for k, v in r1['mapping'])
    if eidlib.strip_all_eids(out) != eidlib.strip_all_eids(tree):
        return 'something other than eId attributes outside meta changed'
    # exempt / meta eIds untouched
    for (n1, m1, p1), (n2, m2, p2) in zip(eidlib.iter_elems(tree), eidlib.iter_elems(out)):
        if (m1 or n1[0] == 'meta' or n1[0] in eidlib.EXEMPT or n1[0] in eidlib.PASS) and n1[1].get('eId') != n2[1].get('eId'):
            return f'eId of <{n1[0]}> (exempt or inside meta) changed'
    # history-free
    r2 = eidlib.real_rewrite(eidlib.erase_eids(tree), prefix)
    if r2.get('tree') != out:
        return 'result depends on the eIds that were there before (erased eIds give a different result)'
    r3 = eidlib.real_rewrite(scramble_eids(rng, tree), prefix)
    if r3.get('tree') != out:
        return 'result depends on the eIds that were there before (scrambled eIds give a different result)'
    nm = swap_two(rng, near_miss(rng, out) if rng.random() < 0.6 else out)
    r5 = eidlib.real_rewrite(nm, prefix)
    if r5.get('tree') != out:
        return 'result depends on the eIds that were there before (the correct ids padded with white space / slightly altered are not all restored)'
    m5 = dict((k, v) for k, v in r5.get('mapping', []))
    olds = [o for o, _ in old_new_pairs(nm, out) if o]
    for o, n in old_new_pairs(nm, out):
        if o and o != n and olds.count(o) == 1 and m5.get(o) != n:
            return f'mapping does not send the previously unique id {o!r} to {n!r}: {m5.get(o)!r}'
    # idempotent
    r4 = eidlib.real_rewrite(out, prefix)
    if r4.get('tree') != out:
        return 'a second run changes the tree'
    if r4.get('mapping'):
        return f'a second run reports a non-empty mapping {r4["mapping"][:3]}'
    # mapping contract
    for k, v in mapping.items():
        if k == v:
            return f'mapping sends {k!r} to itself'
    pairs = old_new_pairs(tree, out)
    olds = [o for o, n in pairs if o]
    for o, n in pairs:
        if o and o != n and olds.count(o) == 1 and mapping.get(o) != n:
            return f'old id {o!r} (unique, changed to {n!r}) is mapped to {mapping.get(o)!r}'
    for k in mapping:
        if k not in olds:
            return f'mapping has a key {k!r} that was not an old eId of an identifiable element'
    return None


def run(ctx, info):
    rng = ctx.rng
    failures = []
    drv = Driver() if info['driver'] else None
    if not drv:
        ctx.oblige('model driver builds', 'tie', False, info.get('driver_log', '')[-800:])
    nt = ctx.budget(1200, 20000)
    cs = [(eidlib.rand_tree(rng), rng.choice(['', '', 'pfx', 'att_1'])) for _ in range(nt)]
    nb = 0
    for t, p in cs:
        v = rewrite_violation(rng, t, p)
        if v:
            nb += 1
            if len(failures) < 15:
                failures.append({'kind': 'oracle', 'finding': None, 'summary': f'rewrite_all_eids(prefix={p!r}): {v}', 'case': {'check': 'tree', 'tree': t, 'prefix': p}})
    ctx.oblige('oracle: only-eIds / history-free / idempotent / mapping contract on arbitrary trees', 'oracle', nb == 0, f'{nb} violations in {nt}')
    if drv:
        reals = [eidlib.real_rewrite(t, p) for t, p in cs]
        ms = drv.batch_parallel([eidlib.model_req(t, p) for t, p in cs], jobs=12)
        bad = []
        for (t, p), r, m in zip(cs, reals, ms):
            m = eidlib.norm_model(m)
            if r.get('tree') != m['tree'] or r.get('mapping') != m['mapping']:
                bad.append({'tree': t, 'prefix': p, 'real': r, 'model': m})
        ctx.oblige('tie eids: IdGenerator.rewrite_all_eids = model rewriteAll (tree and mapping)', 'tie', not bad,
                   f'{len(bad)} disagreements; first: {json.dumps(bad[0])[:700]}' if bad else f'{nt} trees agree')
        for b in bad[:3]:
            failures.append({'kind': 'tie', 'summary': 'eids disagreement', 'case': b})
    # sequences of rewrites on one rewriter object = fresh objects
    from bluebell.xml import IdGenerator
    nseq = ctx.budget(150, 2000)
    nsb = 0
    for _ in range(nseq):
        g = IdGenerator()
        seq = [(eidlib.rand_tree(rng, max_depth=3), rng.choice(['', 'a'])) for _ in range(rng.randint(2, 5))]
        for t, p in seq:
            if rng.random() < 0.25:
                # a rewrite that stops half way (a comment node inside the tree makes the rewriter raise, before and after
                # any change to the library): the next rewrite on the same object must not see what it left behind
                from lxml import etree as _et
                el = eidlib.to_etree(t)
                inner = [e for e in el.iter() if isinstance(e.tag, str)]
                inner[rng.randrange(len(inner))].append(_et.Comment('x'))
                try:
                    g.rewrite_all_eids(el, p)
                except Exception:
                    pass
            a = eidlib.real_rewrite(t, p, gen_obj=g)
            b = eidlib.real_rewrite(t, p)
            if a != b:
                nsb += 1
                if len(failures) < 20:
                    failures.append({'kind': 'oracle', 'finding': None, 'summary': 'a reused IdGenerator gives a different result from a fresh one',
                                     'case': {'check': 'seq', 'seq': [[t, p] for t, p in seq]}})
                break
    ctx.oblige('oracle: sequences of rewrites on one IdGenerator equal fresh objects', 'oracle', nsb == 0, f'{nsb} of {nseq} sequences differ')
    # parser outputs are fixed points
    nd = ctx.budget(250, 3000)
    nfp = nconv = 0
    for i in range(nd):
        root = rng.choice(gen.ROOTS7)
        pfx = rng.choice(['', '', 'att_2'])
        r0 = rng.random()
        text = gen.doc_text(rng, root, corners=0.35) if r0 < 0.8 else gen.noise_text(rng)
        r = real.convert(text, root, prefix=pfx)
        if 'xml' not in r:
            continue
        nconv += 1
        from bluebell.xml import IdGenerator as IG
        x = copy.deepcopy(r['etree'])
        m = dict(IG().rewrite_all_eids(x, pfx))
        after = real.canon(x)
        if after != r['xml'] or m:
            nfp += 1
            if len(failures) < 25:
                def pred(tt, root=root, pfx=pfx):
                    rr = real.convert(tt, root, prefix=pfx)
                    if 'xml' not in rr:
                        return False
                    xx = copy.deepcopy(rr['etree'])
                    mm = dict(IG().rewrite_all_eids(xx, pfx))
                    return bool(mm) or real.canon(xx) != rr['xml']
                small = core.shrink_text(text, pred, 150) if nfp <= 2 else text
                failures.append({'kind': 'oracle', 'finding': None,
                                 'summary': f'parser output is not a fixed point of the rewriter (mapping {list(m.items())[:2]}) for {small[:100]!r} root {root}',
                                 'case': {'check': 'doc', 'text': small, 'root': root, 'prefix': pfx}})
    ctx.oblige('oracle: documents fresh from the parser are fixed points with an empty mapping', 'oracle', nfp == 0, f'{nfp} of {nconv}')
    cov = {'evaluations': nt * 5 + nseq + nconv, 'distinct_nontrivial': len({json.dumps(t) for t, p in cs if len(json.dumps(t)) > 80}) + nconv,
           'rule': 'random trees with arbitrary pre-existing eIds: five rewriter runs each (as is, erased, scrambled, second run, model); sequences on one object; generated documents with corner constructs re-run through the rewriter; non-trivial = serialisation longer than 80 characters or a converted document',
           'samples': [{'tree': cs[0][0], 'prefix': cs[0][1]}]}
    return {'coverage': cov, 'failures': failures}


def replay(ctx, rep):
    import random
    c = rep.get('case') or {}
    if c.get('check') == 'tree':
        v = rewrite_violation(random.Random(0), c['tree'], c['prefix'])
    elif c.get('check') == 'doc':
        from bluebell.xml import IdGenerator as IG
        r = real.convert(c['text'], c['root'], prefix=c['prefix'])
        x = copy.deepcopy(r['etree'])
        m = dict(IG().rewrite_all_eids(x, c['prefix']))
        v = 'not a fixed point' if (m or real.canon(x) != r['xml']) else None
    elif c.get('check') == 'seq':
        from bluebell.xml import IdGenerator
        g = IdGenerator()
        v = None
        for t, p in c['seq']:
            if eidlib.real_rewrite(t, p, gen_obj=g) != eidlib.real_rewrite(t, p):
                v = 'reused object differs'
    else:
        print('replay file names broken obligations only:', json.dumps(rep.get('broken_obligations'))[:1000])
        return 1
    print('REPRODUCED: ' + v if v else 'not reproduced')
    return 1 if v else 0
