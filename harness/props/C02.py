"""C02 — output always validates against the Akoma Ntoso 3.0 schema."""
import json, re
from .. import core, real, gen, e2e, schema
from ..leandrv import Driver

MODULE = 'Bluebell.Props.C02'
THEOREMS = ['Bluebell.C02_no_placeholder_left', 'Bluebell.C02_required_containers', 'Bluebell.C02_block_nonempty', 'Bluebell.C02_hier_content_wrapped', 'Bluebell.C02_keyword_tables', 'Bluebell.C02_counterexample_longtitle']

HIER_TAGS = {k.lower() for k in gen.HIER[:27]}
BARE_LT = re.compile(r'^([ \t]*(?:LONGTITLE|CROSSHEADING(?:\.[^ \n|{}.]*)*(?:\{[^\n}]*\})?))[ \t]*$', re.M)


def classify(text, root, err):
    k, tag, parent, msg = err['kind'], err['tag'], err['parent'], err['msg']
    text = text.strip()   # what pre_parse does first (any str.isspace character, not only blanks and tabs)
    if k == 'unexpected-element':
        if parent == 'li' and tag in ('blockList', 'table', 'block', 'blockContainer', 'tblock', 'foreign'):
            return 'F5'
        if tag == 'longTitle' and parent != 'preface':
            return 'F4'
        if tag == 'speechgroup':
            return 'F21'
        if parent == 'speechGroup' and tag == 'from':
            return 'F38'
        if parent in ('listIntroduction', 'listWrapUp') and re.search(r'^[ \t]*FOOTNOTE +[^ \n]', text, re.M):
            # the grammar admits only a line and footnotes there, so a block child can only be
            # the unwrapped content of a footnote that no reference claimed
            return 'F39'
        if tag == 'nationalinterest':
            return 'F25'
        if tag in ('scene', 'narrative', 'summary') and parent in ('speech', 'question', 'answer', 'speechgroup'):
            return 'F26'
        if tag == 'crossHeading' and parent == 'embeddedStructure':
            return 'F18'
        if tag == 'crossHeading' and parent == 'authorialNote':
            return 'F41'
        if tag == 'crossHeading' and re.search(r'^[ \t]*FOOTNOTE +[^ \n]', text, re.M) and re.search(r'^[ \t]*CROSSHEADING', text, re.M):
            # F45: an unreferenced FOOTNOTE block is unwrapped where it stands, crossheadings included. Causal: a crossheading
            # element can stand in such a place only because a FOOTNOTE block admits it — with every FOOTNOTE block line turned
            # into BLOCKS (which does not), this error is gone. (Nesting is decided by pre_parse, not by comparing indentation.)
            t2 = re.sub(r'^([ \t]*)FOOTNOTE +[^ \n]+[ \t]*$', r'\1BLOCKS', text, flags=re.M)
            if t2 != text:
                r2 = real.convert(t2, root)
                if 'etree' in r2 and not any(e['kind'] == k and e['tag'] == tag and e['parent'] == parent for e in schema.errors(r2['etree'])):
                    return 'F45'
        if tag in HIER_TAGS and parent not in HIER_TAGS and re.search(r'^[ \t]*FOOTNOTE +[^ \n]', text, re.M):
            return 'F6'
    if k == 'missing-child':
        if BARE_LT.search(text):
            t2 = BARE_LT.sub(lambda m: m.group(1) + ' x', text)
            r2 = real.convert(t2, root)
            if 'etree' in r2 and not any(e['kind'] == 'missing-child' and e['tag'] == tag for e in schema.errors(r2['etree'])):
                return 'F24'
        if tag == 'mainBody' and re.search(r'^[ \t]*(ATTACHMENT|APPENDIX|SCHEDULE|ANNEXURE)[^\n]*\{\{FOOTNOTE', text, re.M):
            return 'F7'
        if tag == 'mainBody' and re.search(r'^[ \t]*FOOTNOTE +[^ \n]', text, re.M) and '{{FOOTNOTE ' in text:
            # F47: FOOTNOTE blocks were the only content of a main body and a reference elsewhere claimed them. Causal:
            # with a paragraph in front of every top-level FOOTNOTE line no mainBody is left empty
            t2 = re.sub(r'^(FOOTNOTE +[^ \n])', r'x\n\1', text, flags=re.M)
            r2 = real.convert(t2, root)
            if t2 != text and 'etree' in r2 and not any(e['kind'] == 'missing-child' and e['tag'] == 'mainBody' for e in schema.errors(r2['etree'])):
                return 'F47'
    if k == 'bad-attr-value' and 'anyURI' in msg:
        return 'F17'
    return None


def cases(ctx, n):
    rng = ctx.rng
    out = []
    for _ in range(n):
        root = rng.choice(gen.ROOTS7)
        k = rng.random()
        if k < 0.7:
            t = gen.doc_text(rng, root, corners=0.3, risky=(rng.random() < 0.3))
        elif k < 0.85:
            # malformed / oddly nested markup without explicit attribute lists
            t = gen.noise_text(rng).replace('{', '').replace('}', '')
        else:
            t = gen.mutate(rng, gen.doc_text(rng, root, attrs_p=0.0)).replace('{', '').replace('}', '')
        out.append((t, root, ''))
    out += [(t, r, '') for _, t, r in gen.pairwise_docs()]   # every construct inside every context
    return out


def run(ctx, info):
    failures = []
    drv = Driver() if info['driver'] else None
    if not drv:
        ctx.oblige('model driver builds', 'tie', False, info.get('driver_log', '')[-800:])
    cs = cases(ctx, ctx.budget(700, 9000))
    e2e.tie_convert(ctx, drv, cs, failures)
    nbad = nconv = 0
    known = {}
    for t, root, p in cs:
        r = real.convert(t, root, prefix=p)
        if 'etree' not in r:
            continue
        nconv += 1
        es = schema.errors(r['etree'])
        for e in es[:3]:
            fid = classify(t, root, e)
            if fid:
                known[fid] = known.get(fid, 0) + 1
            else:
                nbad += 1
            if len(failures) < 30 and (fid is None or known.get(fid) == 1):
                small = t
                if fid is None and nbad <= 2:
                    def pred(tt, root=root, e=e):
                        rr = real.convert(tt, root)
                        if 'etree' not in rr:
                            return False
                        return any(x['kind'] == e['kind'] and x['tag'] == e['tag'] and x['parent'] == e['parent'] and classify(tt, root, x) is None
                                   for x in schema.errors(rr['etree']))
                    small = core.shrink_text(t, pred, 200)
                failures.append({'kind': 'oracle', 'finding': fid,
                                 'summary': f"parse_to_xml({small[:100]!r}, {root!r}) is schema-invalid: <{e['tag']}> in <{e['parent']}>: {e['msg'][:120]}",
                                 'case': {'text': small, 'root': root, 'error': e}})
            if fid is None:
                break
    ctx.oblige('oracle: every converted document validates against akomantoso30-lenient.xsd (outside listed findings)', 'oracle',
               nbad == 0, f'{nbad} unlisted schema errors in {nconv} converted documents; listed classes hit {known}')
    cov = {'evaluations': len(cs), 'distinct_nontrivial': len({t for t, r, p in cs if len(t) > 10}), 'converted': nconv,
           'known_finding_classes_hit': known,
           'rule': 'generated documents over the documented vocabulary (corner constructs, schema-permitted attribute lists), malformed noise and randomly edited documents without explicit attribute lists; seven roots; validated with lxml XMLSchema(cobalt lenient XSD); non-trivial = distinct text longer than 10 characters',
           'samples': [{'text': cs[0][0][:300], 'root': cs[0][1]}]}
    return {'coverage': cov, 'failures': failures,
            'assumptions': ['validity is judged by libxml2 against cobalt/xsd/akomantoso30-lenient.xsd', 'explicit attribute lists are only generated from schema-permitted attributes']}


def witness_fails(ctx, finding):
    w = finding['witness']
    r = real.convert(w['text'], w['root'])
    if 'etree' not in r:
        return False
    return any(classify(w['text'], w['root'], e) == finding['id'] for e in schema.errors(r['etree']))


def replay(ctx, rep):
    c = rep.get('case') or {}
    if 'text' not in c:
        print('replay file names broken obligations only:', json.dumps(rep.get('broken_obligations'))[:1000])
        return 1
    r = real.convert(c['text'], c['root'])
    es = schema.errors(r['etree']) if 'etree' in r else []
    print(json.dumps(es)[:600])
    print('REPRODUCED' if es else 'not reproduced')
    return 1 if es else 0
