"""C03 — no text is lost, duplicated or invented on the way to XML."""
import json, re
from .. import core, real, gen, e2e
from ..leandrv import Driver

MODULE = 'Bluebell.Props.C03'
THEOREMS = ['Bluebell.C03_merge_keeps_text', 'Bluebell.C03_normalise_keeps_text', 'Bluebell.C03_unreferenced_block_keeps_text', 'Bluebell.C03_eids_titles_keep_text', 'Bluebell.C03_examples', 'Bluebell.C03_xml_building_keeps_text',
            'Bluebell.C03_plain_line_is_its_text', 'Bluebell.C03_ordinary_first_chars', 'Bluebell.line_of_plain', 'Bluebell.C03_mixed_line_to_element']
TOKEN = re.compile('w\\d+|ש\\d+ם|ب\\d+ت|\U00010348\\d+\U0001F600|ж\\d+я|\u212b\\d+e\u0301')
SKIP_ATTRS = {'eId', 'by'}
ATTR_TOKENS = set()   # words found in attribute values by the last out_tokens call (no document order among them)


def out_tokens(tree):
    """(tokens outside authorial notes in document order, tokens inside notes) of the body"""
    main, notes = [], []
    ATTR_TOKENS.clear()

    def rec(n, in_note):
        if n[0] == 'meta':
            return
        dst = notes if in_note else main
        for k, v in n[1].items():
            if k not in SKIP_ATTRS or (k == 'by' and not v.startswith('#')):   # a `by` derived from the FROM line starts with '#'
                dst.extend(TOKEN.findall(v))
                ATTR_TOKENS.update(TOKEN.findall(v))
        for k in n[2]:
            if isinstance(k, str):
                dst.extend(TOKEN.findall(k))
            else:
                rec(k, in_note or k[0] == 'authorialNote')
    rec(tree, False)
    return main, notes


def violation(text, root):
    r = real.convert(text, root)
    if 'xml' not in r:
        return None
    want = TOKEN.findall(text)
    if len(set(want)) != len(want):
        return None   # payload words are not distinct: outside the quantifier
    main, notes = out_tokens(r['xml'])
    from collections import Counter
    got = main + notes
    cg = Counter(got)
    lost = [t for t in want if t not in cg]
    if lost:
        return f'lost words {lost[:5]}'
    dup = sorted(t for t, c in cg.items() if c > 1)
    if dup:
        return f'duplicated words {dup[:5]}'
    ws = set(want)
    extra = [t for t in got if t not in ws]
    if extra:
        return f'invented words {extra[:5]}'
    ns = set(notes) | set(ATTR_TOKENS)   # the order clause is about text; words inside one attribute value have no document order
    main = [t for t in main if t not in ATTR_TOKENS]
    if main != [t for t in want if t not in ns]:
        a = [t for t in want if t not in ns]
        i = next(i for i, (x, y) in enumerate(zip(main, a)) if x != y)
        return f'order changed outside footnotes: output has {main[i:i + 3]} where the input has {a[i:i + 3]}'
    # invented text: '(content missing)' may only stand in for a footnote whose content really is missing. When the text
    # has exactly one reference and exactly one block for a marker, the block's content belongs in that note.
    refs = Counter(re.findall(r'\{\{FOOTNOTE ([^ \n}]+)\}\}', text))
    # a FOOTNOTE line is a block only if an indented block follows it. Which lines form that block is decided by pre_parse itself
    # (after a dedent that lands between two open levels, comparing indentation does not tell: F20), read off its INDENT / DEDENT lines
    blocks = Counter()
    try:
        pre = real.make_parser().pre_parse(text).split('\n')
    except Exception:  # noqa
        pre = []
    IND, DED = '\x0e', '\x0f'
    for i, l in enumerate(pre):
        m = re.match(r'^FOOTNOTE +([^ \n]+)$', l)
        if m and i + 1 < len(pre) and pre[i + 1] == IND:
            blocks[m.group(1)] += 1
            depth = 0
            for x in pre[i + 1:]:
                if x == IND:
                    depth += 1
                elif x == DED:
                    depth -= 1
                    if depth == 0:
                        break
                elif '{{FOOTNOTE ' + m.group(1) + '}}' in x:
                    # a block that contains the reference to itself cannot be that reference's content (fix 13653fd):
                    # '(content missing)' is then the right answer, so this marker is left out of the clause
                    blocks[m.group(1)] += 1
                    break

    def notes_of(n, acc):
        if isinstance(n, str) or n[0] == 'meta':
            return acc
        if n[0] == 'authorialNote':
            acc.append(n)
        for k in n[2]:
            notes_of(k, acc)
        return acc

    def flat(n):
        return n if isinstance(n, str) else ''.join(flat(k) for k in n[2])
    for note in notes_of(r['xml'], []):
        m = note[1].get('marker')
        if m and refs.get(m) == 1 and blocks.get(m) == 1 and flat(note).strip() == '(content missing)' and '(content missing)' not in text:
            return f"invented text: the note for {{{{FOOTNOTE {m}}}}} says '(content missing)' although the text has a FOOTNOTE {m} block"
    return None


EMPTY_WITH_ATTRS = re.compile(r'^([ \t]*(?:PREFACE|PREAMBLE|CONCLUSIONS|CROSSHEADING|LONGTITLE))((?:\.[^ \n.{]*)*(?:\{[^\n}]*\})?)[ \t]*$', re.M)


def classify(text, root):
    """F46: the only words that go missing are attribute values written on a bare PREFACE / PREAMBLE / CONCLUSIONS /
    CROSSHEADING / LONGTITLE line; normalise removes the empty element and its attributes with it. Causal: the same
    text with the attribute part of those lines deleted has no violation."""
    if not any(TOKEN.search(m.group(2)) for m in EMPTY_WITH_ATTRS.finditer(text)):
        return None
    t2 = EMPTY_WITH_ATTRS.sub(lambda m: m.group(1) if TOKEN.search(m.group(2)) else m.group(0), text)
    if t2 != text and violation(t2, root) is None:
        return 'F46'
    return None


def cases(ctx, n):
    rng = ctx.rng
    out = []
    for _ in range(n):
        root = rng.choice(gen.ROOTS7)
        t = gen.doc_text(rng, root, corners=0.3, risky=(rng.random() < 0.3), scripts=(rng.random() < 0.5))
        out.append((t, root, ''))
    out += [(t, r, '') for _, t, r in gen.pairwise_docs(tokens=True)]   # every construct inside every context
    return out


def run(ctx, info):
    failures = []
    drv = Driver() if info['driver'] else None
    if not drv:
        ctx.oblige('model driver builds', 'tie', False, info.get('driver_log', '')[-800:])
    cs = cases(ctx, ctx.budget(350, 6000))
    e2e.tie_convert(ctx, drv, cs, failures)
    nb = 0
    ntok = 0
    known = {}
    for t, root, _ in cs:
        ntok += len(TOKEN.findall(t))
        v = violation(t, root)
        if v:
            fid = classify(t, root)
            if fid:
                known[fid] = known.get(fid, 0) + 1
                if known[fid] == 1:
                    failures.append({'kind': 'oracle', 'finding': fid, 'summary': f'{t[:120]!r} ({root}): {v}', 'case': {'text': t, 'root': root}})
                continue
            nb += 1
            if len(failures) < 20:
                small = core.shrink_text(t, lambda tt, root=root, v=v: violation(tt, root) == v and classify(tt, root) is None, 200) if nb <= 3 else t   # same words lost / duplicated / invented
                failures.append({'kind': 'oracle', 'finding': None, 'summary': f'{small[:120]!r} ({root}): {violation(small, root) or v}', 'case': {'text': small, 'root': root}})
    ctx.oblige('oracle: every payload word appears exactly once, in order (footnote content moved to its reference; outside listed findings)', 'oracle', nb == 0,
               f'{nb} unlisted violations in {len(cs)} documents, {ntok} payload words; listed classes hit {known}')
    cov = {'evaluations': len(cs), 'distinct_nontrivial': len({t for t, r, p in cs if len(TOKEN.findall(t)) > 3}), 'payload_words': ntok,
           'rule': 'generated documents over the documented vocabulary whose payload words are distinct tokens (ASCII, Hebrew, Arabic, Cyrillic, astral, non-NFC), corner constructs, seven roots; non-trivial = distinct document with more than three payload words',
           'samples': [{'text': cs[0][0][:300], 'root': cs[0][1]}]}
    return {'coverage': cov, 'failures': failures,
            'assumptions': ['markup = keywords in keyword position, marker punctuation, attribute syntax, escaping backslashes; payload = the generator\'s word tokens']}


def witness_fails(ctx, finding):
    w = finding['witness']
    return violation(w['text'], w['root']) is not None and classify(w['text'], w['root']) == finding['id']


def replay(ctx, rep):
    c = rep.get('case') or {}
    if 'text' not in c:
        print('replay file names broken obligations only:', json.dumps(rep.get('broken_obligations'))[:1000])
        return 1
    v = violation(c['text'], c['root'])
    print('REPRODUCED: ' + v if v else 'not reproduced')
    return 1 if v else 0
