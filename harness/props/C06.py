"""C06 — unparsing escapes text so it can never turn into markup."""
import json, copy, re
from .. import core, real, gen, e2e, eidlib, treegen
from ..leandrv import Driver
from .C05 import norm

MODULE = 'Bluebell.Props.C06'
THEOREMS = ['Bluebell.C06_escape_list_covers_keywords', 'Bluebell.C06_item_escaped', 'Bluebell.C06_num_escape_round_trip', 'Bluebell.C06_unparse_leaves_input', 'Bluebell.C06_unparse_total', 'Bluebell.C06_examples', 'Bluebell.C06_safe_text_verbatim', 'Bluebell.escapeInlines_safe', 'Bluebell.C06_keyword_paragraph_round_trip']
HIER = set(treegen.HIER)


def rule_for(tree):
    t = tree[0]
    if t == 'akomaNtoso':
        return 'act'
    return 'hier_element'


def wrap(tree):
    """block-level trees are tested as the content of a section (one block may unparse to several: its footnotes follow it)"""
    if tree[0] == 'akomaNtoso' or tree[0] in HIER:
        return tree
    return ['section', {}, [['num', {}, ['1']], ['content', {}, [tree]]]]


def representable(tree):
    """has the text syntax a form for this tree? (elements without syntax such as span are only subject to
    'no text dropped' and 'input unmodified')"""
    MIXED = {'p', 'listIntroduction', 'listWrapUp', 'heading', 'subheading', 'crossHeading', 'from', 'b', 'i', 'u', 'sup', 'sub', 'ref', 'remark',
             'abbr', 'def', 'term', 'inline', 'ins', 'del', 'num'}

    def ok(n, parent=None, inside=frozenset()):
        if n[0] in ('span',) or (n[0] == 'br' and parent != 'remark'):
            return False
        if n[0] in ('p', 'heading', 'subheading', 'crossHeading', 'listIntroduction', 'listWrapUp', 'num') and not ''.join(_alltext(n)).strip() \
                and not any(not isinstance(k, str) and k[0] in ('img', 'authorialNote') for k in n[2]):
            return False   # whitespace-only blocks have no text form
        if n[0] in ('b', 'i', 'u') and n[0] in inside:
            return False   # the symmetric markers cannot contain themselves
        if n[0] in ('b', 'i', 'u', 'sup', 'sub', 'remark') and not n[2]:
            return False   # these inlines need content
        if n[0] not in MIXED and any(isinstance(k, str) and k.strip() for k in n[2]):
            return False   # text directly inside a structural element
        inside = inside | {n[0]} if n[0] in ('b', 'i', 'u') else inside
        if n[0] in ('content', 'intro', 'wrapUp', 'heading', 'subheading', 'embeddedStructure', 'authorialNote', 'tr', 'td', 'th', 'li', 'item',
                    'blockList', 'ul', 'table', 'blockContainer', 'listIntroduction', 'listWrapUp', 'crossHeading', 'num') and not n[2]:
            return False
        return all(ok(k, n[0], inside) for k in n[2] if not isinstance(k, str))
    return ok(tree)


def _alltext(n):
    out = []
    for k in n[2]:
        if isinstance(k, str):
            out.append(k)
        elif k[0] != 'authorialNote':
            out += _alltext(k)
    return out


def canon_attrs(t):
    """what the text syntax carries of attribute values: spaces in href/src are written %20, alt is trimmed"""
    tag, attrs, kids = t
    a = dict(attrs)
    for k in ('href', 'src'):
        if k in a:
            a[k] = a[k].replace(' ', '%20')
    if 'alt' in a:
        a['alt'] = a['alt'].strip()
    return [tag, a, [k if isinstance(k, str) else canon_attrs(k) for k in kids]]


def strip_ids(t):
    tag, attrs, kids = t
    a = {k: v for k, v in attrs.items() if k != 'eId'}
    return [tag, a, [k if isinstance(k, str) else strip_ids(k) for k in kids if isinstance(k, str) or k[0] != 'meta']]


def ws_norm(t):
    """text equality modulo what the text format cannot carry: CR/LF/TAB inside text become spaces, and
    whitespace at the edges of blocks is not significant"""
    tag, attrs, kids = t
    ks = []
    for k in kids:
        if isinstance(k, str):
            k = re.sub(r'[\r\n]', ' ', k).replace('\t', '  ')
            ks.append(k)
        else:
            ks.append(ws_norm(k))
    return norm([tag, attrs, ks])


def words(t, out=None):
    out = [] if out is None else out
    if t[0] in ('meta',):
        return out
    for k in t[2]:
        if isinstance(k, str):
            out += re.findall(r'[^\W_]+', k)
        else:
            words(k, out)
    return out


def violation(tree, classify_known=True):
    before = real.full_canon(eidlib.to_etree(tree))
    r = real.unparse_tree(tree)
    if 'text' not in r:
        return (f"unparse raised {r.get('exc')}: {r.get('msg')}", None)
    if r['tree'] != before:
        return ('unparse modified the tree it was given', None)
    text = r['text']
    # never drops text: every word of every text node is in the unparsed text
    have = re.sub(r'\\(.)', r'\1', text)
    for w in words(tree):
        if w not in have:
            return (f'word {w!r} of a text node is missing from the unparsed text', None)
    if not representable(tree):
        return None
    wtree = wrap(tree)
    if wtree is not tree:
        text = real.unparse_tree(wtree)['text']
    rule = rule_for(wtree)
    rr = real.convert(text, rule)
    if 'xml' not in rr:
        return (f"re-parsing the unparsed text with rule {rule} raised {rr.get('exc')}", classify(tree, text) if classify_known else None)
    got = rr['xml']
    want = canon_attrs(wtree)
    a, b = ws_norm(strip_ids(got)), ws_norm(strip_ids(want))
    if a != b:
        return ('re-parsed structure or text differs from the tree: ' + first_diff(b, a), classify(tree, text) if classify_known else None)
    return None


def first_diff(want, got, path='$'):
    if isinstance(want, str) or isinstance(got, str):
        return f'at {path}: expected {want!r}, got {got!r}'[:300] if want != got else ''
    if want[0] != got[0]:
        return f'at {path}: expected <{want[0]}>, got <{got[0]}>'
    if want[1] != got[1]:
        return f'at {path}/<{want[0]}>: attributes {want[1]} vs {got[1]}'
    for i, (x, y) in enumerate(zip(want[2], got[2])):
        d = first_diff(x, y, f'{path}/{want[0]}[{i}]')
        if d:
            return d
    if len(want[2]) != len(got[2]):
        return f'at {path}/<{want[0]}>: {len(want[2])} children expected, got {len(got[2])}: {json.dumps(want[2])[:120]} vs {json.dumps(got[2])[:120]}'
    return ''


def has(tree, pred):
    if pred(tree):
        return True
    return any(has(k, pred) for k in tree[2] if not isinstance(k, str))


BRACE_INLINES = {'sup', 'sub', 'ref', 'remark', 'abbr', 'def', 'term', 'inline', 'ins', 'del'}
BRACE_ELEMS = BRACE_INLINES | {'img', 'authorialNote'}


def _odd_run_end(t, ch):
    n = len(t) - len(t.rstrip(ch))
    return n % 2 == 1


def f34(n):
    """a lone closing brace at the end of a brace inline's content or right after a brace element, or a lone opening brace
    right before a brace element"""
    ks = n[2]
    for i, k in enumerate(ks):
        if isinstance(k, str):
            if i > 0 and not isinstance(ks[i - 1], str) and ks[i - 1][0] in BRACE_ELEMS and (len(k) - len(k.lstrip('}'))) % 2 == 1:
                return True
            if n[0] in BRACE_INLINES and i == len(ks) - 1 and _odd_run_end(k, '}'):
                return True
            if i + 1 < len(ks) and not isinstance(ks[i + 1], str) and ks[i + 1][0] in BRACE_ELEMS and _odd_run_end(k, '{'):
                return True
    return False


def f32(n, in_li_first=False):
    return False


def classify(tree, text):
    """structural recognisers for the catalogued escaping defects; each is confirmed causally (the tree with
    the offending characters / elements removed must round-trip)"""
    cands = []
    # (the recognisers of F9 and F37 were removed when those defects were repaired: a fixed entry suppresses nothing)
    if has(tree, f34):
        cands.append(('F34', lambda t: map_text(t, lambda s, n, i: s.replace('{', '(').replace('}', ')'))))
    HEADISH = ('heading', 'subheading', 'crossHeading')
    if has(tree, lambda n: n[0] in HIER and any(not isinstance(k, str) and k[0] in HEADISH and has(k, lambda m: m[0] == 'authorialNote') for k in n[2])
           and any(not isinstance(k, str) and k[0] in HIER for k in n[2])):
        # F33: the FOOTNOTE block of a heading / crossheading note sits alone in an intro / hcontainer / wrapUp group, which stays behind empty
        cands.append(('F33', lambda t: drop_elems(t, lambda n, parent_chain: n[0] == 'authorialNote' and any(p in HEADISH for p in parent_chain))))
    NOTE_ALL = ('heading', 'subheading', 'crossHeading', 'listIntroduction', 'listWrapUp', 'scene', 'narrative', 'summary')
    if has(tree, lambda n: n[0] in NOTE_ALL and has(n, lambda m: m[0] == 'authorialNote' and has_below(m, lambda q: q[0] == 'authorialNote'))):
        # F36: these templates select every descendant note, so a note nested in a note is emitted twice
        cands.append(('F36', lambda t: drop_elems(t, lambda n, parent_chain: n[0] == 'authorialNote' and 'authorialNote' in parent_chain)))
    if has(tree, lambda n: n[0] == 'li' and any(not isinstance(k, str) and k[0] == 'p' and has(k, lambda m: m[0] == 'br') for k in n[2][:1])) or \
            has(tree, lambda n: n[0] == 'remark' and any(not isinstance(k, str) and k[0] == 'br' for k in n[2])):
        cands.append(('F32', lambda t: drop_elems(t, lambda n, pc: n[0] == 'br')))
    if has(tree, lambda n: n[0] == 'item' and any(k != 'eId' for k in n[1])):
        # F44: the stylesheet writes ITEM.class{attrs}, but the grammar's block_list_item takes no attribute list
        cands.append(('F44', strip_item_attrs))
    cands = [(fid, (lambda t, rp=rp: prune(rp(t)))) for fid, rp in cands]
    for fid, repair in cands:
        t2 = repair(tree)
        if t2 != tree:
            v = violation(t2, classify_known=False)
            if v is None:
                return fid
    if len(cands) > 1:
        t2 = tree
        for fid, repair in cands:
            t2 = repair(t2)
        if violation(t2, classify_known=False) is None:
            return cands[0][0]
    return None


def strip_item_attrs(t):
    tag, attrs, kids = t
    a = {k: v for k, v in attrs.items() if k == 'eId'} if tag == 'item' else attrs
    return [tag, a, [k if isinstance(k, str) else strip_item_attrs(k) for k in kids]]


def has_below(n, pred):
    return any(has(k, pred) for k in n[2] if not isinstance(k, str))


def prune(t):
    """remove inline elements that a repair left empty (they have no text form)"""
    tag, attrs, kids = t
    out = []
    for k in kids:
        if isinstance(k, str):
            out.append(k)
        else:
            k2 = prune(k)
            if k2[0] in ('b', 'i', 'u', 'sup', 'sub', 'remark') and not k2[2]:
                continue
            out.append(k2)
    return [tag, attrs, treegen.merge(out)]


def map_text(t, fn):
    tag, attrs, kids = t
    out = []
    for i, k in enumerate(kids):
        out.append(fn(k, t, i) if isinstance(k, str) else map_text(k, fn))
    return [tag, attrs, treegen.merge(out)]


def drop_elems(t, pred, chain=()):
    tag, attrs, kids = t
    out = []
    for k in kids:
        if isinstance(k, str):
            out.append(k)
        elif pred(k, chain + (tag,)):
            continue
        else:
            out.append(drop_elems(k, pred, chain + (tag,)))
    return [tag, attrs, treegen.merge(out)]


def usable(tree):
    """the text format has no representation for: leading/trailing whitespace of inline runs at block edges is
    handled by ws_norm; '|' '}' and line breaks in attribute values are excluded by the quantifier"""
    def ok(n):
        for k, v in n[1].items():
            if any(c in v for c in '|}\n\r'):
                return False
        return all(ok(k) for k in n[2] if not isinstance(k, str))
    return ok(tree)


def run(ctx, info):
    rng = ctx.rng
    failures = []
    drv = Driver() if info['driver'] else None
    if not drv:
        ctx.oblige('model driver builds', 'tie', False, info.get('driver_log', '')[-800:])
    n = ctx.budget(1200, 15000)
    trees = [t for t in (treegen.rdoc(rng) for _ in range(n)) if usable(t)]
    nb = 0
    known = {}
    for t in trees:
        v = violation(t)
        if v:
            desc, fid = v
            if fid:
                known[fid] = known.get(fid, 0) + 1
            else:
                nb += 1
            if len(failures) < 20 and (fid is None or known.get(fid) == 1):
                failures.append({'kind': 'oracle', 'finding': fid, 'summary': f'{json.dumps(t)[:160]}: {desc}', 'case': {'tree': t}})
    ctx.oblige('oracle: unparse then re-parse gives the same structure and text; input untouched; no word dropped (outside listed findings)', 'oracle',
               nb == 0, f'{nb} unlisted violations in {len(trees)} trees; listed classes hit {known}')
    # unparse accepts any element of a larger tree (an inline followed by text included) without error and leaves the tree as it was
    nsub = nsubbad = 0
    from bluebell.parser import AkomaNtosoParser
    for t in trees[:ctx.budget(120, 1500)]:
        el = eidlib.to_etree(t)
        subs = [e for e in el.iter() if e is not el and isinstance(e.tag, str)]
        before = real.full_canon(el)
        for e in rng.sample(subs, min(3, len(subs))):
            nsub += 1
            try:
                AkomaNtosoParser(None).unparse(e)
                ok = real.full_canon(el) == before
                why = 'unparse of a sub-element modified the tree'
            except Exception as ex:  # noqa
                ok, why = False, f'unparse of a sub-element <{e.tag.split("}")[-1]}> raised {type(ex).__name__}'
            if not ok:
                nsubbad += 1
                if len(failures) < 20:
                    failures.append({'kind': 'oracle', 'finding': None, 'summary': f'{json.dumps(t)[:140]}: {why}', 'case': {'tree': t, 'sub': el.getroottree().getpath(e)}})
    ctx.oblige('oracle: unparse of any sub-element of a tree (tails included) does not raise and leaves the tree untouched', 'oracle', nsubbad == 0,
               f'{nsubbad} of {nsub} sub-elements')
    if drv:
        ms = drv.batch_parallel([{'op': 'unparse', 'tree': eidlib.ordered(t)} for t in trees], jobs=12)
        bad = []
        for t, m in zip(trees, ms):
            rl = real.unparse_tree(t)
            if rl.get('text') != m.get('text') or rl.get('tree') != m.get('tree'):
                bad.append({'tree': t, 'real': (rl.get('text') or str(rl))[:400], 'model': (m.get('text') or '')[:400]})
        ctx.oblige('tie unparse: real XSLT output and left-behind tree = model unparse, on arbitrary trees', 'tie', not bad,
                   f'{len(bad)} disagreements; first: {json.dumps(bad[0])[:800]}' if bad else f'{len(trees)} trees agree')
        for b in bad[:3]:
            failures.append({'kind': 'tie', 'summary': 'unparse disagreement', 'case': b})
    cov = {'evaluations': len(trees), 'distinct_nontrivial': len({json.dumps(t) for t in trees if len(json.dumps(t)) > 60}), 'known_finding_classes_hit': known,
           'rule': 'random trees over bluebell\'s element vocabulary (hierarchical elements with num/heading/subheading/intro/wrapUp, lists, tables, quotes, containers, inline nesting, notes, images) with text assembled from every grammar keyword, marker sequence, backslashes, braces, stars, whitespace; attribute values free of | } and line breaks; non-trivial = serialisation longer than 60 characters',
           'samples': [{'tree': trees[0]}]}
    return {'coverage': cov, 'failures': failures}


def witness_fails(ctx, finding):
    v = violation(finding['witness']['tree'])
    return v is not None and v[1] == finding['id']


def replay(ctx, rep):
    c = rep.get('case') or {}
    if 'tree' not in c:
        print('replay file names broken obligations only:', json.dumps(rep.get('broken_obligations'))[:1000])
        return 1
    if 'sub' in c:
        from bluebell.parser import AkomaNtosoParser
        el = eidlib.to_etree(c['tree'])
        e = el.getroottree().xpath(c['sub'])[0]
        before = real.full_canon(el)
        try:
            AkomaNtosoParser(None).unparse(e)
            bad = real.full_canon(el) != before
        except Exception as ex:  # noqa
            bad = True
        print('REPRODUCED' if bad else 'not reproduced')
        return 1 if bad else 0
    v = violation(c['tree'])
    print('REPRODUCED: ' + v[0] if v else 'not reproduced')
    return 1 if v else 0
