"""C10 — the shipped parser recognises exactly the language of the PEG grammar."""
import json, os
from .. import core, real, gen
from ..leandrv import Driver

MODULE = 'Bluebell.Props.C10'
THEOREMS = ['Bluebell.compiled_eq_source', 'Bluebell.override_class_eq', 'Bluebell.rx1_equiv_plus',
            'Bluebell.markers_match', 'Bluebell.scanCls_spec']


def load_rules():
    gj = json.load(open(os.path.join(core.LEAN_DIR, 'Bluebell', 'Gen', 'grammar.json')))
    return gj.get('source') or {}, gj.get('compiled') or {}


def cases(ctx, rules):
    """(rule, text) pairs: grammar-directed sentences and their mutations for every rule as a start
    symbol, marker noise, long plain runs, and real pre-parsed documents for the document roots."""
    rng = ctx.rng
    gg = gen.GrammarGen(rules, rng)
    out = []
    per_rule = ctx.budget(14, 120)
    for r in rules:
        for i in range(per_rule):
            try:
                s = gg.sentence(r, depth=rng.choice([3, 5, 8, 10]))
            except RecursionError:
                continue
            if len(s) > 4000:
                s = s[:4000]
            k = rng.random()
            if k < 0.35:
                s = gen.mutate(rng, s)
            elif k < 0.45:
                s = gen.mutate(rng, gen.mutate(rng, s))
            out.append((r, s))
    # noise with arbitrary marker lines, on a sample of rules
    names = list(rules)
    for i in range(ctx.budget(300, 4000)):
        out.append((rng.choice(names), gen.noise_marked(rng)))
    # long plain-text runs (the hand-optimised rule scans with a regular expression)
    for n in (1, 2, 100, 1023, 1024, 1025, 2049, 5000, 70000):
        run = 'x' * n
        for r in ('non_inline_start', 'inline', 'line', 'inline_nested', 'p'):
            if r in rules:
                out.append((r, run + '\n'))
                out.append((r, 'P ' + run + '*\n' if r == 'p' else run + '**b**\n'))
    # whole documents through the real pre_parse, for the document roots and some fragments
    from bluebell.parser import AkomaNtosoParser
    pp = AkomaNtosoParser(None)
    for i in range(ctx.budget(60, 800)):
        root = rng.choice(gen.ROOTS7)
        t = gen.doc_text(rng, root, risky=True) if rng.random() < 0.7 else gen.noise_text(rng)
        try:
            pre = pp.pre_parse(t)
        except Exception:
            continue
        out.append((root, pre))
        if rng.random() < 0.3:
            out.append((rng.choice(['hier_element', 'block_element', 'hier_block_element', 'body', 'mainBody', 'attachments']), pre))
    return out


def compare(ctx, drv, cs, grammar):
    reqs = [{'op': 'parse', 'grammar': grammar, 'rule': r, 'text': t} for r, t in cs]
    model = drv.batch_parallel(reqs, jobs=12)
    bad = []
    stats = {'ok': 0, 'fail': 0, 'other': 0}
    for (r, t), m in zip(cs, model):
        rl = real.parse_rule(r, t)
        stats[rl['res'] if rl['res'] in stats else 'other'] += 1
        same = (rl['res'] == m.get('res')) and (rl['res'] != 'ok' or (rl['stop'] == m.get('stop') and rl['tree'] == m.get('tree')))
        if not same:
            bad.append({'rule': r, 'text': t, 'real': {k: (v if k != 'tree' else v[:400]) for k, v in rl.items()},
                        'model': {k: (v if k != 'tree' else v[:400]) for k, v in m.items()}})
    return bad, stats


def shrink(rule, text, pred, max_calls=400):
    """Greedy deletion of chunks while `pred(rule, text)` stays true (bounded number of trials)."""
    cur = text
    step = max(1, len(cur) // 2)
    calls = 0
    while step >= 1:
        i = 0
        changed = False
        while i < len(cur):
            calls += 1
            if calls > max_calls:
                return cur
            cand = cur[:i] + cur[i + step:]
            if cand != cur and pred(rule, cand):
                cur = cand
                changed = True
            else:
                i += step
        if not changed:
            step //= 2
    return cur


def run(ctx, info):
    src, comp = load_rules()
    failures = []
    rules = src or comp
    cs = cases(ctx, rules) if rules else []
    cov = {'evaluations': len(cs), 'rules_as_start_symbols': len(rules)}
    tr = (info.get('translate') or {})
    diff = tr.get('grammar_diff')
    ctx.oblige('T1 = T2 (grammar decompiled from akn.py equals the grammar read from akn.peg, Python-side)', 'tie',
               diff == [], f'rules that differ: {diff}')
    if not info['driver']:
        ctx.oblige('model driver builds', 'tie', False, info.get('driver_log', '')[-800:])
        cov.update({'distinct_nontrivial': 0, 'samples': [], 'rule': 'driver not built'})
        return {'coverage': cov, 'failures': failures}
    drv = Driver()
    # tie: the executed-grammar model against the real parser
    bad_exec, stats = compare(ctx, drv, cs, 'exec')
    ctx.oblige('tie parse: real Parser._read_<rule> = eval aknExec, all rules as start symbols', 'tie', not bad_exec,
               f'{len(bad_exec)} disagreements; first: {json.dumps(bad_exec[0])[:600]}' if bad_exec else f'{len(cs)} cases agree')
    # oracle: the real parser against the interpreter of akn.peg itself
    bad_src, _ = compare(ctx, drv, cs, 'sourcex')
    for b in bad_src[:50]:
        def pred(r, t):
            m = drv.call({'op': 'parse', 'grammar': 'sourcex', 'rule': r, 'text': t})
            rl = real.parse_rule(r, t)
            return not ((rl['res'] == m.get('res')) and (rl['res'] != 'ok' or (rl['stop'] == m.get('stop') and rl['tree'] == m.get('tree'))))
        small = shrink(b['rule'], b['text'], pred) if len(failures) < 3 and len(b['text']) < 3000 else b['text']
        m = drv.call({'op': 'parse', 'grammar': 'sourcex', 'rule': b['rule'], 'text': small})
        rl = real.parse_rule(b['rule'], small)
        failures.append({'kind': 'oracle', 'finding': None,
                         'summary': f"rule {b['rule']} on {small[:80]!r}: real parser {rl['res']} stop={rl.get('stop')} but akn.peg prescribes {m.get('res')} stop={m.get('stop')}" + ('' if rl.get('tree') == m.get('tree') else ' (trees differ)'),
                         'case': {'rule': b['rule'], 'text': small, 'real': rl, 'expected': m}})
    for b in bad_exec[:5]:
        failures.append({'kind': 'tie', 'summary': 'exec-model disagreement', 'case': b})
    nontrivial = len({(r, t) for r, t in cs if len(t) > 1})
    cov.update({'distinct_nontrivial': nontrivial, 'real_outcomes': stats,
                'rule': 'grammar-directed sentences (+1-2 random edits) for each of the rules as start symbol, marker noise, long plain runs, pre-parsed generated documents; non-trivial = distinct (rule, text) with text longer than one character',
                'samples': [{'rule': r, 'text': t[:200]} for r, t in cs[:3] + cs[len(cs) // 2:len(cs) // 2 + 2]]})
    return {'coverage': cov, 'failures': failures,
            'assumptions': ["T2's table of canopy code templates is trusted; it is exercised by the parse tie on every rule"]}


def replay(ctx, rep):
    core.prepare(ctx, MODULE, [])
    c = rep.get('case') or {}
    if 'rule' not in c:
        print('replay file names broken obligations only:', json.dumps(rep.get('broken_obligations'))[:1000])
        return 1
    drv = Driver()
    m = drv.call({'op': 'parse', 'grammar': 'sourcex', 'rule': c['rule'], 'text': c['text']})
    rl = real.parse_rule(c['rule'], c['text'])
    same = (rl['res'] == m.get('res')) and (rl['res'] != 'ok' or (rl['stop'] == m.get('stop') and rl['tree'] == m.get('tree')))
    print('real:', json.dumps(rl)[:500])
    print('akn.peg:', json.dumps(m)[:500])
    print('REPRODUCED' if not same else 'not reproduced')
    return 1 if not same else 0
