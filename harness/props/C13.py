"""C13 — a backslash makes the next character literal, everywhere."""
import json
from .. import core, real, gen, e2e
from ..leandrv import Driver

MODULE = 'Bluebell.Props.C13'
THEOREMS = ['Bluebell.C13_unescape_escapeAll', 'Bluebell.C13_escape_tried_first', 'Bluebell.C13_merge_drops_backslash', 'Bluebell.C13_escaped_line_examples', 'Bluebell.C13_counterexample_trailing_space',
            'Bluebell.C13_escaped_line_is_its_text', 'Bluebell.line_of_escapes', 'Bluebell.inline_reads_escape', 'Bluebell.mayStart_sound',
            'Bluebell.C13_block_rules_choose_line', 'Bluebell.C13_block_level_reads_escaped_line', 'Bluebell.C13_escape_anywhere_in_plain_text']

ALPH = (gen.ALL_KEYWORDS + gen.MARKERS + ['\\', '\\\\', '-', ' - ', ' ', 'a', 'Z', '1.', '(a)', 'é', 'א', '中', '\U0001F600', '{{', '}}', '**', '//', '__',
                                          '{{*', '{{FOOTNOTE 1}}', '{{IMG x y}}', '|', '{a b}', '.x', '*', 'ITEM', 'FROM', 'TC', 'TR',
                                          'e\u0301', '\u212b', '\u2126', '\ufb01', 'a\u0307\u0323'])   # the last five: not in Unicode normal form


def rand_w(rng):
    n = rng.choice([1, 1, 2, 3, 5, 8])
    w = ''.join(rng.choice(ALPH) for _ in range(n)).replace('\n', '').replace('\t', ' ')
    w = ''.join(c for c in w if e2e.text_ok(c))
    return w


def esc(w):
    return ''.join('\\' + c for c in w)


# position name -> (text template with {E}, root, path to the element whose text must equal w, expected element tag)
def positions(w):
    E = esc(w)
    return {
        'paragraph': (E + '\n', 'statement', 'p'),
        'list item': ('ITEMS\n  ITEM 1\n    ' + E + '\n', 'statement', 'p'),
        'table cell': ('TABLE\n  TR\n    TC\n      ' + E + '\n', 'statement', 'p'),
        'bullet': ('BULLETS\n  * ' + E + '\n', 'statement', 'p'),
        'heading': ('SEC 1 - ' + E + '\n  x\n', 'act', 'heading'),
        'subheading': ('SEC 1\n  SUBHEADING ' + E + '\n  x\n', 'act', 'subheading'),
        'crossheading': ('SEC 1\n  CROSSHEADING ' + E + '\n  x\n', 'act', 'crossHeading'),
        'num': ('SEC ' + E + '\n  x\n', 'act', 'num'),
        'bold': ('a **' + E + '** b\n', 'statement', 'b'),
        'italics': ('a //' + E + '// b\n', 'statement', 'i'),
        'underline': ('a __' + E + '__ b\n', 'statement', 'u'),
        'sup': ('a {{^' + E + '}} b\n', 'statement', 'sup'),
        'sub': ('a {{_' + E + '}} b\n', 'statement', 'sub'),
        'ref': ('a {{>http://x ' + E + '}} b\n', 'statement', 'ref'),
        'remark': ('a {{*' + E + '}} b\n', 'statement', 'remark'),
        'term': ('a {{term ' + E + '}} b\n', 'statement', 'term'),
        'abbr': ('a {{abbr{title T} ' + E + '}} b\n', 'statement', 'abbr'),
        'em': ('a {{em ' + E + '}} b\n', 'statement', 'inline'),
        'ins': ('a {{+' + E + '}} b\n', 'statement', 'ins'),
        'del': ('a {{-' + E + '}} b\n', 'statement', 'del'),
        'def': ('a {{def ' + E + '}} b\n', 'statement', 'def'),
        'inline': ('a {{inline{name x} ' + E + '}} b\n', 'statement', 'inline'),
    }


def partial_escape(rng, w):
    """escape every character that is not a letter or digit, and the others at random"""
    return ''.join(('\\' + c) if (i == 0 or not c.isalnum() or rng.random() < 0.3) else c for i, c in enumerate(w))


def separator_cases(rng):
    """a num that contains ' - ' with one of the three characters escaped: still one num, no heading"""
    out = []
    a, b = rng.choice(['1', '2A', '(a)', 'x']), rng.choice(['2', 'b', 'The heading'])
    for brk in ('\\ - ', ' \\- ', ' -\\ ', '\\ \\-\\ '):
        for kw, root, wrap in (('SEC', 'act', '{K} {N}\n  x\n'), ('PARA', 'act', '{K} {N}\n  x\n'), ('ITEM', 'statement', 'ITEMS\n  {K} {N}\n    x\n')):
            num = a + brk + b
            out.append((wrap.replace('{K}', kw).replace('{N}', num), root, a + ' - ' + b))
    # an escaped character (a blank, a star, a backslash) as the last character of a num, followed by a real separator and heading
    for last in (' ', '*', '\\', '-'):
        for kw, root, wrap in (('SEC', 'act', '{K} {N}\n  x\n'), ('ITEM', 'statement', 'ITEMS\n  {K} {N}\n    x\n')):
            num = a + '\\' + last + ' - ' + b
            out.append((wrap.replace('{K}', kw).replace('{N}', num), root, (a + last, b)))
    return out


def find_all(tree, tag, out=None):
    out = [] if out is None else out
    if tree[0] == tag:
        out.append(tree)
    if tree[0] != 'meta':
        for k in tree[2]:
            if not isinstance(k, str):
                find_all(k, tag, out)
    return out


def violation(w, pos, res, tag):
    """None, or (description, finding)"""
    if 'xml' not in res:
        return (f"raised {res.get('exc')}", None)
    els = find_all(res['xml'], tag)
    if pos in ('paragraph', 'list item', 'table cell', 'bullet'):
        cands = [e for e in els]
    else:
        cands = els
    if len(cands) != 1:
        return (f'expected exactly one <{tag}>, found {len(cands)}', None)
    e = cands[0]
    if any(not isinstance(k, str) for k in e[2]):
        return (f'<{tag}> contains markup elements {[k[0] for k in e[2] if not isinstance(k, str)]}', None)
    got = ''.join(e[2])
    if got != w:
        line_final = pos in ('paragraph', 'list item', 'table cell', 'bullet', 'heading', 'subheading', 'crossheading', 'num')
        fid = 'F14' if line_final and w[-1:].isspace() and got == w[:-1] + '\\' else None
        return (f'text is {got!r}, expected {w!r}', fid)
    return None


def run(ctx, info):
    rng = ctx.rng
    failures = []
    drv = Driver() if info['driver'] else None
    if not drv:
        ctx.oblige('model driver builds', 'tie', False, info.get('driver_log', '')[-800:])
    n = ctx.budget(120, 1500)
    cases = []
    meta = []
    for _ in range(n):
        w = rand_w(rng)
        if not w:
            continue
        for pos, (text, root, tag) in positions(w).items():
            if pos in ('heading', 'subheading', 'crossheading', 'num') and False:
                continue
            cases.append((text, root, ''))
            meta.append((w, pos, tag))
    # partially escaped strings: only the non-alphanumeric characters (and some others) are escaped
    for _ in range(n):
        w = rand_w(rng)
        if not w or w != w.strip():
            continue
        pe = partial_escape(rng, w)
        for pos, (text, root, tag) in positions('\x00').items():
            cases.append((text.replace(esc('\x00'), pe), root, ''))
            meta.append((w, pos, tag))
    # an escaped marker character directly next to a bare one of the same kind: two unescaped ones would be markup, one is
    # plain text, so the pair is the literal text XX in every position (and inside every kind of inline)
    for X in '*/_{}':
        for w, pe in (('a' + X + X + 'b', 'a\\' + X + X + 'b'), ('a' + X + X + 'b', 'a' + X + '\\' + X + 'b')):
            for pos, (text, root, tag) in positions('\x00').items():
                cases.append((text.replace(esc('\x00'), pe), root, ''))
                meta.append((w, pos, tag))
    seps = []
    for _ in range(ctx.budget(3, 30)):
        seps += separator_cases(rng)
    reals = e2e.tie_convert(ctx, drv, cases + [(t, r, '') for t, r, _ in seps], failures)
    sep_reals = reals[len(cases):]
    reals = reals[:len(cases)]
    nbad = 0
    known = {}
    per = {}
    for (text, root, want), res in zip(seps, sep_reals):
        per['num with broken separator'] = per.get('num with broken separator', 0) + 1
        v = None
        if 'xml' not in res:
            v = f"raised {res.get('exc')}"
        else:
            nums = find_all(res['xml'], 'num')
            heads = find_all(res['xml'], 'heading')
            wn, wh = want if isinstance(want, tuple) else (want, None)
            hs = [''.join(k for k in h[2] if isinstance(k, str)) for h in heads]
            if len(nums) != 1 or ''.join(k for k in nums[0][2] if isinstance(k, str)) != wn or hs != ([] if wh is None else [wh]):
                v = f'num {[n[2] for n in nums]!r}, heading {[h[2] for h in heads]!r}; expected the single num {wn!r} and ' + ('no heading' if wh is None else f'the heading {wh!r}')
        if v:
            nbad += 1
            if len(failures) < 30:
                failures.append({'kind': 'oracle', 'finding': None, 'summary': f'escaped separator in a num: {text[:60]!r}: {v}',
                                 'case': {'check': 'sep', 'text': text, 'root': root, 'want': want}})
    for (text, root, _), (w, pos, tag), res in zip(cases, meta, reals):
        per[pos] = per.get(pos, 0) + 1
        v = violation(w, pos, res, tag)
        if v:
            desc, fid = v
            if fid:
                known[fid] = known.get(fid, 0) + 1
            else:
                nbad += 1
            if len(failures) < 30 and (fid is None or known.get(fid) == 1):
                failures.append({'kind': 'oracle', 'finding': fid, 'summary': f'{pos}: escaped {w!r} as {text[:80]!r}: {desc}',
                                 'case': {'w': w, 'position': pos, 'text': text, 'root': root, 'tag': tag}})
    ctx.oblige('oracle: a fully escaped string is exactly its text in every position (outside listed findings)', 'oracle', nbad == 0,
               f'{nbad} unlisted violations in {len(cases)} cases; listed classes hit {known}')
    cov = {'evaluations': len(cases), 'distinct_nontrivial': len({(m[0], m[1]) for m in meta if len(m[0]) > 1}), 'positions': per,
           'known_finding_classes_hit': known,
           'rule': 'random strings over keywords, marker sequences, braces, backslashes, dashes, non-ASCII, escaped character by character, placed in 22 text positions; non-trivial = distinct (string, position) with more than one character',
           'samples': [{'w': meta[0][0], 'position': meta[0][1], 'text': cases[0][0]}]}
    return {'coverage': cov, 'failures': failures}


def witness_fails(ctx, finding):
    w = finding['witness']
    res = real.strip_etree(real.convert(w['text'], w['root']))
    v = violation(w['w'], w['position'], res, w['tag'])
    return v is not None and v[1] == finding['id']


def replay(ctx, rep):
    c = rep.get('case') or {}
    if c.get('check') == 'sep':
        res = real.strip_etree(real.convert(c['text'], c['root']))
        nums = find_all(res['xml'], 'num') if 'xml' in res else []
        wn, wh = (c['want'][0], c['want'][1]) if isinstance(c['want'], list) else (c['want'], None)
        hs = [''.join(k for k in h[2] if isinstance(k, str)) for h in find_all(res['xml'], 'heading')] if 'xml' in res else None
        ok = len(nums) == 1 and ''.join(k for k in nums[0][2] if isinstance(k, str)) == wn and hs == ([] if wh is None else [wh])
        print('REPRODUCED' if not ok else 'not reproduced')
        return 0 if ok else 1
    if 'w' not in c:
        print('replay file names broken obligations only:', json.dumps(rep.get('broken_obligations'))[:1000])
        return 1
    res = real.strip_etree(real.convert(c['text'], c['root']))
    v = violation(c['w'], c['position'], res, c['tag'])
    print('REPRODUCED: ' + v[0] if v else 'not reproduced')
    return 1 if v else 0
