"""C01 — conversion is total: no input text is ever refused."""
import json
from .. import core, real, gen, e2e
from ..leandrv import Driver

MODULE = 'Bluebell.Props.C01'
THEOREMS = ['Bluebell.C01_counterexample_attachment_prefix', 'Bluebell.C01_counterexample_marker_char', 'Bluebell.C01_counterexample_attr_name', 'Bluebell.C01_not_full', 'Bluebell.C01_maker_total', 'Bluebell.C01_normalise_total_on_roots', 'Bluebell.C01_eids_titles_total',
            'Bluebell.C01_grammar_certificate', 'Bluebell.C01_parser_terminates', 'Bluebell.C01_roots_are_rules',
            'Bluebell.peg_terminates', 'Bluebell.eval_mono', 'Bluebell.eval_span',
            'Bluebell.C01_flat_plain_text_accepted', 'Bluebell.C01_plain_starts', 'Bluebell.flat_doc_accepted',
            'Bluebell.C01_nested_plain_text_accepted', 'Bluebell.nested_doc_accepted',
            'Bluebell.C01_plain_text_any_indentation', 'Bluebell.good_blocks_accepted', 'Bluebell.parse_blocks',
            'Bluebell.nested_judgment_accepted', 'Bluebell.good_blocks_accepted_six']


def run(ctx, info):
    rng = ctx.rng
    failures = []
    drv = Driver() if info['driver'] else None
    if not drv:
        ctx.oblige('model driver builds', 'tie', False, info.get('driver_log', '')[-800:])
    n = ctx.budget(900, 12000)
    cases = e2e.gen_cases(rng, n, roots=gen.ROOTS6, noise=0.45, unsafe=0.1, prefixes=('', '', 'att_1', 'sec_2'))
    # deep nesting (bounded at 40) and deep brace inlines
    for d in (10, 25, 40):
        cases.append(('\n'.join('  ' * i + 'PART %d' % i for i in range(d)) + '\n' + '  ' * d + 'x\n', 'act', ''))
        cases.append(('{{^' * d + 'x' + '}}' * d + '\n', 'doc', ''))
        cases.append(('**' + '//' * (d // 2) + 'x\n', 'statement', ''))
    # every structural keyword with every kind of tail at line start (guards vs the rules they protect); the other
    # keywords are sampled in the quick tier and complete in the thorough tier
    kl = gen.keyword_lines(gen.CONTAINERS + gen.ATTACH)
    rest = gen.keyword_lines([k for k in gen.ALL_KEYWORDS if k not in gen.CONTAINERS + gen.ATTACH])
    kl += rest if ctx.tier == 'thorough' else rng.sample(rest, 500)
    for t in kl:
        cases.append((t, rng.choice(gen.ROOTS6), ''))
    # every construct inside every context (deterministic pairwise nesting)
    cases += [(t, r if r in gen.ROOTS6 else 'doc', '') for _, t, r in gen.pairwise_docs()]
    cases += [(t, gen.ROOTS6[i % 6], '') for i, (_, t, r) in enumerate(gen.fn_nest_docs())]   # nested footnote blocks citing enclosing blocks
    reals = e2e.tie_convert(ctx, drv, cases, failures)
    nexc = 0
    known = {}
    dist = {}
    for (t, r, p), rl in zip(cases, reals):
        key = 'ok' if 'xml' in rl else rl.get('exc')
        dist[key] = dist.get(key, 0) + 1
        if 'xml' in rl:
            continue
        fid = e2e.classify_c01(t, r, p, rl)
        if fid:
            known[fid] = known.get(fid, 0) + 1
        else:
            nexc += 1
        if len(failures) < 30 and (fid is None or known.get(fid) == 1):
            small = t
            if fid is None and nexc <= 2:
                def pred(tt, r=r, p=p, rl=rl):
                    rr = real.convert(tt, r, prefix=p)
                    return rr.get('exc') == rl.get('exc') and e2e.classify_c01(tt, r, p, rr) is None
                small = core.shrink_text(t, pred, 200)
            failures.append({'kind': 'oracle', 'finding': fid,
                             'summary': f"parse_to_xml({small[:100]!r}, {r!r}) raised {rl.get('exc')}: {rl.get('msg', '')[:100]}",
                             'case': {'text': small, 'root': r, 'prefix': p}})
    ctx.oblige('oracle: parse_to_xml returns a document (outside listed findings)', 'oracle', nexc == 0,
               f'{nexc} unlisted exceptions; outcome distribution {dist}; listed classes hit {known}')
    cov = {'evaluations': len(cases), 'distinct_nontrivial': len({t for t, r, p in cases if len(t) > 10}),
           'outcomes': dist, 'known_finding_classes_hit': known,
           'rule': 'noise (keywords, partial keywords, markers, attribute syntax, backslashes, control and non-ASCII characters, random indentation), generated documents with corner constructs and random edits, deep nesting up to 40; six roots x prefixes; non-trivial = distinct text longer than 10 characters',
           'samples': [{'text': cases[0][0][:300], 'root': cases[0][1]}, {'text': cases[1][0][:300], 'root': cases[1][1]}]}
    return {'coverage': cov, 'failures': failures}


def witness_fails(ctx, finding):
    w = finding['witness']
    r = real.convert(w['text'], w['root'], prefix=w.get('prefix', ''))
    return 'exc' in r and e2e.classify_c01(w['text'], w['root'], w.get('prefix', ''), r) == finding['id']


def replay(ctx, rep):
    c = rep.get('case') or {}
    if 'text' not in c:
        print('replay file names broken obligations only:', json.dumps(rep.get('broken_obligations'))[:1000])
        return 1
    r = real.strip_etree(real.convert(c['text'], c['root'], prefix=c.get('prefix', '')))
    print(json.dumps(r)[:400])
    print('REPRODUCED' if 'exc' in r else 'not reproduced')
    return 1 if 'exc' in r else 0
