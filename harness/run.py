"""Entry point used by /verif/check."""
import sys, os, json, argparse, importlib, traceback, time
from . import core, real


def first_line(s, n=160):
    s = str(s).replace('\n', '\\n')
    return s if len(s) <= n else s[:n] + '…'


def main(argv=None):
    ap = argparse.ArgumentParser()
    ap.add_argument('pid')
    ap.add_argument('--tier', default=os.environ.get('VERIF_TIER', 'quick'), choices=['quick', 'thorough'])
    ap.add_argument('--replay', default=None)
    ap.add_argument('--seed', type=int, default=int(os.environ.get('VERIF_SEED', '0') or 0))
    a = ap.parse_args(argv)
    repo = os.environ.get('VERIF_REPO', '/repo')
    pid = a.pid
    try:
        mod = importlib.import_module(f'harness.props.{pid}')
    except ModuleNotFoundError:
        print(f'no check for {pid}', file=sys.stderr)
        return 2
    ctx = core.Ctx(pid, a.tier, a.seed, repo)
    try:
        real.use_repo(repo)
    except Exception as ex:
        # the library does not even import: every property is unverifiable; report as broken tie
        ctx.oblige('import bluebell from the repository', 'tie', False, f'{type(ex).__name__}: {ex}')
        path = core.write_replay(ctx, {'property': pid, 'kind': 'import-failure', 'detail': traceback.format_exc()[-2000:]})
        core.write_evidence(ctx, {'evaluations': 0, 'distinct_nontrivial': 0, 'samples': [], 'rule': 'import failed'}, 1)
        print(f'VIOLATION property={pid} replay={path} no-failing-input-found')
        core.cleanup(ctx)
        return 1
    try:
        if a.replay:
            rc = mod.replay(ctx, json.load(open(a.replay if os.path.isabs(a.replay) else os.path.join(core.VERIF, a.replay))))
            core.cleanup(ctx)
            return rc
        info = core.prepare(ctx, mod.MODULE, mod.THEOREMS)
        res = mod.run(ctx, info)
    except Exception:
        traceback.print_exc()
        core.cleanup(ctx)
        return 2
    rc = verdict(ctx, mod, res)
    core.cleanup(ctx)
    return rc


def verdict(ctx, mod, res):
    """res: {'coverage': {...}, 'failures': [ {kind:'oracle'|'tie', 'finding': id|None, 'summary', 'case': {...}} ], 'assumptions': [...]}"""
    pid = ctx.pid
    known = core.load_known()
    listed = {f['id']: f for f in known.get('findings', []) if f.get('property') == pid and f.get('status', 'known') == 'known'}
    failures = res.get('failures', [])
    oracle_new = [f for f in failures if f['kind'] == 'oracle' and not (f.get('finding') in listed)]
    oracle_known = [f for f in failures if f['kind'] == 'oracle' and f.get('finding') in listed]
    broken = [o for o in ctx.obligations if not o['ok']]
    seen = []
    for f in oracle_known:
        if f['finding'] not in seen:
            seen.append(f['finding'])
    # replay the witness of every listed finding: it is reported whether or not the generators hit its class
    for fid, f in listed.items():
        if fid in seen or not hasattr(mod, 'witness_fails'):
            continue
        try:
            if mod.witness_fails(ctx, f):
                seen.append(fid)
            else:
                print(f"note: listed finding {fid} no longer reproduces on its witness")
        except Exception as ex:  # noqa
            print(f"note: witness of {fid} could not be replayed: {type(ex).__name__}: {ex}")
    for fid in seen:
        print(f"KNOWN-FINDING: property={pid} {fid}: {listed[fid].get('what', '')}")
    rc = 0
    nviol = 0
    if oracle_new:
        f = oracle_new[0]
        path = core.write_replay(ctx, {'property': pid, 'tier': ctx.tier, 'seed': ctx.seed, 'kind': 'failing-input',
                                       'summary': f.get('summary'), 'case': f.get('case'),
                                       'broken_obligations': broken[:10], 'other_failures': len(oracle_new) - 1})
        print(f'VIOLATION property={pid} replay={path}')
        print(f"  {first_line(f.get('summary'))}")
        rc = 1
        nviol = len(oracle_new)
    elif broken:
        path = core.write_replay(ctx, {'property': pid, 'tier': ctx.tier, 'seed': ctx.seed, 'kind': 'broken-obligation',
                                       'broken_obligations': broken[:20],
                                       'tie_disagreements': [f for f in failures if f['kind'] == 'tie'][:5],
                                       'note': 'a theorem, audit step or correspondence stage no longer checks; the search of model and implementation found no input on which the property itself fails'})
        print(f'VIOLATION property={pid} replay={path} no-failing-input-found')
        for o in broken[:5]:
            print(f"  broken: [{o['kind']}] {o['name']}: {first_line(o['detail'])}")
        rc = 1
        nviol = 1
    cov = res.get('coverage', {})
    core.write_evidence(ctx, cov, nviol, res.get('assumptions'))
    if rc == 0:
        ob = ctx.obligations
        print(f"OK property={pid} tier={ctx.tier} seed={ctx.seed} obligations={len(ob)} discharged={sum(o['ok'] for o in ob)} "
              f"evaluations={cov.get('evaluations')} wall={ctx.elapsed():.1f}s")
    return rc


if __name__ == '__main__':
    sys.exit(main())
