import Bluebell.Gen.Tables
/-!
# Model of `AkomaNtosoParser.pre_parse`

Strings are `List Char`. The indentation stack holds the *lengths* of the leading-space runs
(Python holds `len / indent_size` as floats; for `indent_size ≥ 1` the order is the same), top
first, with the sentinel `-1` at the bottom.
-/
namespace Bluebell

def isPySpace (c : Char) : Bool := pyIsSpaceCodes.contains c.toNat

/-- `text.replace('\t', ' ' * n)` -/
def detab (n : Nat) : List Char → List Char
  | [] => []
  | c :: cs => if c = '\t' then List.replicate n ' ' ++ detab n cs else c :: detab n cs

def dropTrailing (p : Char → Bool) (s : List Char) : List Char :=
  (s.reverse.dropWhile p).reverse

/-- `str.strip()` -/
def pyStrip (s : List Char) : List Char := dropTrailing isPySpace (s.dropWhile isPySpace)

/-- Split on `'\n'` (like `str.split('\n')`: always at least one piece). -/
def splitLines : List Char → List (List Char)
  | [] => [[]]
  | c :: cs =>
    if c = '\n' then [] :: splitLines cs
    else match splitLines cs with
      | [] => [[c]]
      | l :: ls => (c :: l) :: ls

def joinLines : List (List Char) → List Char
  | [] => []
  | [l] => l
  | l :: ls => l ++ '\n' :: joinLines ls

/-- `re.sub(r' +$', '', text, flags=re.M)`: spaces before a newline or at the end are removed. -/
def stripTrailingSpaces (s : List Char) : List Char :=
  joinLines ((splitLines s).map (dropTrailing (· = ' ')))

def ensureFinalNewline (s : List Char) : List Char :=
  if s.getLast? = some '\n' then s else s ++ ['\n']

/-- What `handle_indent` emits in front of the line's first visible character. -/
inductive Prefix where
  | same
  | indent
  | dedent (k : Nat)
deriving Repr, DecidableEq

/-- The `while True:` loop of the dedent branch: one DEDENT per iteration; stop when
`level >= stack[-1]`, otherwise pop. `k` counts the DEDENTs already emitted. -/
def popLoop (lvl : Int) : List Int → Nat → List Int × Nat
  | [], k => ([], k + 1)
  | t :: r, k => if lvl ≥ t then (t :: r, k + 1) else popLoop lvl r (k + 1)

/-- `handle_indent` on a line with `lvl` leading spaces. -/
def handleIndent (lvl : Int) (stack : List Int) : List Int × Prefix :=
  match stack with
  | [] => ([], .same)
  | t :: r =>
    if lvl = t then (stack, .same)
    else if lvl > t then (lvl :: stack, .indent)
    else
      match r with
      | [] => ([], .same)
      | t2 :: _ =>
        if lvl > t2 then (lvl :: r, .same)
        else
          let (st, k) := popLoop lvl r 0
          (st, .dedent k)

def Prefix.render : Prefix → List Char
  | .same => []
  | .indent => [indentChar, '\n']
  | .dedent k => (List.replicate k [dedentChar, '\n']).flatten

def leadingSpaces (l : List Char) : Nat := (l.takeWhile (· = ' ')).length

/-- The `line_re.sub(handle_indent, text)` pass over the lines (each followed by a newline). -/
def indentPass : List (List Char) → List Int → List Char × List Int
  | [], st => ([], st)
  | l :: ls, st =>
    if l = [] then
      let (out, st') := indentPass ls st
      ('\n' :: out, st')
    else
      let k := leadingSpaces l
      let (st1, p) := handleIndent k st
      let (out, st') := indentPass ls st1
      (p.render ++ l.drop k ++ '\n' :: out, st')

/-- The lines of a text that ends in a newline (the empty piece after the last newline dropped). -/
def linesOf (s : List Char) : List (List Char) := (splitLines s).dropLast

/-- `pre_parse(text)` with `indent_size = n`. -/
def preParse (n : Nat) (text : List Char) : List Char :=
  let t := ensureFinalNewline (stripTrailingSpaces (pyStrip (detab n text)))
  let (body, st) := indentPass (linesOf t) [-1]
  let full := body ++ (List.replicate (st.length - 1) [dedentChar, '\n']).flatten
  (full.drop 2).dropLast.dropLast

end Bluebell

namespace Bluebell

/-- The normalised lines `pre_parse` works on. -/
def normLines (n : Nat) (text : List Char) : List (List Char) :=
  linesOf (ensureFinalNewline (stripTrailingSpaces (pyStrip (detab n text))))

def Prefix.delta : Prefix → Int
  | .same => 0
  | .indent => 1
  | .dedent k => -(k : Int)

/-- Per non-blank line: (leading spaces, marker depth after the line's prefix, stack after). -/
def traceLines : List (List Char) → List Int → Int → List (Nat × Int × List Int)
  | [], _, _ => []
  | l :: ls, st, d =>
    if l = [] then traceLines ls st d
    else
      let k := leadingSpaces l
      let h := handleIndent k st
      let d' := d + h.2.delta
      (k, d', h.1) :: traceLines ls h.1 d'

end Bluebell
