import Bluebell.Peg.Eval
import Bluebell.Gen.Grammar
import Bluebell.Gen.Compiled
import Bluebell.Gen.Tables
/-!
# The grammar that actually executes

`aknExec` is the grammar decompiled from `akn.py` with parser.py's hand-optimised
`_read_non_inline_start` in place of the generated one.  `aknSourceX` is the grammar of `akn.peg`
with the plain-text rule's own class evaluated the same way (justified by `rx1_equiv_plus`), so that
trees can be compared node for node.
-/
namespace Bluebell

def plainTextRule : String := "non_inline_start"

def overrideRule (p : String × PExp) : String × PExp :=
  if p.1 == plainTextRule then (p.1, .rx1 overrideNeg overrideCls) else p

def applyOverride (g : Grammar) : Grammar := g.map overrideRule

/-- `plus (cls n c)` ↦ `rx1 n c` at the plain-text rule (same class, evaluated by one scan). -/
def scanPlainText (g : Grammar) : Grammar :=
  g.map fun (n, e) =>
    if n == plainTextRule then
      match e with
      | .plus (.cls neg cs) => (n, .rx1 neg cs)
      | e => (n, e)
    else (n, e)

def aknExec : Grammar := applyOverride aknCompiled
def aknSourceX : Grammar := scanPlainText aknSource

/-- Decidable check used by C10: the grammar's plain-text rule is `[class]+` and its class has the
same members as the class `(n, c)`. -/
def classCheck (g : Grammar) (n : Bool) (c : List Char) : Bool :=
  match g.lookup plainTextRule with
  | some (.plus (.cls neg cs)) => neg == n && cs.all (c.contains ·) && c.all (cs.contains ·)
  | _ => false

theorem lookup_applyOverride (g : Grammar) (n : String) (h : n ≠ plainTextRule) :
    (applyOverride g).lookup n = g.lookup n := by
  induction g with
  | nil => rfl
  | cons p g ih =>
    obtain ⟨m, e⟩ := p
    unfold applyOverride at ih ⊢
    rw [List.map_cons]
    by_cases hm : m = plainTextRule
    · have hnm : (n == plainTextRule) = false := by simpa using h
      subst hm
      simp only [overrideRule, beq_self_eq_true, if_true, List.lookup_cons, hnm]
      exact ih
    · have hb : (m == plainTextRule) = false := by simpa using hm
      have ho : overrideRule (m, e) = (m, e) := by simp [overrideRule, hb]
      rw [ho, List.lookup_cons, List.lookup_cons, ih]

end Bluebell
