import Bluebell.Lemmas.PlainLine
import Bluebell.Lemmas.BlockLine
/-!
# Flat plain-text documents are accepted, for every text of that shape

A *flat plain-text document*: lines of plain characters (no `* / _ {` backslash), each non-empty,
each starting with a character that no keyword, marker or container rule can start with
(`plainStart`, a decidable check on the regenerated grammar: lowercase letters, digits, … ), separated
by single newlines, the last one followed by the end of the text.  For every such text the root rules
`doc`, `statement`, `debateReport` (and `act`, `bill`) succeed and consume the whole text: the parser
cannot refuse it, whatever its length.
-/
namespace Bluebell

/-- first characters that leave every keyword-led rule out of the race -/
def plainStart (c : Char) : Bool :=
  blockChoosesLine c && isPlain c && c != Char.ofNat 14 && c != Char.ofNat 15 &&
  (["conclusions_marker", "attachment_marker", "body_marker", "preface", "preamble", "conclusions", "attachments",
     "introduction", "background", "arguments_marker", "remedies", "motivation", "decision", "remedies_marker",
     "motivation_marker", "decision_marker"].all
    fun r => !mayStart aknExec 100 (.ref r) (some c) && (aknExec.lookup r).isSome)

def AtLines (inp : Array Char) : Nat → List (List Char) → Prop
  | p, [] => p = inp.size
  | p, l :: rest => (∃ c r, l = c :: r ∧ plainStart c = true) ∧ AtPlain inp p l ∧ AtLines inp (p + l.length + 1) rest

theorem lk_empty_line : aknExec.lookup "empty_line" = some (.ref "newline") := by decide +kernel
theorem lk_hbi : aknExec.lookup "hier_block_indent" = some (.choice (.cons (.seq (.cons ["indent"] (.ref "indent")
    (.cons ["content"] (.plus (.ref "hier_block_element")) (.cons ["dedent"] (.ref "dedent") .nil))))
    (.cons (.ref "hier_block_element") .nil))) := by decide +kernel
theorem lk_indent : aknExec.lookup "indent" = some (.seq (.cons [] (.lit [Char.ofNat 14]) (.cons ["eol"] (.ref "eol") .nil))) := by
  decide +kernel

variable {inp : Array Char}

theorem lim_lit_ok {g : Grammar} {s : List Char} {p : Nat} (h : litMatch inp p s = true) :
    Lim g inp (.lit s) p (.ok (Tree.leaf p (p + s.length))) :=
  ⟨1, fun n hn => by obtain ⟨m, rfl⟩ : ∃ m, n = m + 1 := ⟨n - 1, by omega⟩; simp [eval, h]⟩

/-- `eol` at a newline that is not followed by another newline consumes exactly that newline -/
theorem eol_exact (q : Nat) (h0 : inp[q]? = some '\n') (h1 : inp[q + 1]? ≠ some '\n') :
    ∃ t, Lim aknExec inp (.ref "eol") q (.ok t) ∧ t.stop = q + 1 := by
  have hnl : Lim aknExec inp (.ref "newline") q (.ok (Tree.leaf q (q + 1))) :=
    lim_ref lk_newline (lim_lit_ok (by simp [litMatch, h0]))
  have hnot : litMatch inp (q + 1) ['\n'] = false := by
    simp only [litMatch, Bool.and_true]
    cases hc : inp[q + 1]? with
    | none => rfl
    | some c => simp; intro e; exact h1 (by rw [hc, e])
  have hel : Lim aknExec inp (.ref "empty_line") (q + 1) .fail :=
    lim_ref lk_empty_line (lim_ref lk_newline (lim_lit_fail hnot))
  have hstar : Lim aknExec inp (.star (.ref "empty_line")) (q + 1) (.ok (.node (q + 1) (q + 1) [] [] [])) :=
    lim_star (by simpa using limR_stop (s := q + 1) (acc := []) hel (Nat.zero_le _))
  refine ⟨_, lim_ref lk_eol (lim_seq (limS_cons_ok hnl (limS_cons_ok (by simpa using hstar) limS_nil))), ?_⟩
  simp [Tree.stop]

/-- `k` newlines starting at `q`, then something else (or the end of the text) -/
def NlRun (inp : Array Char) : Nat → Nat → Prop
  | q, 0 => inp[q]? ≠ some '\n'
  | q, k + 1 => inp[q]? = some '\n' ∧ NlRun inp (q + 1) k

theorem empty_lines_loop : ∀ (k q s : Nat) (acc : List Tree), NlRun inp q k →
    ∃ out, LimR aknExec inp (.ref "empty_line") s q acc 0 (.ok (.node s (q + k) [] [] out))
  | 0, q, s, acc, h => by
    have hnot : litMatch inp q ['\n'] = false := by
      simp only [litMatch, Bool.and_true]
      cases hc : inp[q]? with
      | none => rfl
      | some c => simp; intro e; exact h (by rw [hc, e])
    exact ⟨acc.reverse, by simpa using limR_stop (s := s) (acc := acc) (lim_ref lk_empty_line (lim_ref lk_newline (lim_lit_fail hnot))) (Nat.zero_le _)⟩
  | k + 1, q, s, acc, h => by
    have hnl : Lim aknExec inp (.ref "empty_line") q (.ok (Tree.leaf q (q + 1))) :=
      lim_ref lk_empty_line (lim_ref lk_newline (lim_lit_ok (by simp [litMatch, h.1])))
    obtain ⟨out, hout⟩ := empty_lines_loop k (q + 1) s (Tree.leaf q (q + 1) :: acc) h.2
    refine ⟨out, limR_step hnl (by simp) ?_⟩
    have : q + 1 + k = q + (k + 1) := by omega
    simpa [this] using hout

/-- `eol` at the first of `k + 1` newlines consumes them all -/
theorem eol_run (q k : Nat) (h : NlRun inp q (k + 1)) :
    ∃ t, Lim aknExec inp (.ref "eol") q (.ok t) ∧ t.stop = q + (k + 1) := by
  have hnl : Lim aknExec inp (.ref "newline") q (.ok (Tree.leaf q (q + 1))) :=
    lim_ref lk_newline (lim_lit_ok (by simp [litMatch, h.1]))
  obtain ⟨out, hout⟩ := empty_lines_loop k (q + 1) (q + 1) [] h.2
  have hstar : Lim aknExec inp (.star (.ref "empty_line")) (q + 1) (.ok (.node (q + 1) (q + 1 + k) [] [] out)) := lim_star hout
  refine ⟨_, lim_ref lk_eol (lim_seq (limS_cons_ok hnl (limS_cons_ok (by simpa using hstar) limS_nil))), ?_⟩
  simp [Tree.stop]; omega

theorem lim_inline_plain (p : Nat) (c : Char) (r : List Char) (h : AtPlain inp p (c :: r)) :
    Lim aknExec inp (.ref "inline") p (.ok (plainNode p (p + (c :: r).length))) :=
  ⟨6, fun n hn => by
    obtain ⟨m, rfl⟩ : ∃ m, n = m + 6 := ⟨n - 6, by omega⟩
    exact inline_reads_plain inp p c r h m⟩

/-- `line` on a plain line followed by `k + 1` newlines (the line's own and `k` blank lines) -/
theorem line_run (p : Nat) (c : Char) (r : List Char) (h : AtPlain inp p (c :: r)) (hc : c ≠ Char.ofNat 15)
    (k : Nat) (hn : NlRun inp (p + (c :: r).length) (k + 1)) :
    ∃ t, Lim aknExec inp (.ref "line") p (.ok t) ∧ t.stop = p + (c :: r).length + (k + 1) := by
  have hend := atPlain_end inp (c :: r) p h
  obtain ⟨te, hte, hts⟩ := eol_run (p + (c :: r).length) k hn
  have hded : Lim aknExec inp (.notP (.ref "dedent")) p (.ok (Tree.leaf p p)) := by
    refine lim_not_fail (lim_ref lk_dedent (lim_seq (limS_cons_fail (lim_lit_fail ?_))))
    have : (some c == some (Char.ofNat 15)) = false := by simpa using hc
    simp [litMatch, h.1, this]
  have hfail : Lim aknExec inp (.ref "inline") (p + (c :: r).length) .fail := inline_fails_at_newline inp _ hend
  have hplus : Lim aknExec inp (.plus (.ref "inline")) p
      (.ok (.node p (p + (c :: r).length) [] [] [plainNode p (p + (c :: r).length)])) := by
    refine lim_plus (limR_step (lim_inline_plain p c r h) (by simp [plainNode, Tree.stop]) ?_)
    have := limR_stop (g := aknExec) (inp := inp) (s := p) (acc := [plainNode p (p + (c :: r).length)]) (min := 1)
      (by simpa [plainNode, Tree.stop] using hfail) (by simp)
    simpa [plainNode, Tree.stop] using this
  refine ⟨_, lim_ref lk_line (lim_typed (lim_seq (limS_cons_ok hded (limS_cons_ok (by simpa using hplus)
    (limS_cons_ok (by simpa [Tree.stop] using hte) limS_nil))))), ?_⟩
  cases te with
  | node a b c' d e' =>
    simp only [Tree.stop] at hts
    simp [Tree.stop, Tree.addType, hts]

/-- `line` on a plain line, with the exact end offset (a single newline) -/
theorem line_exact (p : Nat) (c : Char) (r : List Char) (h : AtPlain inp p (c :: r)) (hc : c ≠ Char.ofNat 15)
    (hn : inp[p + (c :: r).length + 1]? ≠ some '\n') :
    ∃ t, Lim aknExec inp (.ref "line") p (.ok t) ∧ t.stop = p + (c :: r).length + 1 :=
  line_run p c r h hc 0 ⟨atPlain_end inp (c :: r) p h, hn⟩

/-! ## one line at body level -/

theorem plainStart_parts {c : Char} (h : plainStart c = true) :
    blockChoosesLine c = true ∧ isPlain c = true ∧ c ≠ Char.ofNat 14 ∧ c ≠ Char.ofNat 15 ∧
    ∀ r ∈ ["conclusions_marker", "attachment_marker", "body_marker", "preface", "preamble", "conclusions", "attachments",
     "introduction", "background", "arguments_marker", "remedies", "motivation", "decision", "remedies_marker",
     "motivation_marker", "decision_marker"],
      mayStart aknExec 100 (.ref r) (some c) = false ∧ (aknExec.lookup r).isSome = true := by
  simp only [plainStart, Bool.and_eq_true, bne_iff_ne, ne_eq, List.all_eq_true, Bool.not_eq_true'] at h
  obtain ⟨⟨⟨⟨h1, h2⟩, h3⟩, h4⟩, h5⟩ := h
  exact ⟨h1, h2, h3, h4, fun r hr => h5 r hr⟩

theorem le_size_of_get {p : Nat} {c : Char} (h : inp[p]? = some c) : p ≤ inp.size := by
  rcases Nat.lt_or_ge p inp.size with hlt | hge
  · omega
  · rw [Array.getElem?_eq_none hge] at h; cases h

/-- a rule that cannot start with the character at `p` evaluates to failure there -/
theorem rule_fails_at (A : String) (p : Nat) (c : Char) (hc : inp[p]? = some c)
    (hm : mayStart aknExec 100 (.ref A) (some c) = false) (hA : (aknExec.lookup A).isSome = true) :
    Lim aknExec inp (.ref A) p .fail :=
  lim_fail_of_cannot_start akn_wf 100 A hA p (le_size_of_get hc) (by rw [hc]; exact hm)

theorem rule_fails_at_eof (A : String) (hm : mayStart aknExec 100 (.ref A) none = false)
    (hA : (aknExec.lookup A).isSome = true) : Lim aknExec inp (.ref A) inp.size .fail :=
  lim_fail_of_cannot_start akn_wf 100 A hA inp.size (Nat.le_refl _) (by simp; exact hm)

/-- the loop body of `body` / `mainBody` -/
def bodyItem : PExp :=
  .seq (.cons [] (.notP (.ref "conclusions_marker")) (.cons [] (.notP (.ref "attachment_marker"))
    (.cons ["hier_block_indent"] (.ref "hier_block_indent") .nil)))

theorem bodyItem_line_run (p : Nat) (c : Char) (r : List Char) (h : AtPlain inp p (c :: r)) (hs : plainStart c = true)
    (k : Nat) (hn : NlRun inp (p + (c :: r).length) (k + 1)) :
    ∃ t, Lim aknExec inp bodyItem p (.ok t) ∧ t.stop = p + (c :: r).length + (k + 1) := by
  obtain ⟨hb, _, h14, h15, hr⟩ := plainStart_parts hs
  obtain ⟨tl, hline, htl⟩ := line_run p c r h h15 k hn
  have hbe := block_rules_follow_line inp p c h.1 hb tl hline "hier_block_element" (by simp [blockLevelRules])
  have hind : Lim aknExec inp (.seq (.cons ["indent"] (.ref "indent")
      (.cons ["content"] (.plus (.ref "hier_block_element")) (.cons ["dedent"] (.ref "dedent") .nil)))) p .fail := by
    refine lim_seq (limS_cons_fail (lim_ref lk_indent (lim_seq (limS_cons_fail (lim_lit_fail ?_)))))
    have : (some c == some (Char.ofNat 14)) = false := by simpa using h14
    simp [litMatch, h.1, this]
  have hhbi : Lim aknExec inp (.ref "hier_block_indent") p (.ok tl) :=
    lim_ref lk_hbi (lim_choice (limC_cons_fail hind (limC_cons_ok hbe)))
  have hc1 := lim_not_fail (rule_fails_at "conclusions_marker" p c h.1 (hr _ (by simp)).1 (hr _ (by simp)).2)
  have hc2 := lim_not_fail (rule_fails_at "attachment_marker" p c h.1 (hr _ (by simp)).1 (hr _ (by simp)).2)
  refine ⟨_, lim_seq (limS_cons_ok hc1 (limS_cons_ok (by simpa using hc2) (limS_cons_ok (by simpa using hhbi) limS_nil))), ?_⟩
  cases tl with
  | node a b c' d e' =>
    simp only [Tree.stop] at htl
    simp [Tree.stop, htl]

theorem bodyItem_line (p : Nat) (c : Char) (r : List Char) (h : AtPlain inp p (c :: r)) (hs : plainStart c = true)
    (hn : inp[p + (c :: r).length + 1]? ≠ some '\n') :
    ∃ t, Lim aknExec inp bodyItem p (.ok t) ∧ t.stop = p + (c :: r).length + 1 :=
  bodyItem_line_run p c r h hs 0 ⟨atPlain_end inp (c :: r) p h, hn⟩

theorem eof_facts : (["conclusions_marker", "attachment_marker", "hier_block_indent", "conclusions", "attachments", "body_marker",
    "preface", "preamble"].all fun r => !mayStart aknExec 100 (.ref r) none && (aknExec.lookup r).isSome) = true := by
  decide +kernel

theorem eof_rule_fails (r : String) (hr : r ∈ ["conclusions_marker", "attachment_marker", "hier_block_indent", "conclusions",
    "attachments", "body_marker", "preface", "preamble"]) : Lim aknExec inp (.ref r) inp.size .fail := by
  have := eof_facts
  simp only [List.all_eq_true, Bool.and_eq_true, Bool.not_eq_true'] at this
  exact rule_fails_at_eof r (this r hr).1 (this r hr).2

theorem bodyItem_eof : Lim aknExec inp bodyItem inp.size .fail :=
  lim_seq (limS_cons_ok (lim_not_fail (eof_rule_fails _ (by simp)))
    (limS_cons_ok (by simpa using lim_not_fail (eof_rule_fails (inp := inp) "attachment_marker" (by simp)))
      (limS_cons_fail (by simpa using eof_rule_fails (inp := inp) "hier_block_indent" (by simp)))))

/-! ## the loop over the lines -/

theorem next_not_newline : ∀ (rest : List (List Char)) (q : Nat), AtLines inp q rest → inp[q]? ≠ some '\n'
  | [], q, h => by
      simp only [AtLines] at h; subst h
      simp
  | l :: rest, q, h => by
      obtain ⟨⟨c, r, rfl, hs⟩, hp, _⟩ := h
      rw [hp.1]
      intro e
      have hpl := (plainStart_parts hs).2.1
      injection e with e; subst e
      have := newline_not_plain
      simp [isPlain] at hpl
      rw [this] at hpl; cases hpl

theorem body_loop : ∀ (lines : List (List Char)) (s p : Nat) (acc : List Tree), AtLines inp p lines →
    ∃ out, LimR aknExec inp bodyItem s p acc 0 (.ok (.node s inp.size [] [] out))
  | [], s, p, acc, h => by
      simp only [AtLines] at h; subst h
      exact ⟨acc.reverse, limR_stop bodyItem_eof (Nat.zero_le _)⟩
  | l :: rest, s, p, acc, h => by
      obtain ⟨⟨c, r, rfl, hs⟩, hp, hrest⟩ := h
      have hn := next_not_newline rest _ hrest
      obtain ⟨t, ht, hts⟩ := bodyItem_line p c r hp hs hn
      obtain ⟨out, hacc⟩ := body_loop rest s (p + (c :: r).length + 1) (t :: acc) hrest
      refine ⟨out, limR_step ht (by rw [hts]; omega) ?_⟩
      rw [hts]; exact hacc

/-! ## body, structure, roots -/

theorem lk_mainBody : aknExec.lookup "mainBody" = some (.typed "MainBody" (.seq (.cons [] (.opt (.ref "body_marker"))
    (.cons ["content"] (.star bodyItem) .nil)))) := by decide +kernel
theorem lk_body : aknExec.lookup "body" = some (.typed "Body" (.seq (.cons [] (.opt (.ref "body_marker"))
    (.cons ["content"] (.star bodyItem) .nil)))) := by decide +kernel
theorem lk_open : aknExec.lookup "open_structure" = some (.typed "OpenStructure" (.seq (.cons ["preface"] (.opt (.ref "preface"))
    (.cons ["preamble"] (.opt (.ref "preamble")) (.cons ["mainBody"] (.ref "mainBody") (.cons ["conclusions"] (.opt (.ref "conclusions"))
    (.cons ["attachments"] (.opt (.ref "attachments")) .nil))))))) := by decide +kernel
theorem lk_hstruct : aknExec.lookup "hierarchical_structure" = some (.typed "HierarchicalStructure" (.seq (.cons ["preface"] (.opt (.ref "preface"))
    (.cons ["preamble"] (.opt (.ref "preamble")) (.cons ["body"] (.ref "body") (.cons ["conclusions"] (.opt (.ref "conclusions"))
    (.cons ["attachments"] (.opt (.ref "attachments")) .nil))))))) := by decide +kernel
theorem lk_roots :
    aknExec.lookup "doc" = some (.typed "Doc" (.ref "open_structure")) ∧
    aknExec.lookup "statement" = some (.typed "Statement" (.ref "open_structure")) ∧
    aknExec.lookup "debateReport" = some (.typed "DebateReport" (.ref "open_structure")) ∧
    aknExec.lookup "act" = some (.typed "Act" (.ref "hierarchical_structure")) ∧
    aknExec.lookup "bill" = some (.typed "Bill" (.ref "hierarchical_structure")) := by decide +kernel

/-- a rule that cannot start at offset `p` (a plain-start character, or the end of the text) fails there -/
theorem starter_fails (r : String) (hr : r ∈ ["body_marker", "preface", "preamble", "conclusions", "attachments"])
    (lines : List (List Char)) (p : Nat) (h : AtLines inp p lines) : Lim aknExec inp (.ref r) p .fail := by
  cases lines with
  | nil =>
    simp only [AtLines] at h; subst h
    exact eof_rule_fails r (by
      simp only [List.mem_cons, List.mem_nil_iff, or_false] at hr ⊢
      rcases hr with rfl | rfl | rfl | rfl | rfl <;> simp)
  | cons l rest =>
    obtain ⟨⟨c, r', rfl, hs⟩, hp, _⟩ := h
    have := (plainStart_parts hs).2.2.2.2 r (by
      simp only [List.mem_cons, List.mem_nil_iff, or_false] at hr ⊢
      rcases hr with rfl | rfl | rfl | rfl | rfl <;> simp)
    exact rule_fails_at r p c hp.1 this.1 this.2

/-- `mainBody` / `body` on a flat plain text: succeeds and reaches the end of the text -/
theorem body_rule_flat (rule ty : String)
    (hl : aknExec.lookup rule = some (.typed ty (.seq (.cons [] (.opt (.ref "body_marker")) (.cons ["content"] (.star bodyItem) .nil)))))
    (lines : List (List Char)) (p : Nat) (h : AtLines inp p lines) :
    ∃ t, Lim aknExec inp (.ref rule) p (.ok t) ∧ t.stop = inp.size := by
  have hbm := lim_opt_fail (starter_fails "body_marker" (by simp) lines p h)
  obtain ⟨out, hloop⟩ := body_loop lines p p [] h
  have hstar : Lim aknExec inp (.star bodyItem) p (.ok (.node p inp.size [] [] out)) := lim_star hloop
  refine ⟨_, lim_ref hl (lim_typed (lim_seq (limS_cons_ok hbm (limS_cons_ok (by simpa using hstar) limS_nil)))), ?_⟩
  simp [Tree.stop, Tree.addType]

/-- the five-part document structure on a flat plain text -/
theorem structure_flat (rule ty bodyRule bodyLabel : String)
    (hl : aknExec.lookup rule = some (.typed ty (.seq (.cons ["preface"] (.opt (.ref "preface"))
      (.cons ["preamble"] (.opt (.ref "preamble")) (.cons [bodyLabel] (.ref bodyRule) (.cons ["conclusions"] (.opt (.ref "conclusions"))
      (.cons ["attachments"] (.opt (.ref "attachments")) .nil))))))))
    (hbody : ∀ lines p, AtLines inp p lines → ∃ t, Lim aknExec inp (.ref bodyRule) p (.ok t) ∧ t.stop = inp.size)
    (lines : List (List Char)) (h : AtLines inp 0 lines) :
    ∃ t, Lim aknExec inp (.ref rule) 0 (.ok t) ∧ t.stop = inp.size := by
  have h1 := lim_opt_fail (starter_fails "preface" (by simp) lines 0 h)
  have h2 := lim_opt_fail (starter_fails "preamble" (by simp) lines 0 h)
  obtain ⟨tb, hb, hbs⟩ := hbody lines 0 h
  have hend : AtLines inp inp.size [] := rfl
  have h4 := lim_opt_fail (starter_fails "conclusions" (by simp) [] inp.size hend)
  have h5 := lim_opt_fail (starter_fails "attachments" (by simp) [] inp.size hend)
  refine ⟨_, lim_ref hl (lim_typed (lim_seq (limS_cons_ok h1 (limS_cons_ok (by simpa using h2)
    (limS_cons_ok (by simpa using hb) (limS_cons_ok (by rw [hbs]; exact h4)
      (limS_cons_ok (by simpa using h5) limS_nil))))))), ?_⟩
  simp [Tree.stop, Tree.addType, Tree.leaf]

/-- **Every flat plain-text document is accepted by the five structured roots, in full.** -/
theorem flat_doc_accepted (root : String) (hroot : root ∈ ["doc", "statement", "debateReport", "act", "bill"])
    (lines : List (List Char)) (h : AtLines inp 0 lines) :
    ∃ t, Lim aknExec inp (.ref root) 0 (.ok t) ∧ t.stop = inp.size := by
  obtain ⟨hd, hst, hdr, ha, hbl⟩ := lk_roots
  have hopen := structure_flat (inp := inp) "open_structure" "OpenStructure" "mainBody" "mainBody" lk_open
    (fun ls p hp => body_rule_flat "mainBody" "MainBody" lk_mainBody ls p hp) lines h
  have hhier := structure_flat (inp := inp) "hierarchical_structure" "HierarchicalStructure" "body" "body" lk_hstruct
    (fun ls p hp => body_rule_flat "body" "Body" lk_body ls p hp) lines h
  have wrap : ∀ (r ty inner : String), aknExec.lookup r = some (.typed ty (.ref inner)) →
      (∃ t, Lim aknExec inp (.ref inner) 0 (.ok t) ∧ t.stop = inp.size) →
      ∃ t, Lim aknExec inp (.ref r) 0 (.ok t) ∧ t.stop = inp.size := by
    intro r ty inner hl ⟨t, ht, hts⟩
    exact ⟨_, lim_ref hl (lim_typed ht), by simpa using hts⟩
  simp only [List.mem_cons, List.mem_nil_iff, or_false] at hroot
  rcases hroot with rfl | rfl | rfl | rfl | rfl
  · exact wrap _ _ _ hd hopen
  · exact wrap _ _ _ hst hopen
  · exact wrap _ _ _ hdr hopen
  · exact wrap _ _ _ ha hhier
  · exact wrap _ _ _ hbl hhier

/-- in terms of fuel: whenever the interpreter answers at all, it answers "accepted, whole text consumed" -/
theorem flat_doc_never_refused (root : String) (hroot : root ∈ ["doc", "statement", "debateReport", "act", "bill"])
    (lines : List (List Char)) (h : AtLines inp 0 lines) (n : Nat) (hd : (eval aknExec inp n (.ref root) 0).done) :
    ∃ t, eval aknExec inp n (.ref root) 0 = .ok t ∧ t.stop = inp.size := by
  obtain ⟨t, ⟨n0, h0⟩, hts⟩ := flat_doc_accepted root hroot lines h
  refine ⟨t, ?_, hts⟩
  have := eval_fuel_irrelevant aknExec inp (.ref root) 0 n (max n n0) hd
    (by rw [h0 _ (Nat.le_max_right n n0)]; trivial)
  rw [this, h0 _ (Nat.le_max_right n n0)]

end Bluebell
