import Bluebell.Peg.WF
import Bluebell.Lemmas.PegMeta
/-!
# Termination of the PEG interpreter on a certified grammar

`peg_terminates`: if `wfG g N R top = true` then for every text, every offset inside it and every
rule of the grammar there is an amount of fuel for which `eval` answers (success or failure) —
the recursive-descent parser generated from the grammar cannot loop or recurse forever.
-/
namespace Bluebell

/-! ## fuel monotonicity for all four functions, `n ≤ m` -/

theorem mono_le (g : Grammar) (inp : Array Char) {n m : Nat} (h : n ≤ m) :
    (∀ e p, (eval g inp n e p).done → eval g inp m e p = eval g inp n e p) ∧
    (∀ es s p i ls acc, (evalSeq g inp n es s p i ls acc).done →
        evalSeq g inp m es s p i ls acc = evalSeq g inp n es s p i ls acc) ∧
    (∀ es p, (evalChoice g inp n es p).done → evalChoice g inp m es p = evalChoice g inp n es p) ∧
    (∀ e s p acc k, (evalRep g inp n e s p acc k).done →
        evalRep g inp m e s p acc k = evalRep g inp n e s p acc k) := by
  induction m with
  | zero => have : n = 0 := by omega
            subst this; exact ⟨fun _ _ _ => rfl, fun _ _ _ _ _ _ _ => rfl, fun _ _ _ => rfl, fun _ _ _ _ _ _ => rfl⟩
  | succ m ih =>
    by_cases hnm : n = m + 1
    · subst hnm; exact ⟨fun _ _ _ => rfl, fun _ _ _ _ _ _ _ => rfl, fun _ _ _ => rfl, fun _ _ _ _ _ _ => rfl⟩
    · have hle : n ≤ m := by omega
      obtain ⟨i1, i2, i3, i4⟩ := ih hle
      obtain ⟨s1, s2, s3, s4⟩ := mono_all g inp m
      refine ⟨?_, ?_, ?_, ?_⟩
      · intro e p hd
        have h1 := i1 e p hd
        rw [← h1]; exact s1 e p _ rfl (by rw [h1]; exact hd)
      · intro es s p i ls acc hd
        have h1 := i2 es s p i ls acc hd
        rw [← h1]; exact s2 es s p i ls acc _ rfl (by rw [h1]; exact hd)
      · intro es p hd
        have h1 := i3 es p hd
        rw [← h1]; exact s3 es p _ rfl (by rw [h1]; exact hd)
      · intro e s p acc k hd
        have h1 := i4 e s p acc k hd
        rw [← h1]; exact s4 e s p acc k _ rfl (by rw [h1]; exact hd)

/-! ## soundness of the nullable analysis -/

theorem closedN_lookup {g : Grammar} {N : List String} (hc : closedN g N = true)
    {A : String} {e : PExp} (hl : g.lookup A = some e) (hn : nullE N e = true) :
    N.contains A = true := by
  unfold closedN at hc
  rw [List.all_eq_true] at hc
  have hmem : (A, e) ∈ g := by
    clear hc hn
    induction g with
    | nil => simp at hl
    | cons q g ih =>
      obtain ⟨B, f⟩ := q
      rw [List.lookup_cons] at hl
      by_cases hb : (A == B) = true
      · rw [hb] at hl
        have hAB : A = B := by simpa using hb
        injection hl with hl
        subst hl; subst hAB; exact List.mem_cons_self
      · have hb' : (A == B) = false := by simpa using hb
        rw [hb'] at hl
        exact List.mem_cons_of_mem _ (ih hl)
  have := hc (A, e) hmem
  simp only [hn, Bool.not_true, Bool.false_or] at this
  exact this

theorem null_sound (g : Grammar) (N : List String) (hc : closedN g N = true) (inp : Array Char) :
    ∀ n,
    (∀ e p t, p ≤ inp.size → eval g inp n e p = .ok t → t.stop ≤ p → nullE N e = true) ∧
    (∀ es s p i ls acc t, p ≤ inp.size → evalSeq g inp n es s p i ls acc = .ok t → t.stop ≤ p →
        nullS N es = true) ∧
    (∀ es p t, p ≤ inp.size → evalChoice g inp n es p = .ok t → t.stop ≤ p → nullC N es = true) ∧
    (∀ e s p acc k t, p ≤ inp.size → evalRep g inp n e s p acc k = .ok t → t.stop ≤ p →
        k ≤ acc.length) := by
  intro n
  induction n with
  | zero =>
    refine ⟨?_, ?_, ?_, ?_⟩
    · intro e p t _ h; simp [eval] at h
    · intro es s p i ls acc t _ h; simp [evalSeq] at h
    · intro es p t _ h; simp [evalChoice] at h
    · intro e s p acc k t _ h; simp [evalRep] at h
  | succ n ih =>
    obtain ⟨ihE, ihS, ihC, ihR⟩ := ih
    obtain ⟨spE, spS, _, spR⟩ := span_all g inp n
    refine ⟨?_, ?_, ?_, ?_⟩
    · intro e p t hp h hs
      cases e with
      | lit s =>
        simp only [eval] at h
        split at h
        · injection h with h; subst h
          simp only [Tree.stop_leaf] at hs
          have : s.length = 0 := by omega
          simp [nullE, List.length_eq_zero_iff.mp this]
        · cases h
      | cls neg cs =>
        simp only [eval] at h
        split at h
        · split at h
          · injection h with h; subst h; simp only [Tree.stop_leaf] at hs; omega
          · cases h
        · cases h
      | rx1 neg cs =>
        simp only [eval] at h
        split at h
        · rename_i hlt
          injection h with h; subst h; simp only [Tree.stop] at hs; omega
        · cases h
      | ref nm =>
        simp only [eval] at h
        cases hl : g.lookup nm with
        | none => simp [hl] at h
        | some e' =>
          simp only [hl] at h
          have := ihE _ _ _ hp h hs
          simpa [nullE] using closedN_lookup hc hl this
      | seq es => simp only [eval] at h; simpa [nullE] using ihS _ _ _ _ _ _ _ hp h hs
      | choice es => simp only [eval] at h; simpa [nullE] using ihC _ _ _ hp h hs
      | star e => simp [nullE]
      | opt e => simp [nullE]
      | notP e => simp [nullE]
      | andP e => simp [nullE]
      | plus e =>
        simp only [eval] at h
        have := ihR _ _ _ _ _ _ hp h hs
        simp at this
      | typed ty e =>
        simp only [eval] at h
        cases he : eval g inp n e p with
        | oof => simp [he] at h
        | fail => simp [he] at h
        | ok t' =>
          simp only [he] at h; injection h with h; subst h
          simp only [Tree.stop_addType] at hs
          simpa [nullE] using ihE _ _ _ hp he hs
    · intro es s p i ls acc t hp h hs
      cases es with
      | nil => simp [nullS]
      | cons names e es =>
        simp only [evalSeq] at h
        cases he : eval g inp n e p with
        | oof => simp [he] at h
        | fail => simp [he] at h
        | ok t' =>
          simp only [he] at h
          have h1 := spE _ _ _ hp he
          have h2 := spS _ _ _ _ _ _ _ h1.2.2 h
          have a := ihE _ _ _ hp he (by have := h2.2.1; omega)
          have b := ihS _ _ _ _ _ _ _ h1.2.2 h (by have := h1.2.1; omega)
          simp [nullS, a, b]
    · intro es p t hp h hs
      cases es with
      | nil => simp [evalChoice] at h
      | cons e es =>
        simp only [evalChoice] at h
        cases he : eval g inp n e p with
        | oof => simp [he] at h
        | ok t' =>
          simp only [he] at h; injection h with h; subst h
          simp [nullC, ihE _ _ _ hp he hs]
        | fail =>
          simp only [he] at h
          simp [nullC, ihC _ _ _ hp h hs]
    · intro e s p acc k t hp h hs
      rw [evalRep] at h
      cases he : eval g inp n e p with
      | oof => simp [he] at h
      | fail =>
        simp only [he] at h
        split at h
        · assumption
        · cases h
      | ok t' =>
        simp only [he] at h
        by_cases hcs : t'.stop ≤ p
        · rw [if_pos hcs] at h; cases h
        · rw [if_neg hcs] at h
          have h1 := spE _ _ _ hp he
          have h2 := spR _ _ _ _ _ _ h1.2.2 h
          have := h2.2.1
          omega

end Bluebell

namespace Bluebell
/-! ## termination -/

section
variable (g : Grammar) (N : List String) (R : List (String × Nat)) (top : Nat) (inp : Array Char)

mutual
theorem wfE_mono {k k' : Nat} (h : k ≤ k') : ∀ e, wfE N R top k e = true → wfE N R top k' e = true
  | .lit _, _ => by simp [wfE]
  | .cls _ _, _ => by simp [wfE]
  | .rx1 _ _, _ => by simp [wfE]
  | .ref n, hw => by simp only [wfE, decide_eq_true_eq] at hw ⊢; omega
  | .seq es, hw => by simp only [wfE] at hw ⊢; exact wfS_mono h es hw
  | .choice es, hw => by simp only [wfE] at hw ⊢; exact wfC_mono h es hw
  | .opt e, hw => by simp only [wfE] at hw ⊢; exact wfE_mono h e hw
  | .notP e, hw => by simp only [wfE] at hw ⊢; exact wfE_mono h e hw
  | .andP e, hw => by simp only [wfE] at hw ⊢; exact wfE_mono h e hw
  | .typed _ e, hw => by simp only [wfE] at hw ⊢; exact wfE_mono h e hw
  | .star e, hw => by
      simp only [wfE, Bool.and_eq_true] at hw ⊢; exact ⟨wfE_mono h e hw.1, hw.2⟩
  | .plus e, hw => by
      simp only [wfE, Bool.and_eq_true] at hw ⊢; exact ⟨wfE_mono h e hw.1, hw.2⟩
theorem wfS_mono {k k' : Nat} (h : k ≤ k') : ∀ es, wfS N R top k es = true → wfS N R top k' es = true
  | .nil, _ => by simp [wfS]
  | .cons _ e r, hw => by
      simp only [wfS, Bool.and_eq_true] at hw ⊢
      refine ⟨wfE_mono h e hw.1, ?_⟩
      by_cases hn : nullE N e = true
      · simp only [hn, if_true] at hw ⊢; exact wfS_mono h r hw.2
      · simp only [hn] at hw ⊢; exact hw.2
theorem wfC_mono {k k' : Nat} (h : k ≤ k') : ∀ es, wfC N R top k es = true → wfC N R top k' es = true
  | .nil, _ => by simp [wfC]
  | .cons e r, hw => by
      simp only [wfC, Bool.and_eq_true] at hw ⊢
      exact ⟨wfE_mono h e hw.1, wfC_mono h r hw.2⟩
end

/-- Everything well-formed at rank `top` terminates at offset `p`. -/
structure TermAll (p : Nat) : Prop where
  e : ∀ e, wfE N R top top e = true → ∃ n, (eval g inp n e p).done
  s : ∀ es, wfS N R top top es = true → ∀ s i ls acc, ∃ n, (evalSeq g inp n es s p i ls acc).done
  c : ∀ es, wfC N R top top es = true → ∃ n, (evalChoice g inp n es p).done
  r : ∀ e, wfE N R top top e = true → nullE N e = false →
        ∀ s acc m, ∃ n, (evalRep g inp n e s p acc m).done

variable {g N R top inp}

theorem rep_step (hc : closedN g N = true) {p : Nat} (hp : p ≤ inp.size)
    (Hgt : ∀ p', p < p' → p' ≤ inp.size → TermAll g N R top inp p')
    {e : PExp} (he : ∃ n, (eval g inp n e p).done) (hw : wfE N R top top e = true)
    (hn : nullE N e = false) (s : Nat) (acc : List Tree) (m : Nat) :
    ∃ n, (evalRep g inp n e s p acc m).done := by
  obtain ⟨n1, h1⟩ := he
  cases hr : eval g inp n1 e p with
  | oof => rw [hr] at h1; exact absurd h1 Res.not_done_oof
  | fail =>
    refine ⟨n1 + 1, ?_⟩
    rw [evalRep, hr]
    simp only
    split <;> trivial
  | ok t =>
    have hsp := (span_all g inp n1).1 _ _ _ hp hr
    by_cases hcs : t.stop ≤ p
    · have := (null_sound g N hc inp n1).1 _ _ _ hp hr hcs
      rw [hn] at this; cases this
    · obtain ⟨n2, h2⟩ := (Hgt t.stop (by omega) hsp.2.2).r e hw hn s (t :: acc) m
      refine ⟨max n1 n2 + 1, ?_⟩
      rw [evalRep]
      have e1 := (mono_le g inp (Nat.le_max_left n1 n2)).1 e p (by rw [hr]; trivial)
      rw [e1, hr]
      simp only
      rw [if_neg hcs]
      have e2 := (mono_le g inp (Nat.le_max_right n1 n2)).2.2.2 e s t.stop (t :: acc) m h2
      rw [e2]; exact h2

theorem seq_step (hc : closedN g N = true) {p : Nat} (hp : p ≤ inp.size)
    {e : PExp} (he : ∃ n, (eval g inp n e p).done) {r : PItems}
    (hsame : nullE N e = true → ∀ s i ls acc, ∃ n, (evalSeq g inp n r s p i ls acc).done)
    (hgt : ∀ p', p < p' → p' ≤ inp.size → ∀ s i ls acc, ∃ n, (evalSeq g inp n r s p' i ls acc).done)
    (names : List String) (s i : Nat) (ls : List (String × Nat)) (acc : List Tree) :
    ∃ n, (evalSeq g inp n (.cons names e r) s p i ls acc).done := by
  obtain ⟨n1, h1⟩ := he
  cases hr : eval g inp n1 e p with
  | oof => rw [hr] at h1; exact absurd h1 Res.not_done_oof
  | fail => exact ⟨n1 + 1, by simp [evalSeq, hr]⟩
  | ok t =>
    have hsp := (span_all g inp n1).1 _ _ _ hp hr
    have hrest : ∃ n, (evalSeq g inp n r s t.stop (i+1) (addLabels ls names i) (t :: acc)).done := by
      by_cases hcs : t.stop ≤ p
      · have hnull := (null_sound g N hc inp n1).1 _ _ _ hp hr hcs
        have : t.stop = p := by have := hsp.2.1; omega
        rw [this]; exact hsame hnull _ _ _ _
      · exact hgt t.stop (by omega) hsp.2.2 _ _ _ _
    obtain ⟨n2, h2⟩ := hrest
    refine ⟨max n1 n2 + 1, ?_⟩
    simp only [evalSeq]
    have e1 := (mono_le g inp (Nat.le_max_left n1 n2)).1 e p (by rw [hr]; trivial)
    rw [e1, hr]
    simp only
    have e2 := (mono_le g inp (Nat.le_max_right n1 n2)).2.1 r s t.stop (i+1) (addLabels ls names i) (t :: acc) h2
    rw [e2]; exact h2

theorem choice_step {p : Nat} {e : PExp} (he : ∃ n, (eval g inp n e p).done) {r : PExps}
    (hrest : ∃ n, (evalChoice g inp n r p).done) :
    ∃ n, (evalChoice g inp n (.cons e r) p).done := by
  obtain ⟨n1, h1⟩ := he
  obtain ⟨n2, h2⟩ := hrest
  cases hr : eval g inp n1 e p with
  | oof => rw [hr] at h1; exact absurd h1 Res.not_done_oof
  | ok t => exact ⟨n1 + 1, by simp [evalChoice, hr]⟩
  | fail =>
    refine ⟨max n1 n2 + 1, ?_⟩
    simp only [evalChoice]
    have e1 := (mono_le g inp (Nat.le_max_left n1 n2)).1 e p (by rw [hr]; trivial)
    rw [e1, hr]
    simp only
    have e2 := (mono_le g inp (Nat.le_max_right n1 n2)).2.2.1 r p h2
    rw [e2]; exact h2

theorem wrap_step {p : Nat} {e : PExp} (he : ∃ n, (eval g inp n e p).done) (f : PExp → PExp)
    (hf : ∀ n, (eval g inp n e p).done → (eval g inp (n+1) (f e) p).done) :
    ∃ n, (eval g inp n (f e) p).done := by
  obtain ⟨n1, h1⟩ := he
  exact ⟨n1 + 1, hf n1 h1⟩


/-! ### the inner induction: structural, at a fixed offset and rank bound -/

mutual
theorem termE (hc : closedN g N = true) {p : Nat} (hp : p ≤ inp.size) {k : Nat} (hk : k ≤ top)
    (Hgt : ∀ p', p < p' → p' ≤ inp.size → TermAll g N R top inp p')
    (Hrk : ∀ A, rkOf R top A < k → ∃ n, (eval g inp n (.ref A) p).done) :
    ∀ e, wfE N R top k e = true → ∃ n, (eval g inp n e p).done
  | .lit s, _ => ⟨1, by simp only [eval]; split <;> trivial⟩
  | .cls neg cs, _ => ⟨1, by simp only [eval]; split <;> (try split) <;> trivial⟩
  | .rx1 neg cs, _ => ⟨1, by simp only [eval]; split <;> trivial⟩
  | .ref A, hw => by simp only [wfE, decide_eq_true_eq] at hw; exact Hrk A hw
  | .seq es, hw => by
      simp only [wfE] at hw
      obtain ⟨n, h⟩ := termS hc hp hk Hgt Hrk es hw p 0 [] []
      exact ⟨n + 1, by simpa only [eval] using h⟩
  | .choice es, hw => by
      simp only [wfE] at hw
      obtain ⟨n, h⟩ := termC hc hp hk Hgt Hrk es hw
      exact ⟨n + 1, by simpa only [eval] using h⟩
  | .opt e, hw => by
      simp only [wfE] at hw
      obtain ⟨n, h⟩ := termE hc hp hk Hgt Hrk e hw
      refine ⟨n + 1, ?_⟩
      simp only [eval]
      cases hr : eval g inp n e p with
      | oof => rw [hr] at h; exact absurd h Res.not_done_oof
      | fail => trivial
      | ok t => trivial
  | .notP e, hw => by
      simp only [wfE] at hw
      obtain ⟨n, h⟩ := termE hc hp hk Hgt Hrk e hw
      refine ⟨n + 1, ?_⟩
      simp only [eval]
      cases hr : eval g inp n e p with
      | oof => rw [hr] at h; exact absurd h Res.not_done_oof
      | fail => trivial
      | ok t => trivial
  | .andP e, hw => by
      simp only [wfE] at hw
      obtain ⟨n, h⟩ := termE hc hp hk Hgt Hrk e hw
      refine ⟨n + 1, ?_⟩
      simp only [eval]
      cases hr : eval g inp n e p with
      | oof => rw [hr] at h; exact absurd h Res.not_done_oof
      | fail => trivial
      | ok t => trivial
  | .typed ty e, hw => by
      simp only [wfE] at hw
      obtain ⟨n, h⟩ := termE hc hp hk Hgt Hrk e hw
      refine ⟨n + 1, ?_⟩
      simp only [eval]
      cases hr : eval g inp n e p with
      | oof => rw [hr] at h; exact absurd h Res.not_done_oof
      | fail => trivial
      | ok t => trivial
  | .star e, hw => by
      simp only [wfE, Bool.and_eq_true, Bool.not_eq_true'] at hw
      have he := termE hc hp hk Hgt Hrk e hw.1
      obtain ⟨n, h⟩ := rep_step hc hp Hgt he (wfE_mono N R top hk e hw.1) hw.2 p [] 0
      exact ⟨n + 1, by simpa only [eval] using h⟩
  | .plus e, hw => by
      simp only [wfE, Bool.and_eq_true, Bool.not_eq_true'] at hw
      have he := termE hc hp hk Hgt Hrk e hw.1
      obtain ⟨n, h⟩ := rep_step hc hp Hgt he (wfE_mono N R top hk e hw.1) hw.2 p [] 1
      exact ⟨n + 1, by simpa only [eval] using h⟩
theorem termS (hc : closedN g N = true) {p : Nat} (hp : p ≤ inp.size) {k : Nat} (hk : k ≤ top)
    (Hgt : ∀ p', p < p' → p' ≤ inp.size → TermAll g N R top inp p')
    (Hrk : ∀ A, rkOf R top A < k → ∃ n, (eval g inp n (.ref A) p).done) :
    ∀ es, wfS N R top k es = true → ∀ s i ls acc, ∃ n, (evalSeq g inp n es s p i ls acc).done
  | .nil, _ => fun s i ls acc => ⟨1, by simp only [evalSeq]; trivial⟩
  | .cons names e r, hw => by
      simp only [wfS, Bool.and_eq_true] at hw
      intro s i ls acc
      have he := termE hc hp hk Hgt Hrk e hw.1
      have hrtop : wfS N R top top r = true := by
        by_cases hn : nullE N e = true
        · have := hw.2; simp only [hn, if_true] at this; exact wfS_mono N R top hk r this
        · have := hw.2; simp only [hn] at this; exact this
      refine seq_step hc hp he ?_ ?_ names s i ls acc
      · intro hn
        have := hw.2; simp only [hn, if_true] at this
        exact termS hc hp hk Hgt Hrk r this
      · intro p' hlt hle
        exact (Hgt p' hlt hle).s r hrtop
theorem termC (hc : closedN g N = true) {p : Nat} (hp : p ≤ inp.size) {k : Nat} (hk : k ≤ top)
    (Hgt : ∀ p', p < p' → p' ≤ inp.size → TermAll g N R top inp p')
    (Hrk : ∀ A, rkOf R top A < k → ∃ n, (eval g inp n (.ref A) p).done) :
    ∀ es, wfC N R top k es = true → ∃ n, (evalChoice g inp n es p).done
  | .nil, _ => ⟨1, by simp only [evalChoice]; trivial⟩
  | .cons e r, hw => by
      simp only [wfC, Bool.and_eq_true] at hw
      exact choice_step (termE hc hp hk Hgt Hrk e hw.1) (termC hc hp hk Hgt Hrk r hw.2)
end


/-! ### rank induction at a fixed offset, then induction on the remaining input -/

theorem lookup_mem' : ∀ (l : Grammar) (A : String) (e : PExp), l.lookup A = some e → (A, e) ∈ l := by
  intro l
  induction l with
  | nil => intro A e hl; simp at hl
  | cons q l ih =>
    intro A e hl
    obtain ⟨B, f⟩ := q
    rw [List.lookup_cons] at hl
    by_cases hb : (A == B) = true
    · rw [hb] at hl
      have hAB : A = B := by simpa using hb
      injection hl with hl
      subst hl; subst hAB; exact List.mem_cons_self
    · have hb' : (A == B) = false := by simpa using hb
      rw [hb'] at hl
      exact List.mem_cons_of_mem _ (ih A e hl)

theorem wfG_lookup (hw : wfG g N R top = true) {A : String} {e : PExp} (hl : g.lookup A = some e) :
    rkOf R top A < top ∧ wfE N R top (rkOf R top A) e = true := by
  unfold wfG at hw
  rw [Bool.and_eq_true, List.all_eq_true] at hw
  have := hw.2 (A, e) (lookup_mem' g A e hl)
  simpa using this

theorem ranks_term (hw : wfG g N R top = true) {p : Nat} (hp : p ≤ inp.size)
    (Hgt : ∀ p', p < p' → p' ≤ inp.size → TermAll g N R top inp p') :
    ∀ k, k ≤ top → ∀ A, rkOf R top A < k → ∃ n, (eval g inp n (.ref A) p).done := by
  have hc : closedN g N = true := by
    unfold wfG at hw; rw [Bool.and_eq_true] at hw; exact hw.1
  intro k
  induction k with
  | zero => intro _ A h; omega
  | succ k ih =>
    intro hk A hA
    by_cases hlt : rkOf R top A < k
    · exact ih (by omega) A hlt
    · have hAk : rkOf R top A = k := by omega
      cases hl : g.lookup A with
      | none => exact ⟨1, by simp only [eval, hl]; trivial⟩
      | some body =>
        have hb := (wfG_lookup hw hl).2
        rw [hAk] at hb
        obtain ⟨n, h⟩ := termE hc hp (by omega : k ≤ top) Hgt (ih (by omega)) body hb
        exact ⟨n + 1, by simpa only [eval, hl] using h⟩

theorem termAll_of_gt (hw : wfG g N R top = true) {p : Nat} (hp : p ≤ inp.size)
    (Hgt : ∀ p', p < p' → p' ≤ inp.size → TermAll g N R top inp p') :
    TermAll g N R top inp p := by
  have hc : closedN g N = true := by
    unfold wfG at hw; rw [Bool.and_eq_true] at hw; exact hw.1
  have Hrk := ranks_term hw hp Hgt top (Nat.le_refl _)
  refine ⟨termE hc hp (Nat.le_refl _) Hgt Hrk, termS hc hp (Nat.le_refl _) Hgt Hrk,
    termC hc hp (Nat.le_refl _) Hgt Hrk, ?_⟩
  intro e hwf hn s acc m
  exact rep_step hc hp Hgt (termE hc hp (Nat.le_refl _) Hgt Hrk e hwf) hwf hn s acc m

theorem termAll (hw : wfG g N R top = true) :
    ∀ d p, p ≤ inp.size → inp.size - p ≤ d → TermAll g N R top inp p := by
  intro d
  induction d with
  | zero =>
    intro p hp hd
    exact termAll_of_gt hw hp (fun p' hlt hle => by omega)
  | succ d ih =>
    intro p hp hd
    exact termAll_of_gt hw hp (fun p' hlt hle => ih p' hle (by omega))

/-- **Termination.** On a grammar that passes the certificate check, evaluating any rule at any
offset of any text answers with some finite fuel: no left recursion, no loop without progress. -/
theorem peg_terminates (hw : wfG g N R top = true) (root : String) (hroot : (g.lookup root).isSome)
    (p : Nat) (hp : p ≤ inp.size) :
    ∃ n, (eval g inp n (.ref root) p).done := by
  have T := termAll (inp := inp) hw (inp.size - p) p hp (Nat.le_refl _)
  cases hl : g.lookup root with
  | none => rw [hl] at hroot; cases hroot
  | some body =>
    have := (wfG_lookup hw hl).1
    exact T.e (.ref root) (by simpa [wfE] using this)

/-- …and with that fuel or any larger one the answer is the same (`eval_mono`), so "the result of
parsing" is well defined. -/
theorem peg_result_defined (hw : wfG g N R top = true) (root : String) (hroot : (g.lookup root).isSome)
    (p : Nat) (hp : p ≤ inp.size) :
    ∃ n r, r.done ∧ ∀ m, n ≤ m → eval g inp m (.ref root) p = r := by
  obtain ⟨n, h⟩ := peg_terminates (inp := inp) hw root hroot p hp
  exact ⟨n, _, h, fun m hm => eval_mono g inp _ p hm h⟩

end
end Bluebell
