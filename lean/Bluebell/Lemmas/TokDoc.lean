import Bluebell.Lemmas.NestedDoc
import Bluebell.Lemmas.MixedLine
import Bluebell.Lemmas.PreParse
/-!
# From token lists to accepted texts

`BlkK` is `Blk` with the number of blank lines after each content line and each DEDENT line made
explicit, so that a block list determines its token list (`toksKs`) and hence its text
(`unlines (toksKs bs)`, the form in which C11 describes the output of `pre_parse`).  Every good block
list — every content line plain and starting with a `plainStart` character — yields a text that the
five structured roots accept in full.
-/
namespace Bluebell

inductive BlkK where
  | line (l : List Char) (k : Nat)
  | nest (bs : List BlkK) (k : Nat)

def blanks (k : Nat) : List Tok := List.replicate k (.line [])

mutual
def toksK : BlkK → List Tok
  | .line l k => .line l :: blanks k
  | .nest bs k => .ind :: (toksKs bs ++ .ded :: blanks k)
def toksKs : List BlkK → List Tok
  | [] => []
  | b :: bs => toksK b ++ toksKs bs
end

mutual
def eraseK : BlkK → Blk
  | .line l _ => .line l
  | .nest bs _ => .nest (eraseKs bs)
def eraseKs : List BlkK → List Blk
  | [] => []
  | b :: bs => eraseK b :: eraseKs bs
end

/-- a plain line: plain characters only, starting with a `plainStart` character -/
def PlainLine (l : List Char) : Prop := (∃ c r, l = c :: r ∧ plainStart c = true) ∧ ∀ x ∈ l, isPlain x = true

/-- `\c₁\c₂…`: every character escaped -/
def escAll (w : List Char) : List Char := w.flatMap fun c => ['\\', c]

/-- a fully escaped line (no escaped newline) -/
def EscLine (l : List Char) : Prop := ∃ c w, l = escAll (c :: w) ∧ ∀ x ∈ c :: w, x ≠ '\n'

/-- segments as text: escapes of anything but a newline, runs of plain characters, no two runs adjacent -/
def WfSegs : List Seg → Prop
  | [] => True
  | .esc c :: ss => c ≠ '\n' ∧ WfSegs ss
  | .run c r :: ss => (∀ x ∈ c :: r, isPlain x = true) ∧ (match ss with | .run _ _ :: _ => False | _ => True) ∧ WfSegs ss

def segFirst : List Seg → Prop
  | .esc _ :: _ => True
  | .run c _ :: _ => plainStart c = true
  | [] => False

/-- plain text with escapes anywhere: starts with an escape or a `plainStart` character -/
def MixLine (l : List Char) : Prop := ∃ ss, l = segsSrc ss ∧ WfSegs ss ∧ segFirst ss

/-- the lines the acceptance theorem covers -/
def GoodLine (l : List Char) : Prop := PlainLine l ∨ EscLine l ∨ MixLine l

mutual
def GoodK : BlkK → Prop
  | .line l _ => GoodLine l
  | .nest bs _ => bs ≠ [] ∧ GoodKs bs
def GoodKs : List BlkK → Prop
  | [] => True
  | b :: bs => GoodK b ∧ GoodKs bs
end

/-- the array reads the characters `s` from offset `p` -/
def ReadsAt (arr : Array Char) (p : Nat) (s : List Char) : Prop := ∀ i, i < s.length → arr[p + i]? = s[i]?

theorem readsAt_cons {arr : Array Char} {p : Nat} {c : Char} {s : List Char} (h : ReadsAt arr p (c :: s)) :
    arr[p]? = some c ∧ ReadsAt arr (p + 1) s := by
  refine ⟨by simpa using h 0 (by simp), fun i hi => ?_⟩
  have := h (i + 1) (by simpa using hi)
  simpa [Nat.add_assoc, Nat.add_comm 1] using this

theorem readsAt_append {arr : Array Char} {p : Nat} {a b : List Char} (h : ReadsAt arr p (a ++ b)) :
    ReadsAt arr p a ∧ ReadsAt arr (p + a.length) b := by
  refine ⟨fun i hi => ?_, fun i hi => ?_⟩
  · have := h i (by simp; omega)
    rwa [List.getElem?_append_left hi] at this
  · have := h (a.length + i) (by simp; omega)
    rw [List.getElem?_append_right (by omega)] at this
    simpa [Nat.add_assoc] using this

theorem atPlain_of_reads {arr : Array Char} : ∀ (l : List Char) (p : Nat), ReadsAt arr p (l ++ ['\n']) →
    (∀ x ∈ l, isPlain x = true) → AtPlain arr p l
  | [], p, h, _ => by simpa [AtPlain] using (readsAt_cons h).1
  | c :: r, p, h, hp => by
    obtain ⟨h0, h1⟩ := readsAt_cons (c := c) (s := r ++ ['\n']) h
    exact ⟨h0, hp c (by simp), atPlain_of_reads r (p + 1) h1 (fun x hx => hp x (by simp [hx]))⟩

theorem nlRun_of_reads {arr : Array Char} : ∀ (k q : Nat), ReadsAt arr q (List.replicate k '\n') →
    arr[q + k]? ≠ some '\n' → NlRun arr q k
  | 0, q, _, hn => by simpa [NlRun] using hn
  | k + 1, q, h, hn => by
    obtain ⟨h0, h1⟩ := readsAt_cons (c := '\n') (s := List.replicate k '\n') (by simpa [List.replicate_succ] using h)
    exact ⟨h0, nlRun_of_reads k (q + 1) h1 (by simpa [Nat.add_assoc, Nat.add_comm 1] using hn)⟩

theorem unlines_blanks (k : Nat) (ts : List Tok) : unlines (blanks k ++ ts) = List.replicate k '\n' ++ unlines ts := by
  induction k with
  | zero => simp [blanks]
  | succ k ih => simp [blanks, List.replicate_succ, unlines, Tok.chars] at ih ⊢; exact ih

/-- the first character of the text of a non-empty good block list is not a newline -/
theorem first_not_newline : ∀ (bs : List BlkK), bs ≠ [] → GoodKs bs → ∀ (rest : List Char),
    (unlines (toksKs bs) ++ rest).head? ≠ some '\n'
  | [], h, _, _ => absurd rfl h
  | .line l k :: bs, _, hg, rest => by
    rcases hg.1 with ⟨⟨c, r, rfl, hs⟩, hp⟩ | ⟨c, w, rfl, _⟩ | ⟨ss, rfl, hw, hf⟩
    · simp only [toksKs, toksK, List.cons_append, unlines, Tok.chars, List.head?_cons]
      intro e
      injection e with e; subst e
      have := (plainStart_parts hs).2.1
      have hn := newline_not_plain
      simp [isPlain] at this
      rw [hn] at this; cases this
    · simp [toksKs, toksK, unlines, Tok.chars, escAll]
    · cases ss with
      | nil => exact absurd hf (by simp [segFirst])
      | cons sg rest =>
        cases sg with
        | esc c => simp [toksKs, toksK, unlines, Tok.chars, segsSrc, Seg.src]
        | run c r =>
          simp only [toksKs, toksK, List.cons_append, unlines, Tok.chars, segsSrc, Seg.src, List.head?_cons]
          intro e
          injection e with e; subst e
          have := (plainStart_parts (show plainStart '\n' = true from hf)).2.1
          have hn := newline_not_plain
          simp [isPlain] at this
          rw [hn] at this; cases this
  | .nest bs' k :: bs, _, _, rest => by
    simp only [toksKs, toksK, List.cons_append, unlines, Tok.chars, List.head?_cons]
    intro e
    injection e with e
    have : indentChar ≠ '\n' := by decide
    exact this e

theorem ind_eq : indentChar = IND := by decide
theorem ded_eq : dedentChar = DED := by decide

theorem unlines_toksK_line (l : List Char) (k : Nat) : unlines (toksK (.line l k)) = l ++ '\n' :: List.replicate k '\n' := by
  have := unlines_blanks k []
  simp only [List.append_nil, unlines] at this
  simp [toksK, unlines, Tok.chars, this]

theorem unlines_toksK_nest (bs : List BlkK) (k : Nat) :
    unlines (toksK (.nest bs k)) = IND :: '\n' :: (unlines (toksKs bs) ++ DED :: '\n' :: List.replicate k '\n') := by
  have := unlines_blanks k []
  simp only [List.append_nil, unlines] at this
  simp [toksK, unlines, Tok.chars, unlines_append, this, ind_eq, ded_eq]

theorem unlines_toksKs_cons (b : BlkK) (bs : List BlkK) : unlines (toksKs (b :: bs)) = unlines (toksK b) ++ unlines (toksKs bs) := by
  simp [toksKs, unlines_append]

theorem readsAt_head {arr : Array Char} {p : Nat} {s : List Char} (h : ReadsAt arr p s) (hs : s ≠ []) :
    arr[p]? = s.head? := by
  cases s with
  | nil => exact absurd rfl hs
  | cons c r => simpa using (readsAt_cons h).1

theorem escAll_length : ∀ (w : List Char), (escAll w).length = 2 * w.length
  | [] => rfl
  | c :: w => by
    have := escAll_length w
    simp only [escAll, List.flatMap_cons, List.length_append, List.length_cons, List.length_nil] at this ⊢
    omega

theorem atEsc_of_reads {arr : Array Char} : ∀ (w : List Char) (p : Nat), ReadsAt arr p (escAll w ++ ['\n']) →
    (∀ x ∈ w, x ≠ '\n') → AtEsc arr p w
  | [], p, h, _ => by simpa [AtEsc, escAll] using (readsAt_cons h).1
  | c :: w, p, h, hn => by
    have h' : ReadsAt arr p ('\\' :: c :: (escAll w ++ ['\n'])) := by simpa [escAll] using h
    obtain ⟨h0, h1⟩ := readsAt_cons h'
    obtain ⟨h2, h3⟩ := readsAt_cons h1
    exact ⟨h0, h2, hn c (by simp), atEsc_of_reads w (p + 2) (by simpa [Nat.add_assoc] using h3) (fun x hx => hn x (by simp [hx]))⟩

theorem atRun_of_reads {arr : Array Char} : ∀ (l : List Char) (p : Nat) (rest : List Char), ReadsAt arr p (l ++ rest) →
    (∀ x ∈ l, isPlain x = true) → AtRun arr p l
  | [], _, _, _, _ => trivial
  | c :: r, p, rest, h, hp => by
    obtain ⟨h0, h1⟩ := readsAt_cons (c := c) (s := r ++ rest) h
    exact ⟨h0, hp c (by simp), atRun_of_reads r (p + 1) rest h1 (fun x hx => hp x (by simp [hx]))⟩

theorem atSegs_of_reads {arr : Array Char} : ∀ (ss : List Seg) (p : Nat), ReadsAt arr p (segsSrc ss ++ ['\n']) →
    WfSegs ss → AtSegs arr p ss
  | [], p, h, _ => by simpa [AtSegs, segsSrc] using (readsAt_cons h).1
  | .esc c :: ss, p, h, hw => by
    have h' : ReadsAt arr p ('\\' :: c :: (segsSrc ss ++ ['\n'])) := by simpa [segsSrc, Seg.src] using h
    obtain ⟨h0, h1⟩ := readsAt_cons h'
    obtain ⟨h2, h3⟩ := readsAt_cons h1
    exact ⟨h0, h2, hw.1, atSegs_of_reads ss (p + 2) (by simpa [Nat.add_assoc] using h3) hw.2⟩
  | .run c r :: ss, p, h, hw => by
    have h' : ReadsAt arr p ((c :: r) ++ (segsSrc ss ++ ['\n'])) := by simpa [segsSrc, Seg.src] using h
    obtain ⟨_, hrest⟩ := readsAt_append h'
    refine ⟨atRun_of_reads (c :: r) p _ h' hw.1, ?_, atSegs_of_reads ss (p + (c :: r).length) hrest hw.2.2⟩
    cases ss with
    | nil =>
      exact ⟨'\n', by simpa [segsSrc] using (readsAt_cons hrest).1, by simpa [isPlain] using newline_not_plain⟩
    | cons sg rest =>
      cases sg with
      | esc d =>
        have : ReadsAt arr (p + (c :: r).length) ('\\' :: d :: (segsSrc rest ++ ['\n'])) := by simpa [segsSrc, Seg.src] using hrest
        exact ⟨'\\', (readsAt_cons this).1, by simpa [isPlain] using backslash_not_plain⟩
      | run d r' => exact absurd hw.2.1 (by simp)

/-- a mixed line, its newline and `k` blank lines -/
theorem atBlk_mixed_line {arr : Array Char} (p : Nat) (ss : List Seg) (l : List Char) (h : AtSegs arr p ss) (hf : segFirst ss)
    (k : Nat) (hn : NlRun arr (p + (segsSrc ss).length) (k + 1)) :
    AtBlk arr p (.line l) (p + (segsSrc ss).length + (k + 1)) := by
  cases ss with
  | nil => exact absurd hf (by simp [segFirst])
  | cons sg rest =>
    cases sg with
    | esc c =>
      obtain ⟨te, stop, hl, hst⟩ := mixed_line_run p (.esc c :: rest) (by simp) h '\\' h.1 (by decide) k hn
      exact ⟨'\\', h.1, starterOK_backslash, by omega, _, hl, by simpa [Tree.stop] using hst⟩
    | run c r =>
      have hs : plainStart c = true := hf
      obtain ⟨te, stop, hl, hst⟩ := mixed_line_run p (.run c r :: rest) (by simp) h c h.1.1 (plainStart_parts hs).2.2.2.1 k hn
      exact ⟨c, h.1.1, starterOK_of_plainStart hs, by omega, _, hl, by simpa [Tree.stop] using hst⟩

mutual
theorem atBlk_of_reads (arr : Array Char) : ∀ (b : BlkK) (p : Nat) (rest : List Char), GoodK b →
    ReadsAt arr p (unlines (toksK b) ++ rest) → arr[p + (unlines (toksK b)).length]? ≠ some '\n' →
    AtBlk arr p (eraseK b) (p + (unlines (toksK b)).length)
  | .line l k, p, rest, hg, hr, hn => by
    rw [unlines_toksK_line] at hr hn ⊢
    have hr1 := (readsAt_append (a := l ++ '\n' :: List.replicate k '\n') hr).1
    have hl : ReadsAt arr p (l ++ ['\n']) := by
      have : l ++ '\n' :: List.replicate k '\n' = (l ++ ['\n']) ++ List.replicate k '\n' := by simp
      rw [this] at hr1
      exact (readsAt_append hr1).1
    have hnl : ReadsAt arr (p + l.length) (List.replicate (k + 1) '\n') := by
      have := (readsAt_append (a := l) (b := '\n' :: List.replicate k '\n') hr1).2
      simpa [List.replicate_succ] using this
    have hrun : NlRun arr (p + l.length) (k + 1) :=
      nlRun_of_reads (k + 1) (p + l.length) hnl (by simpa [Nat.add_assoc] using hn)
    have hlen : p + (l ++ '\n' :: List.replicate k '\n').length = p + l.length + (k + 1) := by simp; omega
    rw [hlen]
    rcases hg with ⟨⟨c, r, rfl, hs⟩, hplain⟩ | ⟨c, w, rfl, hnn⟩ | ⟨ss, rfl, hw, hf⟩
    · exact atBlk_plain_line p c r (atPlain_of_reads (c :: r) p hl hplain) hs k hrun
    · have hesc : AtEsc arr p (c :: w) := atEsc_of_reads (c :: w) p hl hnn
      have hl2 : (escAll (c :: w)).length = 2 * (c :: w).length := escAll_length (c :: w)
      rw [hl2] at hrun ⊢
      exact atBlk_esc_line p c w _ hesc k hrun
    · exact atBlk_mixed_line p ss _ (atSegs_of_reads ss p hl hw) hf k hrun
  | .nest bs k, p, rest, hg, hr, hn => by
    obtain ⟨hne, hgs⟩ := hg
    rw [unlines_toksK_nest] at hr hn ⊢
    simp only [List.cons_append, List.append_assoc] at hr
    obtain ⟨h0, hr1⟩ := readsAt_cons hr
    obtain ⟨h1, hr2⟩ := readsAt_cons hr1
    have hr2' : ReadsAt arr (p + 2) (unlines (toksKs bs) ++ (DED :: '\n' :: (List.replicate k '\n' ++ rest))) := by
      simpa [Nat.add_assoc] using hr2
    have hfirst := first_not_newline bs hne hgs (DED :: '\n' :: (List.replicate k '\n' ++ rest))
    have h2 : arr[p + 2]? ≠ some '\n' := by
      rw [readsAt_head hr2' (by simp)]; exact hfirst
    obtain ⟨_, hr3⟩ := readsAt_append hr2'
    obtain ⟨hd0, hr4⟩ := readsAt_cons hr3
    have hinner := atBlks_of_reads arr bs (p + 2) (DED :: '\n' :: (List.replicate k '\n' ++ rest)) hgs hr2'
      (by rw [hd0]; decide)
    have hnl : ReadsAt arr (p + 2 + (unlines (toksKs bs)).length + 1) (List.replicate (k + 1) '\n') := by
      have : ('\n' :: (List.replicate k '\n' ++ rest)) = List.replicate (k + 1) '\n' ++ rest := by simp [List.replicate_succ]
      rw [this] at hr4
      exact (readsAt_append hr4).1
    refine ⟨h0, by simpa [Nat.add_assoc] using h1, h2, ?_, p + 2 + (unlines (toksKs bs)).length, hinner, hd0, k,
      nlRun_of_reads (k + 1) _ hnl ?_, ?_⟩
    · cases bs with
      | nil => exact absurd rfl hne
      | cons b bs' => simp [eraseKs]
    · have : p + 2 + (unlines (toksKs bs)).length + 1 + (k + 1) =
          p + (IND :: '\n' :: (unlines (toksKs bs) ++ DED :: '\n' :: List.replicate k '\n')).length := by
        simp; omega
      rw [this]; exact hn
    · simp; omega
theorem atBlks_of_reads (arr : Array Char) : ∀ (bs : List BlkK) (p : Nat) (rest : List Char), GoodKs bs →
    ReadsAt arr p (unlines (toksKs bs) ++ rest) → arr[p + (unlines (toksKs bs)).length]? ≠ some '\n' →
    AtBlks arr p (eraseKs bs) (p + (unlines (toksKs bs)).length)
  | [], p, rest, _, _, _ => by simp [toksKs, unlines, eraseKs, AtBlks]
  | b :: bs, p, rest, hg, hr, hn => by
    obtain ⟨hgb, hgs⟩ := hg
    rw [unlines_toksKs_cons] at hr hn ⊢
    rw [List.append_assoc] at hr
    have hrest := (readsAt_append hr).2
    have hnb : arr[p + (unlines (toksK b)).length]? ≠ some '\n' := by
      cases bs with
      | nil => simpa [toksKs, unlines] using hn
      | cons b' bs' =>
        rw [readsAt_head hrest (by
          rw [unlines_toksKs_cons]
          cases b' with
          | line l k => rw [unlines_toksK_line]; simp
          | nest bb k => rw [unlines_toksK_nest]; simp)]
        exact first_not_newline (b' :: bs') (by simp) hgs rest
    refine ⟨p + (unlines (toksK b)).length, atBlk_of_reads arr b p _ hgb hr hnb, ?_⟩
    have := atBlks_of_reads arr bs (p + (unlines (toksK b)).length) rest hgs hrest
      (by simpa [Nat.add_assoc] using hn)
    simpa [eraseKs, Nat.add_assoc] using this
end

/-- **Every good block list gives a text the five structured roots accept in full.** -/
theorem good_blocks_accepted (bs : List BlkK) (hg : GoodKs bs) (root : String)
    (hroot : root ∈ ["doc", "statement", "debateReport", "act", "bill"]) :
    let inp := (unlines (toksKs bs)).toArray
    ∃ t, Lim aknExec inp (.ref root) 0 (.ok t) ∧ t.stop = inp.size := by
  intro inp
  have hr : ReadsAt inp 0 (unlines (toksKs bs) ++ []) := by
    intro i hi
    simp [inp]
  have hn : inp[0 + (unlines (toksKs bs)).length]? ≠ some '\n' := by
    simp [inp]
  have := atBlks_of_reads inp bs 0 [] hg hr hn
  have hsz : inp.size = 0 + (unlines (toksKs bs)).length := by simp [inp]
  rw [← hsz] at this
  exact nested_doc_accepted root hroot (eraseKs bs) this

/-! ## every normal-form token list is the token list of a block list -/

theorem indOk_tail : ∀ (t : Tok) (ts : List Tok), indOk (t :: ts) → indOk ts
  | .ind, [], h => by simp [indOk] at h
  | .ind, .line l :: ts, h => by simp only [indOk] at h; exact h.2
  | .ind, .ind :: ts, h => by simp [indOk] at h
  | .ind, .ded :: ts, h => by simp [indOk] at h
  | .ded, ts, h => by simpa [indOk] using h
  | .line l, ts, h => by simpa [indOk] using h

theorem indOk_drop_blanks : ∀ (k : Nat) (ts : List Tok), indOk (blanks k ++ ts) → indOk ts
  | 0, ts, h => by simpa [blanks] using h
  | k + 1, ts, h => by
    have : blanks (k + 1) ++ ts = .line [] :: (blanks k ++ ts) := by simp [blanks, List.replicate_succ]
    rw [this] at h
    exact indOk_drop_blanks k ts (indOk_tail _ _ h)

theorem split_blanks : ∀ (ts : List Tok), ∃ k ts1, ts = blanks k ++ ts1 ∧ ts1.head? ≠ some (.line [])
  | [] => ⟨0, [], by simp [blanks], by simp⟩
  | t :: ts => by
    by_cases ht : t = .line []
    · obtain ⟨k, ts1, h1, h2⟩ := split_blanks ts
      exact ⟨k + 1, ts1, by subst ht; simp [blanks, List.replicate_succ] at h1 ⊢; exact h1, h2⟩
    · exact ⟨0, t :: ts, by simp [blanks], by simpa using ht⟩

theorem finalDepth_blanks (d k : Nat) (ts : List Tok) : finalDepth d (blanks k ++ ts) = finalDepth d ts := by
  induction k with
  | zero => simp [blanks]
  | succ k ih => simpa [blanks, List.replicate_succ, finalDepth] using ih

mutual
theorem finalDepth_toksK (d : Nat) : ∀ b : BlkK, finalDepth d (toksK b) = some d
  | .line l k => by
    have := finalDepth_blanks d k []
    simp only [List.append_nil] at this
    simp [toksK, finalDepth, this]
  | .nest bs k => by
    simp only [toksK, finalDepth]
    rw [finalDepth_append, finalDepth_toksKs (d + 1) bs]
    have := finalDepth_blanks d k []
    simp only [List.append_nil] at this
    simp [finalDepth, this]
theorem finalDepth_toksKs (d : Nat) : ∀ bs : List BlkK, finalDepth d (toksKs bs) = some d
  | [] => rfl
  | b :: bs => by
    simp only [toksKs]
    rw [finalDepth_append, finalDepth_toksK d b]
    simpa using finalDepth_toksKs d bs
end

mutual
/-- structural goodness: content lines non-empty, nested lists non-empty -/
def StructK : BlkK → Prop
  | .line l _ => l ≠ []
  | .nest bs _ => bs ≠ [] ∧ StructKs bs
def StructKs : List BlkK → Prop
  | [] => True
  | b :: bs => StructK b ∧ StructKs bs
end

theorem parse_blocks : ∀ (n : Nat) (toks : List Tok) (d : Nat), toks.length ≤ n → indOk toks →
    toks.head? ≠ some (.line []) → (∃ e, e ≤ d ∧ finalDepth d toks = some e) →
    ∃ bs rest, toks = toksKs bs ++ rest ∧ StructKs bs ∧ (rest = [] ∨ ∃ r, rest = .ded :: r)
  | 0, toks, d, hn, _, _, _ => by
    have : toks = [] := List.length_eq_zero_iff.mp (by omega)
    subst this
    exact ⟨[], [], rfl, trivial, Or.inl rfl⟩
  | n + 1, [], d, _, _, _, _ => ⟨[], [], rfl, trivial, Or.inl rfl⟩
  | n + 1, .ded :: r, d, _, _, _, _ => ⟨[], .ded :: r, rfl, trivial, Or.inr ⟨r, rfl⟩⟩
  | n + 1, .line l :: ts, d, hn, hi, hh, ⟨e, he, hf⟩ => by
    have hl : l ≠ [] := by intro e'; subst e'; exact hh rfl
    obtain ⟨k, ts1, h1, h2⟩ := split_blanks ts
    subst h1
    have hi1 : indOk ts1 := indOk_drop_blanks k ts1 (indOk_tail _ _ hi)
    have hf1 : finalDepth d ts1 = some e := by
      simp only [finalDepth] at hf
      rwa [finalDepth_blanks] at hf
    have hlen : ts1.length ≤ n := by simp [blanks] at hn; omega
    obtain ⟨bs, rest, hb, hs, hr⟩ := parse_blocks n ts1 d hlen hi1 h2 ⟨e, he, hf1⟩
    refine ⟨.line l k :: bs, rest, ?_, ⟨hl, hs⟩, hr⟩
    simp [toksKs, toksK, hb]
  | n + 1, .ind :: ts, d, hn, hi, _, ⟨e, he, hf⟩ => by
    -- the INDENT is followed by a non-empty line
    obtain ⟨l', ts', rfl, hl'⟩ : ∃ l' ts', ts = .line l' :: ts' ∧ l' ≠ [] := by
      match ts, hi with
      | .line l' :: ts', hi => exact ⟨l', ts', rfl, by simp only [indOk] at hi; exact hi.1⟩
      | [], hi => simp [indOk] at hi
      | .ind :: _, hi => simp [indOk] at hi
      | .ded :: _, hi => simp [indOk] at hi
    have hi1 : indOk (.line l' :: ts') := indOk_tail _ _ hi
    have hf1 : finalDepth (d + 1) (.line l' :: ts') = some e := by simpa [finalDepth] using hf
    have hlen : (Tok.line l' :: ts').length ≤ n := by simp at hn ⊢; omega
    obtain ⟨inner, rest1, hb1, hs1, hr1⟩ := parse_blocks n (.line l' :: ts') (d + 1) hlen hi1
      (by simpa using hl') ⟨e, by omega, hf1⟩
    -- the inner list is closed by a DEDENT
    have hclosed : ∃ r, rest1 = .ded :: r := by
      rcases hr1 with h | h
      · subst h
        rw [hb1, List.append_nil, finalDepth_toksKs] at hf1
        injection hf1 with hf1; omega
      · exact h
    obtain ⟨r, rfl⟩ := hclosed
    have hinner : inner ≠ [] := by
      intro e'; subst e'
      simp [toksKs] at hb1
    obtain ⟨k, r1, h1, h2⟩ := split_blanks r
    subst h1
    have hsuffix : indOk (.ded :: (blanks k ++ r1)) := by
      -- a suffix of a list that is indOk is indOk
      have : ∀ (a b : List Tok), indOk (a ++ b) → indOk b := by
        intro a
        induction a with
        | nil => intro b h; simpa using h
        | cons t a ih => intro b h; exact ih b (indOk_tail _ _ (by simpa using h))
      exact this (toksKs inner) _ (by rw [← hb1]; exact hi1)
    have hi2 : indOk r1 := indOk_drop_blanks k r1 (indOk_tail _ _ hsuffix)
    have hf2 : finalDepth d r1 = some e := by
      rw [hb1, finalDepth_append, finalDepth_toksKs] at hf1
      simp only [Option.bind, finalDepth] at hf1
      have hd : d + 1 ≠ 0 := by omega
      simp only [hd, if_false, Nat.add_sub_cancel] at hf1
      rwa [finalDepth_blanks] at hf1
    have hlen2 : r1.length ≤ n := by
      have : (Tok.line l' :: ts').length = (toksKs inner ++ .ded :: (blanks k ++ r1)).length := by rw [hb1]
      simp [blanks] at this hn ⊢; omega
    obtain ⟨bs, rest, hb, hs, hr⟩ := parse_blocks n r1 d hlen2 hi2 h2 ⟨e, he, hf2⟩
    refine ⟨.nest inner k :: bs, rest, ?_, ⟨⟨hinner, hs1⟩, hs⟩, hr⟩
    rw [hb1]
    simp [toksKs, toksK, hb]


theorem contentLines_blanks (k : Nat) : contentLines (blanks k) = List.replicate k [] := by
  induction k with
  | zero => rfl
  | succ k ih => simp [blanks, List.replicate_succ, contentLines] at ih ⊢; exact ih

mutual
theorem goodK_of_struct : ∀ (b : BlkK), StructK b → (∀ l ∈ contentLines (toksK b), l = [] ∨ GoodLine l) → GoodK b
  | .line l k, hs, h => by
    have := h l (by simp [toksK, contentLines])
    rcases this with e | g
    · exact absurd e hs
    · exact g
  | .nest bs k, hs, h => by
    refine ⟨hs.1, goodKs_of_struct bs hs.2 (fun l hl => h l ?_)⟩
    simp only [toksK, contentLines, contentLines_append]
    exact List.mem_append_left _ hl
theorem goodKs_of_struct : ∀ (bs : List BlkK), StructKs bs → (∀ l ∈ contentLines (toksKs bs), l = [] ∨ GoodLine l) → GoodKs bs
  | [], _, _ => trivial
  | b :: bs, hs, h => by
    refine ⟨goodK_of_struct b hs.1 (fun l hl => h l ?_), goodKs_of_struct bs hs.2 (fun l hl => h l ?_)⟩
    · simp only [toksKs, contentLines_append]; exact List.mem_append_left _ hl
    · simp only [toksKs, contentLines_append]; exact List.mem_append_right _ hl
end

/-- a token list in C11's normal form is the token list of a structurally good block list -/
theorem blocks_of_normal_form (toks : List Tok) (hb : finalDepth 0 toks = some 0) (hi : indOk toks)
    (hf : ∃ l ts, toks = .line l :: ts ∧ l ≠ []) : ∃ bs, toks = toksKs bs ∧ StructKs bs := by
  obtain ⟨l, ts, rfl, hl⟩ := hf
  obtain ⟨bs, rest, h1, hs, hr⟩ := parse_blocks _ (.line l :: ts) 0 (Nat.le_refl _) hi (by simpa using hl) ⟨0, Nat.le_refl _, hb⟩
  rcases hr with h | ⟨r, h⟩
  · subst h; exact ⟨bs, by simpa using h1, hs⟩
  · subst h
    rw [h1, finalDepth_append, finalDepth_toksKs] at hb
    simp [finalDepth] at hb


end Bluebell
