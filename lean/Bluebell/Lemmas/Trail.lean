import Bluebell.PreParse
import Bluebell.Lemmas.Lines
/-!
# Blanks at the ends of lines do not reach the grammar

`Pad a b` says that `b` is the text `a` with any number of blanks inserted at the end of any of its lines
(before a newline, or at the end of the text). `pad_preParse`: `pre_parse` gives the same result on both.
The proof goes through recursive characterisations of `dropTrailing` and of the `' +$'` substitution, and
shows that each stage of `pre_parse` up to the substitution maps `Pad`-related texts to `Pad`-related
texts, and that the substitution identifies them.
-/
namespace Bluebell

inductive Pad : List Char → List Char → Prop
  | done (k : Nat) : Pad [] (List.replicate k ' ')
  | nl (k : Nat) {a b : List Char} : Pad a b → Pad ('\n' :: a) (List.replicate k ' ' ++ '\n' :: b)
  | cons (c : Char) {a b : List Char} : Pad a b → Pad (c :: a) (c :: b)

theorem Pad.refl : ∀ (a : List Char), Pad a a
  | [] => Pad.done 0
  | c :: cs => Pad.cons c (Pad.refl cs)

theorem Pad.prepend (x : List Char) {a b : List Char} (h : Pad a b) : Pad (x ++ a) (x ++ b) := by
  induction x with
  | nil => exact h
  | cons c cs ih => exact Pad.cons c ih

theorem Pad.nil_left {b : List Char} (h : Pad [] b) : ∃ k, b = List.replicate k ' ' := by
  cases h with
  | done k => exact ⟨k, rfl⟩

theorem Pad.nil_right' {a b : List Char} (h : Pad a b) (hb : b = []) : a = [] := by
  cases h with
  | done k => rfl
  | nl k h' => simp at hb
  | cons c h' => simp at hb

theorem Pad.nil_right {a : List Char} (h : Pad a []) : a = [] := Pad.nil_right' h rfl

/-! ## `dropWhile` at the end of a list, recursively -/

theorem dropWhile_snoc (p : Char → Bool) (c : Char) : ∀ (xs : List Char),
    (xs ++ [c]).dropWhile p = if xs.dropWhile p = [] then (if p c then [] else [c]) else xs.dropWhile p ++ [c]
  | [] => by simp [List.dropWhile]; split <;> simp_all
  | x :: xs => by
      by_cases hx : p x = true
      · simp only [List.cons_append, List.dropWhile_cons, hx, if_true]
        exact dropWhile_snoc p c xs
      · simp [List.dropWhile_cons, hx]

theorem dropTrailing_nil (p : Char → Bool) : dropTrailing p [] = [] := rfl

theorem dropTrailing_cons (p : Char → Bool) (c : Char) (cs : List Char) :
    dropTrailing p (c :: cs) = if dropTrailing p cs = [] then (if p c then [] else [c]) else c :: dropTrailing p cs := by
  unfold dropTrailing
  rw [List.reverse_cons, dropWhile_snoc]
  by_cases h : cs.reverse.dropWhile p = []
  · simp only [h, if_true, List.reverse_nil]
    split <;> simp
  · have h' : (cs.reverse.dropWhile p).reverse ≠ [] := by simpa using h
    simp [h, h']

theorem dropTrailing_all (p : Char → Bool) : ∀ (l : List Char), (∀ c ∈ l, p c = true) → dropTrailing p l = []
  | [], _ => rfl
  | c :: cs, h => by
      rw [dropTrailing_cons, dropTrailing_all p cs (fun d hd => h d (by simp [hd]))]
      simp [h c (by simp)]

theorem dropTrailing_idem (p : Char → Bool) (l : List Char) : dropTrailing p (dropTrailing p l) = dropTrailing p l := by
  cases hl : (dropTrailing p l).getLast? with
  | none =>
    have : dropTrailing p l = [] := by simpa using hl
    rw [this]; rfl
  | some c => exact dropTrailing_of_last_not p _ c hl (dropTrailing_getLast p l c hl)

theorem dropTrailing_append_allT (p : Char → Bool) (y : List Char) (hy : ∀ c ∈ y, p c = true) :
    ∀ (x : List Char), dropTrailing p (x ++ y) = dropTrailing p x
  | [] => by simpa [dropTrailing_nil] using dropTrailing_all p y hy
  | c :: cs => by
      rw [List.cons_append, dropTrailing_cons, dropTrailing_cons, dropTrailing_append_allT p y hy cs]

/-! ## The `' +$'` substitution, recursively -/

def stripRec : List Char → List Char
  | [] => []
  | c :: cs =>
    let r := stripRec cs
    if c = ' ' ∧ (r = [] ∨ r.head? = some '\n') then r else c :: r

theorem joinLines_cons_cons (l l' : List Char) (ls : List (List Char)) :
    joinLines (l :: l' :: ls) = l ++ '\n' :: joinLines (l' :: ls) := rfl

theorem joinLines_cons_char (c : Char) (l : List Char) (ls : List (List Char)) :
    joinLines ((c :: l) :: ls) = c :: joinLines (l :: ls) := by
  cases ls with
  | nil => rfl
  | cons l' ls => rfl

theorem joinLines_nil_cons (ls : List (List Char)) (h : ls ≠ []) : joinLines ([] :: ls) = '\n' :: joinLines ls := by
  cases ls with
  | nil => exact absurd rfl h
  | cons l' ls => rfl

theorem joinLines_head_empty (ls : List (List Char)) :
    joinLines ([] :: ls) = [] ∨ (joinLines ([] :: ls)).head? = some '\n' := by
  cases ls with
  | nil => left; rfl
  | cons l' ls => right; rfl

theorem joinLines_head_nonempty (c : Char) (l : List Char) (ls : List (List Char)) :
    joinLines ((c :: l) :: ls) ≠ [] ∧ (joinLines ((c :: l) :: ls)).head? = some c := by
  rw [joinLines_cons_char]; simp

theorem stripTrailingSpaces_eq_rec : ∀ (s : List Char), stripTrailingSpaces s = stripRec s
  | [] => by simp [stripTrailingSpaces, splitLines, joinLines, stripRec, dropTrailing_nil]
  | c :: cs => by
      have ih := stripTrailingSpaces_eq_rec cs
      unfold stripTrailingSpaces at ih ⊢
      by_cases hc : c = '\n'
      · subst hc
        rw [splitLines_cons_nl, List.map_cons, dropTrailing_nil,
          joinLines_nil_cons _ (by simpa using splitLines_ne_nil cs), ih]
        simp [stripRec]
      · obtain ⟨l, ls, h1, h2⟩ := splitLines_cons_other c cs hc
        rw [h1] at ih
        rw [h2]
        simp only [List.map_cons] at ih ⊢
        have hnl : '\n' ∉ l := splitLines_no_nl cs l (by rw [h1]; simp)
        rw [dropTrailing_cons]
        simp only [stripRec]
        rw [← ih]
        by_cases hd : dropTrailing (fun x => decide (x = ' ')) l = []
        · rw [hd]
          simp only [if_true]
          have hj := joinLines_head_empty (ls.map (dropTrailing fun x => decide (x = ' ')))
          by_cases hsp : c = ' '
          · subst hsp
            simp [hj]
          · simp [hsp, joinLines_cons_char]
        · simp only [hd, if_false]
          cases hdl : dropTrailing (fun x => decide (x = ' ')) l with
          | nil => exact absurd hdl hd
          | cons d ds =>
            have hdm : d ∈ l := dropTrailing_sublist _ l d (by rw [hdl]; simp)
            have hdn : d ≠ '\n' := fun e => hnl (e ▸ hdm)
            obtain ⟨hne, hhd⟩ := joinLines_head_nonempty d ds (ls.map (dropTrailing fun x => decide (x = ' ')))
            rw [joinLines_cons_char c]
            have : ¬ (c = ' ' ∧ (joinLines ((d :: ds) :: ls.map (dropTrailing fun x => decide (x = ' '))) = [] ∨
                (joinLines ((d :: ds) :: ls.map (dropTrailing fun x => decide (x = ' ')))).head? = some '\n')) := by
              rintro ⟨_, h | h⟩
              · exact hne h
              · rw [hhd] at h; exact hdn (by simpa using h)
            rw [if_neg this]

theorem stripRec_replicate (k : Nat) : stripRec (List.replicate k ' ') = [] := by
  induction k with
  | zero => rfl
  | succ k ih => simp [List.replicate_succ, stripRec, ih]

theorem stripRec_spaces_nl (k : Nat) (b : List Char) :
    stripRec (List.replicate k ' ' ++ '\n' :: b) = '\n' :: stripRec b := by
  induction k with
  | zero => simp [stripRec]
  | succ k ih => simp [List.replicate_succ, stripRec, ih]

theorem pad_stripRec {a b : List Char} (h : Pad a b) : stripRec b = stripRec a := by
  induction h with
  | done k => simp [stripRec_replicate, stripRec]
  | nl k _ ih => rw [stripRec_spaces_nl]; simp [stripRec, ih]
  | cons c _ ih => simp only [stripRec, ih]

/-! ## The stages before the substitution keep texts `Pad`-related -/

theorem detab_appendT (n : Nat) : ∀ (x y : List Char), detab n (x ++ y) = detab n x ++ detab n y
  | [], y => rfl
  | c :: cs, y => by
      simp only [List.cons_append, detab]
      split <;> simp [detab_appendT n cs y]

theorem detab_spaces (n k : Nat) : detab n (List.replicate k ' ') = List.replicate k ' ' := by
  induction k with
  | zero => rfl
  | succ k ih => simp [List.replicate_succ, detab, ih]

theorem pad_detab (n : Nat) {a b : List Char} (h : Pad a b) : Pad (detab n a) (detab n b) := by
  induction h with
  | done k => rw [detab_spaces]; exact Pad.done k
  | nl k _ ih =>
    rw [detab_appendT, detab_spaces]
    simp only [detab, show ('\n' : Char) ≠ '\t' by decide, if_false]
    exact Pad.nl k ih
  | cons c _ ih =>
    simp only [detab]
    split
    · exact Pad.prepend _ ih
    · exact Pad.cons c ih

theorem isPySpace_space' : isPySpace ' ' = true := by decide
theorem isPySpace_nl' : isPySpace '\n' = true := by decide

theorem all_space_replicate (k : Nat) : ∀ c ∈ List.replicate k ' ', isPySpace c = true := by
  intro c hc
  rw [(List.mem_replicate.mp hc).2]; exact isPySpace_space'

theorem dropWhile_spaces_append (k : Nat) (x : List Char) :
    (List.replicate k ' ' ++ x).dropWhile isPySpace = x.dropWhile isPySpace := by
  induction k with
  | zero => rfl
  | succ k ih => simp [List.replicate_succ, List.dropWhile_cons, isPySpace_space', ih]

theorem pad_dropWhile {a b : List Char} (h : Pad a b) : Pad (a.dropWhile isPySpace) (b.dropWhile isPySpace) := by
  induction h with
  | done k =>
    have := dropWhile_spaces_append k []
    simp only [List.append_nil, List.dropWhile_nil] at this
    rw [this]; exact Pad.done 0
  | nl k _ ih =>
    rw [dropWhile_spaces_append]
    simpa [List.dropWhile_cons, isPySpace_nl'] using ih
  | cons c hp ih =>
    by_cases hc : isPySpace c = true
    · simpa [List.dropWhile_cons, hc] using ih
    · simp only [List.dropWhile_cons, hc]
      exact Pad.cons c hp

theorem dropTrailing_spaces_append (k : Nat) (x : List Char) :
    dropTrailing isPySpace (List.replicate k ' ' ++ x) =
      if dropTrailing isPySpace x = [] then [] else List.replicate k ' ' ++ dropTrailing isPySpace x := by
  induction k with
  | zero => simp
  | succ k ih =>
    simp only [List.replicate_succ, List.cons_append]
    rw [dropTrailing_cons, ih]
    by_cases h : dropTrailing isPySpace x = []
    · simp [h, isPySpace_space']
    · simp [h]

theorem pad_dropTrailing {a b : List Char} (h : Pad a b) :
    Pad (dropTrailing isPySpace a) (dropTrailing isPySpace b) := by
  induction h with
  | done k =>
    rw [dropTrailing_all isPySpace _ (all_space_replicate _)]
    exact Pad.done 0
  | @nl k a b _ ih =>
    -- both sides vanish together
    have hiff : dropTrailing isPySpace a = [] ↔ dropTrailing isPySpace b = [] := by
      constructor
      · intro h0
        rw [h0] at ih
        obtain ⟨j, hj⟩ := ih.nil_left
        have := dropTrailing_idem isPySpace b
        rw [hj, dropTrailing_all isPySpace _ (all_space_replicate _)] at this
        rw [hj]; exact this.symm
      · intro h0
        rw [h0] at ih
        exact ih.nil_right
    rw [dropTrailing_cons, dropTrailing_spaces_append, dropTrailing_cons]
    by_cases h0 : dropTrailing isPySpace a = []
    · have h1 := hiff.mp h0
      simp only [h0, h1, isPySpace_nl', if_true]
      exact Pad.done 0
    · have h1 : dropTrailing isPySpace b ≠ [] := fun e => h0 (hiff.mpr e)
      simp only [h0, h1, if_false]
      have : ('\n' :: dropTrailing isPySpace b) ≠ [] := by simp
      simp only [this, if_false]
      exact Pad.nl k ih
  | @cons c a b _ ih =>
    have hiff : dropTrailing isPySpace a = [] ↔ dropTrailing isPySpace b = [] := by
      constructor
      · intro h0
        rw [h0] at ih
        obtain ⟨j, hj⟩ := ih.nil_left
        have := dropTrailing_idem isPySpace b
        rw [hj, dropTrailing_all isPySpace _ (all_space_replicate _)] at this
        rw [hj]; exact this.symm
      · intro h0
        rw [h0] at ih
        exact ih.nil_right
    rw [dropTrailing_cons, dropTrailing_cons]
    by_cases h0 : dropTrailing isPySpace a = []
    · have h1 := hiff.mp h0
      simp only [h0, h1, if_true]
      split
      · exact Pad.done 0
      · exact Pad.cons c (Pad.done 0)
    · have h1 : dropTrailing isPySpace b ≠ [] := fun e => h0 (hiff.mpr e)
      simp only [h0, h1, if_false]
      exact Pad.cons c ih

theorem pad_pyStrip {a b : List Char} (h : Pad a b) : Pad (pyStrip a) (pyStrip b) :=
  pad_dropTrailing (pad_dropWhile h)

/-- **`pre_parse` does not see blanks at the ends of lines.** -/
theorem pad_preParse (n : Nat) {a b : List Char} (h : Pad a b) : preParse n b = preParse n a := by
  have : stripTrailingSpaces (pyStrip (detab n b)) = stripTrailingSpaces (pyStrip (detab n a)) := by
    rw [stripTrailingSpaces_eq_rec, stripTrailingSpaces_eq_rec]
    exact pad_stripRec (pad_pyStrip (pad_detab n h))
  unfold preParse
  rw [this]

end Bluebell
