import Bluebell.Lemmas.EscLine
/-!
# A line of plain characters, at the grammar level

"Plain" = matched by the hand-optimised plain-text rule (`[^*/_{\n\\]`, regenerated).  For every
text and offset: if the text at `p` reads plain characters `c₁…cₖ` (`k ≥ 1`, the first not the DEDENT
marker) and then a newline, rule `line` succeeds, its content is the single plain-text node covering
exactly those characters, and `Line.to_dict` is the paragraph holding exactly that text.
-/
namespace Bluebell

def isPlain (c : Char) : Bool := clsMatch overrideNeg overrideCls c

def AtPlain (inp : Array Char) : Nat → List Char → Prop
  | q, [] => inp[q]? = some '\n'
  | q, c :: r => inp[q]? = some c ∧ isPlain c = true ∧ AtPlain inp (q + 1) r

theorem atPlain_end (inp : Array Char) : ∀ (l : List Char) (q : Nat), AtPlain inp q l → inp[q + l.length]? = some '\n'
  | [], q, h => by simpa [AtPlain] using h
  | _ :: r, q, h => by
      have := atPlain_end inp r (q + 1) h.2.2
      simpa [List.length_cons, Nat.add_assoc, Nat.add_comm 1] using this

theorem scan_plain (inp : Array Char) : ∀ (l : List Char) (q k : Nat), AtPlain inp q l → l.length ≤ k →
    scanCls inp overrideNeg overrideCls k q = q + l.length
  | [], q, k, h, _ => by
      simp only [AtPlain] at h
      simpa using scan_stops inp q k _ _ '\n' h newline_not_plain
  | c :: r, q, k, h, hk => by
      obtain ⟨k', rfl⟩ : ∃ k', k = k' + 1 := ⟨k - 1, by simp at hk; omega⟩
      have hp : clsMatch overrideNeg overrideCls c = true := h.2.1
      simp only [scanCls, h.1, hp, if_true]
      rw [scan_plain inp r (q + 1) k' h.2.2 (by simp at hk; omega)]
      simp [List.length_cons]; omega

theorem extract_plain (inp : Array Char) : ∀ (l : List Char) (q : Nat), AtPlain inp q l →
    (inp.extract q (q + l.length)).toList = l := by
  intro l q h
  apply List.ext_getElem?
  intro i
  simp only [Array.getElem?_toList, Array.getElem?_extract]
  have hend := atPlain_end inp l q h
  have hsz : q + l.length < inp.size := by
    rcases Nat.lt_or_ge (q + l.length) inp.size with hlt | hge
    · exact hlt
    · rw [Array.getElem?_eq_none hge] at hend; cases hend
  by_cases hi : i < l.length
  · have key : ∀ (l : List Char) (q i : Nat), AtPlain inp q l → i < l.length → inp[q + i]? = l[i]? := by
      intro l
      induction l with
      | nil => intro q i _ hi; simp at hi
      | cons c r ih =>
        intro q i h hi
        cases i with
        | zero => simpa using h.1
        | succ i =>
          have := ih (q + 1) i h.2.2 (by simpa using hi)
          simpa [Nat.add_assoc, Nat.add_comm 1] using this
    have hmin : min (q + l.length) inp.size = q + l.length := by omega
    simp only [hmin, Nat.add_sub_cancel_left, hi, if_true]
    exact key l q i h hi
  · have hmin : min (q + l.length) inp.size = q + l.length := by omega
    simp only [hmin, Nat.add_sub_cancel_left, hi, if_false]
    simp [List.getElem?_eq_none (by omega : l.length ≤ i)]

def plainNode (q stop : Nat) : Tree := .node q stop [] [] [Tree.leaf q stop]

/-- at a plain character `inline` is the plain-text run up to the end of the line -/
theorem inline_reads_plain (inp : Array Char) (q : Nat) (c : Char) (r : List Char) (h : AtPlain inp q (c :: r)) (n : Nat) :
    eval aknExec inp (n + 6) (.ref "inline") q = .ok (plainNode q (q + (c :: r).length)) := by
  have hend := atPlain_end inp (c :: r) q h
  have hsz : q + (c :: r).length < inp.size := by
    rcases Nat.lt_or_ge (q + (c :: r).length) inp.size with hlt | hge
    · exact hlt
    · rw [Array.getElem?_eq_none hge] at hend; cases hend
  have hscan := scan_plain inp (c :: r) q (inp.size - q) h (by omega)
  have hlt : q < q + (c :: r).length := by simp
  simp only [eval, evalChoice, lk_inline, lk_nis, hscan, hlt, if_true, plainNode, Tree.leaf]

theorem plain_not_backslash (c : Char) (h : isPlain c = true) : c ≠ '\\' := by
  intro e; subst e
  have := backslash_not_plain
  simp [isPlain] at h
  rw [this] at h; cases h

/-- **A line of plain characters is read as one plain-text node.** -/
theorem line_of_plain (inp : Array Char) (p : Nat) (c : Char) (r : List Char) (h : AtPlain inp p (c :: r))
    (hc : c ≠ Char.ofNat 15) :
    ∃ n0, ∀ n, n0 ≤ n → ∃ te stop,
      eval aknExec inp n (.ref "line") p =
        .ok (.node p stop ["Line"] [("content", 1), ("eol", 2)]
              [Tree.leaf p p, .node p (p + (c :: r).length) [] [] [plainNode p (p + (c :: r).length)], te]) := by
  have hend := atPlain_end inp (c :: r) p h
  obtain ⟨nf, hf⟩ := inline_fails_at_newline inp _ hend
  obtain ⟨ne, he⟩ := eol_at_newline inp _ hend
  refine ⟨nf + ne + 40, fun n hn => ?_⟩
  obtain ⟨m, rfl⟩ : ∃ m, n = m + 12 := ⟨n - 12, by omega⟩
  have hloop : evalRep aknExec inp (m + 6) (.ref "inline") p p [] 1
      = .ok (.node p (p + (c :: r).length) [] [] [plainNode p (p + (c :: r).length)]) := by
    rw [show m + 6 = (m + 5) + 1 from rfl, evalRep, show m + 5 = (m - 1) + 6 by omega, inline_reads_plain inp p c r h (m - 1)]
    have hs : ¬ (plainNode p (p + (c :: r).length)).stop ≤ p := by simp [plainNode, Tree.stop]
    simp only [hs, if_false]
    rw [show m - 1 + 6 = (m + 4) + 1 by omega, evalRep]
    simp only [plainNode, Tree.stop]
    rw [hf (m + 4) (by omega)]
    simp
  obtain ⟨te, hte⟩ := he (m + 6) (by omega)
  refine ⟨te, te.stop, ?_⟩
  have hnd := not_dedent_at inp p c h.1 hc m
  rw [show m + 12 = (m + 11) + 1 from rfl, eval]
  simp only [lk_line]
  rw [show m + 11 = (m + 10) + 1 from rfl, eval, show m + 10 = (m + 9) + 1 from rfl, eval,
    show m + 9 = (m + 8) + 1 from rfl, evalSeq]
  rw [hnd]
  simp only [Tree.stop_leaf]
  rw [show m + 8 = (m + 7) + 1 from rfl, evalSeq, show m + 7 = (m + 6) + 1 from rfl, eval, hloop]
  simp only [Tree.stop]
  rw [evalSeq, hte]
  simp only
  rw [show m + 6 = (m + 5) + 1 from rfl, evalSeq]
  simp [addLabels, Tree.addType]
  cases te; rfl

theorem toDict_plain_line (inp : Array Char) (fuel p stop : Nat) (te : Tree) (c : Char) (r : List Char)
    (h : AtPlain inp p (c :: r)) :
    toDict inp (fuel + 2) (.node p stop ["Line"] [("content", 1), ("eol", 2)]
        [Tree.leaf p p, .node p (p + (c :: r).length) [] [] [plainNode p (p + (c :: r).length)], te])
      = .node "content" "p" none (some [Item.text (String.ofList (c :: r))]) none none none none none := by
  have h1 : rootTable.lookup "Line" = none := by decide +kernel
  have h2 : mainContentTable.lookup "Line" = none := by decide +kernel
  have h3 : blockIndentTable.lookup "Line" = none := by decide +kernel
  rw [toDict]
  simp only [Tree.lastType, Tree.types, List.getLast?_singleton, h1, h2, h3]
  have hcn : (Tree.node p stop ["Line"] [("content", 1), ("eol", 2)]
      [Tree.leaf p p, .node p (p + (c :: r).length) [] [] [plainNode p (p + (c :: r).length)], te]).child "content"
      = .node p (p + (c :: r).length) [] [] [plainNode p (p + (c :: r).length)] := by
    simp [Tree.child, Tree.child?, Tree.labels, Tree.kids]
  rw [hcn]
  simp only [Tree.kids]
  have hk : kindOf (plainNode p (p + (c :: r).length)) = "none" := rfl
  have htx : (plainNode p (p + (c :: r).length)).textOf inp = String.ofList (c :: r) := by
    unfold Tree.textOf
    simp only [plainNode, Tree.start, Tree.stop]
    rw [extract_plain inp (c :: r) p h]
  have hne : ¬ (kindOf (plainNode p (p + (c :: r).length)) = "dict") := by rw [hk]; decide
  have hbs : c ≠ '\\' := plain_not_backslash c h.2.1
  rw [inlineMany]
  simp only [List.foldl_cons, List.foldl_nil, hne, if_false, htx, String.toList_ofList, List.head?_cons]
  have : ¬ (some c = some '\\') := by simpa using hbs
  simp [this, flushText]

end Bluebell
