import Bluebell.Eid
/-! Lemmas about the eId generator model. -/
namespace Bluebell

/-! ### counting maps -/

theorem countOf_bump_self (m : List (String × Nat)) (k : String) : countOf (bump m k) k = countOf m k + 1 := by
  induction m with
  | nil => simp [bump, countOf, List.lookup]
  | cons p m ih =>
    obtain ⟨k', n⟩ := p
    unfold bump
    by_cases h : k' = k
    · subst h; simp [countOf, List.lookup]
    · have hb : (k == k') = false := by simpa using fun e => h e.symm
      simp only [h, if_false]
      unfold countOf at ih ⊢
      simp only [List.lookup, hb]
      exact ih

theorem countOf_bump_other (m : List (String × Nat)) (k k' : String) (h : k' ≠ k) :
    countOf (bump m k) k' = countOf m k' := by
  induction m with
  | nil =>
    have hb : (k' == k) = false := by simpa using h
    simp [bump, countOf, List.lookup, hb]
  | cons p m ih =>
    obtain ⟨k2, n⟩ := p
    unfold bump
    by_cases h2 : k2 = k
    · subst h2
      have hb : (k' == k2) = false := by simpa using h
      simp [countOf, List.lookup, hb]
    · simp only [h2, if_false]
      unfold countOf at ih ⊢
      by_cases h3 : k' = k2
      · subst h3; simp [List.lookup]
      · have hb : (k' == k2) = false := by simpa using h3
        simp only [List.lookup, hb]
        exact ih

theorem countOf_le_bump (m : List (String × Nat)) (k k' : String) : countOf m k' ≤ countOf (bump m k) k' := by
  by_cases h : k' = k
  · subst h; rw [countOf_bump_self]; omega
  · rw [countOf_bump_other m k k' h]; omega

/-- keys of `m` whose length is at least `n` (the termination measure of `ensure_unique`) -/
def mu (m : List (String × Nat)) (n : Nat) : Nat := (m.filter fun p => n ≤ p.1.length).length

theorem mu_le_length (m : List (String × Nat)) (n : Nat) : mu m n ≤ m.length :=
  List.length_filter_le _ _

theorem mu_mono (m : List (String × Nat)) {n n' : Nat} (h : n ≤ n') : mu m n' ≤ mu m n := by
  induction m with
  | nil => simp [mu]
  | cons p m ih =>
    unfold mu at ih ⊢
    simp only [List.filter_cons]
    by_cases h1 : n' ≤ p.1.length
    · have h2 : n ≤ p.1.length := by omega
      simp [h1, h2]; omega
    · by_cases h2 : n ≤ p.1.length
      · simp [h1, h2]; omega
      · simp [h1, h2]; omega

theorem mu_bump_present (m : List (String × Nat)) (k : String) (c : Nat) (h : m.lookup k = some c) (n : Nat) :
    mu (bump m k) n = mu m n := by
  induction m with
  | nil => simp [List.lookup] at h
  | cons p m ih =>
    obtain ⟨k', c'⟩ := p
    unfold bump
    by_cases hk : k' = k
    · subst hk
      simp only [if_true, mu, List.filter_cons]
      split <;> simp
    · have hb : (k == k') = false := by simpa using fun e => hk e.symm
      simp only [List.lookup, hb] at h
      simp only [hk, if_false]
      have := ih h
      unfold mu at this ⊢
      simp only [List.filter_cons]
      split <;> simp [this]

theorem mu_bump_absent (m : List (String × Nat)) (k : String) (h : m.lookup k = none) (n : Nat) (hn : k.length < n) :
    mu (bump m k) n = mu m n := by
  induction m with
  | nil =>
    have : ¬ n ≤ k.length := by omega
    simp [bump, mu, List.filter_cons, this]
  | cons p m ih =>
    obtain ⟨k', c'⟩ := p
    unfold bump
    by_cases hk : k' = k
    · subst hk; simp [List.lookup] at h
    · have hb : (k == k') = false := by simpa using fun e => hk e.symm
      simp only [List.lookup, hb] at h
      simp only [hk, if_false]
      have := ih h
      unfold mu at this ⊢
      simp only [List.filter_cons]
      split <;> simp [this]

theorem mu_present_lt (m : List (String × Nat)) (k : String) (c : Nat) (h : m.lookup k = some c) (n n' : Nat)
    (h1 : n ≤ k.length) (h2 : k.length < n') : mu m n' + 1 ≤ mu m n := by
  induction m with
  | nil => simp [List.lookup] at h
  | cons p m ih =>
    obtain ⟨k', c'⟩ := p
    by_cases hk : k' = k
    · subst hk
      have a1 : n ≤ k'.length := h1
      have a2 : ¬ n' ≤ k'.length := by omega
      have := mu_mono m (n := n) (n' := n') (by omega)
      unfold mu at this ⊢
      simp only [List.filter_cons, a1, a2]
      simp; omega
    · have hb : (k == k') = false := by simpa using fun e => hk e.symm
      simp only [List.lookup, hb] at h
      have := ih h
      unfold mu at this ⊢
      simp only [List.filter_cons]
      by_cases q1 : n' ≤ k'.length
      · have q2 : n ≤ k'.length := by omega
        simp [q1, q2]; omega
      · by_cases q2 : n ≤ k'.length
        · simp [q1, q2]; omega
        · simp [q1, q2]; omega

theorem countOf_eq_of_lookup_none (m : List (String × Nat)) (k : String) (h : m.lookup k = none) : countOf m k = 0 := by
  simp [countOf, h]

end Bluebell

namespace Bluebell

theorem length_suffix_gt (eid : String) (c : Nat) : eid.length < (eid ++ "_" ++ toString c).length := by
  have h1 : "_".length = 1 := by decide
  simp only [String.length_append, h1]
  omega

/-- what `ensure_unique` guarantees about the id it returns -/
structure Fresh (m m' : List (String × Nat)) (eid e : String) : Prop where
  was_unissued : countOf m e = 0
  now_issued : 1 ≤ countOf m' e
  monotone : ∀ k, countOf m k ≤ countOf m' k
  extends_candidate : ∃ suffix, e = eid ++ suffix

theorem ensureUnique_fresh : ∀ (fuel : Nat) (m : List (String × Nat)) (eid : String) (nn : Bool),
    mu m eid.length + (if nn then 2 else 1) ≤ fuel →
    Fresh m (ensureUnique fuel m eid nn).1 eid (ensureUnique fuel m eid nn).2 := by
  intro fuel
  induction fuel with
  | zero => intro m eid nn h; cases nn <;> simp at h
  | succ fuel ih =>
    intro m eid nn h
    unfold ensureUnique
    simp only
    by_cases hret : (countOf (bump m eid) eid = 1 && !nn) = true
    · simp only [hret, if_true]
      have h1 : countOf (bump m eid) eid = 1 := by
        simp only [Bool.and_eq_true, decide_eq_true_eq] at hret; exact hret.1
      rw [countOf_bump_self] at h1
      exact ⟨by omega, by rw [countOf_bump_self]; omega, fun k => countOf_le_bump m eid k, ⟨"", by simp⟩⟩
    · have hret' : (decide (countOf (bump m eid) eid = 1) && !nn) = false := by
        cases hb : (decide (countOf (bump m eid) eid = 1) && !nn) with
        | false => rfl
        | true => exact absurd hb hret
      rw [hret']
      simp only [Bool.false_eq_true, if_false]
      have hlen := length_suffix_gt eid (countOf (bump m eid) eid)
      have hfuel : mu (bump m eid) (eid ++ "_" ++ toString (countOf (bump m eid) eid)).length + 1 ≤ fuel := by
        cases hl : m.lookup eid with
        | some c =>
          rw [mu_bump_present m eid c hl]
          have := mu_present_lt m eid c hl eid.length _ (Nat.le_refl _) hlen
          cases nn <;> simp at h <;> omega
        | none =>
          rw [mu_bump_absent m eid hl _ hlen]
          have hm := mu_mono m (Nat.le_of_lt hlen)
          have hc : countOf (bump m eid) eid = 1 := by
            rw [countOf_bump_self, countOf_eq_of_lookup_none m eid hl]
          have hnn : nn = true := by
            cases nn with
            | true => rfl
            | false => simp [hc] at hret
          subst hnn
          simp at h; omega
      have r := ih (bump m eid) (eid ++ "_" ++ toString (countOf (bump m eid) eid)) false (by simpa using hfuel)
      obtain ⟨r1, r2, r3, ⟨suf, r4⟩⟩ := r
      refine ⟨?_, r2, fun k => Nat.le_trans (countOf_le_bump m eid k) (r3 k), ⟨"_" ++ toString (countOf (bump m eid) eid) ++ suf, ?_⟩⟩
      · have := countOf_le_bump m eid (ensureUnique fuel (bump m eid) (eid ++ "_" ++ toString (countOf (bump m eid) eid)) false).2
        omega
      · rw [r4]; simp [String.append_assoc]

/-- the fuel `getEid` passes always suffices -/
theorem ensureUnique_fresh' (m : List (String × Nat)) (eid : String) (nn : Bool) :
    Fresh m (ensureUnique (m.length + 2) m eid nn).1 eid (ensureUnique (m.length + 2) m eid nn).2 := by
  apply ensureUnique_fresh
  have := mu_le_length m eid.length
  cases nn <;> simp <;> omega

end Bluebell

namespace Bluebell

/-- an element the rewriter gives an eId to -/
def identifiable (tag : String) : Bool := (passLower tag).isNone && !isExempt tag

mutual
/-- eIds carried by identifiable elements outside meta, in document order -/
def assignedIds : Xml → List String
  | .text _ => []
  | .elem tag attrs kids =>
    if tag = "meta" then []
    else (if identifiable tag then [(attrs.lookup "eId").getD ""] else []) ++ assignedIdsL kids
def assignedIdsL : List Xml → List String
  | [] => []
  | k :: ks => assignedIds k ++ assignedIdsL ks
end

theorem getNum_eidCounter (s : IdState) (pfx name num : String) :
    (s.getNum pfx name num).1.eidCounter = s.eidCounter := by
  unfold IdState.getNum IdState.getNumC
  generalize cleanedNum num = n1
  by_cases h1 : n1 = ""
  · by_cases h2 : numExpected.contains name = true
    · rw [if_pos h1, if_pos h2]
    · rw [if_pos h1, if_neg h2]; rfl
  · rw [if_neg h1]

theorem getNum_mappings (s : IdState) (pfx name num : String) :
    (s.getNum pfx name num).1.mappings = s.mappings := by
  unfold IdState.getNum IdState.getNumC
  generalize cleanedNum num = n1
  by_cases h1 : n1 = ""
  · by_cases h2 : numExpected.contains name = true
    · rw [if_pos h1, if_pos h2]
    · rw [if_pos h1, if_neg h2]; rfl
  · rw [if_neg h1]

theorem getEid_spec (s : IdState) (pfx name num : String) :
    Fresh s.eidCounter (s.getEid pfx name num).1.eidCounter
      ((if pfx ≠ "" then pfx ++ "__" else "") ++ aliasOf name ++ "_" ++ (s.getNum pfx name num).2.1)
      (s.getEid pfx name num).2 ∧
    (s.getEid pfx name num).1.mappings = s.mappings := by
  unfold IdState.getEid
  simp only
  have hc : (s.getNum pfx name num).1.eidCounter = s.eidCounter := getNum_eidCounter s pfx name num
  have hm : (s.getNum pfx name num).1.mappings = s.mappings := getNum_mappings s pfx name num
  constructor
  · have := ensureUnique_fresh' (s.getNum pfx name num).1.eidCounter
      ((if pfx ≠ "" then pfx ++ "__" else "") ++ aliasOf name ++ "_" ++ (s.getNum pfx name num).2.1)
      (s.getNum pfx name num).2.2
    rw [hc] at this ⊢
    exact this
  · exact hm

theorem lookup_setAttrList (k v : String) (a : List (String × String)) :
    (Xml.setAttrList k v a).lookup k = some v := by
  induction a with
  | nil => simp [Xml.setAttrList, List.lookup]
  | cons p a ih =>
    obtain ⟨k', v'⟩ := p
    unfold Xml.setAttrList
    by_cases h : k' = k
    · subst h; simp [List.lookup]
    · have hb : (k == k') = false := by simpa using fun e => h e.symm
      simp only [h, if_false, List.lookup, hb]
      exact ih

/-- the eId an identifiable element carries after the rewrite is the one `getEid` produced -/
theorem newAttrs_lookup (attrs : List (String × String)) (new : String) :
    ((if (attrs.lookup "eId").getD "" ≠ new then Xml.setAttrList "eId" new attrs else attrs).lookup "eId").getD "" = new := by
  by_cases h : (attrs.lookup "eId").getD "" ≠ new
  · rw [if_pos h, lookup_setAttrList]; rfl
  · rw [if_neg h]
    exact Decidable.not_not.mp h

end Bluebell
