import Bluebell.Post
/-! Lemmas about post-processing (shared by C02, C03, C14). -/
namespace Bluebell

mutual
/-- does an element with this tag occur anywhere? -/
def hasTag (tag : String) : Xml → Bool
  | .text _ => false
  | .elem t _ ks => t == tag || hasTagL tag ks
def hasTagL (tag : String) : List Xml → Bool
  | [] => false
  | k :: ks => hasTag tag k || hasTagL tag ks
end

theorem hasTagL_append (tag : String) (a b : List Xml) : hasTagL tag (a ++ b) = (hasTagL tag a || hasTagL tag b) := by
  induction a with
  | nil => simp [hasTagL]
  | cons x xs ih => simp [hasTagL, ih, Bool.or_assoc]

theorem hasTagL_filter (tag : String) (p : Xml → Bool) (l : List Xml) (h : hasTagL tag l = false) :
    hasTagL tag (l.filter p) = false := by
  induction l with
  | nil => rfl
  | cons x xs ih =>
    simp only [hasTagL, Bool.or_eq_false_iff] at h
    simp only [List.filter_cons]
    split
    · simp [hasTagL, h.1, ih h.2]
    · exact ih h.2

mutual
/-- after unused displaced content has been turned into paragraphs, no `displaced` element is left -/
theorem inlineDisplaced_clean : ∀ (x : Xml), hasTagL "displaced" (inlineDisplaced x) = false
  | .text s => by simp [inlineDisplaced, hasTagL, hasTag]
  | .elem t a ks => by
    rw [inlineDisplaced]
    have ih := inlineDisplacedL_clean ks
    by_cases h : t = "displaced"
    · simp only [h, if_true, hasTagL, hasTag]
      rw [hasTagL_filter _ _ _ ih]
      decide
    · have hb : (t == "displaced") = false := by simpa using h
      simp [h, hasTagL, hasTag, hb, ih]
theorem inlineDisplacedL_clean : ∀ (ks : List Xml), hasTagL "displaced" (inlineDisplacedL ks) = false
  | [] => by simp [inlineDisplacedL, hasTagL]
  | k :: ks => by
    rw [inlineDisplacedL, hasTagL_append, inlineDisplaced_clean k, inlineDisplacedL_clean ks]; rfl
end

/-- **no internal placeholder element survives footnote resolution** -/
theorem resolveDisplaced_no_placeholder (x y : Xml) (h : resolveDisplaced x = .ok y) :
    hasTag "displaced" y = false := by
  unfold resolveDisplaced at h
  simp only at h
  split at h
  · cases h
  · next r hr =>
    split at h
    · cases h
    · next hne =>
      have hc := inlineDisplaced_clean (unnumberX r)
      split at h
      · next y' hy =>
        simp only [Except.ok.injEq] at h
        subst h
        rw [hy] at hc
        simpa [hasTagL] using hc
      · cases h

end Bluebell
