import Bluebell.Lemmas.EscLine
import Bluebell.Lemmas.PlainLine
/-!
# A line that starts with one escape and continues as plain text

This is the shape the unparser gives to a paragraph whose text would otherwise start with a keyword:
`\PART one` — a backslash, the first character, then the rest unchanged.  `line` reads it as the escape node
followed by one plain-text node, and `Line.to_dict` makes one paragraph whose text is the first
character followed by the rest (the backslash is gone).
-/
namespace Bluebell

theorem line_of_esc_plain (inp : Array Char) (p : Nat) (c d : Char) (r : List Char)
    (h0 : inp[p]? = some '\\') (h1 : inp[p+1]? = some c) (hc : c ≠ '\n') (h : AtPlain inp (p + 2) (d :: r)) :
    ∃ n0, ∀ n, n0 ≤ n → ∃ te stop,
      eval aknExec inp n (.ref "line") p =
        .ok (.node p stop ["Line"] [("content", 1), ("eol", 2)]
              [Tree.leaf p p, .node p (p + 2 + (d :: r).length) [] []
                [escNode p, plainNode (p + 2) (p + 2 + (d :: r).length)], te]) := by
  have hend := atPlain_end inp (d :: r) (p + 2) h
  obtain ⟨nf, hf⟩ := inline_fails_at_newline inp _ hend
  obtain ⟨ne, he⟩ := eol_at_newline inp _ hend
  refine ⟨nf + ne + 60, fun n hn => ?_⟩
  obtain ⟨m, rfl⟩ : ∃ m, n = m + 30 := ⟨n - 30, by omega⟩
  have hbs : ('\\' : Char) ≠ Char.ofNat 15 := by decide
  have hloop : evalRep aknExec inp (m + 24) (.ref "inline") p p [] 1
      = .ok (.node p (p + 2 + (d :: r).length) [] [] [escNode p, plainNode (p + 2) (p + 2 + (d :: r).length)]) := by
    rw [show m + 24 = (m + 11 + 12) + 1 from rfl, evalRep, inline_reads_escape inp p c (m + 11) h0 h1 hc]
    have hs : ¬ (escNode p).stop ≤ p := by simp [escNode, Tree.stop]
    simp only [hs, if_false]
    have hst : (escNode p).stop = p + 2 := by simp [escNode, Tree.stop]
    rw [hst, show m + 11 + 12 = (m + 16 + 6) + 1 from rfl, evalRep, inline_reads_plain inp (p + 2) d r h (m + 16)]
    have hs2 : ¬ (plainNode (p + 2) (p + 2 + (d :: r).length)).stop ≤ p + 2 := by simp [plainNode, Tree.stop]
    simp only [hs2, if_false]
    rw [show m + 16 + 6 = (m + 21) + 1 from rfl, evalRep]
    simp only [plainNode, Tree.stop]
    rw [hf (m + 21) (by omega)]
    simp
  obtain ⟨te, hte⟩ := he (m + 24) (by omega)
  refine ⟨te, te.stop, ?_⟩
  have hnd := not_dedent_at inp p '\\' h0 hbs (m + 18)
  rw [show m + 30 = (m + 29) + 1 from rfl, eval]
  simp only [lk_line]
  rw [show m + 29 = (m + 28) + 1 from rfl, eval, show m + 28 = (m + 27) + 1 from rfl, eval,
    show m + 27 = (m + 26) + 1 from rfl, evalSeq]
  rw [show m + 26 = (m + 18) + 8 from rfl] at *
  rw [hnd]
  simp only [Tree.stop_leaf]
  rw [show m + 18 + 8 = (m + 25) + 1 from rfl, evalSeq, show m + 25 = (m + 24) + 1 from rfl, eval, hloop]
  simp only [Tree.stop]
  rw [evalSeq, hte]
  simp only
  rw [show m + 24 = (m + 23) + 1 from rfl, evalSeq]
  simp [addLabels, Tree.addType]
  cases te; rfl

theorem toDict_esc_plain_line (inp : Array Char) (fuel p stop : Nat) (te : Tree) (c d : Char) (r : List Char)
    (h0 : inp[p]? = some '\\') (h1 : inp[p+1]? = some c) (h : AtPlain inp (p + 2) (d :: r)) :
    toDict inp (fuel + 2) (.node p stop ["Line"] [("content", 1), ("eol", 2)]
        [Tree.leaf p p, .node p (p + 2 + (d :: r).length) [] []
          [escNode p, plainNode (p + 2) (p + 2 + (d :: r).length)], te])
      = .node "content" "p" none (some [Item.text (String.ofList (c :: d :: r))]) none none none none none := by
  have t1 : rootTable.lookup "Line" = none := by decide +kernel
  have t2 : mainContentTable.lookup "Line" = none := by decide +kernel
  have t3 : blockIndentTable.lookup "Line" = none := by decide +kernel
  rw [toDict]
  simp only [Tree.lastType, Tree.types, List.getLast?_singleton, t1, t2, t3]
  have hcn : (Tree.node p stop ["Line"] [("content", 1), ("eol", 2)]
      [Tree.leaf p p, .node p (p + 2 + (d :: r).length) [] []
        [escNode p, plainNode (p + 2) (p + 2 + (d :: r).length)], te]).child "content"
      = .node p (p + 2 + (d :: r).length) [] [] [escNode p, plainNode (p + 2) (p + 2 + (d :: r).length)] := by
    simp [Tree.child, Tree.child?, Tree.labels, Tree.kids]
  rw [hcn]
  simp only [Tree.kids]
  have hk1 : ¬ (kindOf (escNode p) = "dict") := by rw [kindOf_escNode]; decide
  have hk2 : ¬ (kindOf (plainNode (p + 2) (p + 2 + (d :: r).length)) = "dict") := by
    have : kindOf (plainNode (p + 2) (p + 2 + (d :: r).length)) = "none" := rfl
    rw [this]; decide
  have htx : (plainNode (p + 2) (p + 2 + (d :: r).length)).textOf inp = String.ofList (d :: r) := by
    unfold Tree.textOf
    simp only [plainNode, Tree.start, Tree.stop]
    rw [extract_plain inp (d :: r) (p + 2) h]
  have hbs : d ≠ '\\' := plain_not_backslash d h.2.1
  have hd : ¬ (some d = some '\\') := by simpa using hbs
  rw [inlineMany]
  simp only [List.foldl_cons, List.foldl_nil, hk1, hk2, if_false, textOf_escNode inp p c h0 h1, htx,
    String.toList_ofList, List.head?_cons, if_true, hd, List.drop_succ_cons, List.drop_zero, List.nil_append]
  simp only [flushText]
  have hne : ([String.ofList [c]] ++ [String.ofList (d :: r)]).isEmpty = false := by simp
  rw [hne]
  simp only [Bool.false_eq_true, if_false, List.nil_append]
  congr 1
  congr 1
  simp [String.join_cons]

theorem atPlain_of_chars (inp : Array Char) : ∀ (l : List Char) (p : Nat),
    (∀ i (h : i < l.length), inp[p + i]? = some l[i]) → inp[p + l.length]? = some '\n' →
    (∀ c ∈ l, isPlain c = true) → AtPlain inp p l
  | [], p, _, hn, _ => by simpa [AtPlain] using hn
  | c :: r, p, hc, hn, hp => by
      refine ⟨by have := hc 0 (by simp); simpa [List.getElem_cons_zero] using this, hp c (by simp), ?_⟩
      refine atPlain_of_chars inp r (p + 1) (fun i h => ?_) ?_ (fun d hd => hp d (by simp [hd]))
      · have := hc (i + 1) (by simpa using h)
        simpa [Nat.add_assoc, Nat.add_comm 1] using this
      · simpa [Nat.add_assoc, Nat.add_comm 1] using hn


end Bluebell
