import Bluebell.Peg.Eval
/-! Lemmas about `scanCls` and the equivalence "regex `[class]+` matched once" ≡ `plus (cls …)`. -/
namespace Bluebell

theorem scanCls_ge (inp : Array Char) (neg : Bool) (cs : List Char) :
    ∀ k pos, pos ≤ scanCls inp neg cs k pos := by
  intro k
  induction k with
  | zero => intro pos; simp [scanCls]
  | succ k ih =>
    intro pos
    unfold scanCls
    split
    · split
      · exact Nat.le_trans (Nat.le_succ pos) (ih (pos + 1))
      · exact Nat.le_refl _
    · exact Nat.le_refl _

theorem scanCls_le (inp : Array Char) (neg : Bool) (cs : List Char) :
    ∀ k pos, scanCls inp neg cs k pos ≤ pos + k := by
  intro k
  induction k with
  | zero => intro pos; simp [scanCls]
  | succ k ih =>
    intro pos
    unfold scanCls
    split
    · split
      · have := ih (pos + 1); omega
      · omega
    · omega

/-- Every character in `[pos, scanCls …)` is in the class. -/
theorem scanCls_all (inp : Array Char) (neg : Bool) (cs : List Char) :
    ∀ k pos i, pos ≤ i → i < scanCls inp neg cs k pos →
      ∃ c, inp[i]? = some c ∧ clsMatch neg cs c = true := by
  intro k
  induction k with
  | zero => intro pos i h1 h2; simp [scanCls] at h2; omega
  | succ k ih =>
    intro pos i h1 h2
    unfold scanCls at h2
    split at h2
    next c hc =>
      split at h2
      next hm =>
        by_cases hi : i = pos
        · subst hi; exact ⟨c, hc, hm⟩
        · exact ih (pos + 1) i (by omega) h2
      next => omega
    next => omega

/-- The scan stops only at the budget, at the end of input, or at a character outside the class. -/
theorem scanCls_stop (inp : Array Char) (neg : Bool) (cs : List Char) :
    ∀ k pos, scanCls inp neg cs k pos = pos + k ∨
      inp[scanCls inp neg cs k pos]? = none ∨
      ∃ c, inp[scanCls inp neg cs k pos]? = some c ∧ clsMatch neg cs c = false := by
  intro k
  induction k with
  | zero => intro pos; left; simp [scanCls]
  | succ k ih =>
    intro pos
    unfold scanCls
    split
    next c hc =>
      split
      next hm =>
        rcases ih (pos + 1) with h | h | h
        · left; omega
        · right; left; exact h
        · right; right; exact h
      next hm =>
        right; right; exact ⟨c, hc, by simpa using hm⟩
    next hn => right; left; exact hn

theorem scanCls_spec (inp : Array Char) (neg : Bool) (cs : List Char) (k pos : Nat) :
    pos ≤ scanCls inp neg cs k pos ∧ scanCls inp neg cs k pos ≤ pos + k ∧
    (∀ i, pos ≤ i → i < scanCls inp neg cs k pos → ∃ c, inp[i]? = some c ∧ clsMatch neg cs c = true) ∧
    (scanCls inp neg cs k pos = pos + k ∨ inp[scanCls inp neg cs k pos]? = none ∨
      ∃ c, inp[scanCls inp neg cs k pos]? = some c ∧ clsMatch neg cs c = false) :=
  ⟨scanCls_ge .., scanCls_le .., scanCls_all inp neg cs k pos, scanCls_stop ..⟩

/-- Same span, or both fail. -/
def Res.sameSpan : Res → Res → Prop
  | .ok a, .ok b => a.start = b.start ∧ a.stop = b.stop
  | .fail, .fail => True
  | _, _ => False

theorem eval_cls (g : Grammar) (inp : Array Char) (fuel : Nat) (neg : Bool) (cs : List Char) (pos : Nat) :
    eval g inp (fuel + 1) (.cls neg cs) pos =
      match inp[pos]? with
      | some c => if clsMatch neg cs c then .ok (.leaf pos (pos + 1)) else .fail
      | none => .fail := by
  rw [eval]
  cases inp[pos]? <;> rfl

/-- The generated loop for `[class]+` / `[class]*` stops exactly where one scan stops. -/
theorem evalRep_cls (g : Grammar) (inp : Array Char) (neg : Bool) (cs : List Char) (start min : Nat) :
    ∀ k pos acc fuel, k + 2 ≤ fuel → inp.size ≤ pos + k →
      ∃ kids, evalRep g inp fuel (.cls neg cs) start pos acc min =
        (if min ≤ acc.length + (scanCls inp neg cs k pos - pos)
         then .ok (.node start (scanCls inp neg cs k pos) [] [] kids) else .fail) := by
  intro k
  induction k with
  | zero =>
    intro pos acc fuel hf hsz
    obtain ⟨f, rfl⟩ : ∃ f, fuel = f + 2 := ⟨fuel - 2, by omega⟩
    have hc : inp[pos]? = none := by simp; omega
    refine ⟨acc.reverse, ?_⟩
    rw [evalRep, eval_cls, hc]; simp [scanCls]
  | succ k ih =>
    intro pos acc fuel hf hsz
    obtain ⟨f, rfl⟩ : ∃ f, fuel = f + 2 := ⟨fuel - 2, by omega⟩
    cases hc : inp[pos]? with
    | none =>
      refine ⟨acc.reverse, ?_⟩
      rw [evalRep, eval_cls, hc]; simp [scanCls, hc]
    | some c =>
      by_cases hm : clsMatch neg cs c = true
      · obtain ⟨kids, h⟩ := ih (pos + 1) (Tree.leaf pos (pos + 1) :: acc) (f + 1) (by omega) (by omega)
        have hs : scanCls inp neg cs (k + 1) pos = scanCls inp neg cs k (pos + 1) := by
          simp [scanCls, hc, hm]
        have hge := scanCls_ge inp neg cs k (pos + 1)
        refine ⟨kids, ?_⟩
        rw [evalRep, eval_cls, hc]
        simp only [hm, if_true, Tree.stop_leaf]
        have hnl : ¬ (pos + 1 ≤ pos) := by omega
        simp only [hnl, if_false]
        rw [h, hs]
        have e : (Tree.leaf pos (pos + 1) :: acc).length + (scanCls inp neg cs k (pos + 1) - (pos + 1)) =
            acc.length + (scanCls inp neg cs k (pos + 1) - pos) := by
          simp only [List.length_cons]; omega
        simp only [e]
      · refine ⟨acc.reverse, ?_⟩
        rw [evalRep, eval_cls, hc]; simp [scanCls, hc, hm]

/-- **Override equivalence.** Matching the regular expression `[class]+` once (parser.py's
hand-optimised plain-text rule) and running the generated loop for `[class]+` succeed on the same
inputs and cover the same span. -/
theorem rx1_equiv_plus (g : Grammar) (inp : Array Char) (neg : Bool) (cs : List Char) (pos fuel : Nat)
    (hf : inp.size - pos + 3 ≤ fuel) :
    Res.sameSpan (eval g inp fuel (.rx1 neg cs) pos) (eval g inp fuel (.plus (.cls neg cs)) pos) := by
  obtain ⟨f, rfl⟩ : ∃ f, fuel = f + 1 := ⟨fuel - 1, by omega⟩
  obtain ⟨kids, h⟩ := evalRep_cls g inp neg cs pos 1 (inp.size - pos) pos [] f (by omega) (by omega)
  have hge := scanCls_ge inp neg cs (inp.size - pos) pos
  rw [eval, eval, h]
  simp only [List.length_nil, Nat.zero_add]
  by_cases hlt : pos < scanCls inp neg cs (inp.size - pos) pos
  · rw [if_pos hlt, if_pos (by omega)]
    simp [Res.sameSpan, Tree.start, Tree.stop]
  · rw [if_neg hlt, if_neg (by omega)]
    simp [Res.sameSpan]

end Bluebell
