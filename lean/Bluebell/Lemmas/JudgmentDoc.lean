import Bluebell.Lemmas.TokDoc
/-!
# The `judgment` root on plain-text documents

A judgment without part markers puts everything into `arguments` (whose marker is optional); the loop
item there has five guards.  Same block structure, same conclusion: accepted in full.
-/
namespace Bluebell

variable {inp : Array Char}

/-- guards `!g₁ !g₂ …` followed by `hier_block_indent` -/
def guardItems : List String → PItems
  | [] => .cons ["hier_block_indent"] (.ref "hier_block_indent") .nil
  | g :: gs => .cons [] (.notP (.ref g)) (guardItems gs)

theorem guarded_ok : ∀ (gs : List String) (p s i : Nat) (ls : List (String × Nat)) (acc : List Tree) (t : Tree),
    (∀ g ∈ gs, Lim aknExec inp (.ref g) p .fail) → Lim aknExec inp (.ref "hier_block_indent") p (.ok t) →
    ∃ t', LimS aknExec inp (guardItems gs) s p i ls acc (.ok t') ∧ t'.stop = t.stop
  | [], p, s, i, ls, acc, t, _, ht => ⟨_, limS_cons_ok ht limS_nil, by simp [Tree.stop]⟩
  | g :: gs, p, s, i, ls, acc, t, hg, ht => by
    obtain ⟨t', h', hs⟩ := guarded_ok gs p s (i + 1) (addLabels ls [] i) (Tree.leaf p p :: acc) t
      (fun g' hg' => hg g' (List.mem_cons_of_mem _ hg')) ht
    exact ⟨t', limS_cons_ok (lim_not_fail (hg g List.mem_cons_self)) (by simpa using h'), hs⟩

theorem guarded_fail : ∀ (gs : List String) (p s i : Nat) (ls : List (String × Nat)) (acc : List Tree),
    (∀ g ∈ gs, Lim aknExec inp (.ref g) p .fail) → Lim aknExec inp (.ref "hier_block_indent") p .fail →
    LimS aknExec inp (guardItems gs) s p i ls acc .fail
  | [], p, s, i, ls, acc, _, ht => limS_cons_fail ht
  | g :: gs, p, s, i, ls, acc, hg, ht => by
    have ih := guarded_fail gs p s (i + 1) (addLabels ls [] i) (Tree.leaf p p :: acc)
      (fun g' hg' => hg g' (List.mem_cons_of_mem _ hg')) ht
    exact limS_cons_ok (lim_not_fail (hg g List.mem_cons_self)) (by simpa using ih)

/-- `hier_block_indent` on a block -/
theorem hbi_at (b : Blk) (p q : Nat) (h : AtBlk inp p b q) :
    ∃ t, Lim aknExec inp (.ref "hier_block_indent") p (.ok t) ∧ t.stop = q := by
  cases b with
  | line l =>
    obtain ⟨t, ht, hts⟩ := hier_block_element_at (.line l) p q h
    obtain ⟨c, hc0, hs, _⟩ := h
    have h14 := (starterOK_parts hs).2.1
    have hind : Lim aknExec inp (.seq (.cons ["indent"] (.ref "indent")
        (.cons ["content"] (.plus (.ref "hier_block_element")) (.cons ["dedent"] (.ref "dedent") .nil)))) p .fail := by
      refine lim_seq (limS_cons_fail (lim_ref lk_indent (lim_seq (limS_cons_fail (lim_lit_fail ?_)))))
      have : (some c == some (Char.ofNat 14)) = false := by simpa using h14
      simp [litMatch, hc0, this]
    exact ⟨t, lim_ref lk_hbi (lim_choice (limC_cons_fail hind (limC_cons_ok ht))), hts⟩
  | nest bs =>
    obtain ⟨h0, h1, h2, hne, m, hbs, hm0, k, hrun, hq⟩ := h
    have hm1 : inp[m + 1]? = some '\n' := hrun.1
    subst hq
    obtain ⟨ti, hti, htis⟩ := marker_line "indent" IND lk_indent p h0 h1 h2
    obtain ⟨out, hloop⟩ := hier_block_elements_loop bs (p + 2) m (p + 2) [] hbs hm0 hm1 (by
      cases bs with
      | nil => exact absurd rfl hne
      | cons _ _ => simp)
    obtain ⟨td, htd, htds⟩ := marker_line_run "dedent" DED lk_dedent m hm0 k hrun
    have hplus : Lim aknExec inp (.plus (.ref "hier_block_element")) (p + 2) (.ok (.node (p + 2) m [] [] out)) := lim_plus hloop
    refine ⟨_, lim_ref lk_hbi (lim_choice (limC_cons_ok (lim_seq
        (limS_cons_ok hti (limS_cons_ok (by rw [htis]; exact hplus) (limS_cons_ok (by simpa [Tree.stop] using htd) limS_nil)))))), ?_⟩
    cases td with
    | node a b c d e => simp only [Tree.stop] at htds; simp [Tree.stop, htds]

def argGuards : List String := ["remedies_marker", "motivation_marker", "decision_marker", "conclusions_marker", "attachment_marker"]
def argItem : PExp := .seq (guardItems argGuards)

theorem lk_arguments : aknExec.lookup "arguments" = some (.typed "Arguments" (.seq (.cons [] (.opt (.ref "arguments_marker"))
    (.cons ["content"] (.star argItem) .nil)))) := by decide +kernel
theorem lk_judgmentBody : aknExec.lookup "judgmentBody" = some (.typed "JudgmentBody" (.seq (.cons ["introduction"] (.opt (.ref "introduction"))
    (.cons ["background"] (.opt (.ref "background")) (.cons ["arguments"] (.opt (.ref "arguments")) (.cons ["remedies"] (.opt (.ref "remedies"))
    (.cons ["motivation"] (.opt (.ref "motivation")) (.cons ["decision"] (.opt (.ref "decision")) .nil)))))))) := by decide +kernel
theorem lk_judgment : aknExec.lookup "judgment" = some (.typed "Judgment" (.seq (.cons ["judgmentBody"] (.ref "judgmentBody")
    (.cons ["conclusions"] (.opt (.ref "conclusions")) (.cons ["attachments"] (.opt (.ref "attachments")) .nil))))) := by decide +kernel

def jRules : List String :=
  ["conclusions_marker", "attachment_marker", "conclusions", "attachments", "introduction", "background", "arguments_marker",
   "remedies", "motivation", "decision", "remedies_marker", "motivation_marker", "decision_marker"]

theorem j_marker_facts :
    (jRules.all fun r => !mayStart aknExec 100 (.ref r) (some IND) && (aknExec.lookup r).isSome) = true ∧
    ((jRules ++ ["hier_block_indent"]).all fun r => !mayStart aknExec 100 (.ref r) none && (aknExec.lookup r).isSome) = true := by
  decide +kernel

/-- the judgment-level rules cannot start at the start of a block (or at the end of the text) -/
theorem j_rule_fails (r : String) (hr : r ∈ jRules) (bs : List Blk) (p : Nat) (h : AtBlks inp p bs inp.size) :
    Lim aknExec inp (.ref r) p .fail := by
  cases bs with
  | nil =>
    simp only [AtBlks] at h; subst h
    have := j_marker_facts.2
    simp only [List.all_eq_true, Bool.and_eq_true, Bool.not_eq_true'] at this
    exact rule_fails_at_eof r (this r (List.mem_append_left _ hr)).1 (this r (List.mem_append_left _ hr)).2
  | cons b rest =>
    obtain ⟨mid, hb, _⟩ := h
    cases b with
    | line l =>
      obtain ⟨c, hc0, hs, _⟩ := hb
      have := (starterOK_parts hs).2.2.2 r (by
        simp only [jRules, List.mem_cons, List.mem_nil_iff, or_false] at hr ⊢
        rcases hr with rfl | rfl | rfl | rfl | rfl | rfl | rfl | rfl | rfl | rfl | rfl | rfl | rfl <;> simp)
      exact rule_fails_at r p c hc0 this.1 this.2
    | nest bs' =>
      have := j_marker_facts.1
      simp only [List.all_eq_true, Bool.and_eq_true, Bool.not_eq_true'] at this
      exact rule_fails_at r p IND hb.1 (this r hr).1 (this r hr).2

theorem arg_loop : ∀ (bs : List Blk) (s p : Nat) (acc : List Tree), AtBlks inp p bs inp.size →
    ∃ out, LimR aknExec inp argItem s p acc 0 (.ok (.node s inp.size [] [] out))
  | [], s, p, acc, h => by
    have hend := h
    simp only [AtBlks] at h; subst h
    have hg : ∀ g ∈ argGuards, Lim aknExec inp (.ref g) inp.size .fail := fun g hg =>
      j_rule_fails g (by simp only [argGuards, jRules, List.mem_cons, List.mem_nil_iff, or_false] at hg ⊢
                         rcases hg with rfl | rfl | rfl | rfl | rfl <;> simp) [] inp.size hend
    exact ⟨acc.reverse, limR_stop (lim_seq (guarded_fail argGuards _ _ _ _ _ hg (eof_rule_fails "hier_block_indent" (by simp))))
      (Nat.zero_le _)⟩
  | b :: bs, s, p, acc, h => by
    have hall := h
    obtain ⟨mid, hb, hrest⟩ := h
    obtain ⟨t, ht, hts⟩ := hbi_at b p mid hb
    have hg : ∀ g ∈ argGuards, Lim aknExec inp (.ref g) p .fail := fun g hg =>
      j_rule_fails g (by simp only [argGuards, jRules, List.mem_cons, List.mem_nil_iff, or_false] at hg ⊢
                         rcases hg with rfl | rfl | rfl | rfl | rfl <;> simp) (b :: bs) p hall
    obtain ⟨t', ht', hts'⟩ := guarded_ok argGuards p p 0 [] [] t hg ht
    obtain ⟨out, hout⟩ := arg_loop bs s mid (t' :: acc) hrest
    have hlt : p < mid := atBlk_progress inp b p mid hb
    exact ⟨out, limR_step (lim_seq ht') (by rw [hts', hts]; exact hlt) (by rw [hts', hts]; exact hout)⟩

/-- **Plain-text documents with any well-nested indentation are accepted by `judgment`, in full.** -/
theorem nested_judgment_accepted (bs : List Blk) (h : AtBlks inp 0 bs inp.size) :
    ∃ t, Lim aknExec inp (.ref "judgment") 0 (.ok t) ∧ t.stop = inp.size := by
  have fs := fun r hr => lim_opt_fail (j_rule_fails (inp := inp) r hr bs 0 h)
  have hend : AtBlks inp inp.size [] inp.size := rfl
  have fe := fun r hr => lim_opt_fail (j_rule_fails (inp := inp) r hr [] inp.size hend)
  obtain ⟨out, hloop⟩ := arg_loop bs 0 0 [] h
  have hstar : Lim aknExec inp (.star argItem) 0 (.ok (.node 0 inp.size [] [] out)) := lim_star hloop
  have harg : Lim aknExec inp (.ref "arguments") 0 (.ok _) :=
    lim_ref lk_arguments (lim_typed (lim_seq (limS_cons_ok (fs "arguments_marker" (by simp [jRules]))
      (limS_cons_ok (by simpa using hstar) limS_nil))))
  have hbody : Lim aknExec inp (.ref "judgmentBody") 0 (.ok _) :=
    lim_ref lk_judgmentBody (lim_typed (lim_seq
      (limS_cons_ok (fs "introduction" (by simp [jRules])) (limS_cons_ok (by simpa using fs "background" (by simp [jRules]))
      (limS_cons_ok (by simpa using lim_opt_ok harg)
      (limS_cons_ok (by simpa [Tree.stop, Tree.addType] using fe "remedies" (by simp [jRules]))
      (limS_cons_ok (by simpa [Tree.stop, Tree.leaf] using fe "motivation" (by simp [jRules]))
      (limS_cons_ok (by simpa [Tree.stop, Tree.leaf] using fe "decision" (by simp [jRules])) limS_nil))))))))
  refine ⟨_, lim_ref lk_judgment (lim_typed (lim_seq (limS_cons_ok hbody
    (limS_cons_ok (by simpa [Tree.stop, Tree.addType, Tree.leaf] using fe "conclusions" (by simp [jRules]))
    (limS_cons_ok (by simpa [Tree.stop, Tree.leaf] using fe "attachments" (by simp [jRules])) limS_nil))))), ?_⟩
  simp [Tree.stop, Tree.addType, Tree.leaf]

/-- the six documented roots on the text of a good block list -/
theorem good_blocks_accepted_six (bs : List BlkK) (hg : GoodKs bs) (root : String)
    (hroot : root ∈ ["act", "bill", "doc", "statement", "debateReport", "judgment"]) :
    let inp := (unlines (toksKs bs)).toArray
    ∃ t, Lim aknExec inp (.ref root) 0 (.ok t) ∧ t.stop = inp.size := by
  intro inp
  by_cases hj : root = "judgment"
  · subst hj
    have hr : ReadsAt inp 0 (unlines (toksKs bs) ++ []) := by intro i hi; simp [inp]
    have hn : inp[0 + (unlines (toksKs bs)).length]? ≠ some '\n' := by simp [inp]
    have := atBlks_of_reads inp bs 0 [] hg hr hn
    have hsz : inp.size = 0 + (unlines (toksKs bs)).length := by simp [inp]
    rw [← hsz] at this
    exact nested_judgment_accepted (eraseKs bs) this
  · exact good_blocks_accepted bs hg root (by
      simp only [List.mem_cons, List.mem_nil_iff, or_false] at hroot ⊢
      rcases hroot with rfl | rfl | rfl | rfl | rfl | rfl
      · simp
      · simp
      · simp
      · simp
      · simp
      · exact absurd rfl hj)

end Bluebell
