import Bluebell.Lemmas.PreParse
/-! Depth and layout lemmas for C12. -/
namespace Bluebell

theorem handleIndent_more (lvl t : Int) (r : List Int) (h : lvl > t) :
    handleIndent lvl (t :: r) = (lvl :: t :: r, .indent) := by
  have : ¬ lvl = t := by omega
  simp [handleIndent, this, h]

theorem handleIndent_same (t : Int) (r : List Int) :
    handleIndent t (t :: r) = (t :: r, .same) := by
  simp [handleIndent]

theorem handleIndent_less_delta (lvl t : Int) (r : List Int) (h : lvl < t) :
    (handleIndent lvl (t :: r)).2.delta ≤ 0 := by
  have h1 : ¬ lvl = t := by omega
  have h2 : ¬ lvl > t := by omega
  unfold handleIndent
  simp only [h1, h2, if_false]
  cases r with
  | nil => simp [Prefix.delta]
  | cons t2 r2 =>
    by_cases h3 : lvl > t2
    · simp [h3, Prefix.delta]
    · simp only [h3, if_false, Prefix.delta]; omega

theorem handleIndent_less_not_indent (lvl t : Int) (r : List Int) (h : lvl < t) :
    (handleIndent lvl (t :: r)).2 ≠ .indent := by
  intro e
  have := handleIndent_less_delta lvl t r h
  rw [e] at this
  simp [Prefix.delta] at this

/-- relation between one trace entry and the stack/depth before it -/
def stepFrom (st : List Int) (d : Int) (b : Nat × Int × List Int) : Prop :=
  match st with
  | [] => True
  | t :: _ => ((b.1 : Int) > t → b.2.1 = d + 1) ∧ ((b.1 : Int) = t → b.2.1 = d ∧ b.2.2 = st) ∧
              ((b.1 : Int) < t → b.2.1 ≤ d)

def chainFrom : List Int → Int → List (Nat × Int × List Int) → Prop
  | _, _, [] => True
  | st, d, b :: rest => stepFrom st d b ∧ chainFrom b.2.2 b.2.1 rest

theorem trace_chain : ∀ (ls : List (List Char)) (st : List Int) (d : Int),
    chainFrom st d (traceLines ls st d) := by
  intro ls
  induction ls with
  | nil => intro st d; simp [traceLines, chainFrom]
  | cons l ls ih =>
    intro st d
    unfold traceLines
    by_cases hl : l = []
    · simp only [hl, if_true]; exact ih st d
    · simp only [hl, if_false]
      refine ⟨?_, ih _ _⟩
      cases st with
      | nil => simp [stepFrom]
      | cons t r =>
        refine ⟨?_, ?_, ?_⟩
        · intro h
          simp [handleIndent_more _ t r h, Prefix.delta]
        · intro h
          simp [h, handleIndent_same, Prefix.delta]
        · intro h
          have := handleIndent_less_delta (leadingSpaces l : Int) t r h
          show d + (handleIndent (leadingSpaces l : Int) (t :: r)).2.delta ≤ d
          omega

/-! ### When does the new top equal the line's indentation? -/

theorem popLoop_top_of_mem (lvl : Int) : ∀ (st : List Int) (k : Nat), st.Pairwise (· > ·) → lvl ∈ st →
    (popLoop lvl st k).1.head? = some lvl := by
  intro st
  induction st with
  | nil => intro k _ h; cases h
  | cons t r ih =>
    intro k hp hm
    unfold popLoop
    by_cases hge : lvl ≥ t
    · simp only [hge, if_true, List.head?_cons]
      cases hm with
      | head => rfl
      | tail _ hm =>
        have := (List.pairwise_cons.mp hp).1 lvl hm
        omega
    · simp only [hge, if_false]
      cases hm with
      | head => omega
      | tail _ hm => exact ih (k + 1) (List.pairwise_cons.mp hp).2 hm

/-- After a line is handled the top of the stack is the line's indentation, provided a dedent
lands on an open level (or is the single-step over-indent repair). -/
theorem handleIndent_top (lvl t : Int) (r : List Int) (hp : (t :: r).Pairwise (· > ·))
    (h : lvl ≥ t ∨ lvl ∈ r ∨ (∃ t2 r2, r = t2 :: r2 ∧ lvl > t2)) :
    (handleIndent lvl (t :: r)).1.head? = some lvl := by
  by_cases h1 : lvl = t
  · subst h1; simp [handleIndent_same]
  · by_cases h2 : lvl > t
    · simp [handleIndent_more _ t r h2]
    · have hlt : lvl < t := by omega
      unfold handleIndent
      simp only [h1, h2, if_false]
      rcases h with h | h | ⟨t2, r2, rfl, h3⟩
      · omega
      · cases r with
        | nil => cases h
        | cons t2 r2 =>
          by_cases h3 : lvl > t2
          · simp [h3]
          · simp only [h3, if_false]
            exact popLoop_top_of_mem lvl (t2 :: r2) 0 (List.pairwise_cons.mp hp).2 h
      · simp [h3]

end Bluebell

namespace Bluebell

/-! ### Scaling all indentation by a constant -/

def StrictMonoInt (f : Int → Int) : Prop := ∀ x y, x < y ↔ f x < f y

theorem StrictMonoInt.eq_iff {f : Int → Int} (hf : StrictMonoInt f) (x y : Int) : x = y ↔ f x = f y := by
  constructor
  · intro h; rw [h]
  · intro h
    by_cases h1 : x < y
    · have := (hf x y).mp h1; omega
    · by_cases h2 : y < x
      · have := (hf y x).mp h2; omega
      · omega

theorem StrictMonoInt.le_iff {f : Int → Int} (hf : StrictMonoInt f) (x y : Int) : x ≤ y ↔ f x ≤ f y := by
  constructor
  · intro h
    by_cases h1 : x < y
    · have := (hf x y).mp h1; omega
    · have : x = y := by omega
      rw [this]; omega
  · intro h
    by_cases h1 : y < x
    · have := (hf y x).mp h1; omega
    · omega

theorem popLoop_map (f : Int → Int) (hf : StrictMonoInt f) (lvl : Int) :
    ∀ (st : List Int) (k : Nat), popLoop (f lvl) (st.map f) k = ((popLoop lvl st k).1.map f, (popLoop lvl st k).2) := by
  intro st
  induction st with
  | nil => intro k; rfl
  | cons t r ih =>
    intro k
    simp only [List.map_cons, popLoop]
    by_cases h : lvl ≥ t
    · have : f lvl ≥ f t := (hf.le_iff t lvl).mp h
      simp [h, this]
    · have : ¬ f lvl ≥ f t := fun e => h ((hf.le_iff t lvl).mpr e)
      simp only [h, this, if_false]
      exact ih (k + 1)

/-- `handle_indent` only compares levels, so it commutes with any strictly monotone relabelling. -/
theorem handleIndent_map (f : Int → Int) (hf : StrictMonoInt f) (lvl : Int) (st : List Int) :
    handleIndent (f lvl) (st.map f) = ((handleIndent lvl st).1.map f, (handleIndent lvl st).2) := by
  cases st with
  | nil => rfl
  | cons t r =>
    simp only [List.map_cons, handleIndent]
    by_cases h1 : lvl = t
    · have : f lvl = f t := by rw [h1]
      simp [h1]
    · have h1' : ¬ f lvl = f t := fun e => h1 ((hf.eq_iff lvl t).mpr e)
      simp only [h1, h1', if_false]
      by_cases h2 : lvl > t
      · have : f lvl > f t := (hf t lvl).mp h2
        simp [h2, this]
      · have h2' : ¬ f lvl > f t := fun e => h2 ((hf t lvl).mpr e)
        simp only [h2, h2', if_false]
        cases r with
        | nil => rfl
        | cons t2 r2 =>
          simp only [List.map_cons]
          by_cases h3 : lvl > t2
          · have : f lvl > f t2 := (hf t2 lvl).mp h3
            simp [h3, this]
          · have h3' : ¬ f lvl > f t2 := fun e => h3 ((hf t2 lvl).mpr e)
            simp only [h3, h3', if_false]
            have := popLoop_map f hf lvl (t2 :: r2) 0
            simp only [List.map_cons] at this
            rw [this]

/-- multiply the leading spaces of a line by `c` -/
def scaleLine (c : Nat) (l : List Char) : List Char :=
  List.replicate (c * leadingSpaces l) ' ' ++ l.drop (leadingSpaces l)

/-- `x ↦ c·x` on levels, the sentinel `-1` (and anything negative) fixed -/
def scaleLevel (c : Nat) (x : Int) : Int := if x ≥ 0 then c * x else x

theorem scaleLevel_strictMono (c : Nat) (hc : 1 ≤ c) : StrictMonoInt (scaleLevel c) := by
  intro x y
  unfold scaleLevel
  have hc' : (1 : Int) ≤ (c : Int) := by exact_mod_cast hc
  by_cases hx : x ≥ 0 <;> by_cases hy : y ≥ 0 <;> simp only [hx, hy, if_true, if_false]
  · constructor
    · intro h; exact Int.mul_lt_mul_of_pos_left h (by omega)
    · intro h
      by_cases hxy : x < y
      · exact hxy
      · have : (c : Int) * y ≤ c * x := Int.mul_le_mul_of_nonneg_left (by omega) (by omega)
        omega
  · constructor
    · intro h; omega
    · intro h
      have : (0 : Int) ≤ c * x := Int.mul_nonneg (by omega) hx
      omega
  · constructor
    · intro _
      have : (0 : Int) ≤ c * y := Int.mul_nonneg (by omega) hy
      omega
    · intro _; omega

theorem takeWhile_replicate_append (k : Nat) (rest : List Char) (h : rest.head? ≠ some ' ') :
    (List.replicate k ' ' ++ rest).takeWhile (· = ' ') = List.replicate k ' ' := by
  induction k with
  | zero =>
    cases rest with
    | nil => rfl
    | cons a as =>
      have : a ≠ ' ' := by simpa using h
      simp [List.takeWhile, this]
  | succ k ih =>
    rw [List.replicate_succ, List.cons_append, List.takeWhile_cons]
    simp [ih]

theorem head?_drop_leadingSpaces (l : List Char) : (l.drop (leadingSpaces l)).head? ≠ some ' ' := by
  rw [drop_leadingSpaces]
  exact head?_dropWhile_ne _ _ ' ' (by simp)

theorem leadingSpaces_scaleLine (c : Nat) (l : List Char) : leadingSpaces (scaleLine c l) = c * leadingSpaces l := by
  have h := takeWhile_replicate_append (c * leadingSpaces l) _ (head?_drop_leadingSpaces l)
  show ((scaleLine c l).takeWhile (· = ' ')).length = c * leadingSpaces l
  unfold scaleLine
  rw [h]; simp

theorem drop_scaleLine (c : Nat) (l : List Char) :
    (scaleLine c l).drop (leadingSpaces (scaleLine c l)) = l.drop (leadingSpaces l) := by
  rw [leadingSpaces_scaleLine]
  unfold scaleLine
  rw [List.drop_append_of_le_length (by simp)]
  simp

theorem scaleLine_eq_nil (c : Nat) (l : List Char) (hc : 1 ≤ c) : scaleLine c l = [] ↔ l = [] := by
  constructor
  · intro h
    unfold scaleLine at h
    have h1 := List.append_eq_nil_iff.mp h
    have hk : leadingSpaces l = 0 := by
      have := h1.1
      cases hk : c * leadingSpaces l with
      | zero => rcases Nat.mul_eq_zero.mp hk with h | h <;> omega
      | succ m => rw [hk] at this; simp [List.replicate_succ] at this
    have := h1.2
    rw [hk] at this
    simpa using this
  · intro h; subst h; simp [scaleLine, leadingSpaces]

/-- Scaling every line's indentation by `c ≥ 1` yields the same tokens; the stack is relabelled. -/
theorem passT_scale (c : Nat) (hc : 1 ≤ c) : ∀ (ls : List (List Char)) (st : List Int),
    passT (ls.map (scaleLine c)) (st.map (scaleLevel c)) =
      ((passT ls st).1, (passT ls st).2.map (scaleLevel c)) := by
  intro ls
  induction ls with
  | nil => intro st; rfl
  | cons l ls ih =>
    intro st
    simp only [List.map_cons, passT]
    by_cases hl : l = []
    · have : scaleLine c l = [] := (scaleLine_eq_nil c l hc).mpr hl
      rw [if_pos this, if_pos hl]
      simp only [ih]
    · have hs : ¬ scaleLine c l = [] := fun e => hl ((scaleLine_eq_nil c l hc).mp e)
      simp only [hl, hs, if_false]
      have hk : ((leadingSpaces (scaleLine c l) : Nat) : Int) = scaleLevel c (leadingSpaces l) := by
        rw [leadingSpaces_scaleLine]
        unfold scaleLevel
        simp
      rw [hk, handleIndent_map _ (scaleLevel_strictMono c hc), drop_scaleLine]
      simp only [ih]

/-! ### A tab is `indent_size` spaces; whitespace around the text is irrelevant -/

theorem detab_append (n : Nat) (a b : List Char) : detab n (a ++ b) = detab n a ++ detab n b := by
  induction a with
  | nil => rfl
  | cons c cs ih =>
    by_cases h : c = '\t' <;> simp [detab, h, ih]

theorem detab_replicate_space (n k : Nat) : detab n (List.replicate k ' ') = List.replicate k ' ' := by
  induction k with
  | zero => rfl
  | succ k ih =>
    have : ¬ (' ' = '\t') := by decide
    simp [List.replicate_succ, detab, this, ih]

theorem detab_tab (n : Nat) (a b : List Char) :
    detab n (a ++ '\t' :: b) = detab n (a ++ List.replicate n ' ' ++ b) := by
  rw [detab_append, List.append_assoc, detab_append, detab_append, detab_replicate_space]
  simp [detab]

theorem dropWhile_append_all {p : Char → Bool} {a : List Char} (y : List Char) (h : ∀ c ∈ a, p c = true) :
    (a ++ y).dropWhile p = y.dropWhile p := by
  induction a with
  | nil => rfl
  | cons c cs ih =>
    have hc := h c (List.mem_cons_self ..)
    simp only [List.cons_append, List.dropWhile, hc]
    exact ih (fun x hx => h x (List.mem_cons_of_mem _ hx))

theorem dropTrailing_append_all {p : Char → Bool} {b : List Char} (y : List Char) (h : ∀ c ∈ b, p c = true) :
    dropTrailing p (y ++ b) = dropTrailing p y := by
  unfold dropTrailing
  rw [List.reverse_append, dropWhile_append_all _ (fun c hc => h c (List.mem_reverse.mp hc))]

theorem dropWhile_append_of_ne_nil {p : Char → Bool} (y b : List Char) (h : y.dropWhile p ≠ []) :
    (y ++ b).dropWhile p = y.dropWhile p ++ b := by
  induction y with
  | nil => exact absurd rfl h
  | cons c cs ih =>
    by_cases hc : p c = true
    · simp only [List.cons_append, List.dropWhile, hc] at h ⊢
      exact ih h
    · simp [List.dropWhile, hc]

theorem pyStrip_around (a y b : List Char) (ha : ∀ c ∈ a, isPySpace c = true) (hb : ∀ c ∈ b, isPySpace c = true) :
    pyStrip (a ++ y ++ b) = pyStrip y := by
  unfold pyStrip
  rw [List.append_assoc, dropWhile_append_all _ ha]
  by_cases hy : y.dropWhile isPySpace = []
  · have hall : ∀ c ∈ y ++ b, isPySpace c = true := by
      intro c hc
      rcases List.mem_append.mp hc with h | h
      · exact all_of_dropWhile_nil hy c h
      · exact hb c h
    have : (y ++ b).dropWhile isPySpace = [] := by
      have := dropWhile_append_all (p := isPySpace) [] hall
      simpa using this
    rw [this, hy]
  · rw [dropWhile_append_of_ne_nil _ _ hy, dropTrailing_append_all _ hb]

theorem detab_all_space (n : Nat) (a : List Char) (ha : ∀ c ∈ a, isPySpace c = true) :
    ∀ c ∈ detab n a, isPySpace c = true := by
  intro c hc
  rcases detab_mem n a c hc with h | h
  · exact ha c h
  · rw [h]; decide

end Bluebell

namespace Bluebell

/-! ### Consistently indented text: depth = level -/

/-- the stack `[n·lv, n·(lv-1), …, 0, -1]` -/
def levelStack (n : Nat) : Nat → List Int
  | 0 => [0, -1]
  | lv + 1 => ((n * (lv + 1) : Nat) : Int) :: levelStack n lv

theorem levelStack_head (n lv : Nat) : ∃ r, levelStack n lv = ((n * lv : Nat) : Int) :: r := by
  cases lv with
  | zero => exact ⟨[-1], by simp [levelStack]⟩
  | succ m => exact ⟨levelStack n m, rfl⟩

theorem popLoop_levelStack (n : Nat) (hn : 1 ≤ n) (lv' : Nat) : ∀ (m k : Nat), lv' ≤ m →
    popLoop ((n * lv' : Nat) : Int) (levelStack n m) k = (levelStack n lv', k + 1 + (m - lv')) := by
  intro m
  induction m with
  | zero =>
    intro k h
    have : lv' = 0 := by omega
    subst this
    simp [levelStack, popLoop]
  | succ m ih =>
    intro k h
    by_cases he : lv' = m + 1
    · subst he
      simp [levelStack, popLoop]
    · have hlt : lv' ≤ m := by omega
      have hnot : ¬ (((n * lv' : Nat) : Int) ≥ ((n * (m + 1) : Nat) : Int)) := by
        have : n * lv' < n * (m + 1) := Nat.mul_lt_mul_of_pos_left (by omega) (by omega)
        omega
      simp only [levelStack, popLoop, hnot, if_false]
      rw [ih (k + 1) hlt]
      congr 1; omega

theorem handleIndent_levelStack (n : Nat) (hn : 1 ≤ n) (lv lv' : Nat) (h : lv' ≤ lv + 1) :
    (handleIndent ((n * lv' : Nat) : Int) (levelStack n lv)).1 = levelStack n lv' ∧
    (handleIndent ((n * lv' : Nat) : Int) (levelStack n lv)).2.delta = (lv' : Int) - lv := by
  obtain ⟨r, hr⟩ := levelStack_head n lv
  by_cases h1 : lv' = lv + 1
  · subst h1
    rw [hr, handleIndent_more]
    · refine ⟨by rw [← hr]; rfl, by simp only [Prefix.delta]; omega⟩
    · have : n * lv < n * (lv + 1) := Nat.mul_lt_mul_of_pos_left (by omega) (by omega)
      omega
  · by_cases h2 : lv' = lv
    · subst h2
      rw [hr, handleIndent_same]
      exact ⟨rfl, by simp [Prefix.delta]⟩
    · have hlt : lv' < lv := by omega
      obtain ⟨m, rfl⟩ : ∃ m, lv = m + 1 := ⟨lv - 1, by omega⟩
      have hle : lv' ≤ m := by omega
      obtain ⟨r2, hr2⟩ := levelStack_head n m
      have c1 : ¬ (((n * lv' : Nat) : Int) = ((n * (m + 1) : Nat) : Int)) := by
        have : n * lv' < n * (m + 1) := Nat.mul_lt_mul_of_pos_left (by omega) (by omega)
        omega
      have c2 : ¬ (((n * lv' : Nat) : Int) > ((n * (m + 1) : Nat) : Int)) := by
        have : n * lv' < n * (m + 1) := Nat.mul_lt_mul_of_pos_left (by omega) (by omega)
        omega
      have c3 : ¬ (((n * lv' : Nat) : Int) > ((n * m : Nat) : Int)) := by
        have : n * lv' ≤ n * m := Nat.mul_le_mul_left n hle
        omega
      have hp := popLoop_levelStack n hn lv' m 0 hle
      simp only [levelStack, handleIndent, c1, c2, if_false]
      rw [hr2] at hp ⊢
      simp only [c3, if_false, hp, Prefix.delta]
      refine ⟨trivial, ?_⟩
      omega

/-- a walk over levels that never goes up by more than one level at a time -/
def Walk : Nat → List Nat → Prop
  | _, [] => True
  | cur, l :: ls => l ≤ cur + 1 ∧ Walk l ls

theorem consistent_depth (n : Nat) (hn : 1 ≤ n) : ∀ (items : List (Nat × List Char)) (cur : Nat),
    Walk cur (items.map (·.1)) → (∀ it ∈ items, it.2 ≠ [] ∧ it.2.head? ≠ some ' ') →
    (traceLines (items.map fun it => List.replicate (n * it.1) ' ' ++ it.2) (levelStack n cur) cur).map (·.2.1)
      = items.map fun it => (it.1 : Int) := by
  intro items
  induction items with
  | nil => intro cur _ _; rfl
  | cons it items ih =>
    intro cur hw hb
    obtain ⟨hne, hhd⟩ := hb it (List.mem_cons_self ..)
    simp only [List.map_cons, Walk] at hw
    have hl : ¬ (List.replicate (n * it.1) ' ' ++ it.2 = []) := by
      intro e; exact hne (List.append_eq_nil_iff.mp e).2
    have hk : leadingSpaces (List.replicate (n * it.1) ' ' ++ it.2) = n * it.1 := by
      unfold leadingSpaces
      rw [takeWhile_replicate_append _ _ hhd]; simp
    obtain ⟨e1, e2⟩ := handleIndent_levelStack n hn cur it.1 hw.1
    simp only [List.map_cons, traceLines, hl, if_false, hk, e1, e2]
    have := ih it.1 hw.2 (fun x hx => hb x (List.mem_cons_of_mem _ hx))
    have hd : (cur : Int) + ((it.1 : Int) - cur) = it.1 := by omega
    rw [hd, this]

end Bluebell
