import Bluebell.Lemmas.PegFirst
/-!
# Big-step reading of the fuel semantics

`Lim g inp e p r`: for all sufficiently large fuel, evaluating `e` at `p` gives `r` (`r` is then a
success or a failure, never "out of fuel").  By `eval_mono` this is *the* result of the expression.
The rules below are the usual PEG big-step rules, derived from the interpreter; with them a proof
about the grammar can ignore fuel.
-/
namespace Bluebell

def Lim (g : Grammar) (inp : Array Char) (e : PExp) (p : Nat) (r : Res) : Prop :=
  ∃ n0, ∀ n, n0 ≤ n → eval g inp n e p = r

def LimC (g : Grammar) (inp : Array Char) (es : PExps) (p : Nat) (r : Res) : Prop :=
  ∃ n0, ∀ n, n0 ≤ n → evalChoice g inp n es p = r

variable {g : Grammar} {inp : Array Char}

theorem lim_ref {A : String} {e : PExp} {p : Nat} {r : Res} (hl : g.lookup A = some e) (h : Lim g inp e p r) :
    Lim g inp (.ref A) p r := by
  obtain ⟨n0, h0⟩ := h
  refine ⟨n0 + 1, fun n hn => ?_⟩
  obtain ⟨m, rfl⟩ : ∃ m, n = m + 1 := ⟨n - 1, by omega⟩
  simp only [eval, hl]
  exact h0 m (by omega)

theorem lim_choice {es : PExps} {p : Nat} {r : Res} (h : LimC g inp es p r) : Lim g inp (.choice es) p r := by
  obtain ⟨n0, h0⟩ := h
  refine ⟨n0 + 1, fun n hn => ?_⟩
  obtain ⟨m, rfl⟩ : ∃ m, n = m + 1 := ⟨n - 1, by omega⟩
  simp only [eval]
  exact h0 m (by omega)

theorem limC_cons_ok {e : PExp} {es : PExps} {p : Nat} {t : Tree} (h : Lim g inp e p (.ok t)) :
    LimC g inp (.cons e es) p (.ok t) := by
  obtain ⟨n0, h0⟩ := h
  refine ⟨n0 + 1, fun n hn => ?_⟩
  obtain ⟨m, rfl⟩ : ∃ m, n = m + 1 := ⟨n - 1, by omega⟩
  simp only [evalChoice, h0 m (by omega)]

theorem limC_cons_fail {e : PExp} {es : PExps} {p : Nat} {r : Res} (h : Lim g inp e p .fail)
    (hr : LimC g inp es p r) : LimC g inp (.cons e es) p r := by
  obtain ⟨n0, h0⟩ := h
  obtain ⟨n1, h1⟩ := hr
  refine ⟨max n0 n1 + 1, fun n hn => ?_⟩
  obtain ⟨m, rfl⟩ : ∃ m, n = m + 1 := ⟨n - 1, by omega⟩
  have hm0 : n0 ≤ m := by have := Nat.le_max_left n0 n1; omega
  have hm1 : n1 ≤ m := by have := Nat.le_max_right n0 n1; omega
  simp only [evalChoice, h0 m hm0]
  exact h1 m hm1

theorem lim_typed {e : PExp} {ty : String} {p : Nat} {t : Tree} (h : Lim g inp e p (.ok t)) :
    Lim g inp (.typed ty e) p (.ok (t.addType ty)) := by
  obtain ⟨n0, h0⟩ := h
  refine ⟨n0 + 1, fun n hn => ?_⟩
  obtain ⟨m, rfl⟩ : ∃ m, n = m + 1 := ⟨n - 1, by omega⟩
  simp only [eval, h0 m (by omega)]

/-- the result is unique -/
theorem lim_unique {e : PExp} {p : Nat} {r r' : Res} (h : Lim g inp e p r) (h' : Lim g inp e p r') : r = r' := by
  obtain ⟨n0, h0⟩ := h
  obtain ⟨n1, h1⟩ := h'
  rw [← h0 (max n0 n1) (Nat.le_max_left ..), ← h1 (max n0 n1) (Nat.le_max_right ..)]

/-- on a certified grammar a rule that cannot start with the next character evaluates to failure -/
theorem lim_fail_of_cannot_start {N : List String} {R : List (String × Nat)} {top : Nat}
    (hw : wfG g N R top = true) (d : Nat) (A : String) (hA : (g.lookup A).isSome) (p : Nat) (hp : p ≤ inp.size)
    (h : mayStart g d (.ref A) inp[p]? = false) : Lim g inp (.ref A) p .fail :=
  rule_fails_of_cannot_start hw inp d A hA p hp h

end Bluebell

namespace Bluebell
/-- In a choice between rule references: the first one that the first-character analysis does not
rule out for the next character `c` (all earlier ones being defined rules). -/
def firstCandidate (g : Grammar) (d : Nat) (c : Option Char) : PExps → Option String
  | .nil => none
  | .cons (.ref A) r =>
    if mayStart g d (.ref A) c then some A
    else if (g.lookup A).isSome then firstCandidate g d c r else none
  | .cons _ _ => none

theorem limC_first_candidate {g : Grammar} {inp : Array Char} {N : List String} {R : List (String × Nat)} {top : Nat}
    (hw : wfG g N R top = true) (d : Nat) (p : Nat) (hp : p ≤ inp.size) (A : String) (t : Tree)
    (hA : Lim g inp (.ref A) p (.ok t)) :
    ∀ es, firstCandidate g d inp[p]? es = some A → LimC g inp es p (.ok t)
  | .nil, h => by simp [firstCandidate] at h
  | .cons e r, h => by
    have ih := limC_first_candidate hw d p hp A t hA r
    cases e with
    | ref B =>
      simp only [firstCandidate] at h
      by_cases hm : mayStart g d (.ref B) inp[p]? = true
      · simp only [hm, if_true, Option.some.injEq] at h
        subst h
        exact limC_cons_ok hA
      · have hm' : mayStart g d (.ref B) inp[p]? = false := by simpa using hm
        simp only [hm', Bool.false_eq_true, if_false] at h
        by_cases hB : (g.lookup B).isSome = true
        · simp only [hB, if_true] at h
          exact limC_cons_fail (lim_fail_of_cannot_start hw d B hB p hp hm') (ih h)
        · simp [hB] at h
    | lit _ => simp [firstCandidate] at h
    | cls _ _ => simp [firstCandidate] at h
    | rx1 _ _ => simp [firstCandidate] at h
    | seq _ => simp [firstCandidate] at h
    | choice _ => simp [firstCandidate] at h
    | opt _ => simp [firstCandidate] at h
    | star _ => simp [firstCandidate] at h
    | plus _ => simp [firstCandidate] at h
    | notP _ => simp [firstCandidate] at h
    | andP _ => simp [firstCandidate] at h
    | typed _ _ => simp [firstCandidate] at h

/-- a rule that is a choice between rule references evaluates to what its first candidate evaluates to -/
theorem lim_rule_first_candidate {g : Grammar} {inp : Array Char} {N : List String} {R : List (String × Nat)} {top : Nat}
    (hw : wfG g N R top = true) (d : Nat) (p : Nat) (hp : p ≤ inp.size) (rule A : String) (es : PExps) (t : Tree)
    (hl : g.lookup rule = some (.choice es)) (hc : firstCandidate g d inp[p]? es = some A)
    (hA : Lim g inp (.ref A) p (.ok t)) : Lim g inp (.ref rule) p (.ok t) :=
  lim_ref hl (lim_choice (limC_first_candidate hw d p hp A t hA es hc))

end Bluebell
