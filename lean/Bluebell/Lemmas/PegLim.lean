import Bluebell.Lemmas.PegFirst
/-!
# Big-step reading of the fuel semantics

`Lim g inp e p r`: for all sufficiently large fuel, evaluating `e` at `p` gives `r` (`r` is then a
success or a failure, never "out of fuel").  By `eval_mono` this is *the* result of the expression.
The rules below are the usual PEG big-step rules, derived from the interpreter; with them a proof
about the grammar can ignore fuel.
-/
namespace Bluebell

def Lim (g : Grammar) (inp : Array Char) (e : PExp) (p : Nat) (r : Res) : Prop :=
  ∃ n0, ∀ n, n0 ≤ n → eval g inp n e p = r

def LimC (g : Grammar) (inp : Array Char) (es : PExps) (p : Nat) (r : Res) : Prop :=
  ∃ n0, ∀ n, n0 ≤ n → evalChoice g inp n es p = r

variable {g : Grammar} {inp : Array Char}

theorem lim_ref {A : String} {e : PExp} {p : Nat} {r : Res} (hl : g.lookup A = some e) (h : Lim g inp e p r) :
    Lim g inp (.ref A) p r := by
  obtain ⟨n0, h0⟩ := h
  refine ⟨n0 + 1, fun n hn => ?_⟩
  obtain ⟨m, rfl⟩ : ∃ m, n = m + 1 := ⟨n - 1, by omega⟩
  simp only [eval, hl]
  exact h0 m (by omega)

theorem lim_choice {es : PExps} {p : Nat} {r : Res} (h : LimC g inp es p r) : Lim g inp (.choice es) p r := by
  obtain ⟨n0, h0⟩ := h
  refine ⟨n0 + 1, fun n hn => ?_⟩
  obtain ⟨m, rfl⟩ : ∃ m, n = m + 1 := ⟨n - 1, by omega⟩
  simp only [eval]
  exact h0 m (by omega)

theorem limC_cons_ok {e : PExp} {es : PExps} {p : Nat} {t : Tree} (h : Lim g inp e p (.ok t)) :
    LimC g inp (.cons e es) p (.ok t) := by
  obtain ⟨n0, h0⟩ := h
  refine ⟨n0 + 1, fun n hn => ?_⟩
  obtain ⟨m, rfl⟩ : ∃ m, n = m + 1 := ⟨n - 1, by omega⟩
  simp only [evalChoice, h0 m (by omega)]

theorem limC_cons_fail {e : PExp} {es : PExps} {p : Nat} {r : Res} (h : Lim g inp e p .fail)
    (hr : LimC g inp es p r) : LimC g inp (.cons e es) p r := by
  obtain ⟨n0, h0⟩ := h
  obtain ⟨n1, h1⟩ := hr
  refine ⟨max n0 n1 + 1, fun n hn => ?_⟩
  obtain ⟨m, rfl⟩ : ∃ m, n = m + 1 := ⟨n - 1, by omega⟩
  have hm0 : n0 ≤ m := by have := Nat.le_max_left n0 n1; omega
  have hm1 : n1 ≤ m := by have := Nat.le_max_right n0 n1; omega
  simp only [evalChoice, h0 m hm0]
  exact h1 m hm1

theorem lim_typed {e : PExp} {ty : String} {p : Nat} {t : Tree} (h : Lim g inp e p (.ok t)) :
    Lim g inp (.typed ty e) p (.ok (t.addType ty)) := by
  obtain ⟨n0, h0⟩ := h
  refine ⟨n0 + 1, fun n hn => ?_⟩
  obtain ⟨m, rfl⟩ : ∃ m, n = m + 1 := ⟨n - 1, by omega⟩
  simp only [eval, h0 m (by omega)]

/-- the result is unique -/
theorem lim_unique {e : PExp} {p : Nat} {r r' : Res} (h : Lim g inp e p r) (h' : Lim g inp e p r') : r = r' := by
  obtain ⟨n0, h0⟩ := h
  obtain ⟨n1, h1⟩ := h'
  rw [← h0 (max n0 n1) (Nat.le_max_left ..), ← h1 (max n0 n1) (Nat.le_max_right ..)]

/-- on a certified grammar a rule that cannot start with the next character evaluates to failure -/
theorem lim_fail_of_cannot_start {N : List String} {R : List (String × Nat)} {top : Nat}
    (hw : wfG g N R top = true) (d : Nat) (A : String) (hA : (g.lookup A).isSome) (p : Nat) (hp : p ≤ inp.size)
    (h : mayStart g d (.ref A) inp[p]? = false) : Lim g inp (.ref A) p .fail :=
  rule_fails_of_cannot_start hw inp d A hA p hp h

end Bluebell

namespace Bluebell
/-- In a choice between rule references: the first one that the first-character analysis does not
rule out for the next character `c` (all earlier ones being defined rules). -/
def firstCandidate (g : Grammar) (d : Nat) (c : Option Char) : PExps → Option String
  | .nil => none
  | .cons (.ref A) r =>
    if mayStart g d (.ref A) c then some A
    else if (g.lookup A).isSome then firstCandidate g d c r else none
  | .cons _ _ => none

theorem limC_first_candidate {g : Grammar} {inp : Array Char} {N : List String} {R : List (String × Nat)} {top : Nat}
    (hw : wfG g N R top = true) (d : Nat) (p : Nat) (hp : p ≤ inp.size) (A : String) (t : Tree)
    (hA : Lim g inp (.ref A) p (.ok t)) :
    ∀ es, firstCandidate g d inp[p]? es = some A → LimC g inp es p (.ok t)
  | .nil, h => by simp [firstCandidate] at h
  | .cons e r, h => by
    have ih := limC_first_candidate hw d p hp A t hA r
    cases e with
    | ref B =>
      simp only [firstCandidate] at h
      by_cases hm : mayStart g d (.ref B) inp[p]? = true
      · simp only [hm, if_true, Option.some.injEq] at h
        subst h
        exact limC_cons_ok hA
      · have hm' : mayStart g d (.ref B) inp[p]? = false := by simpa using hm
        simp only [hm', Bool.false_eq_true, if_false] at h
        by_cases hB : (g.lookup B).isSome = true
        · simp only [hB, if_true] at h
          exact limC_cons_fail (lim_fail_of_cannot_start hw d B hB p hp hm') (ih h)
        · simp [hB] at h
    | lit _ => simp [firstCandidate] at h
    | cls _ _ => simp [firstCandidate] at h
    | rx1 _ _ => simp [firstCandidate] at h
    | seq _ => simp [firstCandidate] at h
    | choice _ => simp [firstCandidate] at h
    | opt _ => simp [firstCandidate] at h
    | star _ => simp [firstCandidate] at h
    | plus _ => simp [firstCandidate] at h
    | notP _ => simp [firstCandidate] at h
    | andP _ => simp [firstCandidate] at h
    | typed _ _ => simp [firstCandidate] at h

/-- a rule that is a choice between rule references evaluates to what its first candidate evaluates to -/
theorem lim_rule_first_candidate {g : Grammar} {inp : Array Char} {N : List String} {R : List (String × Nat)} {top : Nat}
    (hw : wfG g N R top = true) (d : Nat) (p : Nat) (hp : p ≤ inp.size) (rule A : String) (es : PExps) (t : Tree)
    (hl : g.lookup rule = some (.choice es)) (hc : firstCandidate g d inp[p]? es = some A)
    (hA : Lim g inp (.ref A) p (.ok t)) : Lim g inp (.ref rule) p (.ok t) :=
  lim_ref hl (lim_choice (limC_first_candidate hw d p hp A t hA es hc))

end Bluebell

namespace Bluebell
/-! ## big-step rules for sequences, repetitions, options and predicates -/

def LimS (g : Grammar) (inp : Array Char) (es : PItems) (s p i : Nat) (ls : List (String × Nat)) (acc : List Tree) (r : Res) : Prop :=
  ∃ n0, ∀ n, n0 ≤ n → evalSeq g inp n es s p i ls acc = r

def LimR (g : Grammar) (inp : Array Char) (e : PExp) (s p : Nat) (acc : List Tree) (min : Nat) (r : Res) : Prop :=
  ∃ n0, ∀ n, n0 ≤ n → evalRep g inp n e s p acc min = r

variable {g : Grammar} {inp : Array Char}

theorem lim_seq {es : PItems} {p : Nat} {r : Res} (h : LimS g inp es p p 0 [] [] r) : Lim g inp (.seq es) p r := by
  obtain ⟨n0, h0⟩ := h
  refine ⟨n0 + 1, fun n hn => ?_⟩
  obtain ⟨m, rfl⟩ : ∃ m, n = m + 1 := ⟨n - 1, by omega⟩
  simp only [eval]; exact h0 m (by omega)

theorem limS_nil {s p i : Nat} {ls : List (String × Nat)} {acc : List Tree} :
    LimS g inp .nil s p i ls acc (.ok (.node s p [] ls acc.reverse)) :=
  ⟨1, fun n hn => by obtain ⟨m, rfl⟩ : ∃ m, n = m + 1 := ⟨n - 1, by omega⟩; simp [evalSeq]⟩

theorem limS_cons_ok {names : List String} {e : PExp} {es : PItems} {s p i : Nat} {ls : List (String × Nat)}
    {acc : List Tree} {t : Tree} {r : Res} (h : Lim g inp e p (.ok t))
    (hr : LimS g inp es s t.stop (i + 1) (addLabels ls names i) (t :: acc) r) :
    LimS g inp (.cons names e es) s p i ls acc r := by
  obtain ⟨n0, h0⟩ := h
  obtain ⟨n1, h1⟩ := hr
  refine ⟨max n0 n1 + 1, fun n hn => ?_⟩
  obtain ⟨m, rfl⟩ : ∃ m, n = m + 1 := ⟨n - 1, by omega⟩
  have hm0 : n0 ≤ m := by have := Nat.le_max_left n0 n1; omega
  have hm1 : n1 ≤ m := by have := Nat.le_max_right n0 n1; omega
  simp only [evalSeq, h0 m hm0]
  exact h1 m hm1

theorem limS_cons_fail {names : List String} {e : PExp} {es : PItems} {s p i : Nat} {ls : List (String × Nat)}
    {acc : List Tree} (h : Lim g inp e p .fail) : LimS g inp (.cons names e es) s p i ls acc .fail := by
  obtain ⟨n0, h0⟩ := h
  refine ⟨n0 + 1, fun n hn => ?_⟩
  obtain ⟨m, rfl⟩ : ∃ m, n = m + 1 := ⟨n - 1, by omega⟩
  simp only [evalSeq, h0 m (by omega)]

theorem lim_star {e : PExp} {p : Nat} {r : Res} (h : LimR g inp e p p [] 0 r) : Lim g inp (.star e) p r := by
  obtain ⟨n0, h0⟩ := h
  refine ⟨n0 + 1, fun n hn => ?_⟩
  obtain ⟨m, rfl⟩ : ∃ m, n = m + 1 := ⟨n - 1, by omega⟩
  simp only [eval]; exact h0 m (by omega)

theorem lim_plus {e : PExp} {p : Nat} {r : Res} (h : LimR g inp e p p [] 1 r) : Lim g inp (.plus e) p r := by
  obtain ⟨n0, h0⟩ := h
  refine ⟨n0 + 1, fun n hn => ?_⟩
  obtain ⟨m, rfl⟩ : ∃ m, n = m + 1 := ⟨n - 1, by omega⟩
  simp only [eval]; exact h0 m (by omega)

theorem limR_stop {e : PExp} {s p : Nat} {acc : List Tree} {min : Nat} (h : Lim g inp e p .fail)
    (hm : min ≤ acc.length) : LimR g inp e s p acc min (.ok (.node s p [] [] acc.reverse)) := by
  obtain ⟨n0, h0⟩ := h
  refine ⟨n0 + 1, fun n hn => ?_⟩
  obtain ⟨m, rfl⟩ : ∃ m, n = m + 1 := ⟨n - 1, by omega⟩
  rw [evalRep, h0 m (by omega)]
  simp [hm]

theorem limR_step {e : PExp} {s p : Nat} {acc : List Tree} {min : Nat} {t : Tree} {r : Res}
    (h : Lim g inp e p (.ok t)) (hp : p < t.stop) (hr : LimR g inp e s t.stop (t :: acc) min r) :
    LimR g inp e s p acc min r := by
  obtain ⟨n0, h0⟩ := h
  obtain ⟨n1, h1⟩ := hr
  refine ⟨max n0 n1 + 1, fun n hn => ?_⟩
  obtain ⟨m, rfl⟩ : ∃ m, n = m + 1 := ⟨n - 1, by omega⟩
  have hm0 : n0 ≤ m := by have := Nat.le_max_left n0 n1; omega
  have hm1 : n1 ≤ m := by have := Nat.le_max_right n0 n1; omega
  rw [evalRep, h0 m hm0]
  have : ¬ t.stop ≤ p := by omega
  simp only [this, if_false]
  exact h1 m hm1

theorem lim_opt_fail {e : PExp} {p : Nat} (h : Lim g inp e p .fail) : Lim g inp (.opt e) p (.ok (Tree.leaf p p)) := by
  obtain ⟨n0, h0⟩ := h
  refine ⟨n0 + 1, fun n hn => ?_⟩
  obtain ⟨m, rfl⟩ : ∃ m, n = m + 1 := ⟨n - 1, by omega⟩
  simp only [eval, h0 m (by omega)]

theorem lim_opt_ok {e : PExp} {p : Nat} {t : Tree} (h : Lim g inp e p (.ok t)) : Lim g inp (.opt e) p (.ok t) := by
  obtain ⟨n0, h0⟩ := h
  refine ⟨n0 + 1, fun n hn => ?_⟩
  obtain ⟨m, rfl⟩ : ∃ m, n = m + 1 := ⟨n - 1, by omega⟩
  simp only [eval, h0 m (by omega)]

theorem lim_not_fail {e : PExp} {p : Nat} (h : Lim g inp e p .fail) : Lim g inp (.notP e) p (.ok (Tree.leaf p p)) := by
  obtain ⟨n0, h0⟩ := h
  refine ⟨n0 + 1, fun n hn => ?_⟩
  obtain ⟨m, rfl⟩ : ∃ m, n = m + 1 := ⟨n - 1, by omega⟩
  simp only [eval, h0 m (by omega)]

theorem lim_not_ok {e : PExp} {p : Nat} {t : Tree} (h : Lim g inp e p (.ok t)) : Lim g inp (.notP e) p .fail := by
  obtain ⟨n0, h0⟩ := h
  refine ⟨n0 + 1, fun n hn => ?_⟩
  obtain ⟨m, rfl⟩ : ∃ m, n = m + 1 := ⟨n - 1, by omega⟩
  simp only [eval, h0 m (by omega)]

theorem lim_typed_fail {e : PExp} {ty : String} {p : Nat} (h : Lim g inp e p .fail) : Lim g inp (.typed ty e) p .fail := by
  obtain ⟨n0, h0⟩ := h
  refine ⟨n0 + 1, fun n hn => ?_⟩
  obtain ⟨m, rfl⟩ : ∃ m, n = m + 1 := ⟨n - 1, by omega⟩
  simp only [eval, h0 m (by omega)]

theorem lim_ref_undefined {A : String} {p : Nat} (hl : g.lookup A = none) : Lim g inp (.ref A) p .fail :=
  ⟨1, fun n hn => by obtain ⟨m, rfl⟩ : ∃ m, n = m + 1 := ⟨n - 1, by omega⟩; simp [eval, hl]⟩

theorem lim_lit_fail {s : List Char} {p : Nat} (h : litMatch inp p s = false) : Lim g inp (.lit s) p .fail :=
  ⟨1, fun n hn => by obtain ⟨m, rfl⟩ : ∃ m, n = m + 1 := ⟨n - 1, by omega⟩; simp [eval, h]⟩

theorem limC_nil {p : Nat} : LimC g inp .nil p .fail :=
  ⟨1, fun n hn => by obtain ⟨m, rfl⟩ : ∃ m, n = m + 1 := ⟨n - 1, by omega⟩; simp [evalChoice]⟩

/-- an expression that cannot start with the next character evaluates to failure, provided it
evaluates to something (which `peg_terminates` gives for rules of a certified grammar) -/
theorem lim_fail_of_lim_and_cannot_start {e : PExp} {p : Nat} {r : Res} (d : Nat) (h : Lim g inp e p r)
    (hm : mayStart g d e inp[p]? = false) (hd : r.done) : r = .fail := by
  obtain ⟨n0, h0⟩ := h
  cases r with
  | fail => rfl
  | oof => exact absurd hd Res.not_done_oof
  | ok t => exact absurd (h0 n0 (Nat.le_refl _)) (cannot_start g inp d e p hm n0 t)

end Bluebell
