import Bluebell.Lemmas.PreParse
/-! Blank lines between lines: the indentation pass is compositional over the list of lines, a blank
line emits exactly one empty line and leaves the indentation stack alone. -/
namespace Bluebell

theorem passT_append (a b : List (List Char)) (st : List Int) :
    passT (a ++ b) st = ((passT a st).1 ++ (passT b (passT a st).2).1, (passT b (passT a st).2).2) := by
  induction a generalizing st with
  | nil => simp [passT]
  | cons l ls ih =>
    simp only [List.cons_append, passT]
    by_cases h : l = []
    · simp [h, ih]
    · simp [h, ih]

theorem passT_blank (b : List (List Char)) (st : List Int) :
    passT ([] :: b) st = (.line [] :: (passT b st).1, (passT b st).2) := by
  simp [passT]

/-- tokens that carry something: markers and non-empty lines -/
def visible (ts : List Tok) : List Tok := ts.filter (· ≠ .line [])

theorem visible_append (a b : List Tok) : visible (a ++ b) = visible a ++ visible b := by
  simp [visible]

theorem passT_insert_blank (a b : List (List Char)) (st : List Int) :
    passT (a ++ [] :: b) st =
      ((passT a st).1 ++ .line [] :: (passT b (passT a st).2).1, (passT (a ++ b) st).2) := by
  rw [passT_append, passT_blank, passT_append]

theorem passT_insert_blanks (k : Nat) (a b : List (List Char)) (st : List Int) :
    visible (passT (a ++ List.replicate k [] ++ b) st).1 = visible (passT (a ++ b) st).1 ∧
    (passT (a ++ List.replicate k [] ++ b) st).2 = (passT (a ++ b) st).2 := by
  induction k generalizing a with
  | zero => simp
  | succ k ih =>
    have : a ++ List.replicate (k + 1) [] ++ b = a ++ [] :: (List.replicate k [] ++ b) := by
      simp [List.replicate_succ]
    rw [this, passT_insert_blank]
    have h := ih a
    rw [List.append_assoc] at h
    rw [passT_append a (List.replicate k [] ++ b)] at h
    rw [passT_append a b] at h ⊢
    simp only [visible_append] at h ⊢
    constructor
    · simp only [visible, List.filter_cons] at h ⊢
      simpa using h.1
    · rw [passT_append a (List.replicate k [] ++ b)]
      exact h.2

end Bluebell

namespace Bluebell

/-- `(a + "\n" + b).split("\n") == a.split("\n") + b.split("\n")` -/
theorem splitLines_append_nl_general (a b : List Char) :
    splitLines (a ++ '\n' :: b) = splitLines a ++ splitLines b := by
  induction a with
  | nil => simp [splitLines]
  | cons c cs ih =>
    by_cases hc : c = '\n'
    · subst hc
      simp only [List.cons_append, splitLines_cons_nl, ih]
    · obtain ⟨l, ls, h1, h2⟩ := splitLines_cons_other c cs hc
      obtain ⟨l', ls', h1', h2'⟩ := splitLines_cons_other c (cs ++ '\n' :: b) hc
      rw [List.cons_append, h2', h2]
      rw [ih, h1] at h1'
      simp only [List.cons_append, List.cons.injEq] at h1' ⊢
      exact ⟨⟨trivial, h1'.1.symm⟩, h1'.2.symm⟩

theorem splitLines_replicate_nl (k : Nat) (b : List Char) :
    splitLines (List.replicate k '\n' ++ b) = List.replicate k [] ++ splitLines b := by
  induction k with
  | zero => simp
  | succ k ih => simp only [List.replicate_succ, List.cons_append, splitLines_cons_nl, ih]

/-- `k` extra newline characters after a newline are `k` extra empty lines, nothing else. -/
theorem splitLines_insert_newlines (k : Nat) (a b : List Char) :
    splitLines (a ++ '\n' :: (List.replicate k '\n' ++ b)) = splitLines a ++ List.replicate k [] ++ splitLines b := by
  rw [splitLines_append_nl_general, splitLines_replicate_nl, List.append_assoc]

end Bluebell

namespace Bluebell

theorem linesOf_insert_newlines (k : Nat) (a b : List Char) :
    linesOf (a ++ '\n' :: (List.replicate k '\n' ++ b)) = splitLines a ++ List.replicate k [] ++ linesOf b := by
  unfold linesOf
  rw [splitLines_insert_newlines, List.dropLast_append_of_ne_nil (splitLines_ne_nil b)]

/-- On the text the indentation pass sees: `k` extra newline characters after any newline change neither the
stack nor the markers and non-empty lines produced. -/
theorem passT_text_insert_newlines (k : Nat) (a b : List Char) (st : List Int) :
    visible (passT (linesOf (a ++ '\n' :: (List.replicate k '\n' ++ b))) st).1 = visible (passT (linesOf (a ++ '\n' :: b)) st).1 ∧
    (passT (linesOf (a ++ '\n' :: (List.replicate k '\n' ++ b))) st).2 = (passT (linesOf (a ++ '\n' :: b)) st).2 := by
  have h0 := linesOf_insert_newlines 0 a b
  simp only [List.replicate_zero, List.nil_append, List.append_nil] at h0
  rw [linesOf_insert_newlines, h0]
  exact passT_insert_blanks k (splitLines a) (linesOf b) st

end Bluebell
