import Bluebell.Lemmas.AknWF
import Bluebell.Types
/-!
# A line made of escapes, at the grammar level

For **every** text and offset: if the text at `p` reads `\c₁\c₂…\cₖ` followed by a newline (`k ≥ 1`,
no `cᵢ` a newline), then rule `line` of the executing grammar succeeds at `p` for all sufficiently
large fuel, its `content` is exactly the `k` two-character escape nodes, and nothing else of the
grammar (keywords, markers, attributes) gets a say — whatever the `cᵢ` are.
-/
namespace Bluebell

/-! ## the rules involved, as regenerated (kernel-evaluated lookups) -/
theorem lk_line : aknExec.lookup "line" = some (.typed "Line" (.seq (.cons [] (.notP (.ref "dedent"))
    (.cons ["content"] (.plus (.ref "inline")) (.cons ["eol"] (.ref "eol") .nil))))) := by decide +kernel
theorem lk_dedent : aknExec.lookup "dedent" = some (.seq (.cons [] (.lit [Char.ofNat 15]) (.cons ["eol"] (.ref "eol") .nil))) := by
  decide +kernel
theorem lk_eol : aknExec.lookup "eol" = some (.seq (.cons ["newline"] (.ref "newline") (.cons [] (.star (.ref "empty_line")) .nil))) := by
  decide +kernel
theorem lk_newline : aknExec.lookup "newline" = some (.lit ['\n']) := by decide +kernel
theorem lk_escape : aknExec.lookup "escape" = some (.seq (.cons [] (.lit ['\\']) (.cons [] (.cls true ['\n']) .nil))) := by
  decide +kernel
theorem lk_inline : aknExec.lookup "inline" = some (.choice (.cons (.ref "non_inline_start") (.cons (.ref "escape")
    (.cons (.ref "inline_marker") (.cons (.typed "InlineText" (.cls true ['\n'])) .nil))))) := by decide +kernel
theorem lk_nis : aknExec.lookup "non_inline_start" = some (.rx1 overrideNeg overrideCls) := by decide +kernel
theorem backslash_not_plain : clsMatch overrideNeg overrideCls '\\' = false := by decide +kernel
theorem newline_not_plain : clsMatch overrideNeg overrideCls '\n' = false := by decide +kernel
theorem marker_not_at_newline : mayStart aknExec 30 (.ref "inline_marker") (some '\n') = false := by decide +kernel
theorem marker_is_rule : (aknExec.lookup "inline_marker").isSome = true := by decide +kernel
theorem eol_is_rule : (aknExec.lookup "eol").isSome = true := by decide +kernel

theorem scan_stops (inp : Array Char) (p k : Nat) (neg : Bool) (cs : List Char) (c : Char)
    (h0 : inp[p]? = some c) (hm : clsMatch neg cs c = false) : scanCls inp neg cs k p = p := by
  cases k with
  | zero => rfl
  | succ k => simp [scanCls, h0, hm]

/-- the escape node -/
def escNode (q : Nat) : Tree := .node q (q + 2) [] [] [Tree.leaf q (q+1), Tree.leaf (q+1) (q+2)]

/-- At a backslash followed by any character but a newline, `inline` is the escape — the keyword,
marker and attribute alternatives are never consulted. -/
theorem inline_reads_escape (inp : Array Char) (p : Nat) (c : Char) (n : Nat)
    (h0 : inp[p]? = some '\\') (h1 : inp[p+1]? = some c) (hc : c ≠ '\n') :
    eval aknExec inp (n + 12) (.ref "inline") p = .ok (escNode p) := by
  have hcls : clsMatch true ['\n'] c = true := by simp [clsMatch, hc]
  simp only [eval, evalChoice, evalSeq, lk_inline, lk_nis, lk_escape,
    scan_stops inp p _ _ _ '\\' h0 backslash_not_plain, Nat.lt_irrefl, if_false, litMatch, h0]
  simp [h1, hcls, addLabels, Tree.leaf, Tree.stop, escNode]

/-- At a newline `inline` fails (for all sufficiently large fuel). -/
theorem inline_fails_at_newline (inp : Array Char) (q : Nat) (hq : inp[q]? = some '\n') :
    ∃ n0, ∀ n, n0 ≤ n → eval aknExec inp n (.ref "inline") q = .fail := by
  have hle : q ≤ inp.size := by
    rcases Nat.lt_or_ge q inp.size with h | h
    · omega
    · rw [Array.getElem?_eq_none h] at hq; cases hq
  obtain ⟨n0, h0⟩ := rule_fails_of_cannot_start akn_wf inp 30 "inline_marker" marker_is_rule q hle
    (by rw [hq]; exact marker_not_at_newline)
  refine ⟨n0 + 8, fun n hn => ?_⟩
  obtain ⟨m, rfl⟩ : ∃ m, n = m + 8 := ⟨n - 8, by omega⟩
  have hm := h0 (m + 3) (by omega)
  have hcls : clsMatch true ['\n'] '\n' = false := by decide
  simp only [eval, evalChoice, evalSeq, lk_inline, lk_nis, lk_escape,
    scan_stops inp q _ _ _ '\n' hq newline_not_plain, Nat.lt_irrefl, if_false, litMatch, hq]
  simp only [eval] at hm
  simp [hm, hcls]

/-- the text at `q` reads `\c₁…\cₖ` and then a newline -/
def AtEsc (inp : Array Char) : Nat → List Char → Prop
  | q, [] => inp[q]? = some '\n'
  | q, c :: r => inp[q]? = some '\\' ∧ inp[q+1]? = some c ∧ c ≠ '\n' ∧ AtEsc inp (q + 2) r

def escNodes : Nat → List Char → List Tree
  | _, [] => []
  | q, _ :: r => escNode q :: escNodes (q + 2) r

theorem atEsc_end (inp : Array Char) : ∀ (w : List Char) (q : Nat), AtEsc inp q w → inp[q + 2 * w.length]? = some '\n'
  | [], q, h => by simpa [AtEsc] using h
  | _ :: r, q, h => by
      have := atEsc_end inp r (q + 2) h.2.2.2
      simpa [List.length_cons, Nat.mul_add, Nat.add_assoc, Nat.add_comm 2] using this

/-! ## `eol` at a newline, `!dedent` at a backslash -/

theorem evalRep_min0_ne_fail (g : Grammar) (inp : Array Char) :
    ∀ n e s p acc, evalRep g inp n e s p acc 0 ≠ .fail := by
  intro n
  induction n with
  | zero => intro e s p acc h; simp [evalRep] at h
  | succ n ih =>
    intro e s p acc h
    rw [evalRep] at h
    cases he : eval g inp n e p with
    | oof => simp [he] at h
    | fail => simp [he] at h
    | ok t =>
      simp only [he] at h
      split at h
      · cases h
      · exact ih _ _ _ _ h

theorem eol_at_newline (inp : Array Char) (q : Nat) (hq : inp[q]? = some '\n') :
    ∃ n1, ∀ n, n1 ≤ n → ∃ t, eval aknExec inp n (.ref "eol") q = .ok t := by
  have hle : q ≤ inp.size := by
    rcases Nat.lt_or_ge q inp.size with h | h
    · omega
    · rw [Array.getElem?_eq_none h] at hq; cases hq
  obtain ⟨n1, r, hd, hr⟩ := peg_result_defined (inp := inp) akn_wf "eol" eol_is_rule q hle
  refine ⟨n1 + 8, fun n hn => ?_⟩
  have hn1 := hr n (by omega)
  cases r with
  | ok t => exact ⟨t, hn1⟩
  | oof => exact absurd hd Res.not_done_oof
  | fail =>
    exfalso
    obtain ⟨m, rfl⟩ : ∃ m, n = m + 8 := ⟨n - 8, by omega⟩
    simp only [eval, evalSeq, lk_eol, lk_newline, litMatch, hq] at hn1
    simp only [BEq.rfl, Bool.and_self, if_true, Tree.stop_leaf] at hn1
    cases hrep : evalRep aknExec inp (m + 3) (.ref "empty_line") (q + 1) (q + 1) [] 0 with
    | fail => exact evalRep_min0_ne_fail _ _ _ _ _ _ _ hrep
    | oof => simp [hrep] at hn1
    | ok t => simp [hrep, evalSeq] at hn1

theorem not_dedent_at (inp : Array Char) (p : Nat) (c : Char) (h0 : inp[p]? = some c) (hc : c ≠ Char.ofNat 15) (n : Nat) :
    eval aknExec inp (n + 8) (.notP (.ref "dedent")) p = .ok (Tree.leaf p p) := by
  have : (some c == some (Char.ofNat 15)) = false := by simpa using hc
  simp [eval, evalSeq, lk_dedent, litMatch, h0, this]

/-! ## the theorem -/

/-- **A line of escapes is read as exactly those escapes.** -/
theorem line_of_escapes (inp : Array Char) (p : Nat) (c : Char) (w : List Char) (h : AtEsc inp p (c :: w)) :
    ∃ n0, ∀ n, n0 ≤ n → ∃ te stop,
      eval aknExec inp n (.ref "line") p =
        .ok (.node p stop ["Line"] [("content", 1), ("eol", 2)]
              [Tree.leaf p p, .node p (p + 2 * (c :: w).length) [] [] (escNodes p (c :: w)), te]) := by
  have hend := atEsc_end inp (c :: w) p h
  obtain ⟨nf, hf⟩ := inline_fails_at_newline inp _ hend
  obtain ⟨ne, he⟩ := eol_at_newline inp _ hend
  -- `inline` fails at *every* newline for enough fuel is not needed: only the one after the escapes is reached
  refine ⟨nf + ne + (c :: w).length + 40, fun n hn => ?_⟩
  obtain ⟨m, rfl⟩ : ∃ m, n = m + 12 := ⟨n - 12, by omega⟩
  have hbs : ('\\' : Char) ≠ Char.ofNat 15 := by decide
  have hloop : evalRep aknExec inp (m + 6) (.ref "inline") p p [] 1
      = .ok (.node p (p + 2 * (c :: w).length) [] [] ([].reverse ++ escNodes p (c :: w))) := by
    -- the generic loop lemma wants failure at every newline; restrict it to the position actually reached
    have key : ∀ (w' : List Char) (q start : Nat) (acc : List Tree), AtEsc inp q w' → q + 2 * w'.length = p + 2 * (c :: w).length →
        1 ≤ acc.length + w'.length → ∀ F, w'.length + nf + 20 ≤ F →
        evalRep aknExec inp F (.ref "inline") start q acc 1
          = .ok (.node start (q + 2 * w'.length) [] [] (acc.reverse ++ escNodes q w')) := by
      intro w'
      induction w' with
      | nil =>
        intro q start acc h' hq hlen F hF
        obtain ⟨f, rfl⟩ : ∃ f, F = f + 1 := ⟨F - 1, by omega⟩
        have hq' : q = p + 2 * (c :: w).length := by simpa using hq
        rw [evalRep, hq', hf f (by simp at hF; omega)]
        simp at hlen
        simp [escNodes, hlen]
      | cons c' r ih =>
        intro q start acc h' hq hlen F hF
        obtain ⟨f, rfl⟩ : ∃ f, F = f + 13 := ⟨F - 13, by simp at hF; omega⟩
        rw [show f + 13 = (f + 12) + 1 from rfl, evalRep, inline_reads_escape inp q c' f h'.1 h'.2.1 h'.2.2.1]
        have hs : ¬ (escNode q).stop ≤ q := by simp [escNode, Tree.stop]
        simp only [hs, if_false]
        have := ih (q + 2) start (escNode q :: acc) h'.2.2.2
          (by simp only [List.length_cons] at hq ⊢; omega) (by simp; omega) (f + 12) (by simp at hF ⊢; omega)
        simp only [escNode, Tree.stop] at this ⊢
        rw [this]
        simp [escNodes, escNode, List.length_cons, Nat.mul_add, Nat.add_assoc, Nat.add_comm 2]
    exact key (c :: w) p p [] h rfl (by simp) (m + 6) (by omega)
  obtain ⟨te, hte⟩ := he (m + 6) (by omega)
  refine ⟨te, te.stop, ?_⟩
  have hnd := not_dedent_at inp p '\\' h.1 hbs m
  rw [show m + 12 = (m + 11) + 1 from rfl, eval]
  simp only [lk_line]
  rw [show m + 11 = (m + 10) + 1 from rfl, eval, show m + 10 = (m + 9) + 1 from rfl, eval,
    show m + 9 = (m + 8) + 1 from rfl, evalSeq]
  rw [hnd]
  simp only [Tree.stop_leaf]
  rw [show m + 8 = (m + 7) + 1 from rfl, evalSeq, show m + 7 = (m + 6) + 1 from rfl, eval, hloop]
  simp only [Tree.stop, List.reverse_nil, List.nil_append]
  rw [evalSeq, hte]
  simp only
  rw [show m + 6 = (m + 5) + 1 from rfl, evalSeq]
  simp [addLabels, Tree.addType]
  cases te; rfl
/-! ## what `Line.to_dict` makes of it -/

theorem extract2 (inp : Array Char) (q : Nat) (a b : Char) (h0 : inp[q]? = some a) (h1 : inp[q+1]? = some b) :
    (inp.extract q (q+2)).toList = [a, b] := by
  have hs : q + 1 < inp.size := by
    rcases Nat.lt_or_ge (q+1) inp.size with h | h
    · exact h
    · rw [Array.getElem?_eq_none h] at h1; cases h1
  apply List.ext_getElem?
  intro i
  simp only [Array.getElem?_toList, Array.getElem?_extract]
  rcases i with _ | _ | i
  · simp [h0]; omega
  · simp [h1]; omega
  · simp; omega

theorem kindOf_escNode (q : Nat) : kindOf (escNode q) = "none" := rfl

theorem textOf_escNode (inp : Array Char) (q : Nat) (c : Char) (h0 : inp[q]? = some '\\') (h1 : inp[q+1]? = some c) :
    (escNode q).textOf inp = String.ofList ['\\', c] := by
  unfold Tree.textOf
  simp only [escNode, Tree.start, Tree.stop]
  rw [extract2 inp q _ _ h0 h1]

theorem toList_join_cons (s : String) (l : List String) : (String.join (s :: l)).toList = s.toList ++ (String.join l).toList := by
  simp [String.join_cons]

theorem join_singletons (w : List Char) :
    (String.join (w.map fun c => String.ofList [c])).toList = w := by
  induction w with
  | nil => simp
  | cons c r ih =>
    rw [List.map_cons, toList_join_cons, ih]
    simp

theorem inlineMany_escapes (inp : Array Char) (fuel : Nat) (c : Char) (w : List Char) (q : Nat) (h : AtEsc inp q (c :: w)) :
    inlineMany inp (fuel + 1) (escNodes q (c :: w)) = [Item.text (String.ofList (c :: w))] := by
  have key : ∀ (w : List Char) (q : Nat) (acc : List Item) (pend : List String), AtEsc inp q w →
      (escNodes q w).foldl (fun (st : List Item × List String) (item : Tree) =>
        if kindOf item = "dict" then (flushText st.2 st.1 ++ [toDict inp fuel item], [])
        else
          let s := item.textOf inp
          let s := if s.toList.head? = some '\\' then String.ofList (s.toList.drop 1) else s
          (st.1, st.2 ++ [s])) (acc, pend) = (acc, pend ++ w.map fun c => String.ofList [c]) := by
    intro w
    induction w with
    | nil => intro q acc pend _; simp [escNodes]
    | cons c r ih =>
      intro q acc pend h
      have hne : ¬ (kindOf (escNode q) = "dict") := by rw [kindOf_escNode]; decide
      simp only [escNodes, List.foldl_cons, hne, if_false, textOf_escNode inp q c h.1 h.2.1]
      simp only [String.toList_ofList, List.head?_cons, if_true, List.drop_succ_cons, List.drop_zero]
      rw [ih (q + 2) acc _ h.2.2.2]
      simp
  rw [inlineMany]
  simp only [key (c :: w) q [] [] h]
  simp only [flushText, List.nil_append]
  have hne : ((c :: w).map fun c => String.ofList [c]).isEmpty = false := by simp
  rw [hne]
  simp only [Bool.false_eq_true, if_false, List.singleton_append]
  congr 1
  congr 1
  have := join_singletons (c :: w)
  rw [← String.ofList_toList (s := String.join _), this]

theorem toDict_line (inp : Array Char) (fuel p stop : Nat) (te : Tree) (c : Char) (w : List Char)
    (h : AtEsc inp p (c :: w)) :
    toDict inp (fuel + 2) (.node p stop ["Line"] [("content", 1), ("eol", 2)]
        [Tree.leaf p p, .node p (p + 2 * (c :: w).length) [] [] (escNodes p (c :: w)), te])
      = .node "content" "p" none (some [Item.text (String.ofList (c :: w))]) none none none none none := by
  have h1 : rootTable.lookup "Line" = none := by decide +kernel
  have h2 : mainContentTable.lookup "Line" = none := by decide +kernel
  have h3 : blockIndentTable.lookup "Line" = none := by decide +kernel
  rw [toDict]
  simp only [Tree.lastType, Tree.types, List.getLast?_singleton, h1, h2, h3]
  have hc : (Tree.node p stop ["Line"] [("content", 1), ("eol", 2)]
      [Tree.leaf p p, .node p (p + 2 * (c :: w).length) [] [] (escNodes p (c :: w)), te]).child "content"
      = .node p (p + 2 * (c :: w).length) [] [] (escNodes p (c :: w)) := by
    simp [Tree.child, Tree.child?, Tree.labels, Tree.kids]
  rw [hc]
  simp only [Tree.kids]
  rw [inlineMany_escapes inp fuel c w p h]

end Bluebell
