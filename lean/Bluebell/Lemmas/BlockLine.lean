import Bluebell.Lemmas.AknWF
import Bluebell.Lemmas.PegLim
/-!
# When the block-level rules hand a line to `line`

`blockChoosesLine c`: a decidable check on the regenerated grammar — at a position whose next
character is `c`, in each of the five block-level choices every alternative before the one that leads
to `line` cannot start with `c` (first-character analysis).  Then all of them evaluate to whatever
`line` evaluates to.
-/
namespace Bluebell

def choiceAlts (g : Grammar) (rule : String) : PExps :=
  match g.lookup rule with
  | some (.choice es) => es
  | _ => .nil

def ruleChooses (c : Char) (rule target : String) : Bool :=
  aknExec.lookup rule == some (.choice (choiceAlts aknExec rule)) &&
    firstCandidate aknExec 100 (some c) (choiceAlts aknExec rule) == some target

def blockChoosesLine (c : Char) : Bool :=
  ruleChooses c "block_elements" "line" && ruleChooses c "speech_block_elements" "line" &&
  ruleChooses c "block_element" "block_elements" && ruleChooses c "hier_block_element" "block_element" &&
  ruleChooses c "speech_block_element" "speech_block_elements"

def blockLevelRules : List String :=
  ["line", "block_elements", "block_element", "hier_block_element", "speech_block_elements", "speech_block_element"]

theorem block_rules_follow_line (inp : Array Char) (p : Nat) (c : Char) (hc : inp[p]? = some c)
    (hb : blockChoosesLine c = true) (t : Tree) (hline : Lim aknExec inp (.ref "line") p (.ok t)) :
    ∀ r ∈ blockLevelRules, Lim aknExec inp (.ref r) p (.ok t) := by
  have hp : p ≤ inp.size := by
    rcases Nat.lt_or_ge p inp.size with hlt | hge
    · omega
    · rw [Array.getElem?_eq_none hge] at hc; cases hc
  simp only [blockChoosesLine, ruleChooses, Bool.and_eq_true, beq_iff_eq] at hb
  obtain ⟨⟨⟨⟨hbe, hsbe⟩, hbl⟩, hh⟩, hs⟩ := hb
  have l1 := lim_rule_first_candidate akn_wf 100 p hp "block_elements" "line" _ _ hbe.1 (by rw [hc]; exact hbe.2) hline
  have l2 := lim_rule_first_candidate akn_wf 100 p hp "block_element" "block_elements" _ _ hbl.1 (by rw [hc]; exact hbl.2) l1
  have l3 := lim_rule_first_candidate akn_wf 100 p hp "hier_block_element" "block_element" _ _ hh.1 (by rw [hc]; exact hh.2) l2
  have l4 := lim_rule_first_candidate akn_wf 100 p hp "speech_block_elements" "line" _ _ hsbe.1 (by rw [hc]; exact hsbe.2) hline
  have l5 := lim_rule_first_candidate akn_wf 100 p hp "speech_block_element" "speech_block_elements" _ _ hs.1 (by rw [hc]; exact hs.2) l4
  intro r hr
  simp only [blockLevelRules, List.mem_cons, List.mem_nil_iff, or_false] at hr
  rcases hr with rfl | rfl | rfl | rfl | rfl | rfl
  · exact hline
  · exact l1
  · exact l2
  · exact l3
  · exact l4
  · exact l5

end Bluebell
