import Bluebell.PreParse
import Bluebell.Lemmas.Lines
/-! Token-level view of `pre_parse` and its invariants. -/
namespace Bluebell

/-- Output of the indentation pass as a list of lines: a marker alone on its line, or a content line. -/
inductive Tok where
  | ind
  | ded
  | line (l : List Char)
deriving Repr, DecidableEq

def Tok.chars : Tok → List Char
  | .ind => [indentChar]
  | .ded => [dedentChar]
  | .line l => l

/-- every token followed by a newline -/
def unlines : List Tok → List Char
  | [] => []
  | t :: ts => t.chars ++ '\n' :: unlines ts

theorem unlines_append (a b : List Tok) : unlines (a ++ b) = unlines a ++ unlines b := by
  induction a with
  | nil => rfl
  | cons t ts ih => simp [unlines, ih]

def Prefix.toks : Prefix → List Tok
  | .same => []
  | .indent => [.ind]
  | .dedent k => List.replicate k .ded

theorem unlines_replicate_ded (k : Nat) :
    unlines (List.replicate k .ded) = (List.replicate k [dedentChar, '\n']).flatten := by
  induction k with
  | zero => rfl
  | succ k ih => simp [List.replicate_succ, unlines, Tok.chars, ih]

theorem Prefix.render_eq (p : Prefix) : p.render = unlines p.toks := by
  cases p with
  | same => rfl
  | indent => rfl
  | dedent k => simp [Prefix.render, Prefix.toks, unlines_replicate_ded]

/-- The indentation pass, producing tokens. -/
def passT : List (List Char) → List Int → List Tok × List Int
  | [], st => ([], st)
  | l :: ls, st =>
    if l = [] then
      let r := passT ls st
      (.line [] :: r.1, r.2)
    else
      let k := leadingSpaces l
      let h := handleIndent k st
      let r := passT ls h.1
      (h.2.toks ++ .line (l.drop k) :: r.1, r.2)

theorem indentPass_eq (ls : List (List Char)) (st : List Int) :
    indentPass ls st = (unlines (passT ls st).1, (passT ls st).2) := by
  induction ls generalizing st with
  | nil => rfl
  | cons l ls ih =>
    unfold indentPass passT
    by_cases h : l = []
    · simp [h, ih, unlines, Tok.chars]
    · simp [h, ih, unlines, unlines_append, Tok.chars, Prefix.render_eq]

/-- content lines of a token list -/
def contentLines : List Tok → List (List Char)
  | [] => []
  | .line l :: ts => l :: contentLines ts
  | _ :: ts => contentLines ts

theorem contentLines_append (a b : List Tok) : contentLines (a ++ b) = contentLines a ++ contentLines b := by
  induction a with
  | nil => rfl
  | cons t ts ih => cases t <;> simp [contentLines, ih]

theorem contentLines_prefix (p : Prefix) : contentLines p.toks = [] := by
  cases p with
  | same => rfl
  | indent => rfl
  | dedent k =>
    induction k with
    | zero => rfl
    | succ k ih => simpa [Prefix.toks, List.replicate_succ, contentLines] using ih

/-- The stack invariant: strictly decreasing from the top, ending in `0, -1`. -/
def StackInv (st : List Int) : Prop :=
  ∃ pre, st = pre ++ [0, -1] ∧ st.Pairwise (· > ·)

theorem StackInv.base : StackInv [0, -1] := ⟨[], rfl, by simp⟩

/-- marker depth bookkeeping: `none` if a dedent closes more than is open -/
def finalDepth : Nat → List Tok → Option Nat
  | d, [] => some d
  | d, .ind :: ts => finalDepth (d + 1) ts
  | d, .ded :: ts => if d = 0 then none else finalDepth (d - 1) ts
  | d, .line _ :: ts => finalDepth d ts

theorem finalDepth_append (d : Nat) (a b : List Tok) :
    finalDepth d (a ++ b) = (finalDepth d a).bind (fun d' => finalDepth d' b) := by
  induction a generalizing d with
  | nil => rfl
  | cons t ts ih =>
    cases t with
    | ind => simp [finalDepth, ih]
    | ded => simp only [List.cons_append, finalDepth]; split <;> simp [ih]
    | line l => simp [finalDepth, ih]

theorem finalDepth_replicate_ded (d k : Nat) (h : k ≤ d) :
    finalDepth d (List.replicate k .ded) = some (d - k) := by
  induction k generalizing d with
  | zero => rfl
  | succ k ih =>
    have hd : d ≠ 0 := by omega
    simp only [List.replicate_succ, finalDepth, hd, if_false]
    rw [ih (d - 1) (by omega)]
    congr 1; omega

end Bluebell

namespace Bluebell

theorem StackInv.length_ge {st : List Int} (h : StackInv st) : 2 ≤ st.length := by
  obtain ⟨pre, rfl, _⟩ := h; simp

theorem StackInv.tail_of_pos {t : Int} {r : List Int} (h : StackInv (t :: r)) (ht : 0 < t) : StackInv r := by
  obtain ⟨pre, he, hp⟩ := h
  cases pre with
  | nil => simp at he; omega
  | cons a pre =>
    simp only [List.cons_append, List.cons.injEq] at he
    exact ⟨pre, he.2, (List.pairwise_cons.mp hp).2⟩

theorem StackInv.push {st : List Int} {lvl : Int} (h : StackInv st) (hl : ∀ x ∈ st, lvl > x) : StackInv (lvl :: st) := by
  obtain ⟨pre, he, hp⟩ := h
  exact ⟨lvl :: pre, by simp [he], List.pairwise_cons.mpr ⟨hl, hp⟩⟩

theorem StackInv.head_gt {t : Int} {r : List Int} (h : StackInv (t :: r)) : ∀ x ∈ r, t > x :=
  (List.pairwise_cons.mp h.choose_spec.2).1

/-- Everything on an invariant stack is `≥ -1`, and the top is `≥ 0`. -/
theorem StackInv.top_nonneg {t : Int} {r : List Int} (h : StackInv (t :: r)) : 0 ≤ t := by
  obtain ⟨pre, he, hp⟩ := h
  cases pre with
  | nil => simp at he; omega
  | cons a pre =>
    simp only [List.cons_append, List.cons.injEq] at he
    have : (0 : Int) ∈ r := by rw [he.2]; simp
    have := (List.pairwise_cons.mp hp).1 0 this
    omega

theorem popLoop_spec (lvl : Int) (hl : 0 ≤ lvl) :
    ∀ (st : List Int) (k : Nat), StackInv st →
      StackInv (popLoop lvl st k).1 ∧
      (popLoop lvl st k).2 + (popLoop lvl st k).1.length = k + 1 + st.length ∧
      (∀ t r, (popLoop lvl st k).1 = t :: r → lvl ≥ t) := by
  intro st
  induction st with
  | nil => intro k h; exact absurd h.length_ge (by simp)
  | cons t r ih =>
    intro k h
    unfold popLoop
    by_cases hge : lvl ≥ t
    · simp only [hge, if_true]
      refine ⟨h, by simp, ?_⟩
      intro t' r' he
      simp only [List.cons.injEq] at he
      omega
    · simp only [hge, if_false]
      have ht : 0 < t := by omega
      obtain ⟨h1, h2, h3⟩ := ih (k + 1) (h.tail_of_pos ht)
      exact ⟨h1, by simp only [List.length_cons]; omega, h3⟩

/-- number of INDENT minus DEDENT tokens, as the effect on the depth -/
theorem handleIndent_spec (lvl : Int) (hl : 0 ≤ lvl) (st : List Int) (h : StackInv st) :
    StackInv (handleIndent lvl st).1 ∧
    finalDepth (st.length - 2) (handleIndent lvl st).2.toks = some ((handleIndent lvl st).1.length - 2) := by
  have hlen := h.length_ge
  match st, h with
  | t :: r, h =>
    unfold handleIndent
    by_cases h1 : lvl = t
    · simp only [h1, if_true]
      exact ⟨h, rfl⟩
    · simp only [h1, if_false]
      by_cases h2 : lvl > t
      · simp only [h2, if_true]
        refine ⟨h.push ?_, ?_⟩
        · intro x hx
          cases hx with
          | head => exact h2
          | tail _ hx => have := h.head_gt x hx; omega
        · simp only [Prefix.toks, finalDepth, List.length_cons] at hlen ⊢
          congr 1; omega
      · simp only [h2, if_false]
        have ht : 0 < t := by omega
        have hr := h.tail_of_pos ht
        match r, hr with
        | t2 :: r2, hr =>
          by_cases h3 : lvl > t2
          · simp only [h3, if_true]
            refine ⟨hr.push ?_, ?_⟩
            · intro x hx
              cases hx with
              | head => exact h3
              | tail _ hx => have := hr.head_gt x hx; omega
            · simp [Prefix.toks, finalDepth]
          · simp only [h3, if_false]
            obtain ⟨p1, p2, _⟩ := popLoop_spec lvl hl (t2 :: r2) 0 hr
            refine ⟨p1, ?_⟩
            have hl1 := p1.length_ge
            simp only [Prefix.toks]
            rw [finalDepth_replicate_ded _ _ (by simp only [List.length_cons] at *; omega)]
            congr 1
            simp only [List.length_cons] at *
            omega

end Bluebell

namespace Bluebell

/-- every INDENT token is immediately followed by a non-blank content line -/
def indOk : List Tok → Prop
  | [] => True
  | [.ind] => False
  | .ind :: .line l :: ts => l ≠ [] ∧ indOk (.line l :: ts)
  | .ind :: _ :: _ => False
  | _ :: ts => indOk ts

theorem indOk_ded_append (k : Nat) (ts : List Tok) (h : indOk ts) : indOk (List.replicate k .ded ++ ts) := by
  induction k with
  | zero => simpa
  | succ k ih => simpa [List.replicate_succ, indOk] using ih

theorem indOk_line_cons (l : List Char) (ts : List Tok) : indOk (.line l :: ts) ↔ indOk ts := by
  simp [indOk]

theorem indOk_append_ded (ts : List Tok) (k : Nat) (h : indOk ts) (hl : ts.getLast? ≠ some .ind) :
    indOk (ts ++ List.replicate k .ded) := by
  induction ts with
  | nil => simpa using indOk_ded_append k [] trivial
  | cons t ts ih =>
    cases t with
    | ded =>
      have : indOk ts := by simpa [indOk] using h
      have hl' : ts.getLast? ≠ some .ind := by
        cases ts with
        | nil => simp
        | cons a as => simpa [List.getLast?_cons_cons] using hl
      simpa [indOk] using ih this hl'
    | line l =>
      have : indOk ts := by simpa [indOk] using h
      have hl' : ts.getLast? ≠ some .ind := by
        cases ts with
        | nil => simp
        | cons a as => simpa [List.getLast?_cons_cons] using hl
      simpa [indOk] using ih this hl'
    | ind =>
      match ts, h, hl, ih with
      | [], h, _, _ => exact absurd h (by simp [indOk])
      | .line l :: ts', h, hl, ih =>
        have h' : l ≠ [] ∧ indOk (.line l :: ts') := by simpa [indOk] using h
        have hl' : (Tok.line l :: ts').getLast? ≠ some .ind := by
          simpa [List.getLast?_cons_cons] using hl
        have := ih h'.2 hl'
        simp only [List.cons_append] at this ⊢
        exact ⟨h'.1, this⟩
      | .ind :: ts', h, _, _ => exact absurd h (by simp [indOk])
      | .ded :: ts', h, _, _ => exact absurd h (by simp [indOk])

theorem drop_leadingSpaces (l : List Char) : l.drop (leadingSpaces l) = l.dropWhile (· = ' ') := by
  unfold leadingSpaces
  induction l with
  | nil => rfl
  | cons c cs ih =>
    by_cases h : c = ' '
    · simp [List.takeWhile, List.dropWhile, h, ih]
    · simp [List.takeWhile, List.dropWhile, h]

theorem leadingSpaces_lt {l : List Char} (hne : l ≠ []) (hlast : l.getLast? ≠ some ' ') :
    l.drop (leadingSpaces l) ≠ [] := by
  rw [drop_leadingSpaces]
  intro h
  have hm := List.getLast_mem hne
  have := all_of_dropWhile_nil h _ hm
  simp only [decide_eq_true_eq] at this
  apply hlast
  rw [List.getLast?_eq_some_getLast hne, this]

end Bluebell

namespace Bluebell

theorem getLast?_line_cons_ne_ind (l : List Char) (ts : List Tok) (h : ts.getLast? ≠ some .ind) :
    (Tok.line l :: ts).getLast? ≠ some .ind := by
  cases ts with
  | nil => simp
  | cons a as => simpa [List.getLast?_cons_cons] using h

theorem getLast?_append_cons (a : List Tok) (b : Tok) (c : List Tok) :
    (a ++ b :: c).getLast? = (b :: c).getLast? := by
  induction a with
  | nil => rfl
  | cons x xs ih =>
    cases hxs : xs ++ b :: c with
    | nil => simp at hxs
    | cons y ys => rw [List.cons_append, hxs, List.getLast?_cons_cons, ← hxs, ih]

theorem indOk_prefix_line (p : Prefix) (x : List Char) (ts : List Tok) (hx : x ≠ []) (h : indOk ts) :
    indOk (p.toks ++ .line x :: ts) := by
  cases p with
  | same => simpa [Prefix.toks, indOk] using h
  | indent => simpa [Prefix.toks, indOk] using ⟨hx, h⟩
  | dedent k => exact indOk_ded_append k _ (by simpa [indOk] using h)

/-- The indentation pass preserves the stack invariant, keeps the markers balanced relative to the
stack depth, keeps every line (trimmed of leading spaces) in order, and never opens an empty block. -/
theorem passT_spec : ∀ (ls : List (List Char)) (st : List Int), StackInv st →
    (∀ l ∈ ls, l.getLast? ≠ some ' ') →
    StackInv (passT ls st).2 ∧
    finalDepth (st.length - 2) (passT ls st).1 = some ((passT ls st).2.length - 2) ∧
    contentLines (passT ls st).1 = ls.map (fun l => l.dropWhile (· = ' ')) ∧
    indOk (passT ls st).1 ∧ (passT ls st).1.getLast? ≠ some .ind := by
  intro ls
  induction ls with
  | nil => intro st h _; exact ⟨h, rfl, rfl, trivial, by simp [passT]⟩
  | cons l ls ih =>
    intro st h hc
    have hc' : ∀ l' ∈ ls, l'.getLast? ≠ some ' ' := fun l' hl' => hc l' (List.mem_cons_of_mem _ hl')
    unfold passT
    by_cases hl : l = []
    · obtain ⟨a, b, c, d, e⟩ := ih st h hc'
      simp only [hl, if_true]
      refine ⟨a, by simpa [finalDepth] using b, by simp [contentLines, c], by simpa [indOk] using d,
        getLast?_line_cons_ne_ind _ _ e⟩
    · simp only [hl, if_false]
      obtain ⟨s1, s2⟩ := handleIndent_spec (leadingSpaces l) (by omega) st h
      obtain ⟨a, b, c, d, e⟩ := ih _ s1 hc'
      have hx : l.drop (leadingSpaces l) ≠ [] := leadingSpaces_lt hl (hc l (List.mem_cons_self ..))
      refine ⟨a, ?_, ?_, indOk_prefix_line _ _ _ hx d, ?_⟩
      · rw [finalDepth_append, s2]
        simpa [finalDepth] using b
      · rw [contentLines_append, contentLines_prefix]
        simp [contentLines, c, drop_leadingSpaces]
      · rw [getLast?_append_cons]
        exact getLast?_line_cons_ne_ind _ _ e

end Bluebell

namespace Bluebell

def rstripSpaces (l : List Char) : List Char := dropTrailing (· = ' ') l

/-- a line trimmed of spaces at both ends -/
def trimSpaces (l : List Char) : List Char := (rstripSpaces l).dropWhile (· = ' ')

/-- tokens of the result for a non-blank text whose normalised lines are `l0 :: rest` -/
def midToks (l0 : List Char) (rest : List (List Char)) : List Tok :=
  let r := passT rest [0, -1]
  .line l0 :: r.1 ++ List.replicate (r.2.length - 2) .ded

theorem dropLast_dropLast_append_two (xs : List Char) (a b : Char) :
    (xs ++ [a, b]).dropLast.dropLast = xs := by
  have : xs ++ [a, b] = (xs ++ [a]) ++ [b] := by simp
  rw [this, List.dropLast_concat, List.dropLast_concat]

theorem leadingSpaces_zero {l : List Char} (h : l.head? ≠ some ' ') : leadingSpaces l = 0 := by
  unfold leadingSpaces
  cases l with
  | nil => rfl
  | cons c cs =>
    have : c ≠ ' ' := by simpa using h
    simp [List.takeWhile, this]

/-- The literal `text[2:-2]` drops exactly the outer INDENT line and the last DEDENT line. -/
theorem preParse_tail_eq (l0 : List Char) (rest : List (List Char)) (h0 : l0 ≠ [])
    (hh : l0.head? ≠ some ' ') (hc : ∀ l ∈ rest, l.getLast? ≠ some ' ') :
    (let p := indentPass (l0 :: rest) [-1]
     ((p.1 ++ (List.replicate (p.2.length - 1) [dedentChar, '\n']).flatten).drop 2).dropLast.dropLast)
      = unlines (midToks l0 rest) := by
  have hk : leadingSpaces l0 = 0 := leadingSpaces_zero hh
  obtain ⟨sinv, _, _, _, _⟩ := passT_spec rest [0, -1] StackInv.base hc
  have hlen := sinv.length_ge
  simp only [indentPass_eq]
  have hp : passT (l0 :: rest) [-1] =
      (.ind :: .line l0 :: (passT rest [0, -1]).1, (passT rest [0, -1]).2) := by
    simp [passT, h0, hk, handleIndent, Prefix.toks]
  rw [hp]
  simp only [midToks]
  obtain ⟨m, hm⟩ : ∃ m, (passT rest [0, -1]).2.length = m + 2 := ⟨(passT rest [0, -1]).2.length - 2, by omega⟩
  rw [hm]
  have e1 : m + 2 - 1 = m + 1 := by omega
  have e2 : m + 2 - 2 = m := by omega
  rw [e1, e2, ← unlines_replicate_ded, List.replicate_succ']
  simp only [unlines, Tok.chars, List.cons_append, List.nil_append, List.drop_succ_cons, List.drop_zero]
  rw [unlines_append, unlines_append]
  simp only [unlines, Tok.chars, List.cons_append, List.nil_append]
  have : ∀ (A B C : List Char), (l0 ++ '\n' :: A ++ (B ++ [dedentChar, '\n'])) = (l0 ++ '\n' :: (A ++ B)) ++ [dedentChar, '\n'] := by
    intro A B C; simp
  rw [this _ _ [], dropLast_dropLast_append_two]

end Bluebell

namespace Bluebell

theorem isPySpace_nl : isPySpace '\n' = true := by decide
theorem isPySpace_space : isPySpace ' ' = true := by decide

theorem rstrip_getLast (l : List Char) : (rstripSpaces l).getLast? ≠ some ' ' := by
  intro h
  have := dropTrailing_getLast (· = ' ') l ' ' h
  simp at this

/-- Normalised lines of a text whose stripped form `x` is not empty. -/
theorem normLines_eq (x : List Char) (hx : x ≠ [])
    (hhead : ∃ c, x.head? = some c ∧ isPySpace c = false)
    (hlast : ∃ c, x.getLast? = some c ∧ isPySpace c = false) :
    linesOf (ensureFinalNewline (stripTrailingSpaces x)) = (splitLines x).map rstripSpaces ∧
    ∃ l0 rest, (splitLines x).map rstripSpaces = l0 :: rest ∧ l0 ≠ [] ∧ l0.head? ≠ some ' ' := by
  obtain ⟨cl, hcl, hcls⟩ := hlast
  have hcl_nl : cl ≠ '\n' := by intro e; rw [e, isPySpace_nl] at hcls; exact absurd hcls (by decide)
  have hcl_sp : cl ≠ ' ' := by intro e; rw [e, isPySpace_space] at hcls; exact absurd hcls (by decide)
  -- x = x0 ++ [cl]
  obtain ⟨x0, hx0⟩ : ∃ x0, x = x0 ++ [cl] := by
    refine ⟨x.dropLast, ?_⟩
    have := List.dropLast_concat_getLast hx
    rw [List.getLast?_eq_some_getLast hx] at hcl
    simp only [Option.some.injEq] at hcl
    rw [hcl] at this; exact this.symm
  obtain ⟨init, last, hs1, hs2⟩ := splitLines_snoc_other x0 cl hcl_nl
  have hM : (splitLines x).map rstripSpaces = init.map rstripSpaces ++ [last ++ [cl]] := by
    rw [hx0, hs2, List.map_append]
    simp only [List.map_cons, List.map_nil]
    congr 2
    exact dropTrailing_of_last_not _ _ cl (by simp) (by simpa using hcl_sp)
  have hnonl : ∀ l ∈ (splitLines x).map rstripSpaces, '\n' ∉ l := by
    intro l hl
    obtain ⟨l', hl', rfl⟩ := List.mem_map.mp hl
    intro hm
    exact splitLines_no_nl x l' hl' (dropTrailing_sublist _ _ _ hm)
  have hne : (splitLines x).map rstripSpaces ≠ [] := by
    simpa using splitLines_ne_nil x
  constructor
  · unfold linesOf ensureFinalNewline stripTrailingSpaces
    have hlast' : (joinLines ((splitLines x).map (dropTrailing (· = ' ')))).getLast? = some cl := by
      have : (splitLines x).map (dropTrailing (· = ' ')) = (splitLines x).map rstripSpaces := rfl
      rw [this, hM]
      exact joinLines_snoc_getLast _ _ cl (by simp)
    rw [hlast']
    have : (some cl = some '\n') = False := by simp [hcl_nl]
    simp only [this, if_false]
    rw [splitLines_snoc_nl, List.dropLast_concat]
    exact splitLines_joinLines _ hne hnonl
  · obtain ⟨ch, hch, hchs⟩ := hhead
    have hch_nl : ch ≠ '\n' := by intro e; rw [e, isPySpace_nl] at hchs; exact absurd hchs (by decide)
    have hch_sp : ch ≠ ' ' := by intro e; rw [e, isPySpace_space] at hchs; exact absurd hchs (by decide)
    cases x with
    | nil => exact absurd rfl hx
    | cons c cs =>
      simp only [List.head?_cons, Option.some.injEq] at hch
      subst hch
      obtain ⟨l, ls, _, h2⟩ := splitLines_cons_other c cs hch_nl
      rw [h2]
      refine ⟨rstripSpaces (c :: l), ls.map rstripSpaces, rfl, ?_, ?_⟩
      · exact dropTrailing_ne_nil_of_mem _ _ c (List.mem_cons_self ..) (by simpa using hch_sp)
      · unfold rstripSpaces
        rw [dropTrailing_head_of_ne_nil _ _ (dropTrailing_ne_nil_of_mem _ _ c (List.mem_cons_self ..) (by simpa using hch_sp))]
        simpa using hch_sp

end Bluebell
