import Bluebell.PreParse
/-! Character-level lemmas: `splitLines`, `joinLines`, `dropTrailing`, `detab`, `pyStrip`. -/
namespace Bluebell

theorem all_of_dropWhile_nil {p : Char → Bool} : ∀ {l : List Char}, l.dropWhile p = [] → ∀ x ∈ l, p x = true := by
  intro l
  induction l with
  | nil => intro _ x hx; cases hx
  | cons c cs ih =>
    intro h x hx
    by_cases hc : p c = true
    · simp only [List.dropWhile, hc] at h
      cases hx with
      | head => exact hc
      | tail _ hx => exact ih h x hx
    · simp [List.dropWhile, hc] at h


theorem splitLines_ne_nil (s : List Char) : splitLines s ≠ [] := by
  induction s with
  | nil => simp [splitLines]
  | cons c cs ih =>
    unfold splitLines
    by_cases h : c = '\n'
    · simp [h]
    · simp only [h, if_false]
      cases hs : splitLines cs with
      | nil => exact absurd hs ih
      | cons l ls => simp

theorem splitLines_cons_nl (cs : List Char) : splitLines ('\n' :: cs) = [] :: splitLines cs := by
  simp [splitLines]

theorem splitLines_cons_other (c : Char) (cs : List Char) (h : c ≠ '\n') :
    ∃ l ls, splitLines cs = l :: ls ∧ splitLines (c :: cs) = (c :: l) :: ls := by
  cases hs : splitLines cs with
  | nil => exact absurd hs (splitLines_ne_nil cs)
  | cons l ls => exact ⟨l, ls, rfl, by simp [splitLines, h, hs]⟩

/-- no line produced by `splitLines` contains a newline -/
theorem splitLines_no_nl (s : List Char) : ∀ l ∈ splitLines s, '\n' ∉ l := by
  induction s with
  | nil => intro l hl; simp [splitLines] at hl; simp [hl]
  | cons c cs ih =>
    by_cases h : c = '\n'
    · subst h
      rw [splitLines_cons_nl]
      intro l hl
      cases hl with
      | head => simp
      | tail _ hl => exact ih l hl
    · obtain ⟨l0, ls, h1, h2⟩ := splitLines_cons_other c cs h
      rw [h2]
      intro l hl
      rw [h1] at ih
      cases hl with
      | head =>
        intro hm
        cases hm with
        | head => exact h rfl
        | tail _ hm => exact ih l0 (List.mem_cons_self ..) hm
      | tail _ hl => exact ih l (List.mem_cons_of_mem _ hl)

/-- characters of the pieces come from the string -/
theorem splitLines_mem (s : List Char) : ∀ l ∈ splitLines s, ∀ c ∈ l, c ∈ s := by
  induction s with
  | nil => intro l hl c hc; simp [splitLines] at hl; subst hl; cases hc
  | cons c cs ih =>
    by_cases h : c = '\n'
    · subst h
      rw [splitLines_cons_nl]
      intro l hl x hx
      cases hl with
      | head => cases hx
      | tail _ hl => exact List.mem_cons_of_mem _ (ih l hl x hx)
    · obtain ⟨l0, ls, h1, h2⟩ := splitLines_cons_other c cs h
      rw [h2]
      rw [h1] at ih
      intro l hl x hx
      cases hl with
      | head =>
        cases hx with
        | head => exact List.mem_cons_self ..
        | tail _ hx => exact List.mem_cons_of_mem _ (ih l0 (List.mem_cons_self ..) x hx)
      | tail _ hl => exact List.mem_cons_of_mem _ (ih l (List.mem_cons_of_mem _ hl) x hx)

theorem splitLines_no_nl_self (l : List Char) (h : '\n' ∉ l) : splitLines l = [l] := by
  induction l with
  | nil => rfl
  | cons c cs ih =>
    have hc : c ≠ '\n' := fun e => h (e ▸ List.mem_cons_self ..)
    have hcs : '\n' ∉ cs := fun e => h (List.mem_cons_of_mem _ e)
    simp [splitLines, hc, ih hcs]

theorem splitLines_append_nl (l rest : List Char) (h : '\n' ∉ l) :
    splitLines (l ++ '\n' :: rest) = l :: splitLines rest := by
  induction l with
  | nil => simp [splitLines]
  | cons c cs ih =>
    have hc : c ≠ '\n' := fun e => h (e ▸ List.mem_cons_self ..)
    have hcs : '\n' ∉ cs := fun e => h (List.mem_cons_of_mem _ e)
    simp [splitLines, hc, ih hcs]

/-- `split` after `join` is the identity on non-empty lists of newline-free lines -/
theorem splitLines_joinLines : ∀ (ls : List (List Char)), ls ≠ [] → (∀ l ∈ ls, '\n' ∉ l) →
    splitLines (joinLines ls) = ls := by
  intro ls
  induction ls with
  | nil => intro h; exact absurd rfl h
  | cons l ls ih =>
    intro _ hn
    cases ls with
    | nil => simpa [joinLines] using splitLines_no_nl_self l (hn l (List.mem_cons_self ..))
    | cons l2 ls2 =>
      have := ih (by simp) (fun x hx => hn x (List.mem_cons_of_mem _ hx))
      simp only [joinLines]
      rw [splitLines_append_nl l _ (hn l (List.mem_cons_self ..)), this]

theorem joinLines_splitLines (s : List Char) : joinLines (splitLines s) = s := by
  induction s with
  | nil => rfl
  | cons c cs ih =>
    by_cases h : c = '\n'
    · subst h
      rw [splitLines_cons_nl]
      cases hs : splitLines cs with
      | nil => exact absurd hs (splitLines_ne_nil cs)
      | cons l ls => rw [hs] at ih; simp [joinLines, ih]
    · obtain ⟨l0, ls, h1, h2⟩ := splitLines_cons_other c cs h
      rw [h2]
      rw [h1] at ih
      cases ls with
      | nil => simpa [joinLines] using ih
      | cons l2 ls2 => simp only [joinLines] at ih ⊢; simp [ih]

theorem splitLines_snoc_nl (s : List Char) : splitLines (s ++ ['\n']) = splitLines s ++ [[]] := by
  induction s with
  | nil => simp [splitLines]
  | cons c cs ih =>
    by_cases h : c = '\n'
    · subst h; simp [splitLines_cons_nl, ih]
    · obtain ⟨l0, ls, h1, h2⟩ := splitLines_cons_other c cs h
      rw [h2]
      have : splitLines (c :: (cs ++ ['\n'])) = (c :: l0) :: (ls ++ [[]]) := by
        have e : splitLines (cs ++ ['\n']) = l0 :: (ls ++ [[]]) := by rw [ih, h1]; rfl
        simp [splitLines, h, e]
      simpa using this

/-! ### dropTrailing -/

theorem dropTrailing_sublist (p : Char → Bool) (s : List Char) : ∀ c ∈ dropTrailing p s, c ∈ s := by
  intro c hc
  unfold dropTrailing at hc
  have := List.mem_reverse.mp hc
  exact List.mem_reverse.mp ((List.dropWhile_sublist _).subset this)

theorem dropTrailing_getLast (p : Char → Bool) (s : List Char) :
    ∀ c, (dropTrailing p s).getLast? = some c → p c = false := by
  intro c hc
  unfold dropTrailing at hc
  rw [List.getLast?_reverse] at hc
  cases hd : s.reverse.dropWhile p with
  | nil => rw [hd] at hc; simp at hc
  | cons a as =>
    rw [hd] at hc
    simp only [List.head?_cons, Option.some.injEq] at hc
    subst hc
    have := List.head_dropWhile_not p (l := s.reverse) (by rw [hd]; simp)
    simpa [hd] using this

theorem dropTrailing_of_last_not (p : Char → Bool) (s : List Char) (c : Char)
    (h : s.getLast? = some c) (hp : p c = false) : dropTrailing p s = s := by
  unfold dropTrailing
  have : s.reverse.head? = some c := by rw [List.head?_reverse]; exact h
  cases hr : s.reverse with
  | nil => simp [hr] at this
  | cons a as =>
    rw [hr] at this
    simp only [List.head?_cons, Option.some.injEq] at this
    subst this
    simp only [List.dropWhile, hp]
    rw [← hr, List.reverse_reverse]

theorem dropTrailing_head (p : Char → Bool) (s : List Char) (c : Char)
    (h : s.getLast? = some c) (hp : p c = false) : (dropTrailing p s).head? = s.head? := by
  rw [dropTrailing_of_last_not p s c h hp]

end Bluebell

namespace Bluebell

theorem dropTrailing_prefix (p : Char → Bool) (y : List Char) : ∃ t, y = dropTrailing p y ++ t := by
  refine ⟨(y.reverse.takeWhile p).reverse, ?_⟩
  unfold dropTrailing
  rw [← List.reverse_append, List.takeWhile_append_dropWhile, List.reverse_reverse]

theorem dropTrailing_head_of_ne_nil (p : Char → Bool) (y : List Char) (h : dropTrailing p y ≠ []) :
    (dropTrailing p y).head? = y.head? := by
  obtain ⟨t, ht⟩ := dropTrailing_prefix p y
  cases hd : dropTrailing p y with
  | nil => exact absurd hd h
  | cons a as => rw [hd] at ht; rw [ht]; rfl

theorem detab_no_tab (n : Nat) (s : List Char) : '\t' ∉ detab n s := by
  induction s with
  | nil => simp [detab]
  | cons c cs ih =>
    unfold detab
    by_cases h : c = '\t'
    · simp only [h, if_true, List.mem_append, not_or]
      refine ⟨?_, ih⟩
      intro hm
      have := List.eq_of_mem_replicate hm
      exact absurd this (by decide)
    · simp only [h, if_false, List.mem_cons, not_or]
      exact ⟨fun e => h e.symm, ih⟩

theorem detab_mem (n : Nat) (s : List Char) : ∀ c ∈ detab n s, c ∈ s ∨ c = ' ' := by
  induction s with
  | nil => intro c hc; simp [detab] at hc
  | cons a as ih =>
    intro c hc
    unfold detab at hc
    by_cases h : a = '\t'
    · simp only [h, if_true, List.mem_append] at hc
      rcases hc with hc | hc
      · right; exact List.eq_of_mem_replicate hc
      · rcases ih c hc with h1 | h1
        · left; exact List.mem_cons_of_mem _ h1
        · right; exact h1
    · simp only [h, if_false, List.mem_cons] at hc
      rcases hc with hc | hc
      · left; rw [hc]; exact List.mem_cons_self ..
      · rcases ih c hc with h1 | h1
        · left; exact List.mem_cons_of_mem _ h1
        · right; exact h1

theorem pyStrip_mem (x : List Char) : ∀ c ∈ pyStrip x, c ∈ x := by
  intro c hc
  unfold pyStrip at hc
  exact (List.dropWhile_sublist _).subset (dropTrailing_sublist _ _ c hc)

theorem pyStrip_head (x : List Char) (h : pyStrip x ≠ []) :
    ∃ c, (pyStrip x).head? = some c ∧ isPySpace c = false := by
  unfold pyStrip at h ⊢
  rw [dropTrailing_head_of_ne_nil _ _ h]
  cases hy : x.dropWhile isPySpace with
  | nil => rw [hy] at h; simp [dropTrailing] at h
  | cons a as =>
    refine ⟨a, rfl, ?_⟩
    have := List.head_dropWhile_not isPySpace (l := x) (by rw [hy]; simp)
    simpa [hy] using this

theorem pyStrip_last (x : List Char) (h : pyStrip x ≠ []) :
    ∃ c, (pyStrip x).getLast? = some c ∧ isPySpace c = false := by
  cases hl : (pyStrip x).getLast? with
  | none => exact absurd (List.getLast?_eq_none_iff.mp hl) h
  | some c => exact ⟨c, rfl, dropTrailing_getLast _ _ c hl⟩

end Bluebell

namespace Bluebell

theorem dropTrailing_ne_nil_of_mem (p : Char → Bool) (y : List Char) (c : Char) (hc : c ∈ y) (hp : p c = false) :
    dropTrailing p y ≠ [] := by
  intro h
  unfold dropTrailing at h
  have h' : y.reverse.dropWhile p = [] := by simpa using h
  have := all_of_dropWhile_nil h' c (List.mem_reverse.mpr hc)
  rw [hp] at this; exact absurd this (by decide)

theorem getLast?_dropWhile (p : Char → Bool) : ∀ (l : List Char) (c : Char),
    (l.dropWhile p).getLast? = some c → l.getLast? = some c := by
  intro l
  induction l with
  | nil => intro c h; simp at h
  | cons a as ih =>
    intro c h
    by_cases ha : p a = true
    · simp only [List.dropWhile, ha] at h
      have := ih c h
      cases as with
      | nil => simp at this
      | cons b bs => rw [List.getLast?_cons_cons]; exact this
    · simp only [List.dropWhile, ha] at h
      exact h

theorem head?_dropWhile_ne (p : Char → Bool) (l : List Char) (c : Char) (hp : p c = true) :
    (l.dropWhile p).head? ≠ some c := by
  intro h
  have := List.head?_dropWhile_not p l
  rw [h] at this
  simp at this
  rw [hp] at this; exact absurd this (by decide)

theorem splitLines_snoc_other (s : List Char) (c : Char) (hc : c ≠ '\n') :
    ∃ init last, splitLines s = init ++ [last] ∧ splitLines (s ++ [c]) = init ++ [last ++ [c]] := by
  induction s with
  | nil => exact ⟨[], [], rfl, by simp [splitLines, hc]⟩
  | cons a as ih =>
    obtain ⟨init, last, h1, h2⟩ := ih
    by_cases ha : a = '\n'
    · subst ha
      exact ⟨[] :: init, last, by simp [splitLines_cons_nl, h1], by simp [splitLines_cons_nl, h2]⟩
    · cases init with
      | nil =>
        refine ⟨[], a :: last, ?_, ?_⟩
        · simp [splitLines, ha, h1]
        · simp only [List.nil_append] at h2
          simp [splitLines, ha, h2]
      | cons i0 is =>
        refine ⟨(a :: i0) :: is, last, ?_, ?_⟩
        · simp [splitLines, ha, h1]
        · simp only [List.cons_append] at h2
          simp [splitLines, ha, h2]

theorem joinLines_snoc (A : List (List Char)) (B : List Char) (hA : A ≠ []) :
    joinLines (A ++ [B]) = joinLines A ++ '\n' :: B := by
  induction A with
  | nil => exact absurd rfl hA
  | cons a as ih =>
    cases as with
    | nil => simp [joinLines]
    | cons b bs =>
      have := ih (by simp)
      simp only [List.cons_append, joinLines] at this ⊢
      simp [this]

theorem joinLines_snoc_getLast (A : List (List Char)) (B : List Char) (c : Char) (hB : B.getLast? = some c) :
    (joinLines (A ++ [B])).getLast? = some c := by
  have hBne : B ≠ [] := by intro e; simp [e] at hB
  cases A with
  | nil => simpa [joinLines] using hB
  | cons a as =>
    rw [joinLines_snoc _ _ (by simp)]
    rw [List.getLast?_append]
    cases B with
    | nil => exact absurd rfl hBne
    | cons b bs => rw [List.getLast?_cons_cons, hB]; rfl

end Bluebell
