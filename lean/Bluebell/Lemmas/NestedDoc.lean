import Bluebell.Lemmas.FlatDoc
/-!
# Plain-text documents with arbitrary (well-nested) indentation are accepted

`Blk` is the block structure of pre-parsed text: a plain line, or an INDENT marker line, a non-empty
list of blocks and a DEDENT marker line.  For every text that reads as a list of such blocks, to any
depth, the structured roots accept it in full.  (That `pre_parse` only ever produces well-nested
marker structure is C11's theorem.)
-/
namespace Bluebell

inductive Blk where
  | line (l : List Char)
  | nest (bs : List Blk)

def IND : Char := Char.ofNat 14
def DED : Char := Char.ofNat 15

/-- first characters of a line that leave every keyword-led, marker and container rule out of the race (`plainStart`
without the requirement that the character itself be plain: a backslash qualifies) -/
def starterOK (c : Char) : Bool :=
  blockChoosesLine c && c != Char.ofNat 14 && c != Char.ofNat 15 &&
  (["conclusions_marker", "attachment_marker", "body_marker", "preface", "preamble", "conclusions", "attachments",
     "introduction", "background", "arguments_marker", "remedies", "motivation", "decision", "remedies_marker",
     "motivation_marker", "decision_marker"].all
    fun r => !mayStart aknExec 100 (.ref r) (some c) && (aknExec.lookup r).isSome)

theorem starterOK_parts {c : Char} (h : starterOK c = true) :
    blockChoosesLine c = true ∧ c ≠ Char.ofNat 14 ∧ c ≠ Char.ofNat 15 ∧
    ∀ r ∈ ["conclusions_marker", "attachment_marker", "body_marker", "preface", "preamble", "conclusions", "attachments",
     "introduction", "background", "arguments_marker", "remedies", "motivation", "decision", "remedies_marker",
     "motivation_marker", "decision_marker"],
      mayStart aknExec 100 (.ref r) (some c) = false ∧ (aknExec.lookup r).isSome = true := by
  simp only [starterOK, Bool.and_eq_true, bne_iff_ne, ne_eq, List.all_eq_true, Bool.not_eq_true'] at h
  obtain ⟨⟨⟨h1, h3⟩, h4⟩, h5⟩ := h
  exact ⟨h1, h3, h4, fun r hr => h5 r hr⟩

theorem starterOK_of_plainStart {c : Char} (h : plainStart c = true) : starterOK c = true := by
  obtain ⟨h1, _, h3, h4, h5⟩ := plainStart_parts h
  simp only [starterOK, Bool.and_eq_true, bne_iff_ne, ne_eq, List.all_eq_true, Bool.not_eq_true']
  exact ⟨⟨⟨h1, h3⟩, h4⟩, fun r hr => h5 r hr⟩

mutual
def AtBlk (inp : Array Char) : Nat → Blk → Nat → Prop
  | p, .line _, q => ∃ c, inp[p]? = some c ∧ starterOK c = true ∧ p < q ∧
      ∃ t, Lim aknExec inp (.ref "line") p (.ok t) ∧ t.stop = q
  | p, .nest bs, q => inp[p]? = some IND ∧ inp[p + 1]? = some '\n' ∧ inp[p + 2]? ≠ some '\n' ∧ bs ≠ [] ∧
      ∃ m, AtBlks inp (p + 2) bs m ∧ inp[m]? = some DED ∧ ∃ k, NlRun inp (m + 1) (k + 1) ∧ q = m + 1 + (k + 1)
def AtBlks (inp : Array Char) : Nat → List Blk → Nat → Prop
  | p, [], q => p = q
  | p, b :: bs, q => ∃ m, AtBlk inp p b m ∧ AtBlks inp m bs q
end

variable {inp : Array Char}

theorem lk_be : aknExec.lookup "block_element" = some (.choice (.cons (.ref "nested_block_element") (.cons (.ref "block_elements") .nil))) := by
  decide +kernel
theorem lk_nbe : aknExec.lookup "nested_block_element" = some (.typed "NestedBlockElement" (.seq (.cons ["indent"] (.ref "indent")
    (.cons ["content"] (.plus (.ref "block_element")) (.cons ["dedent"] (.ref "dedent") .nil))))) := by decide +kernel
theorem lk_hbe : aknExec.lookup "hier_block_element" = some (.choice (.cons (.ref "hier_element") (.cons (.ref "block_element") .nil))) := by
  decide +kernel
theorem lk_bes : aknExec.lookup "block_elements" = some (.choice (choiceAlts aknExec "block_elements")) := by decide +kernel

/-- facts about the two marker characters, decided on the regenerated grammar -/
theorem marker_facts :
    (["hier_element", "nested_block_element", "conclusions_marker", "attachment_marker", "body_marker", "preface", "preamble",
      "conclusions", "attachments"].all fun r => !mayStart aknExec 100 (.ref r) (some DED) && (aknExec.lookup r).isSome) = true ∧
    (["hier_element", "conclusions_marker", "attachment_marker", "body_marker", "preface", "preamble",
      "conclusions", "attachments"].all fun r => !mayStart aknExec 100 (.ref r) (some IND) && (aknExec.lookup r).isSome) = true ∧
    firstCandidate aknExec 100 (some DED) (choiceAlts aknExec "block_elements") = some "line" := by
  decide +kernel

theorem fails_at_ded (r : String) (hr : r ∈ ["hier_element", "nested_block_element", "conclusions_marker", "attachment_marker",
    "body_marker", "preface", "preamble", "conclusions", "attachments"]) (m : Nat) (hm : inp[m]? = some DED) :
    Lim aknExec inp (.ref r) m .fail := by
  have := marker_facts.1
  simp only [List.all_eq_true, Bool.and_eq_true, Bool.not_eq_true'] at this
  exact rule_fails_at r m DED hm (this r hr).1 (this r hr).2

theorem fails_at_ind (r : String) (hr : r ∈ ["hier_element", "conclusions_marker", "attachment_marker",
    "body_marker", "preface", "preamble", "conclusions", "attachments"]) (m : Nat) (hm : inp[m]? = some IND) :
    Lim aknExec inp (.ref r) m .fail := by
  have := marker_facts.2.1
  simp only [List.all_eq_true, Bool.and_eq_true, Bool.not_eq_true'] at this
  exact rule_fails_at r m IND hm (this r hr).1 (this r hr).2

/-- a marker line: the marker character and `k + 1` newlines (its own and `k` blank lines) -/
theorem marker_line_run (rule : String) (ch : Char)
    (hl : aknExec.lookup rule = some (.seq (.cons [] (.lit [ch]) (.cons ["eol"] (.ref "eol") .nil))))
    (p : Nat) (h0 : inp[p]? = some ch) (k : Nat) (h1 : NlRun inp (p + 1) (k + 1)) :
    ∃ t, Lim aknExec inp (.ref rule) p (.ok t) ∧ t.stop = p + 1 + (k + 1) := by
  obtain ⟨te, hte, hts⟩ := eol_run (p + 1) k h1
  have hlit : Lim aknExec inp (.lit [ch]) p (.ok (Tree.leaf p (p + 1))) := by
    have := lim_lit_ok (g := aknExec) (inp := inp) (s := [ch]) (p := p) (by simp [litMatch, h0])
    simpa using this
  refine ⟨_, lim_ref hl (lim_seq (limS_cons_ok hlit (limS_cons_ok (by simpa using hte) limS_nil))), ?_⟩
  cases te with
  | node a b c d e => simp only [Tree.stop] at hts; simp [Tree.stop, hts]

theorem marker_line (rule : String) (ch : Char)
    (hl : aknExec.lookup rule = some (.seq (.cons [] (.lit [ch]) (.cons ["eol"] (.ref "eol") .nil))))
    (p : Nat) (h0 : inp[p]? = some ch) (h1 : inp[p + 1]? = some '\n') (h2 : inp[p + 2]? ≠ some '\n') :
    ∃ t, Lim aknExec inp (.ref rule) p (.ok t) ∧ t.stop = p + 2 :=
  marker_line_run rule ch hl p h0 0 ⟨h1, h2⟩

/-- like `firstCandidate`, for a candidate that is the *last* alternative -/
def lastCandidate (g : Grammar) (d : Nat) (c : Option Char) : PExps → Option String
  | .nil => none
  | .cons (.ref A) r =>
    if mayStart g d (.ref A) c then (match r with | .nil => some A | _ => none)
    else if (g.lookup A).isSome then lastCandidate g d c r else none
  | .cons _ _ => none

/-- if every alternative before the last cannot start with the next character and the last one fails, the choice fails -/
theorem limC_last_candidate_fails {g : Grammar} {N : List String} {R : List (String × Nat)} {top : Nat}
    (hw : wfG g N R top = true) (d : Nat) (p : Nat) (hp : p ≤ inp.size) (A : String)
    (hA : Lim g inp (.ref A) p .fail) :
    ∀ es, lastCandidate g d inp[p]? es = some A → LimC g inp es p .fail
  | .nil, h => by simp [lastCandidate] at h
  | .cons e r, h => by
    have ih := limC_last_candidate_fails hw d p hp A hA r
    cases e with
    | ref B =>
      simp only [lastCandidate] at h
      by_cases hm : mayStart g d (.ref B) inp[p]? = true
      · simp only [hm, if_true] at h
        cases r with
        | nil => simp only [Option.some.injEq] at h; subst h; exact limC_cons_fail hA limC_nil
        | cons _ _ => simp at h
      · have hm' : mayStart g d (.ref B) inp[p]? = false := by simpa using hm
        simp only [hm', Bool.false_eq_true, if_false] at h
        by_cases hB : (g.lookup B).isSome = true
        · simp only [hB, if_true] at h
          exact limC_cons_fail (lim_fail_of_cannot_start hw d B hB p hp hm') (ih h)
        · simp [hB] at h
    | lit _ => simp [lastCandidate] at h
    | cls _ _ => simp [lastCandidate] at h
    | rx1 _ _ => simp [lastCandidate] at h
    | seq _ => simp [lastCandidate] at h
    | choice _ => simp [lastCandidate] at h
    | opt _ => simp [lastCandidate] at h
    | star _ => simp [lastCandidate] at h
    | plus _ => simp [lastCandidate] at h
    | notP _ => simp [lastCandidate] at h
    | andP _ => simp [lastCandidate] at h
    | typed _ _ => simp [lastCandidate] at h

theorem line_last_at_ded : lastCandidate aknExec 100 (some DED) (choiceAlts aknExec "block_elements") = some "line" := by
  decide +kernel

theorem lim_eol_some (q : Nat) (hq : inp[q]? = some '\n') : ∃ t, Lim aknExec inp (.ref "eol") q (.ok t) := by
  obtain ⟨n1, h1⟩ := eol_at_newline inp q hq
  obtain ⟨t, ht⟩ := h1 n1 (Nat.le_refl _)
  exact ⟨t, n1, fun n hn => by rw [eval_mono aknExec inp _ q hn (by rw [ht]; trivial), ht]⟩

/-- at a DEDENT line no block starts -/
theorem block_element_fails_at_ded (m : Nat) (h0 : inp[m]? = some DED) (h1 : inp[m + 1]? = some '\n') :
    Lim aknExec inp (.ref "block_element") m .fail := by
  have hp := le_size_of_get h0
  obtain ⟨te, hte⟩ := lim_eol_some (m + 1) h1
  have hded : Lim aknExec inp (.ref "dedent") m (.ok _) :=
    lim_ref lk_dedent (lim_seq (limS_cons_ok (lim_lit_ok (by simp [litMatch, h0, DED])) (limS_cons_ok (by simpa using hte) limS_nil)))
  have hline : Lim aknExec inp (.ref "line") m .fail :=
    lim_ref lk_line (lim_typed_fail (lim_seq (limS_cons_fail (lim_not_ok hded))))
  have hbes : Lim aknExec inp (.ref "block_elements") m .fail :=
    lim_ref lk_bes (lim_choice (limC_last_candidate_fails akn_wf 100 m hp "line" hline _ (by rw [h0]; exact line_last_at_ded)))
  exact lim_ref lk_be (lim_choice (limC_cons_fail (fails_at_ded "nested_block_element" (by simp) m h0) (limC_cons_fail hbes limC_nil)))

theorem hier_block_element_fails_at_ded (m : Nat) (h0 : inp[m]? = some DED) (h1 : inp[m + 1]? = some '\n') :
    Lim aknExec inp (.ref "hier_block_element") m .fail :=
  lim_ref lk_hbe (lim_choice (limC_cons_fail (fails_at_ded "hier_element" (by simp) m h0)
    (limC_cons_fail (block_element_fails_at_ded m h0 h1) limC_nil)))

theorem atBlk_progress (inp : Array Char) : ∀ (b : Blk) (p q : Nat), AtBlk inp p b q → p < q
  | .line l, p, q, h => by
    obtain ⟨_, _, _, hlt, _⟩ := h
    exact hlt
  | .nest bs, p, q, h => by
    obtain ⟨_, _, _, _, m, hbs, _, k, _, hq⟩ := h
    have : p + 2 ≤ m := atBlks_mono inp bs (p + 2) m hbs
    omega
where
  atBlks_mono (inp : Array Char) : ∀ (bs : List Blk) (p q : Nat), AtBlks inp p bs q → p ≤ q
  | [], p, q, h => by simp only [AtBlks] at h; omega
  | b :: bs, p, q, h => by
    obtain ⟨m, hb, hr⟩ := h
    have h1 := atBlk_progress inp b p m hb
    have h2 := atBlks_mono inp bs m q hr
    omega

/-! ## a block, and a list of blocks up to a DEDENT line, through `block_element` -/

mutual
theorem block_element_at (inp : Array Char) : ∀ (b : Blk) (p q : Nat), AtBlk inp p b q →
    ∃ t, Lim aknExec inp (.ref "block_element") p (.ok t) ∧ t.stop = q
  | .line l, p, q, h => by
    obtain ⟨c, hc0, hs, _, tl, hline, htl⟩ := h
    have hb := (starterOK_parts hs).1
    exact ⟨tl, block_rules_follow_line inp p c hc0 hb tl hline "block_element" (by simp [blockLevelRules]), htl⟩
  | .nest bs, p, q, h => by
    obtain ⟨h0, h1, h2, hne, m, hbs, hm0, k, hrun, hq⟩ := h
    have hm1 : inp[m + 1]? = some '\n' := hrun.1
    subst hq
    obtain ⟨ti, hti, htis⟩ := marker_line "indent" IND lk_indent p h0 h1 h2
    obtain ⟨out, hloop⟩ := block_elements_loop inp bs (p + 2) m (p + 2) [] hbs hm0 hm1 (by
      cases bs with
      | nil => exact absurd rfl hne
      | cons _ _ => simp)
    obtain ⟨td, htd, htds⟩ := marker_line_run "dedent" DED lk_dedent m hm0 k hrun
    have hplus : Lim aknExec inp (.plus (.ref "block_element")) (p + 2) (.ok (.node (p + 2) m [] [] out)) := lim_plus hloop
    refine ⟨_, lim_ref lk_be (lim_choice (limC_cons_ok (lim_ref lk_nbe (lim_typed (lim_seq
      (limS_cons_ok hti (limS_cons_ok (by rw [htis]; exact hplus) (limS_cons_ok (by simpa [Tree.stop] using htd) limS_nil)))))))), ?_⟩
    cases td with
    | node a b c d e => simp only [Tree.stop] at htds; simp [Tree.stop, Tree.addType, htds]
theorem block_elements_loop (inp : Array Char) : ∀ (bs : List Blk) (p m s : Nat) (acc : List Tree), AtBlks inp p bs m →
    inp[m]? = some DED → inp[m + 1]? = some '\n' → 1 ≤ acc.length + bs.length →
    ∃ out, LimR aknExec inp (.ref "block_element") s p acc 1 (.ok (.node s m [] [] out))
  | [], p, m, s, acc, h, h0, h1, hlen => by
    simp only [AtBlks] at h; subst h
    exact ⟨acc.reverse, limR_stop (block_element_fails_at_ded p h0 h1) (by simpa using hlen)⟩
  | b :: bs, p, m, s, acc, h, h0, h1, _ => by
    obtain ⟨mid, hb, hrest⟩ := h
    obtain ⟨t, ht, hts⟩ := block_element_at inp b p mid hb
    obtain ⟨out, hout⟩ := block_elements_loop inp bs mid m s (t :: acc) hrest h0 h1 (by simp; omega)
    have hlt : p < mid := atBlk_progress inp b p mid hb
    exact ⟨out, limR_step ht (by rw [hts]; exact hlt) (by rw [hts]; exact hout)⟩
end

variable {inp : Array Char}

/-! ## body level -/

theorem hbe_chooses_be_at_ind : ruleChooses IND "hier_block_element" "block_element" = true := by decide +kernel

/-- `hier_block_element` on a block is `block_element` on that block -/
theorem hier_block_element_at (b : Blk) (p q : Nat) (h : AtBlk inp p b q) :
    ∃ t, Lim aknExec inp (.ref "hier_block_element") p (.ok t) ∧ t.stop = q := by
  obtain ⟨t, ht, hts⟩ := block_element_at inp b p q h
  refine ⟨t, ?_, hts⟩
  cases b with
  | line l =>
    obtain ⟨c, hc0, hs, _⟩ := h
    have hb := (starterOK_parts hs).1
    simp only [blockChoosesLine, ruleChooses, Bool.and_eq_true, beq_iff_eq] at hb
    obtain ⟨⟨⟨⟨_, _⟩, _⟩, hh⟩, _⟩ := hb
    exact lim_rule_first_candidate akn_wf 100 p (le_size_of_get hc0) "hier_block_element" "block_element" _ _ hh.1
      (by rw [hc0]; exact hh.2) ht
  | nest bs =>
    have h0 := h.1
    have hh := hbe_chooses_be_at_ind
    simp only [ruleChooses, Bool.and_eq_true, beq_iff_eq] at hh
    exact lim_rule_first_candidate akn_wf 100 p (le_size_of_get h0) "hier_block_element" "block_element" _ _ hh.1
      (by rw [h0]; exact hh.2) ht

theorem hier_block_elements_loop : ∀ (bs : List Blk) (p m s : Nat) (acc : List Tree), AtBlks inp p bs m →
    inp[m]? = some DED → inp[m + 1]? = some '\n' → 1 ≤ acc.length + bs.length →
    ∃ out, LimR aknExec inp (.ref "hier_block_element") s p acc 1 (.ok (.node s m [] [] out))
  | [], p, m, s, acc, h, h0, h1, hlen => by
    simp only [AtBlks] at h; subst h
    exact ⟨acc.reverse, limR_stop (hier_block_element_fails_at_ded p h0 h1) (by simpa using hlen)⟩
  | b :: bs, p, m, s, acc, h, h0, h1, _ => by
    obtain ⟨mid, hb, hrest⟩ := h
    obtain ⟨t, ht, hts⟩ := hier_block_element_at b p mid hb
    obtain ⟨out, hout⟩ := hier_block_elements_loop bs mid m s (t :: acc) hrest h0 h1 (by simp; omega)
    have hlt : p < mid := atBlk_progress inp b p mid hb
    exact ⟨out, limR_step ht (by rw [hts]; exact hlt) (by rw [hts]; exact hout)⟩

/-- the body loop item on a block -/
theorem bodyItem_at (b : Blk) (p q : Nat) (h : AtBlk inp p b q) :
    ∃ t, Lim aknExec inp bodyItem p (.ok t) ∧ t.stop = q := by
  cases b with
  | line l =>
    obtain ⟨t, ht, hts⟩ := hier_block_element_at (.line l) p q h
    obtain ⟨c, hc0, hs, _⟩ := h
    obtain ⟨_, h14, _, hr⟩ := starterOK_parts hs
    have hind : Lim aknExec inp (.seq (.cons ["indent"] (.ref "indent")
        (.cons ["content"] (.plus (.ref "hier_block_element")) (.cons ["dedent"] (.ref "dedent") .nil)))) p .fail := by
      refine lim_seq (limS_cons_fail (lim_ref lk_indent (lim_seq (limS_cons_fail (lim_lit_fail ?_)))))
      have : (some c == some (Char.ofNat 14)) = false := by simpa using h14
      simp [litMatch, hc0, this]
    have hhbi : Lim aknExec inp (.ref "hier_block_indent") p (.ok t) :=
      lim_ref lk_hbi (lim_choice (limC_cons_fail hind (limC_cons_ok ht)))
    have hc1 := lim_not_fail (rule_fails_at "conclusions_marker" p c hc0 (hr _ (by simp)).1 (hr _ (by simp)).2)
    have hc2 := lim_not_fail (rule_fails_at "attachment_marker" p c hc0 (hr _ (by simp)).1 (hr _ (by simp)).2)
    refine ⟨_, lim_seq (limS_cons_ok hc1 (limS_cons_ok (by simpa using hc2) (limS_cons_ok (by simpa using hhbi) limS_nil))), ?_⟩
    cases t with
    | node a b c' d e => simp only [Tree.stop] at hts; simp [Tree.stop, hts]
  | nest bs =>
    obtain ⟨h0, h1, h2, hne, m, hbs, hm0, k, hrun, hq⟩ := h
    have hm1 : inp[m + 1]? = some '\n' := hrun.1
    subst hq
    obtain ⟨ti, hti, htis⟩ := marker_line "indent" IND lk_indent p h0 h1 h2
    obtain ⟨out, hloop⟩ := hier_block_elements_loop bs (p + 2) m (p + 2) [] hbs hm0 hm1 (by
      cases bs with
      | nil => exact absurd rfl hne
      | cons _ _ => simp)
    obtain ⟨td, htd, htds⟩ := marker_line_run "dedent" DED lk_dedent m hm0 k hrun
    have hplus : Lim aknExec inp (.plus (.ref "hier_block_element")) (p + 2) (.ok (.node (p + 2) m [] [] out)) := lim_plus hloop
    have hhbi : Lim aknExec inp (.ref "hier_block_indent") p (.ok _) :=
      lim_ref lk_hbi (lim_choice (limC_cons_ok (lim_seq
        (limS_cons_ok hti (limS_cons_ok (by rw [htis]; exact hplus) (limS_cons_ok (by simpa [Tree.stop] using htd) limS_nil))))))
    have hc1 := lim_not_fail (fails_at_ind (inp := inp) "conclusions_marker" (by simp) p h0)
    have hc2 := lim_not_fail (fails_at_ind (inp := inp) "attachment_marker" (by simp) p h0)
    refine ⟨_, lim_seq (limS_cons_ok hc1 (limS_cons_ok (by simpa using hc2) (limS_cons_ok (by simpa using hhbi) limS_nil))), ?_⟩
    cases td with
    | node a b c d e => simp only [Tree.stop] at htds; simp [Tree.stop, htds]

theorem body_loop_blocks : ∀ (bs : List Blk) (s p : Nat) (acc : List Tree), AtBlks inp p bs inp.size →
    ∃ out, LimR aknExec inp bodyItem s p acc 0 (.ok (.node s inp.size [] [] out))
  | [], s, p, acc, h => by
    simp only [AtBlks] at h; subst h
    exact ⟨acc.reverse, limR_stop bodyItem_eof (Nat.zero_le _)⟩
  | b :: bs, s, p, acc, h => by
    obtain ⟨mid, hb, hrest⟩ := h
    obtain ⟨t, ht, hts⟩ := bodyItem_at b p mid hb
    obtain ⟨out, hout⟩ := body_loop_blocks bs s mid (t :: acc) hrest
    have hlt : p < mid := atBlk_progress inp b p mid hb
    exact ⟨out, limR_step ht (by rw [hts]; exact hlt) (by rw [hts]; exact hout)⟩

/-- the rules that may only start a document fail at the start of a block list (or at the end of the text) -/
theorem starter_fails_blocks (r : String) (hr : r ∈ ["body_marker", "preface", "preamble", "conclusions", "attachments"])
    (bs : List Blk) (p : Nat) (h : AtBlks inp p bs inp.size) : Lim aknExec inp (.ref r) p .fail := by
  have hr9 : r ∈ ["hier_element", "nested_block_element", "conclusions_marker", "attachment_marker", "body_marker", "preface",
      "preamble", "conclusions", "attachments"] := by
    simp only [List.mem_cons, List.mem_nil_iff, or_false] at hr ⊢
    rcases hr with rfl | rfl | rfl | rfl | rfl <;> simp
  cases bs with
  | nil =>
    simp only [AtBlks] at h; subst h
    exact eof_rule_fails r (by
      simp only [List.mem_cons, List.mem_nil_iff, or_false] at hr ⊢
      rcases hr with rfl | rfl | rfl | rfl | rfl <;> simp)
  | cons b rest =>
    obtain ⟨mid, hb, _⟩ := h
    cases b with
    | line l =>
      obtain ⟨c, hc0, hs, _⟩ := hb
      have := (starterOK_parts hs).2.2.2 r (by
        simp only [List.mem_cons, List.mem_nil_iff, or_false] at hr ⊢
        rcases hr with rfl | rfl | rfl | rfl | rfl <;> simp)
      exact rule_fails_at r p c hc0 this.1 this.2
    | nest bs' =>
      exact fails_at_ind r (by
        simp only [List.mem_cons, List.mem_nil_iff, or_false] at hr ⊢
        rcases hr with rfl | rfl | rfl | rfl | rfl <;> simp) p hb.1

theorem body_rule_blocks (rule ty : String)
    (hl : aknExec.lookup rule = some (.typed ty (.seq (.cons [] (.opt (.ref "body_marker")) (.cons ["content"] (.star bodyItem) .nil)))))
    (bs : List Blk) (p : Nat) (h : AtBlks inp p bs inp.size) :
    ∃ t, Lim aknExec inp (.ref rule) p (.ok t) ∧ t.stop = inp.size := by
  have hbm := lim_opt_fail (starter_fails_blocks "body_marker" (by simp) bs p h)
  obtain ⟨out, hloop⟩ := body_loop_blocks bs p p [] h
  have hstar : Lim aknExec inp (.star bodyItem) p (.ok (.node p inp.size [] [] out)) := lim_star hloop
  refine ⟨_, lim_ref hl (lim_typed (lim_seq (limS_cons_ok hbm (limS_cons_ok (by simpa using hstar) limS_nil)))), ?_⟩
  simp [Tree.stop, Tree.addType]

theorem structure_blocks (rule ty bodyRule bodyLabel : String)
    (hl : aknExec.lookup rule = some (.typed ty (.seq (.cons ["preface"] (.opt (.ref "preface"))
      (.cons ["preamble"] (.opt (.ref "preamble")) (.cons [bodyLabel] (.ref bodyRule) (.cons ["conclusions"] (.opt (.ref "conclusions"))
      (.cons ["attachments"] (.opt (.ref "attachments")) .nil))))))))
    (hbody : ∀ bs p, AtBlks inp p bs inp.size → ∃ t, Lim aknExec inp (.ref bodyRule) p (.ok t) ∧ t.stop = inp.size)
    (bs : List Blk) (h : AtBlks inp 0 bs inp.size) :
    ∃ t, Lim aknExec inp (.ref rule) 0 (.ok t) ∧ t.stop = inp.size := by
  have h1 := lim_opt_fail (starter_fails_blocks "preface" (by simp) bs 0 h)
  have h2 := lim_opt_fail (starter_fails_blocks "preamble" (by simp) bs 0 h)
  obtain ⟨tb, hb, hbs⟩ := hbody bs 0 h
  have hend : AtBlks inp inp.size [] inp.size := rfl
  have h4 := lim_opt_fail (starter_fails_blocks "conclusions" (by simp) [] inp.size hend)
  have h5 := lim_opt_fail (starter_fails_blocks "attachments" (by simp) [] inp.size hend)
  refine ⟨_, lim_ref hl (lim_typed (lim_seq (limS_cons_ok h1 (limS_cons_ok (by simpa using h2)
    (limS_cons_ok (by simpa using hb) (limS_cons_ok (by rw [hbs]; exact h4)
      (limS_cons_ok (by simpa using h5) limS_nil))))))), ?_⟩
  simp [Tree.stop, Tree.addType, Tree.leaf]

/-- **Every plain-text document with well-nested indentation is accepted by the five structured roots, in full.** -/
theorem nested_doc_accepted (root : String) (hroot : root ∈ ["doc", "statement", "debateReport", "act", "bill"])
    (bs : List Blk) (h : AtBlks inp 0 bs inp.size) :
    ∃ t, Lim aknExec inp (.ref root) 0 (.ok t) ∧ t.stop = inp.size := by
  obtain ⟨hd, hst, hdr, ha, hbl⟩ := lk_roots
  have hopen := structure_blocks (inp := inp) "open_structure" "OpenStructure" "mainBody" "mainBody" lk_open
    (fun ls p hp => body_rule_blocks "mainBody" "MainBody" lk_mainBody ls p hp) bs h
  have hhier := structure_blocks (inp := inp) "hierarchical_structure" "HierarchicalStructure" "body" "body" lk_hstruct
    (fun ls p hp => body_rule_blocks "body" "Body" lk_body ls p hp) bs h
  have wrap : ∀ (r ty inner : String), aknExec.lookup r = some (.typed ty (.ref inner)) →
      (∃ t, Lim aknExec inp (.ref inner) 0 (.ok t) ∧ t.stop = inp.size) →
      ∃ t, Lim aknExec inp (.ref r) 0 (.ok t) ∧ t.stop = inp.size := by
    intro r ty inner hl ⟨t, ht, hts⟩
    exact ⟨_, lim_ref hl (lim_typed ht), by simpa using hts⟩
  simp only [List.mem_cons, List.mem_nil_iff, or_false] at hroot
  rcases hroot with rfl | rfl | rfl | rfl | rfl
  · exact wrap _ _ _ hd hopen
  · exact wrap _ _ _ hst hopen
  · exact wrap _ _ _ hdr hopen
  · exact wrap _ _ _ ha hhier
  · exact wrap _ _ _ hbl hhier

theorem nested_doc_never_refused (root : String) (hroot : root ∈ ["doc", "statement", "debateReport", "act", "bill"])
    (bs : List Blk) (h : AtBlks inp 0 bs inp.size) (n : Nat) (hd : (eval aknExec inp n (.ref root) 0).done) :
    ∃ t, eval aknExec inp n (.ref root) 0 = .ok t ∧ t.stop = inp.size := by
  obtain ⟨t, ⟨n0, h0⟩, hts⟩ := nested_doc_accepted root hroot bs h
  refine ⟨t, ?_, hts⟩
  have := eval_fuel_irrelevant aknExec inp (.ref root) 0 n (max n n0) hd
    (by rw [h0 _ (Nat.le_max_right n n0)]; trivial)
  rw [this, h0 _ (Nat.le_max_right n n0)]


/-! ## the two kinds of line for which `AtBlk … (.line l) …` is established -/

/-- a plain line, its newline and `k` blank lines -/
theorem atBlk_plain_line (p : Nat) (c : Char) (r : List Char) (h : AtPlain inp p (c :: r)) (hs : plainStart c = true)
    (k : Nat) (hn : NlRun inp (p + (c :: r).length) (k + 1)) :
    AtBlk inp p (.line (c :: r)) (p + (c :: r).length + (k + 1)) := by
  obtain ⟨t, ht, hts⟩ := line_run p c r h (plainStart_parts hs).2.2.2.1 k hn
  exact ⟨c, h.1, starterOK_of_plainStart hs, by simp; omega, t, ht, hts⟩

theorem starterOK_backslash : starterOK '\\' = true := by decide +kernel

/-- `line` on a fully escaped line followed by `k + 1` newlines -/
theorem esc_line_run (p : Nat) (c : Char) (w : List Char) (h : AtEsc inp p (c :: w))
    (k : Nat) (hn : NlRun inp (p + 2 * (c :: w).length) (k + 1)) :
    ∃ t, Lim aknExec inp (.ref "line") p (.ok t) ∧ t.stop = p + 2 * (c :: w).length + (k + 1) := by
  have hend := atEsc_end inp (c :: w) p h
  obtain ⟨te, hte, hts⟩ := eol_run (p + 2 * (c :: w).length) k hn
  have hbs : ('\\' : Char) ≠ Char.ofNat 15 := by decide
  have hded : Lim aknExec inp (.notP (.ref "dedent")) p (.ok (Tree.leaf p p)) := by
    refine lim_not_fail (lim_ref lk_dedent (lim_seq (limS_cons_fail (lim_lit_fail ?_))))
    have : (some '\\' == some (Char.ofNat 15)) = false := by decide
    simp [litMatch, h.1, this]
  have hfail : Lim aknExec inp (.ref "inline") (p + 2 * (c :: w).length) .fail := inline_fails_at_newline inp _ hend
  have loop : ∀ (w' : List Char) (q : Nat) (acc : List Tree), AtEsc inp q w' → q + 2 * w'.length = p + 2 * (c :: w).length →
      1 ≤ acc.length + w'.length →
      ∃ out, LimR aknExec inp (.ref "inline") p q acc 1 (.ok (.node p (p + 2 * (c :: w).length) [] [] out)) := by
    intro w'
    induction w' with
    | nil =>
      intro q acc _ hq hlen
      have hq' : q = p + 2 * (c :: w).length := by simpa using hq
      subst hq'
      exact ⟨acc.reverse, limR_stop hfail (by simpa using hlen)⟩
    | cons c' r ih =>
      intro q acc h' hq _
      have hin : Lim aknExec inp (.ref "inline") q (.ok (escNode q)) :=
        ⟨12, fun n hn' => by
          obtain ⟨m, rfl⟩ : ∃ m, n = m + 12 := ⟨n - 12, by omega⟩
          exact inline_reads_escape inp q c' m h'.1 h'.2.1 h'.2.2.1⟩
      obtain ⟨out, hout⟩ := ih (q + 2) (escNode q :: acc) h'.2.2.2 (by simp only [List.length_cons] at hq ⊢; omega) (by simp; omega)
      exact ⟨out, limR_step hin (by simp [escNode, Tree.stop]) (by simpa [escNode, Tree.stop] using hout)⟩
  obtain ⟨out, hloop⟩ := loop (c :: w) p [] h rfl (by simp)
  have hplus : Lim aknExec inp (.plus (.ref "inline")) p (.ok (.node p (p + 2 * (c :: w).length) [] [] out)) := lim_plus hloop
  refine ⟨_, lim_ref lk_line (lim_typed (lim_seq (limS_cons_ok hded (limS_cons_ok (by simpa using hplus)
    (limS_cons_ok (by simpa [Tree.stop] using hte) limS_nil))))), ?_⟩
  cases te with
  | node a b c' d e' =>
    simp only [Tree.stop] at hts
    simp [Tree.stop, Tree.addType, hts]

/-- a fully escaped line, its newline and `k` blank lines -/
theorem atBlk_esc_line (p : Nat) (c : Char) (w : List Char) (l : List Char) (h : AtEsc inp p (c :: w))
    (k : Nat) (hn : NlRun inp (p + 2 * (c :: w).length) (k + 1)) :
    AtBlk inp p (.line l) (p + 2 * (c :: w).length + (k + 1)) := by
  obtain ⟨t, ht, hts⟩ := esc_line_run p c w h k hn
  exact ⟨'\\', h.1, starterOK_backslash, by simp; omega, t, ht, hts⟩


end Bluebell
