import Bluebell.Peg.Eval
import Bluebell.Lemmas.Scan
/-!
# Generic theory of the fuel-indexed PEG interpreter

* `eval_mono`: a result other than "out of fuel" is independent of the fuel (so the fuel the
  drivers choose is not part of the semantics, and `oof` is the only thing more fuel can change);
* `eval_span`: a successful match starts where it was asked to and ends inside the input, at or
  after its start (the parser never moves backwards and never reads beyond the text).
-/
namespace Bluebell

def Res.done : Res → Prop
  | .oof => False
  | _ => True

@[simp] theorem Res.done_ok (t : Tree) : (Res.ok t).done := trivial
@[simp] theorem Res.done_fail : Res.fail.done := trivial
@[simp] theorem Res.not_done_oof : ¬ Res.oof.done := fun h => h

theorem mono_all (g : Grammar) (inp : Array Char) : ∀ n,
    (∀ e p r, eval g inp n e p = r → r.done → eval g inp (n+1) e p = r) ∧
    (∀ es s p i ls acc r, evalSeq g inp n es s p i ls acc = r → r.done →
        evalSeq g inp (n+1) es s p i ls acc = r) ∧
    (∀ es p r, evalChoice g inp n es p = r → r.done → evalChoice g inp (n+1) es p = r) ∧
    (∀ e s p acc m r, evalRep g inp n e s p acc m = r → r.done →
        evalRep g inp (n+1) e s p acc m = r) := by
  intro n
  induction n with
  | zero =>
    refine ⟨?_, ?_, ?_, ?_⟩
    · intro e p r h hd; simp only [eval] at h; subst h; exact absurd hd Res.not_done_oof
    · intro es s p i ls acc r h hd; simp only [evalSeq] at h; subst h; exact absurd hd Res.not_done_oof
    · intro es p r h hd; simp only [evalChoice] at h; subst h; exact absurd hd Res.not_done_oof
    · intro e s p acc m r h hd; simp only [evalRep] at h; subst h; exact absurd hd Res.not_done_oof
  | succ n ih =>
    obtain ⟨ihE, ihS, ihC, ihR⟩ := ih
    have sub : ∀ e p, (eval g inp n e p).done → eval g inp (n+1) e p = eval g inp n e p :=
      fun e p hd => ihE e p _ rfl hd
    refine ⟨?_, ?_, ?_, ?_⟩
    · intro e p r h hd
      cases e with
      | lit s => simpa [eval] using h
      | cls neg cs => simpa [eval] using h
      | rx1 neg cs => simpa [eval] using h
      | ref nm =>
        simp only [eval] at h ⊢
        cases hl : g.lookup nm with
        | none => simpa [hl] using h
        | some e' => simp only [hl] at h ⊢; exact ihE _ _ _ h hd
      | seq es => simp only [eval] at h ⊢; exact ihS _ _ _ _ _ _ _ h hd
      | choice es => simp only [eval] at h ⊢; exact ihC _ _ _ h hd
      | star e => simp only [eval] at h ⊢; exact ihR _ _ _ _ _ _ h hd
      | plus e => simp only [eval] at h ⊢; exact ihR _ _ _ _ _ _ h hd
      | opt e =>
        simp only [eval] at h ⊢
        cases he : eval g inp n e p with
        | oof => simp [he] at h; subst h; exact absurd hd Res.not_done_oof
        | fail => rw [sub e p (by simp [he])]; simpa [he] using h
        | ok t => rw [sub e p (by simp [he])]; simpa [he] using h
      | notP e =>
        simp only [eval] at h ⊢
        cases he : eval g inp n e p with
        | oof => simp [he] at h; subst h; exact absurd hd Res.not_done_oof
        | fail => rw [sub e p (by simp [he])]; simpa [he] using h
        | ok t => rw [sub e p (by simp [he])]; simpa [he] using h
      | andP e =>
        simp only [eval] at h ⊢
        cases he : eval g inp n e p with
        | oof => simp [he] at h; subst h; exact absurd hd Res.not_done_oof
        | fail => rw [sub e p (by simp [he])]; simpa [he] using h
        | ok t => rw [sub e p (by simp [he])]; simpa [he] using h
      | typed ty e =>
        simp only [eval] at h ⊢
        cases he : eval g inp n e p with
        | oof => simp [he] at h; subst h; exact absurd hd Res.not_done_oof
        | fail => rw [sub e p (by simp [he])]; simpa [he] using h
        | ok t => rw [sub e p (by simp [he])]; simpa [he] using h
    · intro es s p i ls acc r h hd
      cases es with
      | nil => simpa [evalSeq] using h
      | cons names e es =>
        simp only [evalSeq] at h ⊢
        cases he : eval g inp n e p with
        | oof => simp [he] at h; subst h; exact absurd hd Res.not_done_oof
        | fail => rw [sub e p (by simp [he])]; simpa [he] using h
        | ok t =>
          rw [sub e p (by simp [he])]
          simp only [he] at h ⊢
          exact ihS _ _ _ _ _ _ _ h hd
    · intro es p r h hd
      cases es with
      | nil => simpa [evalChoice] using h
      | cons e es =>
        simp only [evalChoice] at h ⊢
        cases he : eval g inp n e p with
        | oof => simp [he] at h; subst h; exact absurd hd Res.not_done_oof
        | ok t => rw [sub e p (by simp [he])]; simpa [he] using h
        | fail =>
          rw [sub e p (by simp [he])]
          simp only [he] at h ⊢
          exact ihC _ _ _ h hd
    · intro e s p acc m r h hd
      rw [evalRep] at h ⊢
      cases he : eval g inp n e p with
      | oof => simp [he] at h; subst h; exact absurd hd Res.not_done_oof
      | fail => rw [sub e p (by simp [he])]; simpa [he] using h
      | ok t =>
        rw [sub e p (by simp [he])]
        simp only [he] at h ⊢
        by_cases hc : t.stop ≤ p
        · rw [if_pos hc] at h ⊢; exact h
        · rw [if_neg hc] at h ⊢; exact ihR _ _ _ _ _ _ h hd

/-- **Fuel monotonicity.** Once the interpreter has answered (success or failure), more fuel
gives the same answer. -/
theorem eval_mono (g : Grammar) (inp : Array Char) (e : PExp) (p : Nat) {n m : Nat} (h : n ≤ m)
    (hd : (eval g inp n e p).done) : eval g inp m e p = eval g inp n e p := by
  induction m with
  | zero => have : n = 0 := by omega
            subst this; rfl
  | succ m ih =>
    by_cases hnm : n = m + 1
    · subst hnm; rfl
    · have : n ≤ m := by omega
      have h1 := ih this
      rw [← h1]
      exact (mono_all g inp m).1 e p _ rfl (by rw [h1]; exact hd)

/-- Two fuels that both suffice give the same result: the parse result is a function of the text. -/
theorem eval_fuel_irrelevant (g : Grammar) (inp : Array Char) (e : PExp) (p n m : Nat)
    (hn : (eval g inp n e p).done) (hm : (eval g inp m e p).done) :
    eval g inp n e p = eval g inp m e p := by
  rcases Nat.le_total n m with h | h
  · exact (eval_mono g inp e p h hn).symm
  · exact eval_mono g inp e p h hm

/-! ## Spans -/

theorem scanClsBound (inp : Array Char) (neg : Bool) (cs : List Char) (k p : Nat) :
    p ≤ scanCls inp neg cs k p ∧ scanCls inp neg cs k p ≤ p + k :=
  ⟨scanCls_ge inp neg cs k p, scanCls_le inp neg cs k p⟩


theorem litMatch_bound (inp : Array Char) : ∀ (s : List Char) (pos : Nat), pos ≤ inp.size →
    litMatch inp pos s = true → pos + s.length ≤ inp.size := by
  intro s
  induction s with
  | nil => intro pos h _; simpa using h
  | cons c cs ih =>
    intro pos h hm
    simp only [litMatch, Bool.and_eq_true] at hm
    have hlt : pos < inp.size := by
      rcases Nat.lt_or_ge pos inp.size with hlt | hge
      · exact hlt
      · have : inp[pos]? = none := Array.getElem?_eq_none hge
        rw [this] at hm; simp at hm
    have := ih (pos + 1) hlt hm.2
    simp only [List.length_cons]; omega

/-- What a successful match looks like: it starts at `s`, ends at or after `p`, inside the text. -/
def Span (inp : Array Char) (s p : Nat) (t : Tree) : Prop :=
  t.start = s ∧ p ≤ t.stop ∧ t.stop ≤ inp.size

theorem span_all (g : Grammar) (inp : Array Char) : ∀ n,
    (∀ e p t, p ≤ inp.size → eval g inp n e p = .ok t → Span inp p p t) ∧
    (∀ es s p i ls acc t, p ≤ inp.size → evalSeq g inp n es s p i ls acc = .ok t → Span inp s p t) ∧
    (∀ es p t, p ≤ inp.size → evalChoice g inp n es p = .ok t → Span inp p p t) ∧
    (∀ e s p acc m t, p ≤ inp.size → evalRep g inp n e s p acc m = .ok t → Span inp s p t) := by
  intro n
  induction n with
  | zero =>
    refine ⟨?_, ?_, ?_, ?_⟩
    · intro e p t _ h; simp [eval] at h
    · intro es s p i ls acc t _ h; simp [evalSeq] at h
    · intro es p t _ h; simp [evalChoice] at h
    · intro e s p acc m t _ h; simp [evalRep] at h
  | succ n ih =>
    obtain ⟨ihE, ihS, ihC, ihR⟩ := ih
    refine ⟨?_, ?_, ?_, ?_⟩
    · intro e p t hp h
      cases e with
      | lit s =>
        simp only [eval] at h
        split at h
        · rename_i hm
          injection h with h; subst h
          exact ⟨rfl, by simp, by simpa using litMatch_bound inp s p hp hm⟩
        · cases h
      | cls neg cs =>
        simp only [eval] at h
        split at h
        · rename_i c hc
          split at h
          · injection h with h; subst h
            have hlt : p < inp.size := by
              rcases Nat.lt_or_ge p inp.size with hlt | hge
              · exact hlt
              · rw [Array.getElem?_eq_none hge] at hc; cases hc
            exact ⟨rfl, by simp, by simp; omega⟩
          · cases h
        · cases h
      | rx1 neg cs =>
        simp only [eval] at h
        split at h
        · injection h with h; subst h
          have hle := scanClsBound inp neg cs (inp.size - p) p
          exact ⟨rfl, by simp [Tree.stop]; omega, by simp [Tree.stop]; omega⟩
        · cases h
      | ref nm =>
        simp only [eval] at h
        cases hl : g.lookup nm with
        | none => simp [hl] at h
        | some e' => simp only [hl] at h; exact ihE _ _ _ hp h
      | seq es => simp only [eval] at h; exact ihS _ _ _ _ _ _ _ hp h
      | choice es => simp only [eval] at h; exact ihC _ _ _ hp h
      | star e => simp only [eval] at h; exact ihR _ _ _ _ _ _ hp h
      | plus e => simp only [eval] at h; exact ihR _ _ _ _ _ _ hp h
      | opt e =>
        simp only [eval] at h
        cases he : eval g inp n e p with
        | oof => simp [he] at h
        | fail => simp only [he] at h; injection h with h; subst h; exact ⟨rfl, by simp, by simpa using hp⟩
        | ok t' => simp only [he] at h; injection h with h; subst h; exact ihE _ _ _ hp he
      | notP e =>
        simp only [eval] at h
        cases he : eval g inp n e p with
        | oof => simp [he] at h
        | fail => simp only [he] at h; injection h with h; subst h; exact ⟨rfl, by simp, by simpa using hp⟩
        | ok t' => simp [he] at h
      | andP e =>
        simp only [eval] at h
        cases he : eval g inp n e p with
        | oof => simp [he] at h
        | fail => simp [he] at h
        | ok t' => simp only [he] at h; injection h with h; subst h; exact ⟨rfl, by simp, by simpa using hp⟩
      | typed ty e =>
        simp only [eval] at h
        cases he : eval g inp n e p with
        | oof => simp [he] at h
        | fail => simp [he] at h
        | ok t' =>
          simp only [he] at h; injection h with h; subst h
          have := ihE _ _ _ hp he
          exact ⟨by simpa using this.1, by simpa using this.2.1, by simpa using this.2.2⟩
    · intro es s p i ls acc t hp h
      cases es with
      | nil =>
        simp only [evalSeq] at h; injection h with h; subst h
        exact ⟨rfl, Nat.le_refl _, hp⟩
      | cons names e es =>
        simp only [evalSeq] at h
        cases he : eval g inp n e p with
        | oof => simp [he] at h
        | fail => simp [he] at h
        | ok t' =>
          simp only [he] at h
          have h1 := ihE _ _ _ hp he
          have h2 := ihS _ _ _ _ _ _ _ h1.2.2 h
          exact ⟨h2.1, Nat.le_trans h1.2.1 h2.2.1, h2.2.2⟩
    · intro es p t hp h
      cases es with
      | nil => simp [evalChoice] at h
      | cons e es =>
        simp only [evalChoice] at h
        cases he : eval g inp n e p with
        | oof => simp [he] at h
        | ok t' => simp only [he] at h; injection h with h; subst h; exact ihE _ _ _ hp he
        | fail => simp only [he] at h; exact ihC _ _ _ hp h
    · intro e s p acc m t hp h
      rw [evalRep] at h
      cases he : eval g inp n e p with
      | oof => simp [he] at h
      | fail =>
        simp only [he] at h
        split at h
        · injection h with h; subst h; exact ⟨rfl, Nat.le_refl _, hp⟩
        · cases h
      | ok t' =>
        simp only [he] at h
        have h1 := ihE _ _ _ hp he
        by_cases hc : t'.stop ≤ p
        · rw [if_pos hc] at h; cases h
        · rw [if_neg hc] at h
          have h2 := ihR _ _ _ _ _ _ h1.2.2 h
          exact ⟨h2.1, Nat.le_trans h1.2.1 h2.2.1, h2.2.2⟩

/-- **Span.** A successful match of any expression of any grammar at an offset inside the text
starts at that offset, does not move backwards, and ends inside the text. -/
theorem eval_span (g : Grammar) (inp : Array Char) (n : Nat) (e : PExp) (p : Nat) (t : Tree)
    (hp : p ≤ inp.size) (h : eval g inp n e p = .ok t) :
    t.start = p ∧ p ≤ t.stop ∧ t.stop ≤ inp.size :=
  (span_all g inp n).1 e p t hp h

end Bluebell
