import Bluebell.Exec
import Bluebell.Lemmas.PegFirst
/-! The certificate of the grammar that executes, checked by the kernel (regenerated on every run). -/
namespace Bluebell

theorem akn_wf : wfG aknExec aknNullable aknRanks aknRankTop = true := by decide +kernel

end Bluebell
