import Bluebell.Lemmas.NestedDoc
/-!
# Lines of plain text with escapes anywhere

A line is a sequence of *segments*: an escape (`\c`, any `c` but a newline) or a maximal run of plain
characters.  `mixed_line_run`: rule `line` of the executing grammar reads such a line as exactly one node per
segment — at a backslash the escape alternative wins before any marker rule is consulted, at a plain
character the plain-text rule takes the whole run — and `toDict_mixed_line`: `Line.to_dict` yields one
paragraph whose text is the line with each escaping backslash removed.  The fully escaped line, the plain
line and the line that starts with one escaped character are the special cases proved earlier.
-/
namespace Bluebell

variable {inp : Array Char}

inductive Seg where
  | esc (c : Char)
  | run (c : Char) (r : List Char)

/-- the characters of a segment as written -/
def Seg.src : Seg → List Char
  | .esc c => ['\\', c]
  | .run c r => c :: r

/-- the text a segment stands for -/
def Seg.txt : Seg → List Char
  | .esc c => [c]
  | .run c r => c :: r

def segsSrc : List Seg → List Char
  | [] => []
  | s :: ss => s.src ++ segsSrc ss

def segsTxt : List Seg → List Char
  | [] => []
  | s :: ss => s.txt ++ segsTxt ss

def AtRun (inp : Array Char) : Nat → List Char → Prop
  | _, [] => True
  | q, c :: r => inp[q]? = some c ∧ isPlain c = true ∧ AtRun inp (q + 1) r

/-- the segments stand in the input from `q` on, runs are maximal, and a newline follows -/
def AtSegs (inp : Array Char) : Nat → List Seg → Prop
  | q, [] => inp[q]? = some '\n'
  | q, .esc c :: ss => inp[q]? = some '\\' ∧ inp[q + 1]? = some c ∧ c ≠ '\n' ∧ AtSegs inp (q + 2) ss
  | q, .run c r :: ss => AtRun inp q (c :: r) ∧ (∃ x, inp[q + (c :: r).length]? = some x ∧ isPlain x = false) ∧
      AtSegs inp (q + (c :: r).length) ss

def segNodes : Nat → List Seg → List Tree
  | _, [] => []
  | q, .esc _ :: ss => escNode q :: segNodes (q + 2) ss
  | q, .run c r :: ss => plainNode q (q + (c :: r).length) :: segNodes (q + (c :: r).length) ss

theorem atSegs_end : ∀ (ss : List Seg) (q : Nat), AtSegs inp q ss → inp[q + (segsSrc ss).length]? = some '\n'
  | [], q, h => by simpa [AtSegs, segsSrc] using h
  | .esc c :: ss, q, h => by
      have := atSegs_end ss (q + 2) h.2.2.2
      have e : q + 2 + (segsSrc ss).length = q + (segsSrc (.esc c :: ss)).length := by
        simp only [segsSrc, Seg.src, List.length_append, List.length_cons, List.length_nil]; omega
      rw [← e]; exact this
  | .run c r :: ss, q, h => by
      have := atSegs_end ss (q + (c :: r).length) h.2.2
      have e : q + (c :: r).length + (segsSrc ss).length = q + (segsSrc (.run c r :: ss)).length := by
        simp only [segsSrc, Seg.src, List.length_append]; omega
      rw [← e]; exact this

theorem scan_run : ∀ (l : List Char) (q k : Nat), AtRun inp q l →
    (∃ x, inp[q + l.length]? = some x ∧ isPlain x = false) → l.length ≤ k →
    scanCls inp overrideNeg overrideCls k q = q + l.length
  | [], q, k, _, ⟨x, hx, hp⟩, _ => by
      simpa using scan_stops inp q k _ _ x (by simpa using hx) (by simpa [isPlain] using hp)
  | c :: r, q, k, h, hx, hk => by
      obtain ⟨k', rfl⟩ : ∃ k', k = k' + 1 := ⟨k - 1, by simp at hk; omega⟩
      have hp : clsMatch overrideNeg overrideCls c = true := h.2.1
      simp only [scanCls, h.1, hp, if_true]
      have hx' : ∃ x, inp[q + 1 + r.length]? = some x ∧ isPlain x = false := by
        obtain ⟨x, h1, h2⟩ := hx
        exact ⟨x, by simpa [List.length_cons, Nat.add_assoc, Nat.add_comm 1] using h1, h2⟩
      rw [scan_run r (q + 1) k' h.2.2 hx' (by simp at hk; omega)]
      simp [List.length_cons]; omega

theorem atRun_get : ∀ (l : List Char) (q i : Nat), AtRun inp q l → i < l.length → inp[q + i]? = l[i]?
  | [], _, _, _, hi => by simp at hi
  | c :: r, q, i, h, hi => by
      cases i with
      | zero => simpa using h.1
      | succ i =>
        have := atRun_get r (q + 1) i h.2.2 (by simpa using hi)
        simpa [Nat.add_assoc, Nat.add_comm 1] using this

theorem extract_run (l : List Char) (q : Nat) (h : AtRun inp q l) (hsz : q + l.length ≤ inp.size) :
    (inp.extract q (q + l.length)).toList = l := by
  apply List.ext_getElem?
  intro i
  simp only [Array.getElem?_toList, Array.getElem?_extract]
  have hmin : min (q + l.length) inp.size = q + l.length := by omega
  by_cases hi : i < l.length
  · simp only [hmin, Nat.add_sub_cancel_left, hi, if_true]
    exact atRun_get l q i h hi
  · simp only [hmin, Nat.add_sub_cancel_left, hi, if_false]
    simp [List.getElem?_eq_none (by omega : l.length ≤ i)]

theorem lt_size_of_get {q : Nat} {x : Char} (h : inp[q]? = some x) : q < inp.size := by
  rcases Nat.lt_or_ge q inp.size with hlt | hge
  · exact hlt
  · rw [Array.getElem?_eq_none hge] at h; cases h

/-- at a plain character `inline` is the plain-text run up to the first character that is not plain -/
theorem lim_inline_run (q : Nat) (c : Char) (r : List Char) (h : AtRun inp q (c :: r))
    (hx : ∃ x, inp[q + (c :: r).length]? = some x ∧ isPlain x = false) :
    Lim aknExec inp (.ref "inline") q (.ok (plainNode q (q + (c :: r).length))) := by
  refine ⟨6, fun n hn => ?_⟩
  obtain ⟨m, rfl⟩ : ∃ m, n = m + 6 := ⟨n - 6, by omega⟩
  have hsz : q + (c :: r).length < inp.size := by
    obtain ⟨x, h1, _⟩ := hx
    exact lt_size_of_get h1
  have hscan := scan_run (c :: r) q (inp.size - q) h hx (by omega)
  have hlt : q < q + (c :: r).length := by simp
  simp only [eval, evalChoice, lk_inline, lk_nis, hscan, hlt, if_true, plainNode, Tree.leaf]

theorem lim_inline_esc (q : Nat) (c : Char) (h0 : inp[q]? = some '\\') (h1 : inp[q + 1]? = some c) (hc : c ≠ '\n') :
    Lim aknExec inp (.ref "inline") q (.ok (escNode q)) :=
  ⟨12, fun n hn => by
    obtain ⟨m, rfl⟩ : ∃ m, n = m + 12 := ⟨n - 12, by omega⟩
    exact inline_reads_escape inp q c m h0 h1 hc⟩

/-- `line` on a mixed line followed by `k + 1` newlines (its own and `k` blank lines) -/
theorem mixed_line_run (p : Nat) (ss : List Seg) (hne : ss ≠ []) (h : AtSegs inp p ss)
    (c0 : Char) (h0 : inp[p]? = some c0) (hc0 : c0 ≠ Char.ofNat 15)
    (k : Nat) (hn : NlRun inp (p + (segsSrc ss).length) (k + 1)) :
    ∃ te stop, Lim aknExec inp (.ref "line") p
        (.ok (.node p stop ["Line"] [("content", 1), ("eol", 2)]
          [Tree.leaf p p, .node p (p + (segsSrc ss).length) [] [] (segNodes p ss), te])) ∧
      stop = p + (segsSrc ss).length + (k + 1) := by
  have hend := atSegs_end ss p h
  obtain ⟨te, hte, hts⟩ := eol_run (p + (segsSrc ss).length) k hn
  have hded : Lim aknExec inp (.notP (.ref "dedent")) p (.ok (Tree.leaf p p)) := by
    refine lim_not_fail (lim_ref lk_dedent (lim_seq (limS_cons_fail (lim_lit_fail ?_))))
    have : (some c0 == some (Char.ofNat 15)) = false := by simpa using hc0
    simp [litMatch, h0, this]
  have hfail : Lim aknExec inp (.ref "inline") (p + (segsSrc ss).length) .fail := inline_fails_at_newline inp _ hend
  have loop : ∀ (ss' : List Seg) (q : Nat) (acc : List Tree), AtSegs inp q ss' →
      q + (segsSrc ss').length = p + (segsSrc ss).length → 1 ≤ acc.length + ss'.length →
      LimR aknExec inp (.ref "inline") p q acc 1
        (.ok (.node p (p + (segsSrc ss).length) [] [] (acc.reverse ++ segNodes q ss'))) := by
    intro ss'
    induction ss' with
    | nil =>
      intro q acc _ hq hlen
      have hq' : q = p + (segsSrc ss).length := by simpa [segsSrc] using hq
      subst hq'
      simpa [segNodes] using limR_stop (g := aknExec) (inp := inp) (s := p) (acc := acc) (min := 1) hfail (by simpa using hlen)
    | cons s rest ih =>
      intro q acc h' hq _
      cases s with
      | esc c =>
        have hin := lim_inline_esc q c h'.1 h'.2.1 h'.2.2.1
        have := ih (q + 2) (escNode q :: acc) h'.2.2.2
          (by simp only [segsSrc, Seg.src, List.length_append, List.length_cons, List.length_nil] at hq ⊢; omega)
          (by simp only [List.length_cons]; omega)
        refine limR_step hin (by simp [escNode, Tree.stop]) ?_
        simpa [escNode, Tree.stop, segNodes] using this
      | run c r =>
        have hin := lim_inline_run q c r h'.1 h'.2.1
        have := ih (q + (c :: r).length) (plainNode q (q + (c :: r).length) :: acc) h'.2.2
          (by simp only [segsSrc, Seg.src, List.length_append] at hq ⊢; omega)
          (by simp only [List.length_cons]; omega)
        refine limR_step hin (by simp [plainNode, Tree.stop]) ?_
        simpa [plainNode, Tree.stop, segNodes] using this
  have hloop := loop ss p [] h rfl (by
    cases ss with
    | nil => exact absurd rfl hne
    | cons s rest => simp)
  have hplus : Lim aknExec inp (.plus (.ref "inline")) p
      (.ok (.node p (p + (segsSrc ss).length) [] [] (segNodes p ss))) := lim_plus (by simpa using hloop)
  refine ⟨te, te.stop, ?_, hts⟩
  have := lim_ref lk_line (lim_typed (lim_seq (limS_cons_ok hded (limS_cons_ok (by simpa using hplus)
    (limS_cons_ok (by simpa [Tree.stop] using hte) limS_nil)))))
  cases te with
  | node a b c' d e' =>
    simpa [Tree.stop, Tree.addType, addLabels] using this

/-! ## what `Line.to_dict` makes of it -/

theorem atSegs_bound : ∀ (ss : List Seg) (q : Nat), AtSegs inp q ss → q + (segsSrc ss).length < inp.size :=
  fun ss q h => lt_size_of_get (atSegs_end ss q h)

theorem inlineMany_fold_segs (fuel : Nat) : ∀ (ss : List Seg) (q : Nat) (acc : List Item) (pend : List String), AtSegs inp q ss →
    (segNodes q ss).foldl (fun (st : List Item × List String) (item : Tree) =>
      if kindOf item = "dict" then (flushText st.2 st.1 ++ [toDict inp fuel item], [])
      else
        let s := item.textOf inp
        let s := if s.toList.head? = some '\\' then String.ofList (s.toList.drop 1) else s
        (st.1, st.2 ++ [s])) (acc, pend) = (acc, pend ++ ss.map fun s => String.ofList s.txt)
  | [], q, acc, pend, _ => by simp [segNodes]
  | .esc c :: ss, q, acc, pend, h => by
      have hne : ¬ (kindOf (escNode q) = "dict") := by rw [kindOf_escNode]; decide
      simp only [segNodes, List.foldl_cons, hne, if_false, textOf_escNode inp q c h.1 h.2.1]
      simp only [String.toList_ofList, List.head?_cons, if_true, List.drop_succ_cons, List.drop_zero]
      rw [inlineMany_fold_segs fuel ss (q + 2) acc _ h.2.2.2]
      simp [Seg.txt]
  | .run c r :: ss, q, acc, pend, h => by
      have hk : ¬ (kindOf (plainNode q (q + (c :: r).length)) = "dict") := by
        have : kindOf (plainNode q (q + (c :: r).length)) = "none" := rfl
        rw [this]; decide
      have hsz : q + (c :: r).length ≤ inp.size := by
        obtain ⟨x, h1, _⟩ := h.2.1
        exact Nat.le_of_lt (lt_size_of_get h1)
      have htx : (plainNode q (q + (c :: r).length)).textOf inp = String.ofList (c :: r) := by
        unfold Tree.textOf
        simp only [plainNode, Tree.start, Tree.stop]
        rw [extract_run (c :: r) q h.1 hsz]
      have hbs : c ≠ '\\' := plain_not_backslash c h.1.2.1
      have hd : ¬ (some c = some '\\') := by simpa using hbs
      simp only [segNodes, List.foldl_cons, hk, if_false, htx, String.toList_ofList, List.head?_cons, hd]
      rw [inlineMany_fold_segs fuel ss (q + (c :: r).length) acc _ h.2.2]
      simp [Seg.txt]

theorem join_segs : ∀ (ss : List Seg), (String.join (ss.map fun s => String.ofList s.txt)).toList = segsTxt ss
  | [] => by simp [segsTxt]
  | s :: ss => by
      rw [List.map_cons, toList_join_cons, join_segs ss]
      simp [segsTxt]

theorem toDict_mixed_line (fuel p stop : Nat) (te : Tree) (ss : List Seg) (hne : ss ≠ []) (h : AtSegs inp p ss) :
    toDict inp (fuel + 2) (.node p stop ["Line"] [("content", 1), ("eol", 2)]
        [Tree.leaf p p, .node p (p + (segsSrc ss).length) [] [] (segNodes p ss), te])
      = .node "content" "p" none (some [Item.text (String.ofList (segsTxt ss))]) none none none none none := by
  have t1 : rootTable.lookup "Line" = none := by decide +kernel
  have t2 : mainContentTable.lookup "Line" = none := by decide +kernel
  have t3 : blockIndentTable.lookup "Line" = none := by decide +kernel
  rw [toDict]
  simp only [Tree.lastType, Tree.types, List.getLast?_singleton, t1, t2, t3]
  have hcn : (Tree.node p stop ["Line"] [("content", 1), ("eol", 2)]
      [Tree.leaf p p, .node p (p + (segsSrc ss).length) [] [] (segNodes p ss), te]).child "content"
      = .node p (p + (segsSrc ss).length) [] [] (segNodes p ss) := by
    simp [Tree.child, Tree.child?, Tree.labels, Tree.kids]
  rw [hcn]
  simp only [Tree.kids]
  rw [inlineMany]
  simp only [inlineMany_fold_segs fuel ss p [] [] h]
  simp only [flushText, List.nil_append]
  have hemp : (ss.map fun s => String.ofList s.txt).isEmpty = false := by
    cases ss with
    | nil => exact absurd rfl hne
    | cons s rest => simp
  rw [hemp]
  simp only [Bool.false_eq_true, if_false]
  congr 1
  congr 1
  rw [← String.ofList_toList (s := String.join _), join_segs ss]

/-! ## without counting the blank lines that follow -/

theorem nlRun_exists : ∀ (n q : Nat), inp.size - q ≤ n → ∃ k, NlRun inp q k
  | 0, q, hn => ⟨0, by
      have : inp.size ≤ q := by omega
      simp [NlRun, Array.getElem?_eq_none this]⟩
  | n + 1, q, hn => by
      by_cases h : inp[q]? = some '\n'
      · obtain ⟨k, hk⟩ := nlRun_exists n (q + 1) (by have := lt_size_of_get h; omega)
        exact ⟨k + 1, h, hk⟩
      · exact ⟨0, h⟩

theorem mixed_line (p : Nat) (ss : List Seg) (hne : ss ≠ []) (h : AtSegs inp p ss)
    (c0 : Char) (h0 : inp[p]? = some c0) (hc0 : c0 ≠ Char.ofNat 15) :
    ∃ te stop, Lim aknExec inp (.ref "line") p
        (.ok (.node p stop ["Line"] [("content", 1), ("eol", 2)]
          [Tree.leaf p p, .node p (p + (segsSrc ss).length) [] [] (segNodes p ss), te])) := by
  obtain ⟨k, hk⟩ := nlRun_exists (inp := inp) (inp.size - (p + (segsSrc ss).length)) (p + (segsSrc ss).length) (Nat.le_refl _)
  cases k with
  | zero => exact absurd (atSegs_end ss p h) hk
  | succ k =>
    obtain ⟨te, stop, hl, _⟩ := mixed_line_run p ss hne h c0 h0 hc0 k hk
    exact ⟨te, stop, hl⟩

end Bluebell
