import Bluebell.Lemmas.Eid
/-! Invariants of the recursive rewrite (`rewrite_eid`). -/
namespace Bluebell

/-- what one rewrite pass guarantees relative to the issued-id counter -/
structure PassInv (c c' : List (String × Nat)) (ids : List String) : Prop where
  monotone : ∀ k, countOf c k ≤ countOf c' k
  fresh : ∀ id ∈ ids, countOf c id = 0 ∧ 1 ≤ countOf c' id
  nodup : ids.Nodup

theorem PassInv.nil (c : List (String × Nat)) : PassInv c c [] :=
  ⟨fun _ => Nat.le_refl _, fun _ h => (by cases h), List.nodup_nil⟩

theorem PassInv.append {c c1 c2 : List (String × Nat)} {a b : List String}
    (h1 : PassInv c c1 a) (h2 : PassInv c1 c2 b) : PassInv c c2 (a ++ b) := by
  refine ⟨fun k => Nat.le_trans (h1.monotone k) (h2.monotone k), ?_, ?_⟩
  · intro id hid
    rcases List.mem_append.mp hid with h | h
    · exact ⟨(h1.fresh id h).1, Nat.le_trans (h1.fresh id h).2 (h2.monotone id)⟩
    · have := h2.fresh id h
      have hm := h1.monotone id
      exact ⟨by omega, this.2⟩
  · rw [List.nodup_append]
    refine ⟨h1.nodup, h2.nodup, ?_⟩
    intro x hx y hy hxy
    subst hxy
    have a1 := (h1.fresh x hx).2
    have a2 := (h2.fresh x hy).1
    omega

theorem rewriteEid_elem_meta (attrs : List (String × String)) (kids : List Xml) (pfx : String) (s : IdState) :
    rewriteEid (.elem "meta" attrs kids) pfx s = (.elem "meta" attrs kids, s) := by
  rw [rewriteEid]; simp

mutual
theorem rewriteEid_inv : ∀ (x : Xml) (pfx : String) (s : IdState),
    PassInv s.eidCounter (rewriteEid x pfx s).2.eidCounter (assignedIds (rewriteEid x pfx s).1)
  | .text t, pfx, s => by
    rw [rewriteEid]; simp only [assignedIds]; exact PassInv.nil _
  | .elem tag attrs kids, pfx, s => by
    rw [rewriteEid]
    by_cases hm : tag = "meta"
    · simp only [hm, if_true, assignedIds]; exact PassInv.nil _
    · simp only [hm, if_false]
      cases hp : passLower tag with
      | some low =>
        simp only
        have ih := rewriteKids_inv kids (if pfx ≠ "" then pfx ++ "__" ++ low else low) s
        have hid : identifiable tag = false := by simp [identifiable, hp]
        simp only [assignedIds, hm, if_false, hid, Bool.false_eq_true, List.nil_append]
        exact ih
      | none =>
        simp only
        by_cases he : isExempt tag = true
        · simp only [he, if_true]
          have ih := rewriteKids_inv kids pfx s
          have hid : identifiable tag = false := by simp [identifiable, hp, he]
          simp only [assignedIds, hm, if_false, hid, Bool.false_eq_true, List.nil_append]
          exact ih
        · simp only [he, Bool.false_eq_true, if_false]
          have hid : identifiable tag = true := by simp [identifiable, hp, he]
          obtain ⟨hf, hmap⟩ := getEid_spec s pfx tag (numOf kids)
          generalize hg : s.getEid pfx tag (numOf kids) = g at hf hmap
          obtain ⟨s1, new⟩ := g
          simp only at hf hmap ⊢
          generalize hs2 : (if (attrs.lookup "eId").getD "" ≠ new ∧ (attrs.lookup "eId").getD "" ≠ "" then
              { s1 with mappings := addMapping s1.mappings ((attrs.lookup "eId").getD "") new } else s1) = s2
          have hs2c : s2.eidCounter = s1.eidCounter := by
            rw [← hs2]; split <;> rfl
          have ih := rewriteKids_inv kids new s2
          rw [hs2c] at ih
          simp only [assignedIds, hm, if_false, hid, if_true, newAttrs_lookup]
          have h1 : PassInv s.eidCounter s1.eidCounter [new] :=
            ⟨hf.monotone, fun id h => (by
              have : id = new := by simpa using h
              subst this; exact ⟨hf.was_unissued, hf.now_issued⟩), by simp⟩
          exact PassInv.append h1 ih
theorem rewriteKids_inv : ∀ (ks : List Xml) (pfx : String) (s : IdState),
    PassInv s.eidCounter (rewriteKids ks pfx s).2.eidCounter (assignedIdsL (rewriteKids ks pfx s).1)
  | [], pfx, s => by
    rw [rewriteKids]; simp only [assignedIdsL]; exact PassInv.nil _
  | k :: ks, pfx, s => by
    rw [rewriteKids]
    simp only [assignedIdsL]
    exact PassInv.append (rewriteEid_inv k pfx s) (rewriteKids_inv ks pfx _)
end

end Bluebell

namespace Bluebell

/-! ### the rewrite touches nothing but eId attributes of identifiable elements -/

mutual
/-- the tree with the eId attribute of every identifiable element outside meta erased -/
def stripIds : Xml → Xml
  | .text t => .text t
  | .elem tag attrs kids =>
    if tag = "meta" then .elem tag attrs kids
    else .elem tag (if identifiable tag then Xml.eraseAttrList "eId" attrs else attrs) (stripIdsL kids)
def stripIdsL : List Xml → List Xml
  | [] => []
  | k :: ks => stripIds k :: stripIdsL ks
end

theorem erase_setAttrList (k v : String) (a : List (String × String)) :
    Xml.eraseAttrList k (Xml.setAttrList k v a) = Xml.eraseAttrList k a := by
  induction a with
  | nil => simp [Xml.setAttrList, Xml.eraseAttrList]
  | cons p a ih =>
    obtain ⟨k', v'⟩ := p
    unfold Xml.setAttrList
    by_cases h : k' = k
    · subst h; simp [Xml.eraseAttrList]
    · simp only [h, if_false, Xml.eraseAttrList]
      rw [ih]

theorem erase_newAttrs (attrs : List (String × String)) (new : String) :
    Xml.eraseAttrList "eId" (if (attrs.lookup "eId").getD "" ≠ new then Xml.setAttrList "eId" new attrs else attrs)
      = Xml.eraseAttrList "eId" attrs := by
  split
  · exact erase_setAttrList ..
  · rfl

mutual
theorem rewriteEid_stripIds : ∀ (x : Xml) (pfx : String) (s : IdState),
    stripIds (rewriteEid x pfx s).1 = stripIds x
  | .text t, pfx, s => by rw [rewriteEid]
  | .elem tag attrs kids, pfx, s => by
    rw [rewriteEid]
    by_cases hm : tag = "meta"
    · simp only [hm, if_true]
    · simp only [hm, if_false]
      cases hp : passLower tag with
      | some low =>
        simp only [stripIds, hm, if_false]
        rw [rewriteKids_stripIds kids _ s]
      | none =>
        simp only
        by_cases he : isExempt tag = true
        · simp only [he, if_true, stripIds, hm, if_false]
          rw [rewriteKids_stripIds kids pfx s]
        · simp only [he, Bool.false_eq_true, if_false]
          have hid : identifiable tag = true := by simp [identifiable, hp, he]
          simp only [stripIds, hm, if_false, hid, if_true, erase_newAttrs]
          rw [rewriteKids_stripIds kids _ _]
theorem rewriteKids_stripIds : ∀ (ks : List Xml) (pfx : String) (s : IdState),
    stripIdsL (rewriteKids ks pfx s).1 = stripIdsL ks
  | [], pfx, s => by rw [rewriteKids]
  | k :: ks, pfx, s => by
    rw [rewriteKids]
    simp only [stripIdsL]
    rw [rewriteEid_stripIds k pfx s, rewriteKids_stripIds ks pfx _]
end

/-! ### mappings never send an id to itself -/

theorem addMapping_mem (m : List (String × String)) (old new : String) (p : String × String)
    (h : p ∈ addMapping m old new) : p ∈ m ∨ p = (old, new) := by
  unfold addMapping at h
  split at h
  · exact Or.inl h
  · rcases List.mem_append.mp h with h | h
    · exact Or.inl h
    · right; simpa using h

mutual
theorem rewriteEid_mappings : ∀ (x : Xml) (pfx : String) (s : IdState),
    ∀ p ∈ (rewriteEid x pfx s).2.mappings, p ∈ s.mappings ∨ p.1 ≠ p.2
  | .text t, pfx, s => by rw [rewriteEid]; intro p hp; exact Or.inl hp
  | .elem tag attrs kids, pfx, s => by
    rw [rewriteEid]
    by_cases hm : tag = "meta"
    · simp only [hm, if_true]; intro p hp; exact Or.inl hp
    · simp only [hm, if_false]
      cases hp : passLower tag with
      | some low => simp only; exact rewriteKids_mappings kids _ s
      | none =>
        simp only
        by_cases he : isExempt tag = true
        · simp only [he, if_true]; exact rewriteKids_mappings kids pfx s
        · simp only [he, Bool.false_eq_true, if_false]
          obtain ⟨_, hmap⟩ := getEid_spec s pfx tag (numOf kids)
          generalize s.getEid pfx tag (numOf kids) = g at hmap
          obtain ⟨s1, new⟩ := g
          simp only at hmap ⊢
          intro p hp
          have := rewriteKids_mappings kids new _ p hp
          rcases this with h | h
          · split at h
            next hc =>
              simp only at h
              rcases addMapping_mem _ _ _ _ h with h' | h'
              · left; rw [← hmap]; exact h'
              · right; rw [h']; exact hc.1
            next => left; rw [← hmap]; exact h
          · exact Or.inr h
theorem rewriteKids_mappings : ∀ (ks : List Xml) (pfx : String) (s : IdState),
    ∀ p ∈ (rewriteKids ks pfx s).2.mappings, p ∈ s.mappings ∨ p.1 ≠ p.2
  | [], pfx, s => by rw [rewriteKids]; intro p hp; exact Or.inl hp
  | k :: ks, pfx, s => by
    rw [rewriteKids]
    intro p hp
    rcases rewriteKids_mappings ks pfx _ p hp with h | h
    · exact rewriteEid_mappings k pfx s p h
    · exact Or.inr h
end

end Bluebell

namespace Bluebell

/-! ### history-freeness: the ids depend only on the tree with eIds erased -/

theorem getNumC_congr (c : List ((String × String) × Nat)) (e : List (String × Nat)) (m1 m2 : List (String × String))
    (pfx name n1 : String) :
    ((IdState.mk c e m1).getNumC pfx name n1).2.1 = ((IdState.mk c e m2).getNumC pfx name n1).2.1 ∧
    ((IdState.mk c e m1).getNumC pfx name n1).2.2 = ((IdState.mk c e m2).getNumC pfx name n1).2.2 ∧
    ((IdState.mk c e m1).getNumC pfx name n1).1.counters = ((IdState.mk c e m2).getNumC pfx name n1).1.counters ∧
    ((IdState.mk c e m1).getNumC pfx name n1).1.eidCounter = ((IdState.mk c e m2).getNumC pfx name n1).1.eidCounter := by
  unfold IdState.getNumC
  by_cases h1 : n1 = ""
  · by_cases h2 : numExpected.contains name = true
    · simp only [h1, if_true, h2]; exact ⟨trivial, trivial, trivial, trivial⟩
    · simp only [h1, if_true, h2, Bool.false_eq_true, if_false, IdState.incr]; exact ⟨trivial, trivial, trivial, trivial⟩
  · simp only [h1, if_false]; exact ⟨trivial, trivial, trivial, trivial⟩

theorem getEid_congr (s t : IdState) (hc : s.counters = t.counters) (he : s.eidCounter = t.eidCounter)
    (pfx name num : String) :
    (s.getEid pfx name num).2 = (t.getEid pfx name num).2 ∧
    (s.getEid pfx name num).1.counters = (t.getEid pfx name num).1.counters ∧
    (s.getEid pfx name num).1.eidCounter = (t.getEid pfx name num).1.eidCounter := by
  obtain ⟨c, e, m1⟩ := s
  obtain ⟨c2, e2, m2⟩ := t
  simp only at hc he
  subst hc he
  obtain ⟨a1, a1', a2, a3⟩ := getNumC_congr c e m1 m2 pfx name (cleanedNum num)
  unfold IdState.getEid IdState.getNum
  simp only
  rw [a3, a1, a1']
  exact ⟨rfl, a2, rfl⟩

theorem stripIds_shape (x : Xml) : (stripIds x).isElem = x.isElem ∧ (stripIds x).tag = x.tag ∧
    (stripIds x).leadText = x.leadText := by
  cases x with
  | text t => simp [stripIds]
  | elem tag attrs kids =>
    rw [stripIds]
    by_cases hm : tag = "meta"
    · simp [hm]
    · simp only [hm, if_false]
      refine ⟨rfl, rfl, ?_⟩
      cases kids with
      | nil => simp [stripIdsL, Xml.leadText]
      | cons k ks =>
        cases k with
        | text s => simp [stripIdsL, stripIds, Xml.leadText]
        | elem t a kk =>
          by_cases ht : t = "meta" <;> simp [stripIdsL, stripIds, ht, Xml.leadText]

theorem numOf_stripIdsL : ∀ (ks : List Xml), numOf (stripIdsL ks) = numOf ks
  | [] => by simp [stripIdsL]
  | k :: ks => by
    obtain ⟨h1, h2, h3⟩ := stripIds_shape k
    have ih := numOf_stripIdsL ks
    unfold numOf at ih ⊢
    simp only [stripIdsL, List.find?_cons, h1, h2]
    cases hb : (k.isElem && k.tag == "num") with
    | true => simpa using h3
    | false => simpa using ih

mutual
theorem rewriteEid_history_free : ∀ (x : Xml) (pfx : String) (s t : IdState),
    s.counters = t.counters → s.eidCounter = t.eidCounter →
    assignedIds (rewriteEid x pfx s).1 = assignedIds (rewriteEid (stripIds x) pfx t).1 ∧
    (rewriteEid x pfx s).2.counters = (rewriteEid (stripIds x) pfx t).2.counters ∧
    (rewriteEid x pfx s).2.eidCounter = (rewriteEid (stripIds x) pfx t).2.eidCounter
  | .text u, pfx, s, t, hc, he => by
    rw [stripIds, rewriteEid, rewriteEid]; exact ⟨rfl, hc, he⟩
  | .elem tag attrs kids, pfx, s, t, hc, he => by
    rw [stripIds]
    by_cases hm : tag = "meta"
    · simp only [hm, if_true]
      rw [rewriteEid_elem_meta, rewriteEid_elem_meta]; exact ⟨rfl, hc, he⟩
    · simp only [hm, if_false]
      rw [rewriteEid, rewriteEid]
      simp only [hm, if_false]
      cases hp : passLower tag with
      | some low =>
        have hid : identifiable tag = false := by simp [identifiable, hp]
        obtain ⟨i1, i2, i3⟩ := rewriteKids_history_free kids (if pfx ≠ "" then pfx ++ "__" ++ low else low) s t hc he
        simp only [assignedIds, hm, if_false, hid, Bool.false_eq_true, List.nil_append]
        exact ⟨i1, i2, i3⟩
      | none =>
        simp only
        by_cases hex : isExempt tag = true
        · have hid : identifiable tag = false := by simp [identifiable, hp, hex]
          obtain ⟨i1, i2, i3⟩ := rewriteKids_history_free kids pfx s t hc he
          simp only [hex, if_true, assignedIds, hm, if_false, hid, Bool.false_eq_true, List.nil_append]
          exact ⟨i1, i2, i3⟩
        · have hid : identifiable tag = true := by simp [identifiable, hp, hex]
          simp only [hex, Bool.false_eq_true, if_false, hid, if_true, numOf_stripIdsL]
          obtain ⟨g1, g2, g3⟩ := getEid_congr s t hc he pfx tag (numOf kids)
          generalize s.getEid pfx tag (numOf kids) = gs at g1 g2 g3
          generalize t.getEid pfx tag (numOf kids) = gt at g1 g2 g3
          obtain ⟨s1, new⟩ := gs
          obtain ⟨t1, new'⟩ := gt
          simp only at g1 g2 g3 ⊢
          subst g1
          generalize hs2 : (if (attrs.lookup "eId").getD "" ≠ new ∧ (attrs.lookup "eId").getD "" ≠ "" then
              { s1 with mappings := addMapping s1.mappings ((attrs.lookup "eId").getD "") new } else s1) = s2
          generalize ht2 : (if ((Xml.eraseAttrList "eId" attrs).lookup "eId").getD "" ≠ new ∧ ((Xml.eraseAttrList "eId" attrs).lookup "eId").getD "" ≠ "" then
              { t1 with mappings := addMapping t1.mappings (((Xml.eraseAttrList "eId" attrs).lookup "eId").getD "") new } else t1) = t2
          have hs2c : s2.counters = s1.counters ∧ s2.eidCounter = s1.eidCounter := by
            rw [← hs2]; split <;> exact ⟨rfl, rfl⟩
          have ht2c : t2.counters = t1.counters ∧ t2.eidCounter = t1.eidCounter := by
            rw [← ht2]; split <;> exact ⟨rfl, rfl⟩
          obtain ⟨i1, i2, i3⟩ := rewriteKids_history_free kids new s2 t2
            (by rw [hs2c.1, ht2c.1, g2]) (by rw [hs2c.2, ht2c.2, g3])
          simp only [assignedIds, hm, if_false, hid, if_true, newAttrs_lookup]
          exact ⟨by rw [i1], i2, i3⟩
theorem rewriteKids_history_free : ∀ (ks : List Xml) (pfx : String) (s t : IdState),
    s.counters = t.counters → s.eidCounter = t.eidCounter →
    assignedIdsL (rewriteKids ks pfx s).1 = assignedIdsL (rewriteKids (stripIdsL ks) pfx t).1 ∧
    (rewriteKids ks pfx s).2.counters = (rewriteKids (stripIdsL ks) pfx t).2.counters ∧
    (rewriteKids ks pfx s).2.eidCounter = (rewriteKids (stripIdsL ks) pfx t).2.eidCounter
  | [], pfx, s, t, hc, he => by
    rw [stripIdsL, rewriteKids, rewriteKids]; exact ⟨rfl, hc, he⟩
  | k :: ks, pfx, s, t, hc, he => by
    rw [stripIdsL, rewriteKids, rewriteKids]
    obtain ⟨a1, a2, a3⟩ := rewriteEid_history_free k pfx s t hc he
    obtain ⟨b1, b2, b3⟩ := rewriteKids_history_free ks pfx _ _ a2 a3
    simp only [assignedIdsL]
    exact ⟨by rw [a1, b1], b2, b3⟩
end

end Bluebell

namespace Bluebell

/-! ### idempotence -/

theorem rewriteEid_shape (x : Xml) (pfx : String) (s : IdState) :
    (rewriteEid x pfx s).1.isElem = x.isElem ∧ (rewriteEid x pfx s).1.tag = x.tag := by
  cases x with
  | text t => rw [rewriteEid]; exact ⟨rfl, rfl⟩
  | elem tag attrs kids =>
    rw [rewriteEid]
    by_cases hm : tag = "meta"
    · simp [hm, Xml.isElem, Xml.tag]
    · simp only [hm, if_false]
      cases hp : passLower tag with
      | some low => exact ⟨rfl, rfl⟩
      | none =>
        simp only
        by_cases he : isExempt tag = true
        · simp only [he, if_true]; exact ⟨rfl, rfl⟩
        · simp only [he, Bool.false_eq_true, if_false]; exact ⟨rfl, rfl⟩

theorem rewriteKids_cons (k : Xml) (ks : List Xml) (pfx : String) (s : IdState) :
    rewriteKids (k :: ks) pfx s =
      ((rewriteEid k pfx s).1 :: (rewriteKids ks pfx (rewriteEid k pfx s).2).1,
       (rewriteKids ks pfx (rewriteEid k pfx s).2).2) := by
  rw [rewriteKids]

theorem rewriteKids_head_text (s0 : String) (ks : List Xml) (pfx : String) (s : IdState) :
    (rewriteKids (.text s0 :: ks) pfx s).1 = .text s0 :: (rewriteKids ks pfx s).1 := by
  rw [rewriteKids, rewriteEid]

theorem rewriteEid_leadText (x : Xml) (pfx : String) (s : IdState) :
    (rewriteEid x pfx s).1.leadText = x.leadText := by
  have key : ∀ (ks : List Xml) (p : String) (st : IdState) (tag : String) (a a' : List (String × String)),
      (Xml.elem tag a' (rewriteKids ks p st).1).leadText = (Xml.elem tag a ks).leadText := by
    intro ks p st tag a a'
    cases ks with
    | nil => rw [rewriteKids]; rfl
    | cons k ks =>
      cases k with
      | text s0 => rw [rewriteKids_head_text]; rfl
      | elem t b kk =>
        rw [rewriteKids_cons]
        have := (rewriteEid_shape (.elem t b kk) p st).1
        cases hr : (rewriteEid (.elem t b kk) p st).1 with
        | text u => rw [hr] at this; simp [Xml.isElem] at this
        | elem t2 b2 kk2 => simp [Xml.leadText]
  cases x with
  | text t => rw [rewriteEid]
  | elem tag attrs kids =>
    rw [rewriteEid]
    by_cases hm : tag = "meta"
    · simp [hm]
    · simp only [hm, if_false]
      cases hp : passLower tag with
      | some low => exact key ..
      | none =>
        simp only
        by_cases he : isExempt tag = true
        · simp only [he, if_true]; exact key ..
        · simp only [he, Bool.false_eq_true, if_false]; exact key ..

theorem numOf_rewriteKids : ∀ (ks : List Xml) (pfx : String) (s : IdState),
    numOf (rewriteKids ks pfx s).1 = numOf ks
  | [], pfx, s => by rw [rewriteKids]
  | k :: ks, pfx, s => by
    rw [rewriteKids]
    obtain ⟨h1, h2⟩ := rewriteEid_shape k pfx s
    have h3 := rewriteEid_leadText k pfx s
    have ih := numOf_rewriteKids ks pfx (rewriteEid k pfx s).2
    unfold numOf at ih ⊢
    simp only [List.find?_cons, h1, h2]
    cases hb : (k.isElem && k.tag == "num") with
    | true => simpa using h3
    | false => simpa using ih

mutual
theorem rewriteEid_idem : ∀ (x : Xml) (pfx : String) (s t : IdState),
    s.counters = t.counters → s.eidCounter = t.eidCounter →
    (rewriteEid (rewriteEid x pfx s).1 pfx t).1 = (rewriteEid x pfx s).1 ∧
    (rewriteEid (rewriteEid x pfx s).1 pfx t).2.mappings = t.mappings ∧
    (rewriteEid (rewriteEid x pfx s).1 pfx t).2.counters = (rewriteEid x pfx s).2.counters ∧
    (rewriteEid (rewriteEid x pfx s).1 pfx t).2.eidCounter = (rewriteEid x pfx s).2.eidCounter
  | .text u, pfx, s, t, hc, he => by
    simp only [rewriteEid]; exact ⟨trivial, trivial, hc.symm, he.symm⟩
  | .elem tag attrs kids, pfx, s, t, hc, he => by
    by_cases hm : tag = "meta"
    · subst hm
      rw [rewriteEid_elem_meta, rewriteEid_elem_meta]; exact ⟨rfl, rfl, hc.symm, he.symm⟩
    · rw [rewriteEid]
      simp only [hm, if_false]
      cases hp : passLower tag with
      | some low =>
        simp only
        rw [rewriteEid]
        simp only [hm, if_false, hp]
        obtain ⟨i1, i2, i3, i4⟩ := rewriteKids_idem kids (if pfx ≠ "" then pfx ++ "__" ++ low else low) s t hc he
        exact ⟨by rw [i1], i2, i3, i4⟩
      | none =>
        simp only
        by_cases hex : isExempt tag = true
        · simp only [hex, if_true]
          rw [rewriteEid]
          simp only [hm, if_false, hp, hex, if_true]
          obtain ⟨i1, i2, i3, i4⟩ := rewriteKids_idem kids pfx s t hc he
          exact ⟨by rw [i1], i2, i3, i4⟩
        · simp only [hex, Bool.false_eq_true, if_false]
          obtain ⟨g1, g2, g3⟩ := getEid_congr s t hc he pfx tag (numOf kids)
          obtain ⟨_, gm⟩ := getEid_spec t pfx tag (numOf kids)
          generalize hgs : s.getEid pfx tag (numOf kids) = gs at g1 g2 g3
          generalize hgt : t.getEid pfx tag (numOf kids) = gt at g1 g2 g3 gm
          obtain ⟨s1, new⟩ := gs
          obtain ⟨t1, new'⟩ := gt
          simp only at g1 g2 g3 gm ⊢
          subst g1
          generalize hs2 : (if (attrs.lookup "eId").getD "" ≠ new ∧ (attrs.lookup "eId").getD "" ≠ "" then
              { s1 with mappings := addMapping s1.mappings ((attrs.lookup "eId").getD "") new } else s1) = s2
          have hs2c : s2.counters = s1.counters ∧ s2.eidCounter = s1.eidCounter := by
            rw [← hs2]; split <;> exact ⟨rfl, rfl⟩
          rw [rewriteEid]
          simp only [hm, if_false, hp, hex, Bool.false_eq_true, numOf_rewriteKids, hgt, newAttrs_lookup,
            ne_eq, not_true_eq_false, false_and]
          obtain ⟨i1, i2, i3, i4⟩ := rewriteKids_idem kids new s2 t1
            (by rw [hs2c.1, g2]) (by rw [hs2c.2, g3])
          exact ⟨by rw [i1], by rw [i2, gm], i3, i4⟩
theorem rewriteKids_idem : ∀ (ks : List Xml) (pfx : String) (s t : IdState),
    s.counters = t.counters → s.eidCounter = t.eidCounter →
    (rewriteKids (rewriteKids ks pfx s).1 pfx t).1 = (rewriteKids ks pfx s).1 ∧
    (rewriteKids (rewriteKids ks pfx s).1 pfx t).2.mappings = t.mappings ∧
    (rewriteKids (rewriteKids ks pfx s).1 pfx t).2.counters = (rewriteKids ks pfx s).2.counters ∧
    (rewriteKids (rewriteKids ks pfx s).1 pfx t).2.eidCounter = (rewriteKids ks pfx s).2.eidCounter
  | [], pfx, s, t, hc, he => by
    simp only [rewriteKids]; exact ⟨trivial, trivial, hc.symm, he.symm⟩
  | k :: ks, pfx, s, t, hc, he => by
    rw [rewriteKids]
    simp only
    rw [rewriteKids]
    obtain ⟨a1, a2, a3, a4⟩ := rewriteEid_idem k pfx s t hc he
    obtain ⟨b1, b2, b3, b4⟩ := rewriteKids_idem ks pfx (rewriteEid k pfx s).2 (rewriteEid (rewriteEid k pfx s).1 pfx t).2 a3.symm a4.symm
    simp only
    rw [a1, b1]
    exact ⟨rfl, by rw [b2, a2], b3, b4⟩
end

end Bluebell
