import Bluebell.ToXml
import Bluebell.Post
/-!
# XML building keeps the text of the dict tree

`itemText` is the text a dict item carries, in the order the XML generator writes it: num, heading,
subheading (for hierarchical, block and speech items), the `from` line of a speech, then the
children.  `itemToXml_text`: whenever `itemToXml` succeeds, the in-order text of the element it
returns is exactly `itemText` of the item — for every item, every state, every attachment context.
-/
namespace Bluebell

mutual
def itemText : Item → String
  | .text v => v
  | .node typ name _ children num heading subheading frm _ =>
    let kids := match children with | some l => itemsText l | none => ""
    let n := match num with | some s => s | none => ""
    let h := match heading with | some l => itemsText l | none => ""
    let s := match subheading with | some l => itemsText l | none => ""
    let f := match frm with | some l => itemsText l | none => ""
    if typ = "hier" ∨ typ = "block" then n ++ h ++ s ++ kids
    else if typ = "speechhier" then n ++ h ++ s ++ f ++ kids
    else if typ = "element" ∧ name = "attachment" then h ++ s ++ kids
    else if typ = "marker" then ""
    else kids
def itemsText : List Item → String
  | [] => ""
  | i :: is => itemText i ++ itemsText is
end

theorem iterTextL_append' (a b : List Xml) : iterTextL (a ++ b) = iterTextL a ++ iterTextL b := by
  induction a with
  | nil => simp [iterTextL]
  | cons x xs ih => simp [iterTextL, ih, String.append_assoc]

theorem mergeText_text : ∀ (ks : List Xml), iterTextL (mergeText ks) = iterTextL ks
  | [] => rfl
  | .elem t a k :: rest => by simp [mergeText, iterTextL, mergeText_text rest]
  | .text s :: rest => by
    have ih := mergeText_text rest
    rw [mergeText]
    split
    · next b rest' h =>
      rw [h] at ih
      simp only [iterTextL, iterText] at ih ⊢
      rw [← ih, String.append_assoc]
    · next h =>
      split
      · next he => subst he; simp [iterTextL, iterText, ih]
      · simp [iterTextL, iterText, ih]

theorem mkElem_text {tag : String} {attrs : Attrs} {kids : List Xml} {x : Xml}
    (h : mkElem tag attrs kids = .ok x) : iterText x = iterTextL kids := by
  unfold mkElem at h
  split at h
  · cases h
  · injection h with h; subst h; simp [iterText, mergeText_text]

theorem itemsText_append (a b : List Item) : itemsText (a ++ b) = itemsText a ++ itemsText b := by
  induction a with
  | nil => simp [itemsText]
  | cons x xs ih => simp [itemsText, ih, String.append_assoc]

theorem groupByBool_flat {α} (key : α → Bool) : ∀ l : List α, (groupByBool key l).flatMap (·.2) = l
  | [] => rfl
  | x :: xs => by
    have ih := groupByBool_flat key xs
    rw [groupByBool]
    split
    · next k g rest h =>
      rw [h] at ih
      split
      · simp only [List.flatMap_cons] at ih ⊢; rw [← ih]; simp
      · simp only [List.flatMap_cons] at ih ⊢; rw [← ih]; simp
    · next h => rw [h] at ih; simp at ih; simp [ih]

end Bluebell

namespace Bluebell

def numS : Option String → String | some s => s | none => ""
def optS : Option (List Item) → String | some l => itemsText l | none => ""

theorem itemText_node (typ name : String) (a : Option Attrs) (children : Option (List Item)) (num : Option String)
    (heading subheading frm : Option (List Item)) (aa : Option Attrs) :
    itemText (.node typ name a children num heading subheading frm aa) =
      (if typ = "hier" ∨ typ = "block" then numS num ++ optS heading ++ optS subheading ++ optS children
       else if typ = "speechhier" then numS num ++ optS heading ++ optS subheading ++ optS frm ++ optS children
       else if typ = "element" ∧ name = "attachment" then optS heading ++ optS subheading ++ optS children
       else if typ = "marker" then ""
       else optS children) := by
  cases children <;> cases num <;> cases heading <;> cases subheading <;> cases frm <;> simp [itemText, numS, optS]

theorem singleton_text {tag : String} {attrs : Attrs} {kids : List Xml} {xs : List Xml}
    (h : (mkElem tag attrs kids).map (fun x => [x]) = .ok xs) : iterTextL xs = iterTextL kids := by
  cases hm : mkElem tag attrs kids with
  | error e => rw [hm] at h; cases h
  | ok x =>
    rw [hm] at h
    injection h with h; subst h
    simp [iterTextL, mkElem_text hm]

def TextInv (u : Uris) (n : Nat) : Prop :=
  (∀ parent item st x st', itemToXml u parent n item st = (.ok x, st') → iterText x = itemText item) ∧
  (∀ parent num h s st xs st', preNHS u parent n num h s st = (.ok xs, st') →
      iterTextL xs = numS num ++ optS h ++ optS s) ∧
  (∀ parent tag items st xs st', optList u parent n tag items st = (.ok xs, st') → iterTextL xs = optS items) ∧
  (∀ parent items st xs st', itemsToXml u parent n items st = (.ok xs, st') → iterTextL xs = itemsText items) ∧
  (∀ parent groups seen st xs st', hierGroups u parent n groups seen st = (.ok xs, st') →
      iterTextL xs = itemsText (groups.flatMap (·.2)))

theorem textInv_zero (u : Uris) : TextInv u 0 := by
  refine ⟨?_, ?_, ?_, ?_, ?_⟩
  · intro parent item st x st' h; simp [itemToXml] at h
  · intro parent num h s st xs st' hh; simp [preNHS] at hh
  · intro parent tag items st xs st' h; simp [optList] at h
  · intro parent items st xs st' h; simp [itemsToXml] at h
  · intro parent groups seen st xs st' h; simp [hierGroups] at h

theorem text_pre (u : Uris) (n : Nat) (ih : TextInv u n) :
    ∀ parent num h s st xs st', preNHS u parent (n+1) num h s st = (.ok xs, st') →
      iterTextL xs = numS num ++ optS h ++ optS s := by
  obtain ⟨_, _, ihO, _, _⟩ := ih
  intro parent num h s st xs st' hh
  simp only [preNHS] at hh
  -- the num element
  have hnum : ∀ a, (match num with
        | some n => if n ≠ "" then (mkElem "num" [] [.text n]).map (fun x => [x]) else .ok []
        | none => (.ok [] : Except Err (List Xml))) = .ok a → iterTextL a = numS num := by
    intro a ha
    cases num with
    | none => simp at ha; subst ha; rfl
    | some v =>
      simp only at ha
      split at ha
      · simpa [iterTextL, iterText, numS] using singleton_text ha
      · next hv => injection ha with ha; subst ha; simp at hv; simp [iterTextL, numS, hv]
  split at hh
  · cases hh
  · next a ha =>
    cases h1 : optList u parent n "heading" h st with
    | mk rh st1 =>
      rw [h1] at hh
      simp only at hh
      cases rh with
      | error e => cases hh
      | ok b =>
        simp only at hh
        cases h2 : optList u parent n "subheading" s st1 with
        | mk rs st2 =>
          rw [h2] at hh
          simp only at hh
          cases rs with
          | error e => cases hh
          | ok c =>
            simp only at hh
            injection hh with hx _
            injection hx with hx
            subst hx
            rw [iterTextL_append', iterTextL_append', hnum a ha, ihO _ _ _ _ _ _ h1, ihO _ _ _ _ _ _ h2]

theorem text_opt (u : Uris) (n : Nat) (ih : TextInv u n) :
    ∀ parent tag items st xs st', optList u parent (n+1) tag items st = (.ok xs, st') → iterTextL xs = optS items := by
  obtain ⟨_, _, _, ihL, _⟩ := ih
  intro parent tag items st xs st' h
  simp only [optList] at h
  split at h
  · next i is =>
    cases h1 : itemsToXml u parent n (i :: is) st with
    | mk r st1 =>
      rw [h1] at h
      simp only at h
      injection h with hx _
      cases r with
      | error e => cases hx
      | ok ks =>
        simp only [Except.bind] at hx
        rw [singleton_text hx, ihL _ _ _ _ _ h1]; rfl
  · next hne =>
    injection h with hx _
    injection hx with hx; subst hx
    cases items with
    | none => rfl
    | some l =>
      cases l with
      | nil => rfl
      | cons i is => exact absurd rfl (hne i is)

theorem text_list (u : Uris) (n : Nat) (ih : TextInv u n) :
    ∀ parent items st xs st', itemsToXml u parent (n+1) items st = (.ok xs, st') → iterTextL xs = itemsText items := by
  obtain ⟨ihI, _, _, ihL, _⟩ := ih
  intro parent items st xs st' h
  cases items with
  | nil => simp only [itemsToXml] at h; injection h with hx _; injection hx with hx; subst hx; rfl
  | cons i is =>
    simp only [itemsToXml] at h
    cases h1 : itemToXml u parent n i st with
    | mk r st1 =>
      rw [h1] at h
      cases r with
      | error e => simp at h
      | ok x =>
        simp only at h
        cases h2 : itemsToXml u parent n is st1 with
        | mk r2 st2 =>
          rw [h2] at h
          cases r2 with
          | error e => simp at h
          | ok xs' =>
            simp only at h
            injection h with hx _; injection hx with hx; subst hx
            simp [iterTextL, itemsText, ihI _ _ _ _ _ h1, ihL _ _ _ _ _ h2]

theorem text_groups (u : Uris) (n : Nat) (ih : TextInv u n) :
    ∀ parent groups seen st xs st', hierGroups u parent (n+1) groups seen st = (.ok xs, st') →
      iterTextL xs = itemsText (groups.flatMap (·.2)) := by
  obtain ⟨_, _, _, ihL, ihG⟩ := ih
  intro parent groups seen st xs st' h
  cases groups with
  | nil => simp only [hierGroups] at h; injection h with hx _; injection hx with hx; subst hx; rfl
  | cons g rest =>
    obtain ⟨isHier, group⟩ := g
    simp only [hierGroups] at h
    cases h1 : itemsToXml u parent n group st with
    | mk rg st1 =>
      rw [h1] at h
      simp only at h
      cases rg with
      | error e => simp at h
      | ok gx =>
        simp only at h
        have hg := ihL _ _ _ _ _ h1
        split at h
        · cases h
        · next hx hhere =>
          have hhx : iterTextL hx = iterTextL gx := by
            split at hhere
            · injection hhere with e; subst e; rfl
            · split at hhere
              · split at hhere
                · exact singleton_text hhere
                · cases hc : mkElem "content" [] gx with
                  | error e => rw [hc] at hhere; cases hhere
                  | ok c =>
                    rw [hc] at hhere
                    simp only [Except.bind] at hhere
                    rw [singleton_text hhere]
                    simp [iterTextL, mkElem_text hc]
              · exact singleton_text hhere
          cases h2 : hierGroups u parent n rest (seen || isHier) st1 with
          | mk rr st2 =>
            rw [h2] at h
            simp only at h
            cases rr with
            | error e => simp at h
            | ok r =>
              simp only at h
              injection h with hx' _; injection hx' with hx'; subst hx'
              rw [iterTextL_append', hhx, hg, ihG _ _ _ _ _ _ h2]
              simp [itemsText_append]

theorem text_item (u : Uris) (n : Nat) (ih : TextInv u n) :
    ∀ parent item st x st', itemToXml u parent (n+1) item st = (.ok x, st') → iterText x = itemText item := by
  obtain ⟨_, ihP, ihO, ihL, ihG⟩ := ih
  intro parent item st x st' h
  cases item with
  | text v => simp only [itemToXml] at h; injection h with hx _; injection hx with hx; subst hx; rfl
  | node typ name attribs children num heading subheading frm attAttribs =>
    rw [itemText_node]
    simp only [itemToXml] at h
    have hkids : ∀ l, optS (some l) = itemsText l := fun _ => rfl
    have hch : itemsText (children.getD []) = optS children := by cases children <;> rfl
    split at h
    · -- hier
      next =>
      simp only [true_or, if_true]
      by_cases hc : ((children.getD []).all fun k => !checkHier k) = true
      · simp only [hc, if_true] at h
        cases hA : itemsToXml u parent n (children.getD []) st with
        | mk r s1 =>
          rw [hA] at h
          try simp only at h
          cases r with
          | error e => simp [Except.bind] at h
          | ok ks =>
            simp only [Except.bind] at h
            cases hm : mkElem "content" [] ks with
            | error e => rw [hm] at h; simp [Except.map] at h
            | ok cx =>
              rw [hm] at h
              simp only [Except.map] at h
              cases hP : preNHS u parent n num heading subheading s1 with
              | mk rp s2 =>
                rw [hP] at h
                try simp only at h
                cases rp with
                | error e => simp at h
                | ok p =>
                  try simp only at h
                  injection h with hx _
                  rw [mkElem_text hx, iterTextL_append', ihP _ _ _ _ _ _ _ hP]
                  simp [iterTextL, mkElem_text hm, ihL _ _ _ _ _ hA, hch]
      · simp only [hc, Bool.false_eq_true, if_false] at h
        cases hG : hierGroups u parent n (groupByBool checkHier (children.getD [])) false st with
        | mk rg s1 =>
          rw [hG] at h
          try simp only at h
          cases rg with
          | error e => simp at h
          | ok kids =>
            try simp only at h
            cases hP : preNHS u parent n num heading subheading s1 with
            | mk rp s2 =>
              rw [hP] at h
              try simp only at h
              cases rp with
              | error e => simp at h
              | ok p =>
                try simp only at h
                injection h with hx _
                rw [mkElem_text hx, iterTextL_append', ihP _ _ _ _ _ _ _ hP, ihG _ _ _ _ _ _ hG, groupByBool_flat, hch]
    · -- block
      next =>
      simp only [or_true, if_true]
      cases hP : preNHS u parent n num heading subheading st with
      | mk rp s1 =>
        rw [hP] at h
        try simp only at h
        cases rp with
        | error e => simp at h
        | ok p =>
          try simp only at h
          cases hK : itemsToXml u parent n (children.getD []) s1 with
          | mk rk s2 =>
            rw [hK] at h
            try simp only at h
            cases rk with
            | error e => simp at h
            | ok ks =>
              try simp only at h
              injection h with hx _
              rw [mkElem_text hx]
              have hp := ihP _ _ _ _ _ _ _ hP
              have hk := ihL _ _ _ _ _ hK
              rw [hch] at hk
              split
              · next he =>
                have he' : p ++ ks = [] := by simpa using he
                have hpn : p = [] := (List.append_eq_nil_iff.mp he').1
                have hks : ks = [] := (List.append_eq_nil_iff.mp he').2
                subst hpn; subst hks
                simp only [iterTextL] at hp hk
                simp [iterTextL, iterText, ← hp, ← hk]
              · rw [iterTextL_append', hp, hk]
    · -- speechhier
      next =>
      have h1 : ¬ ("speechhier" = "hier" ∨ "speechhier" = "block") := by decide
      simp only [h1, if_false, if_true]
      cases hP : preNHS u parent n num heading subheading st with
      | mk rp s1 =>
        rw [hP] at h
        try simp only at h
        cases rp with
        | error e => simp at h
        | ok p =>
          try simp only at h
          cases frm with
          | none =>
            try simp only at h
            cases hK : itemsToXml u parent n (children.getD []) s1 with
            | mk rk s2 =>
              rw [hK] at h
              try simp only at h
              cases rk with
              | error e => simp at h
              | ok ks =>
                try simp only at h
                injection h with hx _
                have hk := ihL _ _ _ _ _ hK
                rw [hch] at hk
                rw [mkElem_text hx, iterTextL_append', iterTextL_append', ihP _ _ _ _ _ _ _ hP, hk]
                simp [iterTextL, optS]
          | some fl =>
            try simp only at h
            cases hF : itemsToXml u parent n fl s1 with
            | mk rf s2 =>
              rw [hF] at h
              try simp only at h
              cases rf with
              | error e => simp [Except.bind] at h
              | ok fks =>
                simp only [Except.bind] at h
                cases hm : mkElem "from" [] fks with
                | error e => rw [hm] at h; simp [Except.map] at h
                | ok fx =>
                  rw [hm] at h
                  simp only [Except.map] at h
                  cases hK : itemsToXml u parent n (children.getD []) s2 with
                  | mk rk s3 =>
                    rw [hK] at h
                    try simp only at h
                    cases rk with
                    | error e => simp at h
                    | ok ks =>
                      try simp only at h
                      injection h with hx _
                      have hk := ihL _ _ _ _ _ hK
                      rw [hch] at hk
                      rw [mkElem_text hx, iterTextL_append', iterTextL_append', ihP _ _ _ _ _ _ _ hP, hk]
                      simp [iterTextL, mkElem_text hm, ihL _ _ _ _ _ hF, optS]
    · -- content
      next =>
      have h1 : ¬ ("content" = "hier" ∨ "content" = "block") := by decide
      have h2 : ¬ ("content" = "speechhier") := by decide
      have h3 : ¬ ("content" = "element" ∧ name = "attachment") := by simp
      have h4 : ¬ ("content" = "marker") := by decide
      simp only [h1, h2, h3, h4, if_false]
      cases hk : itemsToXml u parent n (children.getD []) st with
      | mk r s1 =>
        rw [hk] at h
        try simp only at h
        injection h with hx _
        cases r with
        | error e => cases hx
        | ok ks =>
          simp only [Except.bind] at hx
          rw [mkElem_text hx, ihL _ _ _ _ _ hk, hch]
    · -- inline
      next =>
      have h1 : ¬ ("inline" = "hier" ∨ "inline" = "block") := by decide
      have h2 : ¬ ("inline" = "speechhier") := by decide
      have h3 : ¬ ("inline" = "element" ∧ name = "attachment") := by simp
      have h4 : ¬ ("inline" = "marker") := by decide
      simp only [h1, h2, h3, h4, if_false]
      cases hk : itemsToXml u parent n (children.getD []) st with
      | mk r s1 =>
        rw [hk] at h
        try simp only at h
        injection h with hx _
        cases r with
        | error e => cases hx
        | ok ks =>
          simp only [Except.bind] at hx
          rw [mkElem_text hx, ihL _ _ _ _ _ hk, hch]
    · -- marker
      next =>
      have h1 : ¬ ("marker" = "hier" ∨ "marker" = "block") := by decide
      have h2 : ¬ ("marker" = "speechhier") := by decide
      have h3 : ¬ ("marker" = "element" ∧ name = "attachment") := by simp
      simp only [h1, h2, h3, if_false, if_true]
      injection h with hx _
      rw [mkElem_text hx]; rfl
    · -- element
      next =>
      have h1 : ¬ ("element" = "hier" ∨ "element" = "block") := by decide
      have h2 : ¬ ("element" = "speechhier") := by decide
      have h4 : ¬ ("element" = "marker") := by decide
      simp only [h1, h2, h4, if_false, true_and]
      split at h
      · next hatt =>
        simp only [hatt, if_true]
        cases hN : attachmentName parent st (.node "element" name attribs children num heading subheading frm attAttribs) with
        | mk s0 attName =>
          rw [hN] at h
          try simp only at h
          cases hH : optList u parent n "heading" heading s0 with
          | mk rh s1 =>
            rw [hH] at h
            try simp only at h
            cases rh with
            | error e => simp at h
            | ok hx =>
              try simp only at h
              cases hS : optList u parent n "subheading" subheading s1 with
              | mk rs s2 =>
                rw [hS] at h
                try simp only at h
                cases rs with
                | error e => simp at h
                | ok sx =>
                  try simp only at h
                  split at h
                  · simp at h
                  · cases hK : itemsToXml u (some attName) n (children.getD []) s2 with
                    | mk rk s3 =>
                      rw [hK] at h
                      try simp only at h
                      cases rk with
                      | error e => simp at h
                      | ok ks =>
                        try simp only at h
                        split at h
                        · simp at h
                        · next doc hdoc =>
                          injection h with hxx _
                          have hk := ihL _ _ _ _ _ hK
                          rw [hch] at hk
                          rw [mkElem_text hxx, iterTextL_append', iterTextL_append', ihO _ _ _ _ _ _ hH, ihO _ _ _ _ _ _ hS]
                          simp [iterTextL, mkElem_text hdoc, metaStub, iterText, hk]
      · next hatt =>
        simp only [hatt, if_false]
        cases hk : itemsToXml u parent n (children.getD []) st with
        | mk r s1 =>
          rw [hk] at h
          try simp only at h
          injection h with hx _
          cases r with
          | error e => cases hx
          | ok ks =>
            simp only [Except.bind] at hx
            rw [mkElem_text hx, ihL _ _ _ _ _ hk, hch]
    · -- unknown type
      injection h with hx _; cases hx

theorem textInv (u : Uris) : ∀ n, TextInv u n
  | 0 => textInv_zero u
  | n + 1 =>
    have ih := textInv u n
    ⟨text_item u n ih, text_pre u n ih, text_opt u n ih, text_list u n ih, text_groups u n ih⟩

/-- **XML building keeps the text.** -/
theorem itemToXml_text (u : Uris) (parent : Option String) (fuel : Nat) (item : Item) (st st' : GenState) (x : Xml)
    (h : itemToXml u parent fuel item st = (.ok x, st')) : iterText x = itemText item :=
  (textInv u fuel).1 parent item st x st' h

end Bluebell
