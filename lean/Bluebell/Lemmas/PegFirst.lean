import Bluebell.Peg.First
import Bluebell.Lemmas.PegTerm
/-! Soundness of the first-character analysis, and "cannot start ⇒ fails" on certified grammars. -/
namespace Bluebell

theorem neverConsumes_stop (g : Grammar) (inp : Array Char) (n : Nat) (e : PExp) (p : Nat) (t : Tree)
    (h : eval g inp n e p = .ok t) (hn : neverConsumes e = true) : t.stop = p := by
  cases n with
  | zero => simp [eval] at h
  | succ n =>
    cases e with
    | notP e =>
      simp only [eval] at h
      cases he : eval g inp n e p with
      | oof => simp [he] at h
      | ok t' => simp [he] at h
      | fail => simp only [he] at h; injection h with h; subst h; rfl
    | andP e =>
      simp only [eval] at h
      cases he : eval g inp n e p with
      | oof => simp [he] at h
      | fail => simp [he] at h
      | ok t' => simp only [he] at h; injection h with h; subst h; rfl
    | lit s =>
      cases s with
      | nil => simp only [eval, litMatch, if_true] at h; injection h with h; subst h; rfl
      | cons a s => simp [neverConsumes] at hn
    | cls _ _ => simp [neverConsumes] at hn
    | rx1 _ _ => simp [neverConsumes] at hn
    | ref _ => simp [neverConsumes] at hn
    | seq _ => simp [neverConsumes] at hn
    | choice _ => simp [neverConsumes] at hn
    | opt _ => simp [neverConsumes] at hn
    | star _ => simp [neverConsumes] at hn
    | plus _ => simp [neverConsumes] at hn
    | typed _ _ => simp [neverConsumes] at hn

theorem mayStart_sound (g : Grammar) (inp : Array Char) : ∀ d,
    (∀ n e p t, eval g inp n e p = .ok t → mayStart g d e inp[p]? = true) ∧
    (∀ n es s p i ls acc t, evalSeq g inp n es s p i ls acc = .ok t → mayStartS g d es inp[p]? = true) ∧
    (∀ n es p t, evalChoice g inp n es p = .ok t → mayStartC g d es inp[p]? = true) := by
  intro d
  induction d with
  | zero => exact ⟨fun _ _ _ _ _ => by simp [mayStart], fun _ _ _ _ _ _ _ _ _ => by simp [mayStartS],
      fun _ _ _ _ _ => by simp [mayStartC]⟩
  | succ d ih =>
    obtain ⟨ihE, ihS, ihC⟩ := ih
    refine ⟨?_, ?_, ?_⟩
    · intro n e p t h
      cases n with
      | zero => simp [eval] at h
      | succ n =>
        cases e with
        | lit s =>
          cases s with
          | nil => simp [mayStart]
          | cons a s =>
            simp only [eval] at h
            split at h
            · rename_i hm
              simp only [litMatch, Bool.and_eq_true] at hm
              simpa [mayStart] using hm.1
            · cases h
        | cls neg cs =>
          simp only [eval] at h
          split at h
          · rename_i c hc
            split at h
            · rename_i hm; simp [mayStart, hc, hm]
            · cases h
          · cases h
        | rx1 neg cs =>
          simp only [eval] at h
          split at h
          · rename_i hlt
            obtain ⟨c, hc, hm⟩ := scanCls_all inp neg cs _ p p (Nat.le_refl _) hlt
            simp [mayStart, hc, hm]
          · cases h
        | ref nm =>
          simp only [eval] at h
          cases hl : g.lookup nm with
          | none => simp [hl] at h
          | some e' => simp only [hl] at h; simpa [mayStart, hl] using ihE _ _ _ _ h
        | seq es => simp only [eval] at h; simpa [mayStart] using ihS _ _ _ _ _ _ _ _ h
        | choice es => simp only [eval] at h; simpa [mayStart] using ihC _ _ _ _ h
        | opt e => simp [mayStart]
        | star e => simp [mayStart]
        | notP e => simp [mayStart]
        | plus e =>
          simp only [eval] at h
          cases n with
          | zero => simp [evalRep] at h
          | succ n =>
            rw [evalRep] at h
            cases he : eval g inp n e p with
            | oof => simp [he] at h
            | fail => simp [he] at h
            | ok t' => simpa [mayStart] using ihE _ _ _ _ he
        | andP e =>
          simp only [eval] at h
          cases he : eval g inp n e p with
          | oof => simp [he] at h
          | fail => simp [he] at h
          | ok t' => simpa [mayStart] using ihE _ _ _ _ he
        | typed ty e =>
          simp only [eval] at h
          cases he : eval g inp n e p with
          | oof => simp [he] at h
          | fail => simp [he] at h
          | ok t' => simpa [mayStart] using ihE _ _ _ _ he
    · intro n es s p i ls acc t h
      cases n with
      | zero => simp [evalSeq] at h
      | succ n =>
        cases es with
        | nil => simp [mayStartS]
        | cons names e r =>
          simp only [evalSeq] at h
          cases he : eval g inp n e p with
          | oof => simp [he] at h
          | fail => simp [he] at h
          | ok t' =>
            simp only [he] at h
            have h1 := ihE _ _ _ _ he
            simp only [mayStartS, h1, Bool.true_and, Bool.or_eq_true, Bool.not_eq_true']
            by_cases hn : neverConsumes e = true
            · right
              have hs := neverConsumes_stop g inp n e p t' he hn
              rw [hs] at h
              exact ihS _ _ _ _ _ _ _ _ h
            · left; simpa using hn
    · intro n es p t h
      cases n with
      | zero => simp [evalChoice] at h
      | succ n =>
        cases es with
        | nil => simp [evalChoice] at h
        | cons e r =>
          simp only [evalChoice] at h
          cases he : eval g inp n e p with
          | oof => simp [he] at h
          | ok t' => simp [mayStartC, ihE _ _ _ _ he]
          | fail => simp only [he] at h; simp [mayStartC, ihC _ _ _ _ h]

/-- An expression that cannot start with the character at `p` never succeeds there. -/
theorem cannot_start (g : Grammar) (inp : Array Char) (d : Nat) (e : PExp) (p : Nat)
    (h : mayStart g d e inp[p]? = false) (n : Nat) (t : Tree) : eval g inp n e p ≠ .ok t := by
  intro he
  have := (mayStart_sound g inp d).1 n e p t he
  rw [h] at this; cases this

/-- …and on a certified grammar a rule that cannot start there *fails* for every sufficiently
large fuel (it neither succeeds nor runs out of fuel). -/
theorem rule_fails_of_cannot_start {g : Grammar} {N : List String} {R : List (String × Nat)} {top : Nat}
    (hw : wfG g N R top = true) (inp : Array Char) (d : Nat) (A : String)
    (hA : (g.lookup A).isSome) (p : Nat) (hp : p ≤ inp.size)
    (h : mayStart g d (.ref A) inp[p]? = false) :
    ∃ n0, ∀ n, n0 ≤ n → eval g inp n (.ref A) p = .fail := by
  obtain ⟨n0, r, hd, hr⟩ := peg_result_defined (inp := inp) hw A hA p hp
  refine ⟨n0, fun n hn => ?_⟩
  have := hr n hn
  cases r with
  | fail => exact this
  | oof => exact absurd hd Res.not_done_oof
  | ok t => exact absurd this (cannot_start g inp d _ p h n t)

end Bluebell
