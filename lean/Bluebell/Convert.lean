import Bluebell.PreParse
import Bluebell.Exec
import Bluebell.Post
/-!
# The whole pipeline: `AkomaNtosoParser.parse_to_xml` and its stages

`convertWith st` is a call on a parser object whose generator is in state `st`; it returns the result
and the state left behind (this is what C16 is about). `convert` is a call on a fresh object.
-/
namespace Bluebell

def resolveRoot (root : String) : String := (rootAliases.lookup root).getD root

/-- `parse(text, root)`: pre-parse, run the grammar from `root`, require all input consumed -/
def parseText (text : String) (root : String) : Except Err (Array Char × Tree) :=
  let pre := (preParse indentSizeDefault text.toList).toArray
  let r := resolveRoot root
  if (aknExec.lookup r).isNone then .error .attributeError
  else match eval aknExec pre (defaultFuel pre) (.ref r) 0 with
    | .ok t => if t.stop == pre.size then .ok (pre, t) else .error .parseError
    | .fail => .error .parseError
    | .oof => .error .other

def isRootTree (t : Tree) : Bool :=
  match t.lastType with
  | some ty => match rootTable.lookup ty with
    | some (_, _, _, r) => r
    | none => false
  | none => false

/-- `xml_from_dict(tree, is_root)` -/
def xmlFromDict (u : Uris) (pfx : String) (item : Item) (isRoot : Bool) (st : GenState) : Except Err Xml × GenState :=
  -- xml_from_tree starts by resetting the id generator (attachment numbering shares its counters)
  let st : GenState := { ids := {} }
  match itemToXml u none 100000 item st with
  | (.error e, st) => (.error e, st)
  | (.ok x, st) =>
    let wrapped : Except Err Xml :=
      if isRoot then
        if !u.present then .error .valueError
        else match x with
          | .elem t a ks => .ok (.elem "akomaNtoso" [] [.elem t a (metaStub u.work u.expr u.manif :: ks)])
          | y => .ok y
      else .ok x
    match wrapped with
    | .error e => (.error e, st)
    | .ok w =>
      match resolveDisplaced w >>= normalise with
      | .error e => (.error e, st)
      | .ok y =>
        -- generate_eids resets the id generator, then rewrites
        let (z, s') := rewriteEid y pfx {}
        (.ok (titlesX z), { ids := s' })

def convertWith (u : Uris) (pfx : String) (text root : String) (st : GenState) : Except Err Xml × GenState :=
  match parseText text root with
  | .error e => (.error e, st)
  | .ok (pre, t) =>
    if kindOf t != "dict" then (.error .attributeError, st)
    else xmlFromDict u pfx (toDict pre (defaultFuel pre) t) (isRootTree t) st

def convert (u : Uris) (pfx : String) (text root : String) : Except Err Xml :=
  (convertWith u pfx text root {}).1

/-! ### one parser object over a history of calls (C16) -/

inductive Call where
  | convert (text root : String)          -- parse_to_xml / xml_from_dict
  | rewrite (x : Xml) (pfx : String)      -- generator.ids.rewrite_all_eids
  | pure                                  -- parse, unparse, pre_parse: no generator state involved

inductive Outcome where
  | doc (r : Except Err Xml)
  | rewritten (x : Xml) (mapping : List (String × String))
  | nothing

/-- one call on an object with FRBR URIs `u` and eId prefix `pfx` -/
def stepCall (u : Uris) (pfx : String) (st : GenState) : Call → Outcome × GenState
  | .convert text root => let r := convertWith u pfx text root st; (.doc r.1, r.2)
  | .rewrite x p => let r := rewriteEid x p {}; (.rewritten r.1 r.2.mappings, { ids := r.2 })
  | .pure => (.nothing, st)

def runCalls (u : Uris) (pfx : String) : GenState → List Call → List Outcome × GenState
  | st, [] => ([], st)
  | st, c :: cs =>
    let (o, st1) := stepCall u pfx st c
    let (os, st2) := runCalls u pfx st1 cs
    (o :: os, st2)

end Bluebell
