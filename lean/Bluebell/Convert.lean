import Bluebell.PreParse
import Bluebell.Exec
import Bluebell.Post
/-!
# The whole pipeline: `AkomaNtosoParser.parse_to_xml` and its stages

`convertWith st` is a call on a parser object whose generator is in state `st`; it returns the result
and the state left behind (this is what C16 is about). `convert` is a call on a fresh object.
-/
namespace Bluebell

def resolveRoot (root : String) : String := (rootAliases.lookup root).getD root

/-- `parse(text, root)`: pre-parse, run the grammar from `root`, require all input consumed -/
def parseText (text : String) (root : String) : Except Err (Array Char × Tree) :=
  let pre := (preParse indentSizeDefault text.toList).toArray
  let r := resolveRoot root
  if (aknExec.lookup r).isNone then .error .attributeError
  else match eval aknExec pre (defaultFuel pre) (.ref r) 0 with
    | .ok t => if t.stop == pre.size then .ok (pre, t) else .error .parseError
    | .fail => .error .parseError
    | .oof => .error .other

def isRootTree (t : Tree) : Bool :=
  match t.lastType with
  | some ty => match rootTable.lookup ty with
    | some (_, _, _, r) => r
    | none => false
  | none => false

/-- `xml_from_dict(tree, is_root)` -/
def xmlFromDict (u : Uris) (pfx : String) (item : Item) (isRoot : Bool) (st : GenState) : Except Err Xml × GenState :=
  match itemToXml u 100000 item st with
  | (.error e, st) => (.error e, st)
  | (.ok x, st) =>
    let wrapped : Except Err Xml :=
      if isRoot then
        if !u.present then .error .valueError
        else match x with
          | .elem t a ks => .ok (.elem "akomaNtoso" [] [.elem t a (metaStub u.work u.expr u.manif :: ks)])
          | y => .ok y
      else .ok x
    match wrapped with
    | .error e => (.error e, st)
    | .ok w =>
      match resolveDisplaced w >>= normalise with
      | .error e => (.error e, st)
      | .ok y =>
        -- generate_eids resets the id generator, then rewrites
        let (z, s') := rewriteEid y pfx {}
        (.ok (titlesX z), { st with ids := s' })

def convertWith (u : Uris) (pfx : String) (text root : String) (st : GenState) : Except Err Xml × GenState :=
  match parseText text root with
  | .error e => (.error e, st)
  | .ok (pre, t) =>
    if kindOf t != "dict" then (.error .attributeError, st)
    else xmlFromDict u pfx (toDict pre (defaultFuel pre) t) (isRootTree t) st

def convert (u : Uris) (pfx : String) (text root : String) : Except Err Xml :=
  (convertWith u pfx text root {}).1

end Bluebell
