import Lean.Data.Json
import Bluebell.Peg.Eval
import Bluebell.Gen.Grammar
import Bluebell.Gen.Compiled
import Bluebell.Exec
import Bluebell.PreParse
import Bluebell.Eid
import Bluebell.Types
import Bluebell.Convert
import Bluebell.Unparse
/-! Request dispatcher for the line-protocol driver (not part of the proof library's trusted
statements; it only exposes the model's executable definitions). -/
open Lean
namespace Bluebell.Driver

def getStr (j : Json) (k : String) : String := (j.getObjValAs? String k).toOption.getD ""
def getNat (j : Json) (k : String) : Nat := (j.getObjValAs? Nat k).toOption.getD 0

/-- Canonical S-expression of a tree: labels deduplicated (last assignment wins, as Python
attribute assignment does) and sorted by (index, name). `elide` lists rule... -/
partial def dumpTree (t : Tree) : String :=
  match t with
  | .node s e ts ls ks =>
    let dedup := ls.foldl (fun acc (p : String × Nat) => (acc.filter (fun q => q.1 != p.1)) ++ [p]) []
    let sorted := dedup.toArray.qsort (fun a b => a.2 < b.2 || (a.2 == b.2 && a.1 < b.1)) |>.toList
    "(" ++ toString s ++ " " ++ toString e ++ " [" ++ " ".intercalate ts ++ "] [" ++
      " ".intercalate (sorted.map fun (l,i) => l ++ "=" ++ toString i) ++ "]" ++
      String.join (ks.map fun k => " " ++ dumpTree k) ++ ")"

partial def xmlOfJson (j : Json) : Xml :=
  match j with
  | .str s => .text s
  | .arr a =>
    let tag : String := match (a[0]? : Option Json) with | some (Json.str t) => t | _ => "?"
    let attrs : List (String × String) := match (a[1]? : Option Json) with
      | some (Json.obj o) => o.toList.map fun (k, v) => (k, match v with | Json.str s => s | _ => "?")
      -- attributes in document order: an array of [name, value] pairs (a JSON object would be read back sorted)
      | some (Json.arr ps) => ps.toList.map fun p => match p with
          | Json.arr #[Json.str k, Json.str v] => (k, v)
          | _ => ("?", "?")
      | _ => []
    let kids : List Xml := match (a[2]? : Option Json) with
      | some (Json.arr ks) => ks.toList.map xmlOfJson
      | _ => []
    .elem tag attrs kids
  | _ => .text "?"

partial def jsonOfXml : Xml → Json
  | .text s => .str s
  | .elem t a ks => .arr #[.str t, Json.mkObj (a.map fun (k, v) => (k, Json.str v)), .arr (ks.map jsonOfXml).toArray]

partial def jsonOfItem : Item → Json
  | .text v => Json.mkObj [("type", "text"), ("value", Json.str v)]
  | .node t n a c nu h sh f aa =>
    let attrsJ := fun (x : Attrs) => Json.mkObj (x.map fun (k, v) => (k, Json.str v))
    Json.mkObj ([("type", Json.str t), ("name", Json.str n)]
      ++ (match a with | some x => [("attribs", attrsJ x)] | none => [])
      ++ (match c with | some x => [("children", Json.arr (x.map jsonOfItem).toArray)] | none => [])
      ++ (match nu with | some x => [("num", Json.str x)] | none => [])
      ++ (match h with | some x => [("heading", Json.arr (x.map jsonOfItem).toArray)] | none => [])
      ++ (match sh with | some x => [("subheading", Json.arr (x.map jsonOfItem).toArray)] | none => [])
      ++ (match f with | some x => [("from", Json.arr (x.map jsonOfItem).toArray)] | none => [])
      ++ (match aa with | some x => [("att_attribs", attrsJ x)] | none => []))

def handleToDict (j : Json) : Json :=
  let inp := (getStr j "text").toList.toArray
  let rule := getStr j "root"
  match eval aknExec inp (defaultFuel inp) (.ref rule) 0 with
  | .ok t =>
    if t.stop == inp.size then
      let fuel := defaultFuel inp
      if kindOf t != "dict" then Json.mkObj [("res", "ok"), ("kind", Json.str (kindOf t))]
      else
        let d : Json := match t.lastType with
          | some "BlockAttrs" => Json.mkObj ((blockAttrs inp fuel t).map fun (k, v) => (k, Json.str v))
          | some "BlockAttr" => Json.mkObj [(((t.child "attr_name").textOf inp), Json.str (pyStripS ((t.child "value").textOf inp)))]
          | some "Subheading" => Json.arr ((toDictList inp fuel t).map jsonOfItem).toArray
          | some "From" => Json.arr ((toDictList inp fuel t).map jsonOfItem).toArray
          | _ => jsonOfItem (toDict inp fuel t)
        Json.mkObj [("res", "ok"), ("kind", "dict"), ("dict", d)]
    else Json.mkObj [("res", "leftover"), ("stop", t.stop)]
  | .fail => Json.mkObj [("res", "fail")]
  | .oof => Json.mkObj [("res", "oof")]

def urisOf (j : Json) : Uris :=
  match j.getObjVal? "uris" with
  | .ok u => { work := getStr u "work", expr := getStr u "expr", manif := getStr u "manif",
               workBase := getStr u "workBase", exprBase := getStr u "exprBase", manifBase := getStr u "manifBase",
               present := true }
  | .error _ => { present := false }

def resJson (r : Except Err Xml) : Json :=
  match r with
  | .ok x => Json.mkObj [("xml", jsonOfXml x)]
  | .error e => Json.mkObj [("exc", Json.str e.name)]

def callOfJson (j : Json) : Call :=
  match getStr j "op" with
  | "convert" => .convert (getStr j "text") (getStr j "root")
  | "rewrite" => .rewrite (xmlOfJson (j.getObjValD "tree")) (getStr j "prefix")
  | _ => .pure

def jsonOfOutcome : Outcome → Json
  | .doc r => resJson r
  | .rewritten x m => Json.mkObj [("tree", jsonOfXml x), ("mapping", Json.arr (m.map fun (a, b) => Json.arr #[.str a, .str b]).toArray)]
  | .nothing => Json.mkObj []

def handleHistory (j : Json) : Json :=
  let calls := match j.getObjValD "calls" with | .arr a => a.toList.map callOfJson | _ => []
  let (outs, _) := runCalls (urisOf j) (getStr j "prefix") {} calls
  Json.mkObj [("outs", Json.arr (outs.map jsonOfOutcome).toArray)]

def grammarOf (name : String) : Grammar :=
  match name with
  | "compiled" => aknCompiled
  | "source" => aknSource
  | "sourcex" => aknSourceX
  | _ => aknExec

def handleParse (j : Json) : Json :=
  let g := grammarOf (getStr j "grammar")
  let inp := (getStr j "text").toList.toArray
  let rule := getStr j "rule"
  match eval g inp (defaultFuel inp) (.ref rule) 0 with
  | .ok t => Json.mkObj [("res", "ok"), ("stop", t.stop), ("tree", dumpTree t)]
  | .fail => Json.mkObj [("res", "fail")]
  | .oof => Json.mkObj [("res", "oof")]

def handle (j : Json) : Json :=
  match getStr j "op" with
  | "ping" => Json.mkObj [("ok", true)]
  | "parse" => handleParse j
  | "pptrace" =>
      let tr := traceLines (normLines (getNat j "n") (getStr j "text").toList) [-1] (-1)
      Json.mkObj [("trace", Json.arr (tr.map fun (k, d, t) => Json.arr #[Json.num (k : Int), Json.num d, Json.num (t.headD (-2))]).toArray)]
  | "eids" =>
      let (x, m) := rewriteAll (xmlOfJson (j.getObjValD "tree")) (getStr j "prefix")
      Json.mkObj [("tree", jsonOfXml x), ("mapping", Json.arr (m.map fun (a, b) => Json.arr #[.str a, .str b]).toArray)]
  | "cleannum" => Json.mkObj [("out", Json.str (cleanNum (getStr j "num")))]
  | "convert" => resJson (convert (urisOf j) (getStr j "prefix") (getStr j "text") (getStr j "root"))
  | "unparse" =>
      let r := unparse (xmlOfJson (j.getObjValD "tree"))
      Json.mkObj [("text", Json.str r.1), ("tree", jsonOfXml r.2)]
  | "history" => handleHistory j
  | "todict" => handleToDict j
  | "preparse" => Json.mkObj [("out", Json.str (String.ofList (preParse (getNat j "n") (getStr j "text").toList)))]
  | op => Json.mkObj [("error", Json.str s!"unknown-op: {op}")]

end Bluebell.Driver
