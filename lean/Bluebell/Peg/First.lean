import Bluebell.Peg.Eval
/-!
# First-character analysis (decidable over-approximation)

`mayStart g d e c = false` means: `e` cannot succeed at a position whose next character is `c`
(`none` = end of text).  The analysis follows rule references to depth `d` and answers `true`
("don't know") beyond it, so it is a plain structural recursion the kernel can evaluate on the
regenerated grammar.  Soundness (`mayStart_sound`) is in `Lemmas/PegFirst.lean`.
-/
namespace Bluebell

/-- expressions that never move the offset when they succeed -/
def neverConsumes : PExp → Bool
  | .notP _ => true
  | .andP _ => true
  | .lit [] => true
  | _ => false

mutual
def mayStart (g : Grammar) : Nat → PExp → Option Char → Bool
  | 0, _, _ => true
  | d+1, e, c =>
    match e with
    | .lit [] => true
    | .lit (a :: _) => c == some a
    | .cls neg cs => match c with
        | some ch => clsMatch neg cs ch
        | none => false
    | .rx1 neg cs => match c with
        | some ch => clsMatch neg cs ch
        | none => false
    | .ref n => match g.lookup n with
        | some e' => mayStart g d e' c
        | none => false
    | .seq es => mayStartS g d es c
    | .choice es => mayStartC g d es c
    | .opt _ => true
    | .star _ => true
    | .notP _ => true
    | .plus e => mayStart g d e c
    | .andP e => mayStart g d e c
    | .typed _ e => mayStart g d e c
def mayStartS (g : Grammar) : Nat → PItems → Option Char → Bool
  | 0, _, _ => true
  | _+1, .nil, _ => true
  | d+1, .cons _ e r, c => mayStart g d e c && (!neverConsumes e || mayStartS g d r c)
def mayStartC (g : Grammar) : Nat → PExps → Option Char → Bool
  | 0, _, _ => true
  | _+1, .nil, _ => false
  | d+1, .cons e r, c => mayStart g d e c || mayStartC g d r c
end

end Bluebell
