/-!
# PEG syntax and parse trees (model of canopy's grammar language and `TreeNode`)

`PExp` is the abstract syntax of a canopy parsing expression.  A sequence item carries
the list of attribute names (labels) canopy assigns to it on the sequence's tree node:
the explicit `label:` and, for a bare rule reference, the rule's own name.  `typed t e`
is canopy's `<T>` annotation (a mixin added to the node `e` produces).

The three types are mutually inductive (rather than nested through `List`) so that
`DecidableEq` can be derived: `aknCompiled = aknSource` is then a kernel-checked fact.
-/
namespace Bluebell

mutual
inductive PExp where
  | lit (s : List Char)
  | cls (neg : Bool) (cs : List Char)
  | ref (name : String)
  | seq (es : PItems)
  | choice (es : PExps)
  | opt (e : PExp)
  | star (e : PExp)
  | plus (e : PExp)
  | notP (e : PExp)
  | andP (e : PExp)
  | typed (t : String) (e : PExp)
  /-- hand-optimised `[class]+`: the regular expression `[class]+` matched once (parser.py's
  override of `non_inline_start`); builds a node with a single child covering the whole run. -/
  | rx1 (neg : Bool) (cs : List Char)
inductive PItems where
  | nil
  | cons (labels : List String) (e : PExp) (rest : PItems)
inductive PExps where
  | nil
  | cons (e : PExp) (rest : PExps)
end

deriving instance DecidableEq for PExp, PItems, PExps
deriving instance Repr for PExp, PItems, PExps

instance : Inhabited PExp := ⟨.lit []⟩

/-- A grammar: rule name ↦ expression, in source order. -/
abbrev Grammar := List (String × PExp)

/-- canopy `TreeNode`: span, type mixins (in application order), attribute name ↦ child index,
children. The node's text is `input[start:stop]`. -/
inductive Tree where
  | node (start stop : Nat) (types : List String) (labels : List (String × Nat)) (kids : List Tree)
deriving Repr, Inhabited

namespace Tree
def start : Tree → Nat | .node s _ _ _ _ => s
def stop : Tree → Nat | .node _ e _ _ _ => e
def types : Tree → List String | .node _ _ t _ _ => t
def labels : Tree → List (String × Nat) | .node _ _ _ l _ => l
def kids : Tree → List Tree | .node _ _ _ _ k => k
def addType (t : String) : Tree → Tree | .node s e ts ls ks => .node s e (ts ++ [t]) ls ks
def leaf (s e : Nat) : Tree := .node s e [] [] []
@[simp] theorem stop_leaf (s e : Nat) : (leaf s e).stop = e := rfl
@[simp] theorem start_leaf (s e : Nat) : (leaf s e).start = s := rfl
@[simp] theorem stop_addType (t : String) (x : Tree) : (x.addType t).stop = x.stop := by
  cases x; rfl
@[simp] theorem start_addType (t : String) (x : Tree) : (x.addType t).start = x.start := by
  cases x; rfl
end Tree

/-- Result of evaluating an expression: failure, a tree, or fuel exhausted (`oof`). -/
inductive Res where
  | fail
  | ok (t : Tree)
  | oof
deriving Inhabited, Repr

def PItems.toList : PItems → List (List String × PExp)
  | .nil => []
  | .cons l e r => (l, e) :: r.toList

def PExps.toList : PExps → List PExp
  | .nil => []
  | .cons e r => e :: r.toList

end Bluebell
