import Bluebell.Peg.Eval
/-!
# Well-formedness certificate of a grammar (decidable) — the hypothesis of `peg_terminates`

`N` is a set of rule names claimed to be *nullable* (may succeed without consuming input); `R`
assigns each rule a rank.  `wfG g N R top` checks that

* `N` is closed: a rule whose body is nullable relative to `N` is in `N`;
* every rule has a rank below `top`;
* in the body of a rule of rank `k`, every rule reference that can be reached before any input has
  certainly been consumed (the *left edge*) has rank `< k` — so there is no left recursion;
* no `*`/`+` anywhere has a nullable body — so no loop can spin without progress.

Everything is a plain structural recursion, so the check on the regenerated grammar is decided
by the kernel.
-/
namespace Bluebell

mutual
/-- May `e` succeed without consuming?  (Over-approximation relative to `N`.) -/
def nullE (N : List String) : PExp → Bool
  | .lit s => s.isEmpty
  | .cls _ _ => false
  | .rx1 _ _ => false
  | .ref n => N.contains n
  | .seq es => nullS N es
  | .choice es => nullC N es
  | .opt _ => true
  | .star _ => true
  | .plus e => nullE N e
  | .notP _ => true
  | .andP _ => true
  | .typed _ e => nullE N e
def nullS (N : List String) : PItems → Bool
  | .nil => true
  | .cons _ e r => nullE N e && nullS N r
def nullC (N : List String) : PExps → Bool
  | .nil => false
  | .cons e r => nullE N e || nullC N r
end

/-- rank of a rule; unranked rules get `top`, which no check accepts -/
def rkOf (R : List (String × Nat)) (top : Nat) (n : String) : Nat := (R.lookup n).getD top

mutual
/-- `e` may be evaluated at a position where every rule of rank `< k` is known to terminate
(and every rule terminates at later positions). -/
def wfE (N : List String) (R : List (String × Nat)) (top : Nat) (k : Nat) : PExp → Bool
  | .lit _ => true
  | .cls _ _ => true
  | .rx1 _ _ => true
  | .ref n => decide (rkOf R top n < k)
  | .seq es => wfS N R top k es
  | .choice es => wfC N R top k es
  | .opt e => wfE N R top k e
  | .star e => wfE N R top k e && !nullE N e
  | .plus e => wfE N R top k e && !nullE N e
  | .notP e => wfE N R top k e
  | .andP e => wfE N R top k e
  | .typed _ e => wfE N R top k e
def wfS (N : List String) (R : List (String × Nat)) (top : Nat) (k : Nat) : PItems → Bool
  | .nil => true
  | .cons _ e r => wfE N R top k e && wfS N R top (if nullE N e then k else top) r
def wfC (N : List String) (R : List (String × Nat)) (top : Nat) (k : Nat) : PExps → Bool
  | .nil => true
  | .cons e r => wfE N R top k e && wfC N R top k r
end

/-- `N` is closed under the rules of `g`. -/
def closedN (g : Grammar) (N : List String) : Bool :=
  g.all fun (n, e) => !nullE N e || N.contains n

/-- The certificate check. -/
def wfG (g : Grammar) (N : List String) (R : List (String × Nat)) (top : Nat) : Bool :=
  closedN g N && g.all fun (n, e) => decide (rkOf R top n < top) && wfE N R top (rkOf R top n) e

end Bluebell
