import Bluebell.Peg.Syntax
/-!
# Fuel-indexed PEG interpreter

Structural recursion on fuel. `eval g inp fuel e pos` evaluates `e` at offset `pos` of `inp`.
A `*`/`+` body that succeeds without consuming returns `oof` (canopy's generated loop would
spin forever there), so "never `oof` for enough fuel" is the termination statement.
-/
namespace Bluebell

/-- Does the literal `s` occur in `inp` at `pos`? -/
def litMatch (inp : Array Char) (pos : Nat) : List Char → Bool
  | [] => true
  | c :: cs => (inp[pos]? == some c) && litMatch inp (pos + 1) cs

/-- Membership in a (possibly negated) character class. -/
def clsMatch (neg : Bool) (cs : List Char) (c : Char) : Bool := (cs.contains c) != neg

def addLabels (ls : List (String × Nat)) (names : List String) (i : Nat) : List (String × Nat) :=
  ls ++ names.map (fun n => (n, i))

/-- End of the longest run of characters of the class starting at `pos` (at most `k` characters). -/
def scanCls (inp : Array Char) (neg : Bool) (cs : List Char) : Nat → Nat → Nat
  | 0, pos => pos
  | k+1, pos =>
    match inp[pos]? with
    | some c => if clsMatch neg cs c then scanCls inp neg cs k (pos + 1) else pos
    | none => pos

mutual
def eval (g : Grammar) (inp : Array Char) : Nat → PExp → Nat → Res
  | 0, _, _ => .oof
  | fuel+1, e, pos =>
    match e with
    | .lit s => if litMatch inp pos s then .ok (.leaf pos (pos + s.length)) else .fail
    | .cls neg cs =>
        match inp[pos]? with
        | some c => if clsMatch neg cs c then .ok (.leaf pos (pos + 1)) else .fail
        | none => .fail
    | .ref n => match g.lookup n with
        | some e' => eval g inp fuel e' pos
        | none => .fail
    | .seq es => evalSeq g inp fuel es pos pos 0 [] []
    | .choice es => evalChoice g inp fuel es pos
    | .opt e => match eval g inp fuel e pos with
        | .ok t => .ok t
        | .fail => .ok (.leaf pos pos)
        | .oof => .oof
    | .star e => evalRep g inp fuel e pos pos [] 0
    | .plus e => evalRep g inp fuel e pos pos [] 1
    | .notP e => match eval g inp fuel e pos with
        | .ok _ => .fail
        | .fail => .ok (.leaf pos pos)
        | .oof => .oof
    | .andP e => match eval g inp fuel e pos with
        | .ok _ => .ok (.leaf pos pos)
        | .fail => .fail
        | .oof => .oof
    | .typed t e => match eval g inp fuel e pos with
        | .ok tr => .ok (tr.addType t)
        | .fail => .fail
        | .oof => .oof
    | .rx1 neg cs =>
        let stop := scanCls inp neg cs (inp.size - pos) pos
        if pos < stop then .ok (.node pos stop [] [] [.leaf pos stop]) else .fail
/-- Sequence: `start` is the sequence's own offset, `i` the index of the next element,
`ls`/`acc` the labels and children so far (children in reverse). -/
def evalSeq (g : Grammar) (inp : Array Char) :
    Nat → PItems → Nat → Nat → Nat → List (String × Nat) → List Tree → Res
  | 0, _, _, _, _, _, _ => .oof
  | _+1, .nil, start, pos, _, ls, acc => .ok (.node start pos [] ls acc.reverse)
  | fuel+1, .cons names e es, start, pos, i, ls, acc =>
    match eval g inp fuel e pos with
    | .ok t => evalSeq g inp fuel es start t.stop (i+1) (addLabels ls names i) (t :: acc)
    | .fail => .fail
    | .oof => .oof
def evalChoice (g : Grammar) (inp : Array Char) : Nat → PExps → Nat → Res
  | 0, _, _ => .oof
  | _+1, .nil, _ => .fail
  | fuel+1, .cons e es, pos =>
    match eval g inp fuel e pos with
    | .ok t => .ok t
    | .fail => evalChoice g inp fuel es pos
    | .oof => .oof
/-- Repetition with a minimum count (`0` for `*`, `1` for `+`). -/
def evalRep (g : Grammar) (inp : Array Char) : Nat → PExp → Nat → Nat → List Tree → Nat → Res
  | 0, _, _, _, _, _ => .oof
  | fuel+1, e, start, pos, acc, min =>
    match eval g inp fuel e pos with
    | .ok t =>
      if t.stop ≤ pos then .oof
      else evalRep g inp fuel e start t.stop (t :: acc) min
    | .fail => if min ≤ acc.length then .ok (.node start pos [] [] acc.reverse) else .fail
    | .oof => .oof
end

/-- Parse `inp` with rule `root` from offset 0. -/
def parseRule (g : Grammar) (inp : Array Char) (fuel : Nat) (root : String) : Res :=
  eval g inp fuel (.ref root) 0

/-- Fuel that the drivers use: generous and linear in the input. -/
def defaultFuel (inp : Array Char) : Nat := 64 * (inp.size + 4)

partial def Tree.dump : Tree → String
  | .node s e ts ls ks =>
    "(" ++ toString s ++ " " ++ toString e ++ " [" ++ " ".intercalate ts ++ "] [" ++
      " ".intercalate (ls.map fun (l,i) => l ++ "=" ++ toString i) ++ "]" ++
      String.join (ks.map fun k => " " ++ k.dump) ++ ")"

end Bluebell
