import Bluebell.ToXml
/-!
# Model of `XmlGenerator.post_process` (xml.py)

`resolveDisplaced` (footnotes), `normalise`, eId generation (`rewriteAll`), `setAttachmentTitles`,
and the `akomaNtoso`/meta wrapping of root documents. Element identity (lxml objects) is modelled by
numbering every element in document order in a reserved attribute (in unary, so that the kernel can
evaluate it), removed again at the end.
-/
namespace Bluebell

def idAttr : String := "\u0001id"

def Xml.nid : Xml → Nat
  | .elem _ a _ => ((a.lookup idAttr).map (fun v => v.toList.length)).getD 0
  | .text _ => 0

mutual
def numberX : Xml → Nat → Xml × Nat
  | .text s, n => (.text s, n)
  | .elem t a ks, n =>
    let (ks', n') := numberL ks (n + 1)
    (.elem t ((idAttr, String.ofList (List.replicate (n + 1) 'i')) :: a) ks', n')
def numberL : List Xml → Nat → List Xml × Nat
  | [], n => ([], n)
  | k :: ks, n =>
    let (k', n1) := numberX k n
    let (ks', n2) := numberL ks n1
    (k' :: ks', n2)
end

mutual
def unnumberX : Xml → Xml
  | .text s => .text s
  | .elem t a ks => .elem t (a.filter (fun p => p.1 != idAttr)) (unnumberL ks)
def unnumberL : List Xml → List Xml
  | [] => []
  | k :: ks => unnumberX k :: unnumberL ks
end

mutual
/-- ids of elements carrying a `displaced` attribute, in document order -/
def refIds : Xml → List Nat
  | .text _ => []
  | .elem t a ks => (if (a.lookup "displaced").isSome then [(Xml.elem t a ks).nid] else []) ++ refIdsL ks
def refIdsL : List Xml → List Nat
  | [] => []
  | k :: ks => refIds k ++ refIdsL ks
end

mutual
def containsId (id : Nat) : Xml → Bool
  | .text _ => false
  | .elem t a ks => (Xml.elem t a ks).nid == id || containsIdL id ks
def containsIdL (id : Nat) : List Xml → Bool
  | [] => false
  | k :: ks => containsId id k || containsIdL id ks
end

mutual
/-- ancestors of the element `id`, nearest first (`none` if absent) -/
def ancestorsOf (id : Nat) : Xml → Option (List Xml)
  | .text _ => none
  | .elem t a ks =>
    if (Xml.elem t a ks).nid == id then some []
    else match ancestorsOfL id ks with
      | some l => some (l ++ [.elem t a ks])
      | none => none
def ancestorsOfL (id : Nat) : List Xml → Option (List Xml)
  | [] => none
  | k :: ks => match ancestorsOf id k with
    | some l => some l
    | none => ancestorsOfL id ks
end

mutual
def findById (id : Nat) : Xml → Option Xml
  | .text _ => none
  | .elem t a ks => if (Xml.elem t a ks).nid == id then some (.elem t a ks) else findByIdL id ks
def findByIdL (id : Nat) : List Xml → Option Xml
  | [] => none
  | k :: ks => match findById id k with
    | some x => some x
    | none => findByIdL id ks
end

mutual
/-- first `displaced` element (document order, the element itself included) with this marker/name that does not
contain the reference `rid` (fix 13653fd: a reference cannot be moved into content it is itself part of) -/
def firstDisplaced (rid : Nat) (marker : Option String) (name : String) : Xml → Option Xml
  | .text _ => none
  | .elem t a ks =>
    if t = "displaced" ∧ a.lookup "marker" = marker ∧ a.lookup "name" = some name ∧ containsIdL rid ks = false
    then some (.elem t a ks)
    else firstDisplacedL rid marker name ks
def firstDisplacedL (rid : Nat) (marker : Option String) (name : String) : List Xml → Option Xml
  | [] => none
  | k :: ks => match firstDisplaced rid marker name k with
    | some x => some x
    | none => firstDisplacedL rid marker name ks
end

mutual
/-- remove the element `id` (wherever it is, except at the root) -/
def removeById (id : Nat) : Xml → Xml
  | .text s => .text s
  | .elem t a ks => .elem t a (mergeText (removeByIdL id ks))
def removeByIdL (id : Nat) : List Xml → List Xml
  | [] => []
  | k :: ks => if k.isElem && k.nid == id then removeByIdL id ks else removeById id k :: removeByIdL id ks
end

mutual
def modifyById (id : Nat) (f : Xml → Xml) : Xml → Xml
  | .text s => .text s
  | .elem t a ks => if (Xml.elem t a ks).nid == id then f (.elem t a ks) else .elem t a (modifyByIdL id f ks)
def modifyByIdL (id : Nat) (f : Xml → Xml) : List Xml → List Xml
  | [] => []
  | k :: ks => modifyById id f k :: modifyByIdL id f ks
end

def elemKids (x : Xml) : List Xml := x.kids.filter Xml.isElem

def popAttr (k : String) (x : Xml) : Xml :=
  match x with
  | .elem t a ks => .elem t (a.filter (fun p => p.1 != k)) ks
  | y => y

def appendKids (new : List Xml) (x : Xml) : Xml :=
  match x with
  | .elem t a ks => .elem t a (ks ++ new)
  | y => y

/-- one reference of `resolve_displaced_content` -/
def resolveRef (root : Xml) (rid : Nat) : Except Err Xml :=
  match findById rid root, ancestorsOf rid root with
  | some ref, some ancestors =>
    let name := (ref.attrs.lookup "displaced").getD ""
    let marker := ref.attrs.lookup "marker"
    let root1 := modifyById rid (popAttr "displaced") root
    let found := ancestors.findSome? (fun p => firstDisplaced rid marker name p)
    match found with
    | some content =>
      -- moving an ancestor (or the reference itself) into the reference is an lxml error
      if (elemKids content).any (containsId rid) then .error .valueError
      else
        let root2 := removeById content.nid root1
        .ok (modifyById rid (appendKids (elemKids content)) root2)
    | none =>
      .ok (modifyById rid (appendKids [.elem "p" [] [.text "(content missing)"]]) root1)
  | _, _ => .ok root

def asciiUpper (s : String) : String :=
  String.ofList (s.toList.map fun c => if 'a' ≤ c ∧ c ≤ 'z' then Char.ofNat (c.toNat - 32) else c)

mutual
/-- unused displaced content becomes a paragraph `FOOTNOTE <marker>` followed by its children -/
def inlineDisplaced : Xml → List Xml
  | .text s => [.text s]
  | .elem t a ks =>
    if t = "displaced" then
      .elem "p" [] [.text (asciiUpper ((a.lookup "name").getD "") ++ " " ++ (a.lookup "marker").getD "")]
        :: (inlineDisplacedL ks).filter Xml.isElem
    else [.elem t a (inlineDisplacedL ks)]
def inlineDisplacedL : List Xml → List Xml
  | [] => []
  | k :: ks => inlineDisplaced k ++ inlineDisplacedL ks
end

/-- `resolve_displaced_content` -/
def resolveDisplaced (x : Xml) : Except Err Xml :=
  let (nx, _) := numberX x 0
  let refs := refIds nx
  match refs.foldl (fun (acc : Except Err Xml) rid => acc.bind fun r => resolveRef r rid) (.ok nx) with
  | .error e => .error e
  | .ok r =>
    let r := unnumberX r
    match r with
    | .elem "displaced" _ _ => .error .typeError
    | _ => match inlineDisplaced r with
      | [y] => .ok y
      | _ => .error .other

def normTargets : List String := ["crossHeading", "longTitle", "content", "preface", "preamble", "conclusions"]

def isEmptyTarget (x : Xml) : Bool :=
  match x with
  | .elem t _ [] => normTargets.contains t
  | _ => false

mutual
def normaliseX : Xml → Xml
  | .text s => .text s
  | .elem t a ks => .elem t a (normaliseL ks)
def normaliseL : List Xml → List Xml
  | [] => []
  | k :: ks => if isEmptyTarget k then normaliseL ks else normaliseX k :: normaliseL ks
end

/-- `normalise` -/
def normalise (x : Xml) : Except Err Xml :=
  if isEmptyTarget x then .error .attributeError else .ok (normaliseX x)

mutual
/-- `''.join(el.itertext())` -/
def iterText : Xml → String
  | .text s => s
  | .elem _ _ ks => iterTextL ks
def iterTextL : List Xml → String
  | [] => ""
  | k :: ks => iterText k ++ iterTextL ks
end

def setAliasInDoc (title : String) (doc : Xml) : Xml :=
  match doc with
  | .elem t a ks =>
    .elem t a (ks.map fun k => match k with
      | .elem "meta" ma mk => .elem "meta" (attrSet ma "alias" title) mk
      | y => y)
  | y => y

/-- set the alias on the first `doc` child that has a meta block -/
def setAliasFirst (title : String) : List Xml → List Xml
  | [] => []
  | k :: ks =>
    match k with
    | .elem "doc" _ dk =>
      if dk.any (fun m => m.tag == "meta" && m.isElem) then setAliasInDoc title k :: ks else k :: setAliasFirst title ks
    | _ => k :: setAliasFirst title ks

mutual
/-- `set_attachment_titles` -/
def titlesX : Xml → Xml
  | .text s => .text s
  | .elem t a ks =>
    let ks' := titlesL ks
    if t = "attachment" then
      match ks'.find? (fun k => k.isElem && k.tag == "heading") with
      | some h => .elem t a (setAliasFirst (iterText h) ks')
      | none => .elem t a ks'
    else .elem t a ks'
def titlesL : List Xml → List Xml
  | [] => []
  | k :: ks => titlesX k :: titlesL ks
end

/-- `post_process` on a generator whose state is `st` (eId generation resets the id maps) -/
def postProcess (x : Xml) (pfx : String) : Except Err Xml := do
  let x ← resolveDisplaced x
  let x ← normalise x
  let (x, _) := rewriteAll x pfx
  pure (titlesX x)

end Bluebell
