import Bluebell.Types
import Bluebell.Eid
/-!
# Model of `XmlGenerator.item_to_xml_*` (xml.py): dict tree → element tree

`Err` is the class of the exception the real code raises. The generator state (`GenState`) is the
part of an `XmlGenerator` object that survives a call: the `IdGenerator` maps. A failing call returns
the state it leaves behind. The `attachment_names` stack of the Python code is pushed before and popped
(in a `finally`) after the children of an attachment are converted; it is modelled as the parameter
`parent` (the top of that stack) handed down the recursion. That the `finally` really restores the stack
on every path is tied behaviourally (histories with calls that raise inside attachments).
-/
namespace Bluebell

inductive Err where
  | parseError
  | valueError
  | typeError
  | attributeError
  | keyError
  | other
deriving Repr, DecidableEq, Inhabited

def Err.name : Err → String
  | .parseError => "ParseError"
  | .valueError => "ValueError"
  | .typeError => "TypeError"
  | .attributeError => "AttributeError"
  | .keyError => "KeyError"
  | .other => "Other"

structure GenState where
  ids : IdState := {}
deriving Repr, Inhabited

/-- FRBR URI strings supplied by cobalt (parameters of the model): `FRBRthis` of work / expression /
manifestation for the root document, and the same without a work component. -/
structure Uris where
  work : String := ""
  expr : String := ""
  manif : String := ""
  workBase : String := ""
  exprBase : String := ""
  manifBase : String := ""
  present : Bool := true
deriving Repr, Inhabited

def xmlTextOk (s : String) : Bool := s.toList.all (inRangesN xmlTextOkRanges)

def xmlAttrNameOk (s : String) : Bool :=
  match s.toList with
  | [] => false
  | c :: cs => inRangesN xmlNameStartRanges c && cs.all (inRangesN xmlNameCharRanges)

/-- merge adjacent text children, drop empty strings (what lxml's text/tail representation does) -/
def mergeText : List Xml → List Xml
  | [] => []
  | .text a :: rest =>
    match mergeText rest with
    | .text b :: rest' => .text (a ++ b) :: rest'
    | rest' => if a = "" then rest' else .text a :: rest'
  | x :: rest => x :: mergeText rest

/-- `ElementMaker.__call__(tag, *children, **attrib)`: the exception it raises, if any -/
def makerCheck (attrs : Attrs) (kids : List Xml) : Option Err :=
  if (attrs.lookup "tag").isSome then some .typeError
  else if attrs.any (fun (k, v) => !xmlAttrNameOk k || !xmlTextOk v) then some .valueError
  else if kids.any (fun k => match k with | .text s => !xmlTextOk s | _ => false) then some .valueError
  else none

def mkElem (tag : String) (attrs : Attrs) (kids : List Xml) : Except Err Xml :=
  match makerCheck attrs kids with
  | some e => .error e
  | none => .ok (.elem tag attrs (mergeText kids))

def metaStub (this expr manif : String) : Xml :=
  .elem "meta" [("this", this), ("alias", "Untitled"), ("expr", expr), ("manif", manif)] []

/-- sequence a list of results -/
def allOk : List (Except Err Xml) → Except Err (List Xml)
  | [] => .ok []
  | .ok x :: rest => (allOk rest).map (x :: ·)
  | .error e :: _ => .error e

/-- `groupby(children, check_hier)` -/
def groupByBool {α} (key : α → Bool) : List α → List (Bool × List α)
  | [] => []
  | x :: xs =>
    match groupByBool key xs with
    | (k, g) :: rest => if k = key x then (k, x :: g) :: rest else (key x, [x]) :: (k, g) :: rest
    | [] => [(key x, [x])]

def checkHier (i : Item) : Bool := i.typ = "hier" || i.name? = some "crossHeading"

/-- `get_attachment_name` -/
def attachmentName (parent : Option String) (st : GenState) (item : Item) : GenState × String :=
  let name := ((item.attribs.getD []).lookup "name").getD "attachment"
  let key := match parent with | some p => p ++ "__" ++ name | none => name
  let (ids', num) := st.ids.incr "__attachments" key
  let full := match parent with | some p => p ++ "/" ++ name ++ "_" ++ toString num | none => name ++ "_" ++ toString num
  ({ ids := ids' }, full)

mutual
/-- `item_to_xml(item)`; returns the result and the state left behind -/
def itemToXml (u : Uris) (parent : Option String) : Nat → Item → GenState → Except Err Xml × GenState
  | 0, _, st => (.error .other, st)
  | _ + 1, .text v, st => (.ok (.text v), st)
  | fuel + 1, .node typ name attribs children num heading subheading frm attAttribs, st =>
    let attrs := attribs.getD []
    let kidsI := children.getD []
    let pre := fun (st : GenState) => preNHS u parent fuel num heading subheading st
    match typ with
    | "hier" =>
      let (rk, st) :=
        if kidsI.all (fun k => !checkHier k) then
          let (r, st) := itemsToXml u parent fuel kidsI st
          (r.bind fun ks => (mkElem "content" [] ks).map (fun x => [x]), st)
        else hierGroups u parent fuel (groupByBool checkHier kidsI) false st
      match rk with
      | .error e => (.error e, st)
      | .ok kids =>
        let (rp, st) := pre st
        match rp with
        | .error e => (.error e, st)
        | .ok p => (mkElem name attrs (p ++ kids), st)
    | "block" =>
      let (rp, st) := pre st
      match rp with
      | .error e => (.error e, st)
      | .ok p =>
        let (rk, st) := itemsToXml u parent fuel kidsI st
        match rk with
        | .error e => (.error e, st)
        | .ok ks =>
          let all := p ++ ks
          (mkElem name attrs (if all.isEmpty then [.elem "p" [] []] else all), st)
    | "speechhier" =>
      let (rp, st) := pre st
      match rp with
      | .error e => (.error e, st)
      | .ok p =>
        let (rf, st) : Except Err (List Xml) × GenState :=
          match frm with
          | some f =>
            let (r, st) := itemsToXml u parent fuel f st
            (r.bind fun ks => (mkElem "from" [] ks).map (fun x => [x]), st)
          | none => (.ok [], st)
        match rf with
        | .error e => (.error e, st)
        | .ok f =>
          let (rk, st) := itemsToXml u parent fuel kidsI st
          match rk with
          | .error e => (.error e, st)
          | .ok ks => (mkElem name attrs (p ++ f ++ ks), st)
    | "content" | "inline" =>
      let (rk, st) := itemsToXml u parent fuel kidsI st
      (rk.bind fun ks => mkElem name attrs ks, st)
    | "marker" => (mkElem name attrs [], st)
    | "element" =>
      if name = "attachment" then
        let (st, attName) := attachmentName parent st (.node typ name attribs children num heading subheading frm attAttribs)
        let (rh, st) := optList u parent fuel "heading" heading st
        match rh with
        | .error e => (.error e, st)
        | .ok h =>
          let (rs, st) := optList u parent fuel "subheading" subheading st
          match rs with
          | .error e => (.error e, st)
          | .ok s =>
            -- make_meta(attachment_frbr_uri(name)) needs a FRBR URI
            if !u.present then (.error .attributeError, st)
            else
              let m := metaStub (u.workBase ++ "/!" ++ attName) (u.exprBase ++ "/!" ++ attName) (u.manifBase ++ "/!" ++ attName)
              -- children are converted with this attachment on top of the `attachment_names` stack
              let (rk, st) := itemsToXml u (some attName) fuel kidsI st
              match rk with
              | .error e => (.error e, st)
              | .ok ks =>
                match mkElem "doc" attrs (m :: ks) with
                | .error e => (.error e, st)
                | .ok doc => (mkElem "attachment" (attAttribs.getD []) (h ++ s ++ [doc]), st)
      else
        let (rk, st) := itemsToXml u parent fuel kidsI st
        (rk.bind fun ks => mkElem name attrs ks, st)
    | _ => (.error .attributeError, st)

/-- `add_num_heading_subheading` -/
def preNHS (u : Uris) (parent : Option String) : Nat → Option String → Option (List Item) → Option (List Item) → GenState →
    Except Err (List Xml) × GenState
  | 0, _, _, _, st => (.error .other, st)
  | fuel + 1, num, heading, subheading, st =>
    let r0 : Except Err (List Xml) :=
      match num with
      | some n => if n ≠ "" then (mkElem "num" [] [.text n]).map (fun x => [x]) else .ok []
      | none => .ok []
    match r0 with
    | .error e => (.error e, st)
    | .ok a =>
      let (rh, st) := optList u parent fuel "heading" heading st
      match rh with
      | .error e => (.error e, st)
      | .ok b =>
        let (rs, st) := optList u parent fuel "subheading" subheading st
        match rs with
        | .error e => (.error e, st)
        | .ok c => (.ok (a ++ b ++ c), st)

/-- `m.<tag>(*(item_to_xml(k) for k in items))` when the list is present and non-empty -/
def optList (u : Uris) (parent : Option String) : Nat → String → Option (List Item) → GenState → Except Err (List Xml) × GenState
  | 0, _, _, st => (.error .other, st)
  | fuel + 1, tag, items, st =>
    match items with
    | some (i :: is) =>
      let (r, st) := itemsToXml u parent fuel (i :: is) st
      (r.bind fun ks => (mkElem tag [] ks).map (fun x => [x]), st)
    | _ => (.ok [], st)

def itemsToXml (u : Uris) (parent : Option String) : Nat → List Item → GenState → Except Err (List Xml) × GenState
  | 0, _, st => (.error .other, st)
  | _ + 1, [], st => (.ok [], st)
  | fuel + 1, i :: is, st =>
    match itemToXml u parent fuel i st with
    | (.error e, st) => (.error e, st)
    | (.ok x, st) =>
      match itemsToXml u parent fuel is st with
      | (.error e, st) => (.error e, st)
      | (.ok xs, st) => (.ok (x :: xs), st)

/-- the intro / hier / hcontainer / wrapUp grouping of `item_to_xml_hier` -/
def hierGroups (u : Uris) (parent : Option String) : Nat → List (Bool × List Item) → Bool → GenState → Except Err (List Xml) × GenState
  | 0, _, _, st => (.error .other, st)
  | _ + 1, [], _, st => (.ok [], st)
  | fuel + 1, (isHier, group) :: rest, seenHier, st =>
    let (rg, st) := itemsToXml u parent fuel group st
    match rg with
    | .error e => (.error e, st)
    | .ok g =>
      let here : Except Err (List Xml) :=
        if isHier then .ok g
        else if seenHier then
          (if rest.isEmpty then (mkElem "wrapUp" [] g).map (fun x => [x])
           else (mkElem "content" [] g).bind fun c => (mkElem "hcontainer" [("name", "hcontainer")] [c]).map (fun x => [x]))
        else (mkElem "intro" [] g).map (fun x => [x])
      match here with
      | .error e => (.error e, st)
      | .ok h =>
        let (rr, st) := hierGroups u parent fuel rest (seenHier || isHier) st
        match rr with
        | .error e => (.error e, st)
        | .ok r => (.ok (h ++ r), st)
end

end Bluebell
