import Bluebell.Lemmas.EidInv
/-!
# C08 — eIds follow the naming convention and are stable under unrelated edits

* `C08_decomposition` — the id given to an identifiable element is
  `[prefix__]alias_<n><suffix>`, `n` being the cleaned num, `nn`, or a position counter.
* `C08_pass_through_prefix` — a transparent container adds `__<tag.lower()>` to the prefix handed to
  its children and gets no id itself.
* `C08_unnumbered` — without a (non-empty cleaned) num: `nn` (forced suffix) for elements that expect
  a number, otherwise the position counter scoped to (prefix, name), incremented by one.
* `C08_clash_suffix` — an id issued `c ≥ 1` times before gets the suffix `_c+1`; a fresh numbered id
  gets none.
* `C08_stability_step` — the id of a numbered element whose candidate was not issued before is
  `prefix__alias_cleaned-num`: it depends only on the prefix (its nearest identified ancestor's id),
  the name and the number — hence, by induction along the ancestor path, only on the names and
  numbers along that path.
* `C08_alias_table` — the regenerated abbreviation table is the AKN naming convention's.
-/
namespace Bluebell

theorem C08_decomposition (s : IdState) (pfx name num : String) :
    ∃ suffix, (s.getEid pfx name num).2 =
      (if pfx ≠ "" then pfx ++ "__" else "") ++ aliasOf name ++ "_" ++ (s.getNum pfx name num).2.1 ++ suffix :=
  (getEid_spec s pfx name num).1.extends_candidate

theorem C08_pass_through_prefix (tag low : String) (attrs : List (String × String)) (kids : List Xml)
    (pfx : String) (s : IdState) (hm : tag ≠ "meta") (hp : passLower tag = some low) :
    rewriteEid (.elem tag attrs kids) pfx s =
      (.elem tag attrs (rewriteKids kids (if pfx ≠ "" then pfx ++ "__" ++ low else low) s).1,
       (rewriteKids kids (if pfx ≠ "" then pfx ++ "__" ++ low else low) s).2) := by
  rw [rewriteEid]; simp only [hm, if_false, hp]

theorem C08_unnumbered (s : IdState) (pfx name : String) :
    (numExpected.contains name = true → s.getNumC pfx name "" = (s, "nn", true)) ∧
    (numExpected.contains name = false →
      (s.getNumC pfx name "").2 = (toString (s.incr pfx name).2, false)) := by
  constructor
  · intro h; unfold IdState.getNumC; rw [if_pos rfl, if_pos h]
  · intro h
    unfold IdState.getNumC
    rw [if_pos rfl, if_neg (by rw [h]; exact Bool.false_ne_true)]

theorem C08_numbered (s : IdState) (pfx name n1 : String) (h : n1 ≠ "") :
    s.getNumC pfx name n1 = (s, n1, false) := by
  simp [IdState.getNumC, h]

theorem C08_clash_suffix (m : List (String × Nat)) (eid : String) (fuel : Nat) :
    (countOf m eid = 0 → (ensureUnique (fuel + 1) m eid false).2 = eid) ∧
    (∀ c, countOf m eid = c → 1 ≤ c → countOf m (eid ++ "_" ++ toString (c + 1)) = 0 →
      (ensureUnique (fuel + 2) m eid false).2 = eid ++ "_" ++ toString (c + 1)) := by
  constructor
  · intro h
    simp [ensureUnique, countOf_bump_self, h]
  · intro c hc h1 h0
    have hne : eid ++ "_" ++ toString (c + 1) ≠ eid := by
      intro e
      have := congrArg String.length e
      have h1 : "_".length = 1 := by decide
      simp only [String.length_append, h1] at this
      omega
    have hc' : countOf (bump m eid) eid = c + 1 := by rw [countOf_bump_self, hc]
    have hn1 : ¬ (c + 1 = 1) := by omega
    have h0' : countOf (bump m eid) (eid ++ "_" ++ toString (c + 1)) = 0 := by
      rw [countOf_bump_other m eid _ hne]; exact h0
    rw [ensureUnique]
    simp only [hc', hn1, decide_false, Bool.false_and, Bool.false_eq_true, if_false]
    rw [ensureUnique]
    simp only [countOf_bump_self]
    have h0'' : countOf (bump m eid) (eid ++ "_" ++ toString (c + 1)) + 1 = 1 := by rw [h0']
    simp only [h0'', decide_true, Bool.not_false, Bool.and_self, if_true]

/-- a numbered element whose candidate id was never issued gets exactly `prefix__alias_num` -/
theorem C08_stability_step (s : IdState) (pfx name num : String)
    (hn : cleanedNum num ≠ "")
    (hu : countOf s.eidCounter ((if pfx ≠ "" then pfx ++ "__" else "") ++ aliasOf name ++ "_" ++ cleanedNum num) = 0) :
    (s.getEid pfx name num).2 = (if pfx ≠ "" then pfx ++ "__" else "") ++ aliasOf name ++ "_" ++ cleanedNum num := by
  unfold IdState.getEid IdState.getNum
  rw [C08_numbered s pfx name _ hn]
  simp only
  exact (C08_clash_suffix s.eidCounter _ (s.eidCounter.length + 1)).1 hu

/-- consequently two documents (two rewriter states) agree on the id of such a provision as soon as
they agree on the prefix, i.e. on the ancestor path -/
theorem C08_stability (s t : IdState) (pfx name num : String) (hn : cleanedNum num ≠ "")
    (hs : countOf s.eidCounter ((if pfx ≠ "" then pfx ++ "__" else "") ++ aliasOf name ++ "_" ++ cleanedNum num) = 0)
    (ht : countOf t.eidCounter ((if pfx ≠ "" then pfx ++ "__" else "") ++ aliasOf name ++ "_" ++ cleanedNum num) = 0) :
    (s.getEid pfx name num).2 = (t.getEid pfx name num).2 := by
  rw [C08_stability_step s pfx name num hn hs, C08_stability_step t pfx name num hn ht]

def specAliases : List (String × String) :=
  [("alinea", "al"), ("amendmentBody", "body"), ("article", "art"), ("attachment", "att"), ("blockList", "list"),
   ("chapter", "chp"), ("citation", "cit"), ("citations", "cits"), ("clause", "cl"), ("component", "cmp"),
   ("componentRef", "cref"), ("components", "cmpnts"), ("debateBody", "body"), ("debateSection", "dbsect"),
   ("division", "dvs"), ("documentRef", "dref"), ("eventRef", "eref"), ("judgmentBody", "body"),
   ("listIntroduction", "intro"), ("listWrapUp", "wrapup"), ("mainBody", "body"), ("paragraph", "para"),
   ("quotedStructure", "qstr"), ("quotedText", "qtext"), ("recital", "rec"), ("recitals", "recs"), ("section", "sec"),
   ("subchapter", "subchp"), ("subclause", "subcl"), ("subdivision", "subdvs"), ("subparagraph", "subpara"),
   ("subsection", "subsec"), ("temporalGroup", "tmpg"), ("wrapUp", "wrapup")]

theorem C08_alias_table : eidAliases = specAliases ∧
    idPassThrough.all (fun p => p.2 == p.1.toLower) = true := by decide +kernel

-- non-vacuity
example : (({} : IdState).getEid "chp_2" "section" "3A.").2 = "chp_2__sec_3A" := by decide +kernel
example : cleanedNum "3A." ≠ "" := by decide +kernel

end Bluebell
