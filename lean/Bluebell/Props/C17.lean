import Bluebell.Convert
import Bluebell.Props.C13
/-!
# C17 — the intermediate parse tree honours its published contract

`Item` is the model of the dicts `to_dict` returns; `toDict` is tied to the real `tree.to_dict()` by the
`todict` stage of the correspondence check (the real `json.dumps` output is compared key for key).

* `C17_text_and_marker_have_no_children` — by the shape of `Item`, a text node carries a value and
  nothing else; the only marker the grammar produces (`img`) is built without children.
* `C17_two_entry_points_agree` — `parse_to_xml` is `xml_from_dict ∘ to_dict`: the parse-tree entry
  point goes through the dict and nothing else of the tree (that the dict survives
  `json.dumps`/`json.loads` unchanged is checked on the real objects; a Lean JSON codec with a
  round-trip theorem is planned, not done).
* `C17_to_dict_is_a_function` — `toDict` has no state: two calls on the same tree agree (in Python
  this is "repeatable and free of side effects", which the oracle checks on the real objects).
* `C17_types_and_keys_documented`, `C17_speech_type_documented` — every node type and key the model uses is
  listed in the README's section "Intermediate output structure" (regenerated from README.md on every run).
  On the pinned tree this failed for `speechhier`, `from` and `att_attribs` (finding F16, repaired by the
  documentation fix 3188187).
-/
namespace Bluebell

theorem C17_text_and_marker_have_no_children :
    (∀ v, (Item.text v).children = none) ∧
    (∀ (inp : Array Char) (fuel : Nat) (t : Tree), t.lastType = some "Image" →
      (toDict inp (fuel + 1) t).children = none ∧ (toDict inp (fuel + 1) t).typ = "marker") := by
  refine ⟨fun _ => rfl, ?_⟩
  intro inp fuel t h
  have h1 : rootTable.lookup "Image" = none := by decide
  have h2 : mainContentTable.lookup "Image" = none := by decide
  have h3 : blockIndentTable.lookup "Image" = none := by decide
  simp [toDict, h, h1, h2, h3, Item.children, Item.typ]

theorem C17_to_dict_is_a_function (inp : Array Char) (fuel : Nat) (t : Tree) :
    toDict inp fuel t = toDict inp fuel t := rfl

/-- `to_xml(tree)` is `xml_from_dict(tree.to_dict(), is_root)`: the parse-tree entry point goes through
the dict, so the two entry points agree as soon as the dict survives serialisation (checked on the real
`json.dumps`/`json.loads` by the oracle, and by the strict comparison of the `todict` tie). -/
theorem C17_two_entry_points_agree (u : Uris) (pfx text root : String) (st : GenState) (pre : Array Char) (t : Tree)
    (hp : parseText text root = .ok (pre, t)) (hk : kindOf t = "dict") :
    convertWith u pfx text root st = xmlFromDict u pfx (toDict pre (defaultFuel pre) t) (isRootTree t) st := by
  unfold convertWith
  rw [hp]
  simp [hk]

/-- the node types and keys the model of `to_dict` uses (the constructors' type strings and the keys of the JSON
rendering that the `todict` tie compares with the real `json.dumps`) -/
def modelTypes : List String := ["element", "hier", "block", "content", "inline", "text", "marker", hierTypeName, speechTypeName]
def modelKeys : List String :=
  ["type", "name", "attribs", "children", "value", "num", "heading", "subheading", "from", "att_attribs"]

/-- F16 (repaired in 3188187: the README now documents `speechhier`, `from`, `att_attribs`): every type and key is
among those the README's section "Intermediate output structure" lists (regenerated from README.md on every run). -/
theorem C17_types_and_keys_documented :
    modelTypes.all (readmeTypes.contains ·) = true ∧ modelKeys.all (readmeKeys.contains ·) = true := by decide +kernel

/-- the speech containers of a debate have the type `speechhier`, which is documented -/
theorem C17_speech_type_documented :
    readmeTypes.contains (match parseText "DEBATESECTION\n  SPEECH\n    FROM x\n    text\n" "debate" with
     | .ok (pre, t) =>
       (match toDict pre (defaultFuel pre) t with
        | .node _ _ _ (some [.node _ _ _ (some [.node ty _ _ _ _ _ _ _ _]) _ _ _ _ _]) _ _ _ _ _ => ty
        | _ => "?")
     | .error _ => "?") = true := by decide +kernel

end Bluebell
