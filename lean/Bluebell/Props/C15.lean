import Bluebell.Convert
import Bluebell.Props.C13
/-!
# C15 — attachments are separately identified, correctly nested documents

* `C15_name_format` — `get_attachment_name`: the component is `[parent/]<keyword>_<n>` where `n` is one
  more than the number of attachments with that keyword already numbered under the same parent (the
  counter lives in the reserved `__attachments` namespace, keyed by `parent__keyword`).
* `C15_counter_advances` — after naming, the counter for that (parent, keyword) has advanced by one and
  no other attachment counter changed.
* `C15_uris_consistent` — the same component string is used for the work, expression and
  manifestation `FRBRthis` of the attachment's meta block.
* `C15_title_is_heading` — the alias is the heading's text when there is a heading.
* `C15_examples` — kernel-evaluated documents: numbering per keyword among siblings, nesting with the
  parent path, uniqueness, `Untitled`, headings that start with inline markup, eIds under `att_n`.
Not yet proved in general: uniqueness of component names over a whole forest (needs injectivity of the
`parent__keyword` key over strings); it is checked on the real outputs by the oracle.
-/
namespace Bluebell

theorem C15_name_format (parent : Option String) (st : GenState) (item : Item) :
    let name := ((item.attribs.getD []).lookup "name").getD "attachment"
    let key := match parent with | some p => p ++ "__" ++ name | none => name
    let n := (st.ids.incr "__attachments" key).2
    (attachmentName parent st item).2 =
      (match parent with | some p => p ++ "/" ++ name ++ "_" ++ toString n | none => name ++ "_" ++ toString n) := by
  simp only [attachmentName]
  cases parent <;> rfl

theorem lookup_bumpC_self (m : List ((String × String) × Nat)) (k : String × String) :
    ((bumpC m k).lookup k).getD 0 = (m.lookup k).getD 0 + 1 := by
  induction m with
  | nil => simp [bumpC, List.lookup]
  | cons p m ih =>
    obtain ⟨k', n⟩ := p
    unfold bumpC
    by_cases h : k' = k
    · subst h; simp [List.lookup]
    · have hb : (k == k') = false := by simpa using fun e => h e.symm
      simp only [h, if_false, List.lookup, hb]
      exact ih

theorem lookup_bumpC_other (m : List ((String × String) × Nat)) (k k2 : String × String) (h : k2 ≠ k) :
    (bumpC m k).lookup k2 = m.lookup k2 := by
  induction m with
  | nil =>
    have hb : (k2 == k) = false := by simpa using h
    simp [bumpC, List.lookup, hb]
  | cons p m ih =>
    obtain ⟨k', n⟩ := p
    unfold bumpC
    by_cases h1 : k' = k
    · subst h1
      have hb : (k2 == k') = false := by simpa using h
      simp [List.lookup, hb]
    · simp only [h1, if_false]
      by_cases h3 : k2 = k'
      · subst h3; simp [List.lookup]
      · have hb : (k2 == k') = false := by simpa using h3
        simp only [List.lookup, hb]
        exact ih

theorem C15_counter_advances (s : IdState) (pfx name : String) :
    (s.incr pfx name).2 = (s.counters.lookup (pfx, name)).getD 0 + 1 ∧
    (∀ k2, k2 ≠ (pfx, name) → (s.incr pfx name).1.counters.lookup k2 = s.counters.lookup k2) := by
  unfold IdState.incr
  exact ⟨lookup_bumpC_self _ _, fun k2 h => lookup_bumpC_other _ _ k2 h⟩

theorem C15_uris_consistent (u : Uris) (comp : String) :
    (metaStub (u.workBase ++ "/!" ++ comp) (u.exprBase ++ "/!" ++ comp) (u.manifBase ++ "/!" ++ comp)).attrs =
      [("this", u.workBase ++ "/!" ++ comp), ("alias", "Untitled"), ("expr", u.exprBase ++ "/!" ++ comp),
       ("manif", u.manifBase ++ "/!" ++ comp)] := rfl

theorem C15_title_is_heading (a : List (String × String)) (h doc : Xml) (rest : List Xml)
    (hh : h.isElem = true ∧ h.tag = "heading") (hd : ∃ da dk, doc = .elem "doc" da dk ∧ dk.any (fun m => m.tag == "meta" && m.isElem) = true)
    (hk : titlesL (h :: doc :: rest) = h :: doc :: rest) :
    titlesX (.elem "attachment" a (h :: doc :: rest)) =
      .elem "attachment" a (h :: setAliasInDoc (iterText h) doc :: rest) := by
  obtain ⟨da, dk, rfl, hm⟩ := hd
  rw [titlesX]
  simp only [hk, if_true]
  have hf : (h :: Xml.elem "doc" da dk :: rest).find? (fun k => k.isElem && k.tag == "heading") = some h := by
    simp [List.find?, hh.1, hh.2]
  rw [hf]
  cases h with
  | text s => simp [Xml.isElem] at hh
  | elem ht ha hks =>
    have : ht = "heading" := hh.2
    subst this
    simp [setAliasFirst, hm]

mutual
/-- (component, alias, eId of the attachment) for every attachment, in document order -/
def attInfo : Xml → List (String × String × String)
  | .text _ => []
  | .elem t a ks =>
    (if t == "attachment" then
      ks.filterMap fun k => match k with
        | .elem "doc" _ dk => (dk.find? (fun m => m.tag == "meta")).map fun m =>
            ((m.attrs.lookup "this").getD "", (m.attrs.lookup "alias").getD "", (a.lookup "eId").getD "")
        | _ => none
     else []) ++ attInfoL ks
def attInfoL : List Xml → List (String × String × String)
  | [] => []
  | k :: ks => attInfo k ++ attInfoL ks
end

def attInfoOf (r : Except Err Xml) : List (String × String × String) :=
  match r with | .ok x => attInfo x | .error _ => []

theorem C15_examples :
    attInfoOf (convert testUris "" "x\nSCHEDULE First\n  a\n  ANNEXURE\n    b\n  SCHEDULE **Inner** one\n    c\nSCHEDULE\n  d\nAPPENDIX {{^1}}st\n  e\n" "act") =
      [("/akn/za/act/2009/10/!schedule_1", "First", "att_1"),
       ("/akn/za/act/2009/10/!schedule_1/annexure_1", "Untitled", "att_1__att_1"),
       ("/akn/za/act/2009/10/!schedule_1/schedule_1", "Inner one", "att_1__att_2"),
       ("/akn/za/act/2009/10/!schedule_2", "Untitled", "att_2"),
       ("/akn/za/act/2009/10/!appendix_1", "1st", "att_3")] := by
  decide +kernel

end Bluebell
