import Bluebell.Convert
import Bluebell.Lemmas.AknWF
import Bluebell.Lemmas.FlatDoc
import Bluebell.Lemmas.NestedDoc
import Bluebell.Lemmas.TokDoc
import Bluebell.Lemmas.JudgmentDoc
import Bluebell.Props.C11
/-!
# C01 — conversion is total

`convert u prefix text root` is the model of `AkomaNtosoParser(frbr_uri, prefix).parse_to_xml(text, root)`
(tied by the `convert` stage of the correspondence check, exception classes included).

Full statement: `C01_full` — for the six documented roots every text converts. It is **false** for
the unchanged code; three kernel-evaluated witnesses are given (`C01_counterexample_*`, findings
F1–F3) and replayed on the real code by the check.
What is proved so far (`_partial`): the XML-building and post-processing stages cannot fail on root
documents except through the two lxml checks (attribute names / XML characters) and a footnote that
references itself; the grammar-level half (every text parses once it is free of F1/F2 lines) is
carried by the oracle on the real code and is not yet a theorem.
-/
namespace Bluebell

def sixRoots : List String := ["act", "bill", "doc", "statement", "debateReport", "judgment"]

def testUris : Uris :=
  { work := "/akn/za/act/2009/10", expr := "/akn/za/act/2009/10/eng", manif := "/akn/za/act/2009/10/eng",
    workBase := "/akn/za/act/2009/10", exprBase := "/akn/za/act/2009/10/eng", manifBase := "/akn/za/act/2009/10/eng" }

/-- the exception class of a result, if it is one -/
def errOf (r : Except Err Xml) : Option Err := match r with | .error e => some e | .ok _ => none

def C01_full : Prop :=
  ∀ root ∈ sixRoots, ∀ (pfx text : String), ∃ x, convert testUris pfx text root = .ok x

/-- F1: a line starting with an attachment keyword that is not an attachment header is refused. -/
theorem C01_counterexample_attachment_prefix :
    ∀ root ∈ sixRoots, errOf (convert testUris "" "SCHEDULES foo\n" root) = some .parseError := by
  decide +kernel

/-- F2: the DEDENT marker character in the input is refused by the grammar. -/
theorem C01_counterexample_marker_char :
    errOf (convert testUris "" "\x0f\n" "act") = some .parseError := by decide +kernel

/-- F3: an attribute name that is not an XML name makes lxml raise. -/
theorem C01_counterexample_attr_name :
    errOf (convert testUris "" "P{1a b} text\n" "act") = some .valueError := by decide +kernel

theorem C01_not_full : ¬ C01_full := by
  intro h
  obtain ⟨x, hx⟩ := h "act" (by decide) "" "SCHEDULES foo\n"
  have := C01_counterexample_attachment_prefix "act" (by decide)
  rw [hx] at this
  cases this

/-- the element maker fails exactly on its three checks -/
theorem C01_maker_total (tag : String) (attrs : Attrs) (kids : List Xml) :
    (∃ x, mkElem tag attrs kids = .ok x) ↔ makerCheck attrs kids = none := by
  unfold mkElem
  cases h : makerCheck attrs kids with
  | none => simp
  | some e => simp

/-- `normalise` cannot fail on a root document (its root element is `akomaNtoso`). -/
theorem C01_normalise_total_on_roots (a : List (String × String)) (ks : List Xml) :
    ∃ y, normalise (.elem "akomaNtoso" a ks) = .ok y := by
  unfold normalise
  have : isEmptyTarget (.elem "akomaNtoso" a ks) = false := by
    cases ks <;> simp [isEmptyTarget, normTargets]
  simp [this]

/-- eId generation and attachment titles are total functions in the model -/
theorem C01_eids_titles_total (x : Xml) (pfx : String) : ∃ y, titlesX (rewriteAll x pfx).1 = y := ⟨_, rfl⟩

-- non-vacuity: an ordinary document converts
example : errOf (convert testUris "" "PART 1 - Intro\n  SEC 1.\n    hello **world**\n" "act") = none := by
  decide +kernel

/-! ## The parser always answers: termination of the grammar that executes

`wfG` is the decidable certificate check of `Peg/WF.lean`; the certificate (nullable rules and
ranks) is recomputed from `akn.py` on every run and *checked* here by the kernel against the
regenerated grammar with parser.py's override in place.  `peg_terminates` is generic (any grammar,
any text).  A grammar edit that introduces left recursion (a `RecursionError` in `akn.py`) or a
`*`/`+` whose body can match the empty string (an endless loop) makes the first theorem fail. -/

theorem C01_grammar_certificate : wfG aknExec aknNullable aknRanks aknRankTop = true := akn_wf

/-- every rule of the grammar, on every text, from every offset: the interpreter answers -/
theorem C01_parser_terminates (inp : Array Char) (root : String) (h : (aknExec.lookup root).isSome)
    (p : Nat) (hp : p ≤ inp.size) :
    ∃ n r, r.done ∧ ∀ m, n ≤ m → eval aknExec inp m (.ref root) p = r :=
  peg_result_defined C01_grammar_certificate root h p hp

theorem C01_roots_are_rules :
    (sixRoots ++ ["debate", "hier_element", "attachments"]).all (fun r => (aknExec.lookup r).isSome) = true := by
  decide +kernel

/-! ## Acceptance, proved for an infinite class of texts: flat plain-text documents

`AtLines inp 0 lines`: the text consists of the non-empty lines `lines`, each made of plain characters
(no `* / _ {` backslash), each starting with a character that no keyword, marker or container rule can
start with (`plainStart`, decided on the regenerated grammar), separated by single newlines and ending
with one.  For every such text — any number of lines, any length — the roots `doc`, `statement`,
`debateReport`, `act` and `bill` accept it and consume all of it: whenever the interpreter answers it
answers "accepted" (`flat_doc_never_refused`), and by `C01_parser_terminates` it always answers.
The proof composes the big-step rules derived from the interpreter (`Lemmas/PegLim.lean`) with the
first-character analysis and termination; it goes through preface?/preamble?/body-marker?/the body
loop (guards `!conclusions_marker !attachment_marker`, `hier_block_indent`, `hier_block_element`,
`block_element`, `block_elements`, `line`, `inline+`, `eol`) and conclusions?/attachments? at the end. -/
theorem C01_flat_plain_text_accepted (inp : Array Char) (root : String)
    (hroot : root ∈ ["doc", "statement", "debateReport", "act", "bill"])
    (lines : List (List Char)) (h : AtLines inp 0 lines) :
    (∃ n, (eval aknExec inp n (.ref root) 0).done) ∧
    ∀ n, (eval aknExec inp n (.ref root) 0).done → ∃ t, eval aknExec inp n (.ref root) 0 = .ok t ∧ t.stop = inp.size := by
  refine ⟨?_, fun n hd => flat_doc_never_refused root hroot lines h n hd⟩
  obtain ⟨t, ⟨n0, h0⟩, _⟩ := flat_doc_accepted (inp := inp) root hroot lines h
  exact ⟨n0, by rw [h0 n0 (Nat.le_refl _)]; trivial⟩

/-- the characters a line may start with: here, lowercase letters, digits and some punctuation -/
theorem C01_plain_starts :
    ("abcdefghijklmnopqrstuvwxyz0123456789(\"'.,;:-é§".toList.all plainStart) = true := by decide +kernel

/-- non-vacuity: a three-line text of that shape -/
example : AtLines "the first line\n2. second (line), with punctuation\nlast one\n".toList.toArray 0
    ["the first line".toList, "2. second (line), with punctuation".toList, "last one".toList] := by
  have hs := C01_plain_starts
  simp only [List.all_eq_true] at hs
  refine ⟨⟨'t', "he first line".toList, rfl, hs _ (by decide)⟩, by simp [AtPlain, isPlain, clsMatch, overrideNeg, overrideCls], ?_⟩
  refine ⟨⟨'2', ". second (line), with punctuation".toList, rfl, hs _ (by decide)⟩, by simp [AtPlain, isPlain, clsMatch, overrideNeg, overrideCls], ?_⟩
  refine ⟨⟨'l', "ast one".toList, rfl, hs _ (by decide)⟩, by simp [AtPlain, isPlain, clsMatch, overrideNeg, overrideCls], ?_⟩
  simp [AtLines]

/-! ## …and with arbitrary well-nested indentation

`Blk` is the block structure of pre-parsed text: a line that rule `line` reads (a plain line or a fully
escaped line, followed by its newline and any number of blank lines), or an INDENT line, a non-empty list of blocks and a DEDENT line — to any depth.
`AtBlks inp 0 bs inp.size`: the whole text reads as the list of blocks `bs`.  Every such text is accepted
in full by the five structured roots: nested blocks go through `hier_block_indent` at the top level and
through `nested_block_element` below it (mutual induction over the block structure). -/
theorem C01_nested_plain_text_accepted (inp : Array Char) (root : String)
    (hroot : root ∈ ["doc", "statement", "debateReport", "act", "bill"])
    (bs : List Blk) (h : AtBlks inp 0 bs inp.size) :
    (∃ n, (eval aknExec inp n (.ref root) 0).done) ∧
    ∀ n, (eval aknExec inp n (.ref root) 0).done → ∃ t, eval aknExec inp n (.ref root) 0 = .ok t ∧ t.stop = inp.size := by
  refine ⟨?_, fun n hd => nested_doc_never_refused root hroot bs h n hd⟩
  obtain ⟨t, ⟨n0, h0⟩, _⟩ := nested_doc_accepted (inp := inp) root hroot bs h
  exact ⟨n0, by rw [h0 n0 (Nat.le_refl _)]; trivial⟩

/-- non-vacuity: `a`, then an indented block holding `b`, a blank line, a doubly indented `c`, then `d` -/
example : AtBlks "a\n\x0e\nb\n\n\x0e\nc\n\x0f\n\x0f\nd\n".toList.toArray 0
    [.line ['a'], .nest [.line ['b'], .nest [.line ['c']]], .line ['d']] 17 := by
  have hs := C01_plain_starts
  simp only [List.all_eq_true] at hs
  have ip : ∀ c, plainStart c = true → isPlain c = true := fun c h => (plainStart_parts h).2.1
  have line : ∀ (inp : Array Char) (p : Nat) (c : Char) (k : Nat), inp[p]? = some c → inp[p + 1]? = some '\n' →
      plainStart c = true → NlRun inp (p + 1) (k + 1) → AtBlk inp p (.line [c]) (p + 1 + (k + 1)) :=
    fun inp p c k h0 h1 hc hn => atBlk_plain_line p c [] ⟨h0, ip c hc, h1⟩ hc k hn
  refine ⟨2, line _ 0 'a' 0 (by decide) (by decide) (hs _ (by decide)) ⟨by decide, by simp [NlRun]⟩, 15, ?_, 17, ?_, rfl⟩
  · refine ⟨by decide, by decide, by decide, by simp, 13, ?_, by decide, 0, ⟨by decide, by simp [NlRun]⟩, rfl⟩
    refine ⟨7, line _ 4 'b' 1 (by decide) (by decide) (hs _ (by decide)) ⟨by decide, by decide, by simp [NlRun]⟩, 13, ?_, rfl⟩
    refine ⟨by decide, by decide, by decide, by simp, 11, ?_, by decide, 0, ⟨by decide, by simp [NlRun]⟩, rfl⟩
    exact ⟨11, line _ 9 'c' 0 (by decide) (by decide) (hs _ (by decide)) ⟨by decide, by simp [NlRun]⟩, rfl⟩
  · exact line _ 15 'd' 0 (by decide) (by decide) (hs _ (by decide)) ⟨by decide, by simp [NlRun]⟩

/-! ## From the raw text: any indentation whatsoever

Putting C11's normal-form theorem (for **every** text, `pre_parse` yields balanced, well-placed
markers) together with the acceptance of well-nested blocks: take any text whose lines, once
trimmed, are empty or *good* — plain characters only with a `plainStart` first character, or written
with every character escaped (`\c₁\c₂…`, whatever the characters), or plain text with escapes anywhere
(`see \*\*this\*\*`, `\PART one`: starting with an escape or a `plainStart` character) — with
**any** indentation pattern, tabs, blank lines, trailing blanks, any `indent_size ≥ 1`… The pre-parsed
text is accepted in full by **all six documented roots** (a judgment without part markers keeps everything
in `arguments`).  (The model's `preParse` is tied to the real
`pre_parse` by C11's correspondence check; `GoodLine` is decidable per line.) -/
theorem C01_plain_text_any_indentation (n : Nat) (text : List Char) (root : String)
    (hroot : root ∈ sixRoots)
    (hne : pyStrip (detab n text) ≠ [])
    (hlines : ∀ l ∈ (splitLines (pyStrip (detab n text))).map trimSpaces, l = [] ∨ GoodLine l) :
    let inp := (preParse n text).toArray
    ∃ t, Lim aknExec inp (.ref root) 0 (.ok t) ∧ t.stop = inp.size := by
  intro inp
  obtain ⟨toks, ⟨hpre, hcl⟩, hnf⟩ := preParse_nonblank n text hne
  obtain ⟨bs, hb, hs⟩ := blocks_of_normal_form toks hnf.balanced hnf.no_empty_block hnf.first_nonblank
  have hg : GoodKs bs := goodKs_of_struct bs hs (by rw [← hb, hcl]; exact hlines)
  have := good_blocks_accepted_six bs hg root (by simpa [sixRoots] using hroot)
  simp only at this
  have he : inp = (unlines (toksKs bs)).toArray := by simp [inp, hpre, hb]
  rw [he]; exact this

/-- non-vacuity: ragged indentation, a tab, blank lines, trailing blanks and a fully escaped line -/
example : let text := "first line\n      deeper, (much)\n\n  \tback a bit  \n  \\P\\A\\R\\T\\ \\1\n    see \\*\\*this\\*\\*\nend\n".toList
    pyStrip (detab 2 text) ≠ [] ∧ ∀ l ∈ (splitLines (pyStrip (detab 2 text))).map trimSpaces, l = [] ∨ GoodLine l := by
  intro text
  have hs := C01_plain_starts
  simp only [List.all_eq_true] at hs
  refine ⟨by decide +kernel, ?_⟩
  have hl : (splitLines (pyStrip (detab 2 text))).map trimSpaces =
      ["first line".toList, "deeper, (much)".toList, [], "back a bit".toList, "\\P\\A\\R\\T\\ \\1".toList,
       "see \\*\\*this\\*\\*".toList, "end".toList] := by
    decide +kernel
  rw [hl]
  intro l hmem
  simp only [List.mem_cons, List.mem_nil_iff, or_false] at hmem
  have good : ∀ (c : Char) (r : List Char), c ∈ "abcdefghijklmnopqrstuvwxyz0123456789(\"'.,;:-é§".toList →
      (∀ x ∈ c :: r, isPlain x = true) → GoodLine (c :: r) := fun c r hc hp => Or.inl ⟨⟨c, r, rfl, hs c hc⟩, hp⟩
  rcases hmem with rfl | rfl | rfl | rfl | rfl | rfl | rfl
  · exact Or.inr (good _ _ (by decide) (by decide +kernel))
  · exact Or.inr (good _ _ (by decide) (by decide +kernel))
  · exact Or.inl rfl
  · exact Or.inr (good _ _ (by decide) (by decide +kernel))
  · exact Or.inr (Or.inr (Or.inl ⟨'P', "ART 1".toList, by decide, by decide⟩))
  · refine Or.inr (Or.inr (Or.inr ⟨[.run 's' "ee ".toList, .esc '*', .esc '*', .run 't' "his".toList, .esc '*', .esc '*'],
      by decide, ?_, hs 's' (by decide)⟩))
    simp only [WfSegs, and_true, true_and]
    decide +kernel
  · exact Or.inr (good _ _ (by decide) (by decide +kernel))

end Bluebell
