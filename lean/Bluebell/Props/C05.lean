import Bluebell.Convert
import Bluebell.Unparse
import Bluebell.Props.C18
import Bluebell.Props.C02
/-!
# C05 — XML → text → XML round trip

`unparse` is the model of the stylesheet (tied to libxslt's output by the `unparse` stage of the
correspondence check on parser outputs and on arbitrary trees).
* `C05_preserve_covers_mixed` — every element the XML builder fills with mixed inline content is in
  the stylesheet's `preserve-space` list (regenerated from `akn_text.xsl`). Before the repair of F19
  this `decide` failed on exactly `crossHeading`, `listWrapUp` and `abbr`.
* `C05_keywords_parse_back` — for each of the 27 hierarchical and 20 speech-container element names the
  keyword the stylesheet prints is a literal of the grammar's keyword rule and maps back, through the
  synonym tables of types.py, to the same element name (three regenerated tables checked against each
  other). Before the repair of F21/F25 this failed on `nationalInterest`.
* `C05_stripSpace_identity_on_parser_output_example`, `C05_examples` — kernel-evaluated round trips
  (`convert (unparse (convert text)) = convert text`, second trip identical), including a crossheading
  with two adjacent inline elements (the F19 witness).
The statement for all generated documents is decided by the oracle on the real code (with the listed
findings F6–F9, F30, F31); it is not yet a theorem.
-/
namespace Bluebell

/-- elements that `item_to_xml` fills from `InlineText.many_to_dict` (text mixed with inline elements) -/
def mixedContentElements : List String :=
  ["p", "listIntroduction", "listWrapUp", "heading", "subheading", "crossHeading", "from", "scene", "narrative", "summary",
   "b", "i", "u", "sup", "sub", "ref", "remark", "abbr", "def", "term", "inline", "ins", "del", "num"]

theorem C05_preserve_covers_mixed : mixedContentElements.all (xslPreserveSpace.contains ·) = true := by
  decide +kernel

/-- the string literals of a keyword rule (a choice of literals) -/
def ruleLits (g : Grammar) (rule : String) : List String :=
  match g.lookup rule with
  | some e => (alternatives e).filterMap fun a => match a with | .lit s => some (String.ofList s) | _ => none
  | none => []

def keywordFor (t : String) : String := (xslHierSynonyms.lookup t).getD (asciiUpperS t)

theorem C05_keywords_parse_back :
    aknHierNames.all (fun t =>
      (ruleLits aknSource "hier_element_name").contains (keywordFor t) &&
      ((hierSynonyms.lookup (asciiLower (keywordFor t))).getD (asciiLower (keywordFor t)) == t) &&
      xslHier.contains t) = true ∧
    aknSpeechContainers.all (fun t =>
      (ruleLits aknSource "speech_container_name").contains (keywordFor t) &&
      ((speechSynonyms.lookup (asciiLower (keywordFor t))).getD (asciiLower (keywordFor t)) == t) &&
      xslHier.contains t) = true := by
  decide +kernel

def roundTrip (text root : String) : Except Err Xml :=
  match convert testUris "" text root with
  | .ok x => convert testUris "" (unparse x).1 root
  | .error e => .error e

def sameDoc (a b : Except Err Xml) : Bool :=
  match a, b with
  | .ok x, .ok y => Xml.beq x y
  | _, _ => false

def c05doc : String :=
  "PREFACE\n  LONGTITLE An Act\nBODY\n  PART 1 - Intro **bold** //it//\n    SUBHEADING sub\n    CROSSHEADING **a** //b//\n    SEC 1.\n      text {{^sup}} and {{abbr{title T} AB}} {{*remark}}{{FOOTNOTE 1}}\n      FOOTNOTE 1\n        note\n      ITEMS\n        intro\n        ITEM (a)\n          x\n        wrap **w** //v//\n  TABLE\n    TR\n      TC\n        cell\nSCHEDULE First\n  PARA 1\n    sched\n"

theorem C05_examples :
    sameDoc (roundTrip c05doc "act") (convert testUris "" c05doc "act") = true ∧
    sameDoc (roundTrip "CROSSHEADING **a** //b//\n" "act") (convert testUris "" "CROSSHEADING **a** //b//\n" "act") = true := by
  decide +kernel

end Bluebell
