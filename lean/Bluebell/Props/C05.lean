import Bluebell.Convert
import Bluebell.Unparse
import Bluebell.Props.C18
import Bluebell.Props.C02
import Bluebell.Props.C04
import Bluebell.Props.C06
/-!
# C05 — XML → text → XML round trip

`unparse` is the model of the stylesheet (tied to libxslt's output by the `unparse` stage of the
correspondence check on parser outputs and on arbitrary trees).
* `C05_preserve_covers_mixed` — every element the XML builder fills with mixed inline content is in
  the stylesheet's `preserve-space` list (regenerated from `akn_text.xsl`). Before the repair of F19
  this `decide` failed on exactly `crossHeading`, `listWrapUp` and `abbr`.
* `C05_keywords_parse_back` — for each of the 27 hierarchical and 20 speech-container element names the
  keyword the stylesheet prints is a literal of the grammar's keyword rule and maps back, through the
  synonym tables of types.py, to the same element name (three regenerated tables checked against each
  other). Before the repair of F21/F25 this failed on `nationalInterest`.
* `C05_stripSpace_identity_on_parser_output_example`, `C05_examples` — kernel-evaluated round trips
  (`convert (unparse (convert text)) = convert text`, second trip identical), including a crossheading
  with two adjacent inline elements (the F19 witness).
The statement for all generated documents is decided by the oracle on the real code (with the listed
findings F6–F9, F30, F31); it is not yet a theorem.
-/
namespace Bluebell

/-- elements that `item_to_xml` fills from `InlineText.many_to_dict` (text mixed with inline elements) -/
def mixedContentElements : List String :=
  ["p", "listIntroduction", "listWrapUp", "heading", "subheading", "crossHeading", "from", "scene", "narrative", "summary",
   "b", "i", "u", "sup", "sub", "ref", "remark", "abbr", "def", "term", "inline", "ins", "del", "num"]

theorem C05_preserve_covers_mixed : mixedContentElements.all (xslPreserveSpace.contains ·) = true := by
  decide +kernel

def keywordFor (t : String) : String := (xslHierSynonyms.lookup t).getD (asciiUpperS t)

theorem C05_keywords_parse_back :
    aknHierNames.all (fun t =>
      (ruleLits aknSource "hier_element_name").contains (keywordFor t) &&
      ((hierSynonyms.lookup (asciiLower (keywordFor t))).getD (asciiLower (keywordFor t)) == t) &&
      xslHier.contains t) = true ∧
    aknSpeechContainers.all (fun t =>
      (ruleLits aknSource "speech_container_name").contains (keywordFor t) &&
      ((speechSynonyms.lookup (asciiLower (keywordFor t))).getD (asciiLower (keywordFor t)) == t) &&
      xslHier.contains t) = true := by
  decide +kernel

def roundTrip (text root : String) : Except Err Xml :=
  match convert testUris "" text root with
  | .ok x => convert testUris "" (unparse x).1 root
  | .error e => .error e

def sameDoc (a b : Except Err Xml) : Bool :=
  match a, b with
  | .ok x, .ok y => Xml.beq x y
  | _, _ => false

def c05doc : String :=
  "PREFACE\n  LONGTITLE An Act\nBODY\n  PART 1 - Intro **bold** //it//\n    SUBHEADING sub\n    CROSSHEADING **a** //b//\n    SEC 1.\n      text {{^sup}} and {{abbr{title T} AB}} {{*remark}}{{FOOTNOTE 1}}\n      FOOTNOTE 1\n        note\n      ITEMS\n        intro\n        ITEM (a)\n          x\n        wrap **w** //v//\n  TABLE\n    TR\n      TC\n        cell\nSCHEDULE First\n  PARA 1\n    sched\n"

theorem C05_examples :
    sameDoc (roundTrip c05doc "act") (convert testUris "" c05doc "act") = true ∧
    sameDoc (roundTrip "CROSSHEADING **a** //b//\n" "act") (convert testUris "" "CROSSHEADING **a** //b//\n" "act") = true := by
  decide +kernel

/-! ## The first fragment as a theorem: the paragraph of ordinary text -/

/-- **Unparsing a paragraph of ordinary text writes exactly that text on a line of its own.**
For a `p` element carrying at most an eId, whose only child is a text made of characters that are not
marker characters, starting with something that is neither white space nor an uppercase letter, outside
a bullet item: the stylesheet writes the indentation, the text unchanged, and a blank line. -/
theorem C05_plain_paragraph_written_as_its_text (fuel : Nat) (ctx : UCtx) (a : List (String × String))
    (s : String) (f : Char) (r : List Char) (hsl : s.toList = f :: r)
    (hs : ∀ c ∈ s.toList, safeChar c = true) (hws : isXmlWs f = false) (hup : ¬ ('A' ≤ f ∧ f ≤ 'Z'))
    (hli : ctx.parent ≠ "li") (ha : a.any (fun (k, _) => k != "eId") = false) :
    unNode (fuel + 3) ctx (.elem "p" a [.text s]) = indentStr ctx.indent ++ s ++ "\n\n" := by
  have h1 : "p" ∉ xslContainers := by decide +kernel
  have h2 : "p" ∉ xslBodies := by decide +kernel
  have h3 : "p" ∉ xslHier := by decide +kernel
  have h4 : "p" ∉ xslInlines := by decide +kernel
  have h5 : "p" ∉ xslSpeechBlocks := by decide +kernel
  have hv := C06_safe_text_verbatim fuel
    { parent := "p", before := [], after := [], indent := ctx.indent, pDepth := ctx.pDepth + 1 } s f r hsl hs hws hup rfl
    (by simp [noElems])
  have hli' : (ctx.parent == "li") = false := by simpa using hli
  simp only [unNode]
  simp [h1, h2, h3, h4, h5, hli', ha, unKids, hv, notesBelowL, notesBelow, unNotes]
  rw [String.append_assoc]; rfl

/-- **Paragraph round trip, for every ordinary text.** The text the stylesheet writes for such a
paragraph (previous theorem) is a line which, wherever it stands in a pre-parsed input, every
block-level rule of the grammar reads back as one paragraph item, and from that item the XML builder
makes `<p>` with exactly the text the unparser started from. -/
theorem C05_plain_paragraph_round_trip (u : Uris) (parent : Option String) (st : GenState)
    (s : String) (f : Char) (r : List Char) (hsl : s.toList = f :: r)
    (hp : ∀ c ∈ s.toList, isPlain c = true) (hx : xmlTextOk s = true)
    (h15 : f ≠ Char.ofNat 15) (hb : blockChoosesLine f = true)
    (inp : Array Char) (p : Nat)
    (hin : ∀ i (h : i < (f :: r).length), inp[p + i]? = some (f :: r)[i]) (hnl : inp[p + (f :: r).length]? = some '\n') :
    ∃ t, (∀ rule ∈ blockLevelRules, Lim aknExec inp (.ref rule) p (.ok t)) ∧
      ∀ k k2, (itemToXml u parent (k2 + 3) (toDict inp (k + 2) t) st).1 = .ok (.elem "p" [] [.text s]) := by
  have hat : AtPlain inp p (f :: r) := atPlain_of_chars inp (f :: r) p hin hnl (by rw [← hsl]; exact hp)
  obtain ⟨t, hd, hl⟩ := C04_plain_line_is_a_p inp p f r hat h15 hb
  refine ⟨t, hl, fun k k2 => ?_⟩
  have hss : String.ofList (f :: r) = s := by rw [← hsl]; simp
  have hne : s ≠ "" := by
    intro e; rw [e] at hsl; simp at hsl
  rw [hd k, hss]
  exact C04_p_item_to_xml u parent k2 s st hx hne

/-- the hypotheses are met by everyday text -/
example : (∀ c ∈ "the quick (brown) fox, 1.2 - jumps".toList, safeChar c = true ∧ isPlain c = true) ∧
    xmlTextOk "the quick (brown) fox, 1.2 - jumps" = true ∧ blockChoosesLine 't' = true ∧ isXmlWs 't' = false := by
  decide +kernel

end Bluebell
