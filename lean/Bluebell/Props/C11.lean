import Bluebell.Lemmas.PreParse
/-!
# C11 — pre-parsing yields a normal form and keeps every line

`preParse n text` is the model of `AkomaNtosoParser.pre_parse` with `indent_size = n`
(tied to the real function by the `preparse` stage of the correspondence check). The output is
described through tokens: `unlines toks` writes every token on its own line, a token being the
INDENT marker, the DEDENT marker or a content line.

* `C11_normal_form`: for **every** text and every `n`, either the stripped text is blank and the
  result is the empty string, or the result is `unlines toks` where the markers are balanced and
  never close more than is open, every INDENT is directly followed by a non-blank content line,
  the first line is a non-blank content line, no content line contains a newline or a tab or
  begins/ends with a space, and (since `unlines` ends every line with `\n`) the text ends in a newline.
* `C11_lines_kept`: in the same decomposition the content lines are exactly the lines of the
  stripped, de-tabbed input, each trimmed of spaces, in order; and every character of a content
  line comes from the input (or is a space replacing a tab) — so a text free of marker characters
  yields content lines free of them, i.e. the markers are alone on their lines.
* `C11_stack_invariant`: the indentation stack always has the shape `… > 0 > -1` (the `0` entry
  and the sentinel are never popped, so `stack[-1]` never raises).
-/
namespace Bluebell

structure NormalForm (toks : List Tok) : Prop where
  balanced : finalDepth 0 toks = some 0
  no_empty_block : indOk toks
  first_nonblank : ∃ l ts, toks = .line l :: ts ∧ l ≠ []
  lines_clean : ∀ l ∈ contentLines toks,
    '\n' ∉ l ∧ '\t' ∉ l ∧ l.head? ≠ some ' ' ∧ l.getLast? ≠ some ' '

/-- the decomposition used by both theorems -/
def Decomposes (n : Nat) (text : List Char) (toks : List Tok) : Prop :=
  preParse n text = unlines toks ∧
  contentLines toks = (splitLines (pyStrip (detab n text))).map trimSpaces

theorem preParse_blank (n : Nat) (text : List Char) (h : pyStrip (detab n text) = []) :
    preParse n text = [] := by
  unfold preParse
  rw [h]
  decide

theorem trimSpaces_clean (n : Nat) (text : List Char) (l : List Char)
    (hl : l ∈ splitLines (pyStrip (detab n text))) :
    '\n' ∉ trimSpaces l ∧ '\t' ∉ trimSpaces l ∧ (trimSpaces l).head? ≠ some ' ' ∧
      (trimSpaces l).getLast? ≠ some ' ' ∧ ∀ c ∈ trimSpaces l, c ∈ text ∨ c = ' ' := by
  have hsub : ∀ c ∈ trimSpaces l, c ∈ l := by
    intro c hc
    unfold trimSpaces rstripSpaces at hc
    exact dropTrailing_sublist _ _ c ((List.dropWhile_sublist _).subset hc)
  have hx : ∀ c ∈ l, c ∈ detab n text := fun c hc => pyStrip_mem _ c (splitLines_mem _ l hl c hc)
  refine ⟨fun h => splitLines_no_nl _ l hl (hsub _ h), fun h => detab_no_tab n text (hx _ (hsub _ h)), ?_, ?_, ?_⟩
  · exact head?_dropWhile_ne _ _ ' ' (by simp)
  · intro h
    exact rstrip_getLast l (getLast?_dropWhile _ _ _ h)
  · intro c hc
    exact detab_mem n text c (hx c (hsub c hc))

/-- The whole of C11 for a non-blank text, in one statement. -/
theorem preParse_nonblank (n : Nat) (text : List Char) (h : pyStrip (detab n text) ≠ []) :
    ∃ toks, Decomposes n text toks ∧ NormalForm toks := by
  obtain ⟨hL, l0, rest, hM, h0, hh⟩ := normLines_eq _ h (pyStrip_head _ h) (pyStrip_last _ h)
  have hc : ∀ l ∈ rest, l.getLast? ≠ some ' ' := by
    intro l hl
    have : l ∈ (splitLines (pyStrip (detab n text))).map rstripSpaces := by rw [hM]; exact List.mem_cons_of_mem _ hl
    obtain ⟨l', _, rfl⟩ := List.mem_map.mp this
    exact rstrip_getLast l'
  obtain ⟨sinv, hbal, hcont, hind, hlast⟩ := passT_spec rest [0, -1] StackInv.base hc
  have hlen := sinv.length_ge
  have hcl : contentLines (midToks l0 rest) = (splitLines (pyStrip (detab n text))).map trimSpaces := by
    have e0 : l0 = l0.dropWhile (· = ' ') := by
      cases l0 with
      | nil => rfl
      | cons c cs =>
        have : c ≠ ' ' := by simpa using hh
        simp [List.dropWhile, this]
    have : (splitLines (pyStrip (detab n text))).map trimSpaces =
        ((splitLines (pyStrip (detab n text))).map rstripSpaces).map (fun l => l.dropWhile (· = ' ')) := by
      rw [List.map_map]; rfl
    rw [this, hM]
    simp only [midToks, contentLines, contentLines_append, hcont, List.map_cons]
    have hr : contentLines (List.replicate ((passT rest [0, -1]).2.length - 2) Tok.ded) = [] :=
      contentLines_prefix (.dedent _)
    rw [hr, List.append_nil, ← e0]
  refine ⟨midToks l0 rest, ⟨?_, hcl⟩, ?_⟩
  · unfold preParse
    simp only [hL, hM]
    exact preParse_tail_eq l0 rest h0 hh hc
  · refine ⟨?_, ?_, ⟨l0, _, rfl, h0⟩, ?_⟩
    · have hbal' : finalDepth 0 (passT rest [0, -1]).1 = some ((passT rest [0, -1]).2.length - 2) := hbal
      show finalDepth 0 (.line l0 :: ((passT rest [0, -1]).1 ++ List.replicate ((passT rest [0, -1]).2.length - 2) .ded)) = some 0
      simp only [finalDepth]
      rw [finalDepth_append, hbal']
      simp only [Option.bind]
      rw [finalDepth_replicate_ded _ _ (Nat.le_refl _)]
      simp
    · show indOk (.line l0 :: ((passT rest [0, -1]).1 ++ List.replicate ((passT rest [0, -1]).2.length - 2) .ded))
      rw [indOk_line_cons]
      exact indOk_append_ded _ _ hind hlast
    · intro l hl
      rw [hcl] at hl
      obtain ⟨l', hl', rfl⟩ := List.mem_map.mp hl
      obtain ⟨a, b, c, d, _⟩ := trimSpaces_clean n text l' hl'
      exact ⟨a, b, c, d⟩

/-- **C11, normal form.** -/
theorem C11_normal_form (n : Nat) (text : List Char) :
    (pyStrip (detab n text) = [] ∧ preParse n text = []) ∨
    (pyStrip (detab n text) ≠ [] ∧ ∃ toks, Decomposes n text toks ∧ NormalForm toks) := by
  by_cases h : pyStrip (detab n text) = []
  · exact Or.inl ⟨h, preParse_blank n text h⟩
  · exact Or.inr ⟨h, preParse_nonblank n text h⟩

/-- **C11, every line is kept.** Removing the marker lines gives back the lines of the stripped
input, trimmed, in order; and content lines are made of input characters only. -/
theorem C11_lines_kept (n : Nat) (text : List Char) (h : pyStrip (detab n text) ≠ []) :
    ∃ toks, preParse n text = unlines toks ∧
      contentLines toks = (splitLines (pyStrip (detab n text))).map trimSpaces ∧
      ∀ l ∈ contentLines toks, ∀ c ∈ l, c ∈ text ∨ c = ' ' := by
  obtain ⟨toks, ⟨h1, h2⟩, _⟩ := preParse_nonblank n text h
  refine ⟨toks, h1, h2, ?_⟩
  intro l hl
  rw [h2] at hl
  obtain ⟨l', hl', rfl⟩ := List.mem_map.mp hl
  exact (trimSpaces_clean n text l' hl').2.2.2.2

/-- **C11, stack invariant**: whatever the lines are, from the state after the first line
(`[0, -1]`) the stack keeps the shape `… > 0 > -1`. -/
theorem C11_stack_invariant (ls : List (List Char)) (h : ∀ l ∈ ls, l.getLast? ≠ some ' ') :
    StackInv (passT ls [0, -1]).2 :=
  (passT_spec ls [0, -1] StackInv.base h).1

/-- The regular expressions the model of `pre_parse` was written against are the ones in parser.py
(regenerated constants; if somebody edits them this fails and the tie decides). -/
theorem C11_regexes_as_modelled :
    lineRePattern = "^([ ]*)([^ \\n])" ∧ lineReFlags = "re.M" ∧
    trailingWsRePattern = " +$" ∧ trailingWsReFlags = "re.M" := by decide

-- non-vacuity: over-indent repair and a multi-step dedent, evaluated by the kernel
example : preParse 2 "a\n      b\n    c\n        d\n  e\nf".toList =
    "a\n\x0e\nb\nc\n\x0e\nd\n\x0f\n\x0f\ne\nf\n".toList := by decide +kernel
example : pyStrip (detab 2 "a\n      b\n    c\n        d\n  e\nf".toList) ≠ [] := by decide +kernel
example : preParse 2 " \t\n \n".toList = [] := by decide +kernel

end Bluebell
