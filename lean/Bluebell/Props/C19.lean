import Bluebell.Cli
/-!
# C19 — the command-line tool prints exactly what the library returns

`cliMain` models the decision logic of `cli.main` with the library as parameters.
* `C19_prints_library_result` — for every library behaviour and flag combination: when the grammar
  accepts, stdout is the chosen rendering (JSON of the dict with `--json`, otherwise the XML,
  pretty-printed iff `--pretty`) followed by one newline, and the exit status is success.
* `C19_rejects_without_output` — when `parse` raises, nothing is printed to stdout and the exit status
  is failure (no partial document).
* `C19_json_ignores_pretty` — `--pretty` has no effect together with `--json`.
* `C19_alias_table` — the only root alias is `debatereport ↦ debateReport` (regenerated from
  parser.py), and the library resolves it before choosing the grammar rule.
What the model cannot exhibit — argparse, how the file is read (universal newlines, encoding), stdout
encoding, the console-script wrapper — is carried by the correspondence check, which runs the real
script in a subprocess and compares bytes.
-/
namespace Bluebell

theorem C19_prints_library_result {T : Type} (parse : String → String → Except Err T) (renderJson : T → String)
    (renderXml : T → Bool → Except Err String) (a : CliArgs) (text : String) (tree : T)
    (h : parse text a.root = .ok tree) :
    (a.json = true → cliMain parse renderJson renderXml a text = ⟨renderJson tree ++ "\n", true⟩) ∧
    (a.json = false → ∀ s, renderXml tree a.pretty = .ok s →
      cliMain parse renderJson renderXml a text = ⟨s ++ "\n", true⟩) := by
  constructor
  · intro hj; simp [cliMain, h, hj]
  · intro hj s hs; simp [cliMain, h, hj, hs]

theorem C19_rejects_without_output {T : Type} (parse : String → String → Except Err T) (renderJson : T → String)
    (renderXml : T → Bool → Except Err String) (a : CliArgs) (text : String) (e : Err)
    (h : parse text a.root = .error e) :
    cliMain parse renderJson renderXml a text = ⟨"", false⟩ := by
  simp [cliMain, h]

theorem C19_json_ignores_pretty {T : Type} (parse : String → String → Except Err T) (renderJson : T → String)
    (renderXml : T → Bool → Except Err String) (a : CliArgs) (text : String) (h : a.json = true) :
    cliMain parse renderJson renderXml { a with pretty := true } text =
      cliMain parse renderJson renderXml { a with pretty := false } text := by
  simp only [cliMain]
  cases parse text a.root <;> simp [h]

theorem C19_alias_table :
    rootAliases = [("debatereport", "debateReport")] ∧ resolveRoot "debatereport" = "debateReport" ∧
    resolveRoot "act" = "act" ∧ (aknExec.lookup (resolveRoot "debatereport")).isSome = true := by
  decide +kernel

-- non-vacuity: a library that accepts, and one that rejects
example : cliMain (fun _ _ => (.ok 7 : Except Err Nat)) toString (fun n p => .ok (toString n ++ (if p then "!" else "")))
    { uri := "/akn/za/act/2009/1", root := "act", pretty := true } "x" = ⟨"7!\n", true⟩ := by decide
example : cliMain (fun _ _ => (.error .parseError : Except Err Nat)) toString (fun n _ => .ok (toString n))
    { uri := "/akn/za/act/2009/1", root := "act" } "x" = ⟨"", false⟩ := by decide

end Bluebell
