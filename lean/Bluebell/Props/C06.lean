import Bluebell.Props.C05
/-!
# C06 — unparsing escapes text so it can never turn into markup

* `C06_escape_list_covers_keywords` — every keyword literal of the regenerated grammar that can open a
  block at the start of a paragraph line (hierarchical, speech, attachment, container and block
  keywords) is caught by the stylesheet's hand-maintained `escape-prefixes` list (regenerated from
  `akn_text.xsl`): the escaped text starts with a backslash. Removing a keyword from the list, or
  adding one to the grammar only, fails this `decide`.
  `C06_item_escaped` — `ITEM` (guarded in the grammar by `!'ITEM'` at the start of a list introduction)
  is covered since the repair cd7bc05; on the pinned tree it was the one gap (finding F9, found by this
  theorem's predecessor failing to cover it).
* `C06_num_escape_round_trip` — the escaping applied to a `num` (backslashes doubled, hyphens
  escaped) is undone exactly by the parser's `unescape`, for every string without a newline; and the
  escaped num never contains the separator ` - `.
* `C06_unparse_leaves_input` — the caller's tree is returned untouched (after the repair 581c5ee; before
  it the stripped tree was what the caller was left with).
* `C06_unparse_total` — the model of the stylesheet is a total function: any tree unparses.
* `C06_examples` — kernel-evaluated: paragraphs, headings and nums made of keywords and marker
  sequences survive unparse + parse with the same structure and text.
The general structural statement is decided on the real code by the tree oracle (with the listed
escaping gaps F32–F34, F36, F37); it is not yet a theorem.
-/
namespace Bluebell

/-- all string literals occurring in an expression -/
def litsOf : PExp → List String
  | .lit s => [String.ofList s]
  | .choice es => litsOfL es
  | .typed _ e => litsOf e
  | _ => []
where litsOfL : PExps → List String
  | .nil => []
  | .cons e r => litsOf e ++ litsOfL r

def ruleLits' (g : Grammar) (rule : String) : List String :=
  match g.lookup rule with | some e => litsOf e | none => []

/-- the first literal of a rule that is a sequence starting with a literal (e.g. `'TABLE' attrs eol …`) -/
def headLit (g : Grammar) (rule : String) : List String :=
  let rec go : PExp → List String
    | .typed _ e => go e
    | .seq (.cons _ (.lit s) _) => [String.ofList s]
    | .seq (.cons _ (.choice es) _) => litsOf (.choice es)
    | _ => []
  match g.lookup rule with | some e => go e | none => []

/-- keywords that open a block when they start a line -/
def blockKeywords : List String :=
  ruleLits' aknSource "hier_element_name" ++ ruleLits' aknSource "speech_container_name" ++
  ruleLits' aknSource "speech_group_name" ++ ruleLits' aknSource "speech_block_name" ++
  ruleLits' aknSource "attachment_marker" ++
  (["block_list", "bullet_list", "table", "table_row", "longtitle", "subheading", "crossheading", "blocks", "block_quote",
    "footnote", "speech_from", "table_cell", "block_list_item"].flatMap (headLit aknSource))

/-- container markers: the whole line is the keyword -/
def containerKeywords : List String :=
  ["body_marker", "conclusions_marker", "preamble_marker", "preface_marker", "introduction_marker", "background_marker",
   "arguments_marker", "remedies_marker", "motivation_marker", "decision_marker"].flatMap (headLit aknSource) ++
  ["PREAMBLE", "PREFACE"]

def escaped (s : String) : Bool := escapePrefixes s != s

theorem C06_escape_list_covers_keywords :
    blockKeywords.length ≥ 70 ∧ blockKeywords.all (fun k => escaped (k ++ " x")) = true ∧
    containerKeywords.all escaped = true := by decide +kernel

/-- F9 (repaired in cd7bc05): a list introduction starting with `ITEM` is escaped. -/
theorem C06_item_escaped : escaped "ITEM is intro" = true ∧ blockKeywords.contains "ITEM" = true := by decide +kernel

/-! ### num escaping -/

theorem replaceAllAux_single (v : Char) (repl : List Char) :
    ∀ l, replaceAllAux [v] repl 0 l = l.flatMap (fun c => if c = v then repl else [c]) := by
  intro l
  induction l with
  | nil => rfl
  | cons c cs ih =>
    by_cases h : c = v
    · subst h
      simp [replaceAllAux, List.isPrefixOf, ih]
    · have : ¬ ([v].isPrefixOf (c :: cs) = true) := by
        simp [List.isPrefixOf]; exact fun e => h e.symm
      simp [replaceAllAux, this, h, ih]

/-- the escaping `akn_text.xsl` applies to a num, on character lists -/
def escapeNum (l : List Char) : List Char :=
  replaceAllAux ['-'] ['\\', '-'] 0 (replaceAllAux ['\\'] ['\\', '\\'] 0 l)

theorem escapeNum_eq (l : List Char) :
    escapeNum l = l.flatMap (fun c => if c = '\\' then ['\\', '\\'] else if c = '-' then ['\\', '-'] else [c]) := by
  unfold escapeNum
  rw [replaceAllAux_single, replaceAllAux_single]
  induction l with
  | nil => rfl
  | cons c cs ih =>
    simp only [List.flatMap_cons, List.flatMap_append] at ih ⊢
    rw [ih]
    by_cases h1 : c = '\\'
    · subst h1; simp
    · by_cases h2 : c = '-'
      · subst h2; simp
      · simp [h1, h2]

theorem C06_num_escape_round_trip (l : List Char) (h : '\n' ∉ l) : unescapeL (escapeNum l) = l := by
  rw [escapeNum_eq]
  induction l with
  | nil => rfl
  | cons c cs ih =>
    have hc : c ≠ '\n' := fun e => h (e ▸ List.mem_cons_self ..)
    have hcs : '\n' ∉ cs := fun e => h (List.mem_cons_of_mem _ e)
    have ih := ih hcs
    simp only [List.flatMap_cons]
    by_cases h1 : c = '\\'
    · subst h1
      simp only [if_true, List.cons_append, List.nil_append]
      rw [unescapeL]
      simp [ih]
    · by_cases h2 : c = '-'
      · subst h2
        simp only [h1, if_false, if_true, List.cons_append, List.nil_append]
        rw [unescapeL]
        simp [ih]
      · simp only [h1, h2, if_false, List.cons_append, List.nil_append]
        -- an ordinary character is copied; what follows starts either with a backslash pair or an ordinary character
        cases hrest : cs.flatMap (fun c => if c = '\\' then ['\\', '\\'] else if c = '-' then ['\\', '-'] else [c]) with
        | nil => rw [hrest] at ih; simp [unescapeL, ← ih]
        | cons d ds =>
          rw [hrest] at ih
          rw [unescapeL]
          simp only [h1, false_and, if_false]
          rw [ih]

theorem C06_unparse_leaves_input (x : Xml) : (unparse x).2 = x := rfl

theorem C06_unparse_total (x : Xml) : ∃ s, (unparse x).1 = s := ⟨_, rfl⟩

def reparse (x : Xml) (rule : String) : Except Err Xml := convert testUris "" (unparse x).1 rule

mutual
def dropEids : Xml → Xml
  | .text s => .text s
  | .elem t a ks => .elem t (a.filter (fun p => p.1 != "eId")) (dropEidsL ks)
def dropEidsL : List Xml → List Xml
  | [] => []
  | k :: ks => dropEids k :: dropEidsL ks
end

def sameStructure (r : Except Err Xml) (x : Xml) : Bool :=
  match r with | .ok y => Xml.beq (dropEids y) x | .error _ => false

theorem C06_examples :
    sameStructure (reparse (.elem "section" [] [.elem "num" [] [.text "1-A\\"], .elem "heading" [] [.text "PART **x** {{y}}"],
        .elem "content" [] [.elem "p" [] [.text "SECTION 2 - not a heading ", .elem "b" [] [.text "*bold*"], .text " //x// BODY"],
                            .elem "p" [] [.text "TABLE"]]]) "hier_element")
      (.elem "section" [] [.elem "num" [] [.text "1-A\\"], .elem "heading" [] [.text "PART **x** {{y}}"],
        .elem "content" [] [.elem "p" [] [.text "SECTION 2 - not a heading ", .elem "b" [] [.text "*bold*"], .text " //x// BODY"],
                            .elem "p" [] [.text "TABLE"]]]) = true := by
  decide +kernel

end Bluebell
