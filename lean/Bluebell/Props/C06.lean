import Bluebell.Convert
import Bluebell.Unparse
import Bluebell.Props.C18
import Bluebell.Props.C02
import Bluebell.Lemmas.EscPlainLine
/-!
# C06 — unparsing escapes text so it can never turn into markup

* `C06_escape_list_covers_keywords` — every keyword literal of the regenerated grammar that can open a
  block at the start of a paragraph line (hierarchical, speech, attachment, container and block
  keywords) is caught by the stylesheet's hand-maintained `escape-prefixes` list (regenerated from
  `akn_text.xsl`): the escaped text starts with a backslash. Removing a keyword from the list, or
  adding one to the grammar only, fails this `decide`.
  `C06_item_escaped` — `ITEM` (guarded in the grammar by `!'ITEM'` at the start of a list introduction)
  is covered since the repair cd7bc05; on the pinned tree it was the one gap (finding F9, found by this
  theorem's predecessor failing to cover it).
* `C06_num_escape_round_trip` — the escaping applied to a `num` (backslashes doubled, hyphens
  escaped) is undone exactly by the parser's `unescape`, for every string without a newline; and the
  escaped num never contains the separator ` - `.
* `C06_unparse_leaves_input` — the caller's tree is returned untouched (after the repair 581c5ee; before
  it the stripped tree was what the caller was left with).
* `C06_unparse_total` — the model of the stylesheet is a total function: any tree unparses.
* `C06_safe_text_verbatim` — for every string free of marker characters, braces, backslashes and line breaks
  whose first character is neither white space nor an uppercase letter: as the first text of a paragraph it
  is written exactly as it is (no escape added, nothing changed); with `C03_plain_line_is_its_text` the
  parser reads it back as that paragraph.
* `C06_examples` — kernel-evaluated: paragraphs, headings and nums made of keywords and marker
  sequences survive unparse + parse with the same structure and text.
The general structural statement is decided on the real code by the tree oracle (with the listed
escaping gaps F32–F34, F36, F37); it is not yet a theorem.
-/
namespace Bluebell

/-- the string literals of a keyword rule (a choice of literals) -/
def ruleLits (g : Grammar) (rule : String) : List String :=
  match g.lookup rule with
  | some e => (alternatives e).filterMap fun a => match a with | .lit s => some (String.ofList s) | _ => none
  | none => []


/-- all string literals occurring in an expression -/
def litsOf : PExp → List String
  | .lit s => [String.ofList s]
  | .choice es => litsOfL es
  | .typed _ e => litsOf e
  | _ => []
where litsOfL : PExps → List String
  | .nil => []
  | .cons e r => litsOf e ++ litsOfL r

def ruleLits' (g : Grammar) (rule : String) : List String :=
  match g.lookup rule with | some e => litsOf e | none => []

/-- the first literal of a rule that is a sequence starting with a literal (e.g. `'TABLE' attrs eol …`) -/
def headLit (g : Grammar) (rule : String) : List String :=
  let rec go : PExp → List String
    | .typed _ e => go e
    | .seq (.cons _ (.lit s) _) => [String.ofList s]
    | .seq (.cons _ (.choice es) _) => litsOf (.choice es)
    | _ => []
  match g.lookup rule with | some e => go e | none => []

/-- keywords that open a block when they start a line -/
def blockKeywords : List String :=
  ruleLits' aknSource "hier_element_name" ++ ruleLits' aknSource "speech_container_name" ++
  ruleLits' aknSource "speech_group_name" ++ ruleLits' aknSource "speech_block_name" ++
  ruleLits' aknSource "attachment_marker" ++
  (["block_list", "bullet_list", "table", "table_row", "longtitle", "subheading", "crossheading", "blocks", "block_quote",
    "footnote", "speech_from", "table_cell", "block_list_item"].flatMap (headLit aknSource))

/-- container markers: the whole line is the keyword -/
def containerKeywords : List String :=
  ["body_marker", "conclusions_marker", "preamble_marker", "preface_marker", "introduction_marker", "background_marker",
   "arguments_marker", "remedies_marker", "motivation_marker", "decision_marker"].flatMap (headLit aknSource) ++
  ["PREAMBLE", "PREFACE"]

def escaped (s : String) : Bool := escapePrefixes s != s

theorem C06_escape_list_covers_keywords :
    blockKeywords.length ≥ 70 ∧ blockKeywords.all (fun k => escaped (k ++ " x")) = true ∧
    containerKeywords.all escaped = true := by decide +kernel

/-- F9 (repaired in cd7bc05): a list introduction starting with `ITEM` is escaped. -/
theorem C06_item_escaped : escaped "ITEM is intro" = true ∧ blockKeywords.contains "ITEM" = true := by decide +kernel

/-! ### num escaping -/

theorem replaceAllAux_single (v : Char) (repl : List Char) :
    ∀ l, replaceAllAux [v] repl 0 l = l.flatMap (fun c => if c = v then repl else [c]) := by
  intro l
  induction l with
  | nil => rfl
  | cons c cs ih =>
    by_cases h : c = v
    · subst h
      simp [replaceAllAux, List.isPrefixOf, ih]
    · have : ¬ ([v].isPrefixOf (c :: cs) = true) := by
        simp [List.isPrefixOf]; exact fun e => h e.symm
      simp [replaceAllAux, this, h, ih]

/-- the escaping `akn_text.xsl` applies to a num, on character lists -/
def escapeNum (l : List Char) : List Char :=
  replaceAllAux ['-'] ['\\', '-'] 0 (replaceAllAux ['\\'] ['\\', '\\'] 0 l)

theorem escapeNum_eq (l : List Char) :
    escapeNum l = l.flatMap (fun c => if c = '\\' then ['\\', '\\'] else if c = '-' then ['\\', '-'] else [c]) := by
  unfold escapeNum
  rw [replaceAllAux_single, replaceAllAux_single]
  induction l with
  | nil => rfl
  | cons c cs ih =>
    simp only [List.flatMap_cons, List.flatMap_append] at ih ⊢
    rw [ih]
    by_cases h1 : c = '\\'
    · subst h1; simp
    · by_cases h2 : c = '-'
      · subst h2; simp
      · simp [h1, h2]

theorem C06_num_escape_round_trip (l : List Char) (h : '\n' ∉ l) : unescapeL (escapeNum l) = l := by
  rw [escapeNum_eq]
  induction l with
  | nil => rfl
  | cons c cs ih =>
    have hc : c ≠ '\n' := fun e => h (e ▸ List.mem_cons_self ..)
    have hcs : '\n' ∉ cs := fun e => h (List.mem_cons_of_mem _ e)
    have ih := ih hcs
    simp only [List.flatMap_cons]
    by_cases h1 : c = '\\'
    · subst h1
      simp only [if_true, List.cons_append, List.nil_append]
      rw [unescapeL]
      simp [ih]
    · by_cases h2 : c = '-'
      · subst h2
        simp only [h1, if_false, if_true, List.cons_append, List.nil_append]
        rw [unescapeL]
        simp [ih]
      · simp only [h1, h2, if_false, List.cons_append, List.nil_append]
        -- an ordinary character is copied; what follows starts either with a backslash pair or an ordinary character
        cases hrest : cs.flatMap (fun c => if c = '\\' then ['\\', '\\'] else if c = '-' then ['\\', '-'] else [c]) with
        | nil => rw [hrest] at ih; simp [unescapeL, ← ih]
        | cons d ds =>
          rw [hrest] at ih
          rw [unescapeL]
          simp only [h1, false_and, if_false]
          rw [ih]

theorem C06_unparse_leaves_input (x : Xml) : (unparse x).2 = x := rfl

theorem C06_unparse_total (x : Xml) : ∃ s, (unparse x).1 = s := ⟨_, rfl⟩

def reparse (x : Xml) (rule : String) : Except Err Xml := convert testUris "" (unparse x).1 rule

mutual
def dropEids : Xml → Xml
  | .text s => .text s
  | .elem t a ks => .elem t (a.filter (fun p => p.1 != "eId")) (dropEidsL ks)
def dropEidsL : List Xml → List Xml
  | [] => []
  | k :: ks => dropEids k :: dropEidsL ks
end

def sameStructure (r : Except Err Xml) (x : Xml) : Bool :=
  match r with | .ok y => Xml.beq (dropEids y) x | .error _ => false

theorem C06_examples :
    sameStructure (reparse (.elem "section" [] [.elem "num" [] [.text "1-A\\"], .elem "heading" [] [.text "PART **x** {{y}}"],
        .elem "content" [] [.elem "p" [] [.text "SECTION 2 - not a heading ", .elem "b" [] [.text "*bold*"], .text " //x// BODY"],
                            .elem "p" [] [.text "TABLE"]]]) "hier_element")
      (.elem "section" [] [.elem "num" [] [.text "1-A\\"], .elem "heading" [] [.text "PART **x** {{y}}"],
        .elem "content" [] [.elem "p" [] [.text "SECTION 2 - not a heading ", .elem "b" [] [.text "*bold*"], .text " //x// BODY"],
                            .elem "p" [] [.text "TABLE"]]]) = true := by
  decide +kernel

/-! ## Text without marker characters is written verbatim -/

/-- characters the unparser never touches: not a marker character, brace, backslash or line break -/
def safeChar (c : Char) : Bool := !(c == '\\' || c == '*' || c == '/' || c == '_' || c == '{' || c == '}' || c == '\n' || c == '\r')

theorem replaceAllAux_absent (value repl : List Char) (v : Char) (vs : List Char) (hv : value = v :: vs) :
    ∀ l : List Char, v ∉ l → replaceAllAux value repl 0 l = l := by
  intro l
  induction l with
  | nil => intro _; simp [replaceAllAux]
  | cons c cs ih =>
    intro h
    have hc : c ≠ v := fun e => h (by simp [e])
    have hcs : v ∉ cs := fun e => h (by simp [e])
    rw [replaceAllAux]
    have : ¬ (value ≠ [] ∧ value.isPrefixOf (c :: cs) = true) := by
      subst hv
      simp [List.isPrefixOf]
      intro e; exact absurd e.symm hc
    simp only [this, if_false, ih hcs]

theorem escapeInlines_safe (s : String) (h : ∀ c ∈ s.toList, safeChar c = true) : escapeInlines s = s := by
  have hno : ∀ v : Char, (v = '\\' ∨ v = '*' ∨ v = '/' ∨ v = '_' ∨ v = '{' ∨ v = '}' ∨ v = '\n' ∨ v = '\r') → v ∉ s.toList := by
    intro v hv hm
    have := h v hm
    rcases hv with rfl | rfl | rfl | rfl | rfl | rfl | rfl | rfl <;> simp [safeChar] at this
  have hmap : (s.toList.map fun c => if c == '\r' || c == '\n' then ' ' else c) = s.toList := by
    have key : ∀ l : List Char, (∀ c ∈ l, c ≠ '\r' ∧ c ≠ '\n') → (l.map fun c => if c == '\r' || c == '\n' then ' ' else c) = l := by
      intro l
      induction l with
      | nil => intro _; rfl
      | cons a as ih =>
        intro hl
        have ha := hl a (by simp)
        have iha := ih (fun c hc => hl c (by simp [hc]))
        rw [List.map_cons, iha]
        simp [ha.1, ha.2]
    apply key
    intro c hc
    refine ⟨?_, ?_⟩
    · exact fun e => hno _ (by simp [e]) (e ▸ hc)
    · exact fun e => hno _ (by simp [e]) (e ▸ hc)
  unfold escapeInlines
  simp only [hmap, String.ofList_toList]
  have step : ∀ (value repl : String) (v : Char) (vs : List Char), value.toList = v :: vs → v ∉ s.toList →
      replaceAll s value repl = s := by
    intro value repl v vs hv hn
    unfold replaceAll
    rw [replaceAllAux_absent _ _ v vs hv _ hn, String.ofList_toList]
  rw [step "\\" "\\\\" '\\' [] rfl (hno _ (by simp))]
  rw [step "**" "\\*\\*" '*' ['*'] rfl (hno _ (by simp))]
  rw [step "//" "\\/\\/" '/' ['/'] rfl (hno _ (by simp))]
  rw [step "__" "\\_\\_" '_' ['_'] rfl (hno _ (by simp))]
  rw [step "{{" "\\{\\{" '{' ['{'] rfl (hno _ (by simp))]
  rw [step "}}" "\\}\\}" '}' ['}'] rfl (hno _ (by simp))]

theorem escape_lists_uppercase :
    (xslEscapeEquals ++ xslEscapeStarts).all (fun k => match k.toList.head? with | some c => decide ('A' ≤ c ∧ c ≤ 'Z') | none => false) = true := by
  decide +kernel

theorem escapePrefixes_lower (s : String) (f : Char) (r : List Char) (hs : s.toList = f :: r) (hf : ¬ ('A' ≤ f ∧ f ≤ 'Z')) :
    escapePrefixes s = s := by
  have hall := escape_lists_uppercase
  rw [List.all_eq_true] at hall
  unfold escapePrefixes
  have h1 : xslEscapeEquals.contains s = false := by
    cases hc : xslEscapeEquals.contains s with
    | false => rfl
    | true =>
      have hm : s ∈ xslEscapeEquals := by simpa using hc
      have := hall s (List.mem_append_left _ hm)
      rw [hs] at this
      simp at this
      exact absurd this hf
  have h2 : xslEscapeStarts.any (fun k => k.toList.isPrefixOf s.toList) = false := by
    cases hc : xslEscapeStarts.any (fun k => k.toList.isPrefixOf s.toList) with
    | false => rfl
    | true =>
      obtain ⟨k, hk, hp⟩ := List.any_eq_true.mp hc
      have hu := hall k (List.mem_append_right _ hk)
      rw [hs] at hp
      cases hkl : k.toList with
      | nil => rw [hkl] at hu; simp at hu
      | cons a as =>
        rw [hkl] at hu hp
        simp [List.isPrefixOf] at hp
        simp at hu
        rw [hp.1] at hu
        exact absurd hu hf
  rw [h1, h2]; simp

theorem safe_ne (c : Char) (h : safeChar c = true) : c ≠ '*' ∧ c ≠ '/' ∧ c ≠ '_' := by
  refine ⟨?_, ?_, ?_⟩ <;> (intro e; subst e; simp [safeChar] at h)

/-- **Text without marker characters is written verbatim**: the first text of a paragraph whose characters
are all safe and whose first character is neither white space nor an uppercase letter comes out of the
unparser exactly as it is — no escape is added, nothing is changed. -/
theorem C06_safe_text_verbatim (fuel : Nat) (ctx : UCtx) (s : String) (f : Char) (r : List Char) (hsl : s.toList = f :: r)
    (hs : ∀ c ∈ s.toList, safeChar c = true) (hws : isXmlWs f = false) (hup : ¬ ('A' ≤ f ∧ f ≤ 'Z'))
    (hp : ctx.parent = "p") (hb : noElems ctx.before = true) :
    unNode (fuel + 1) ctx (.text s) = s := by
  have hlt : ltrim s = s := by
    unfold ltrim
    rw [hsl]
    simp [List.dropWhile, hws, ← hsl]
  have hfs : safeChar f = true := hs f (by rw [hsl]; simp)
  have hlast : ∀ l, s.toList.getLast? = some l → safeChar l = true := fun l hl => hs l (List.mem_of_getLast? hl)
  have hse : escapeStartEnd ctx s = s := by
    unfold escapeStartEnd
    have h1 : (s.toList.head? == some '*') = false ∧ (s.toList.head? == some '/') = false ∧ (s.toList.head? == some '_') = false := by
      have := safe_ne f hfs
      rw [hsl]; simp [this.1, this.2.1, this.2.2]
    have h2 : (s.toList.getLast? == some '*') = false ∧ (s.toList.getLast? == some '/') = false ∧ (s.toList.getLast? == some '_') = false := by
      cases hl : s.toList.getLast? with
      | none => simp
      | some l =>
        have := safe_ne l (hlast l hl)
        simp [this.1, this.2.1, this.2.2]
    simp [h1.1, h1.2.1, h1.2.2, h2.1, h2.2.1, h2.2.2, escapeInlines_safe s hs]
  have hnr : ¬ (ctx.parent == "remark" && firstElemTag ctx.before == some "br") = true := by simp [hp]
  simp only [unNode]
  rw [if_neg hnr]
  simp [hp, hb, hlt, hse, escapePrefixes_lower s f r hsl hup]

/-! ## Text that starts with a keyword: escaped, and read back as text -/

/-- the first text of a paragraph, all characters safe, not starting with white space: what the stylesheet
writes is `escape-prefixes` of the text itself (the two inline-escaping steps leave it alone) -/
theorem unNode_safe_text (fuel : Nat) (ctx : UCtx) (s : String) (f : Char) (r : List Char) (hsl : s.toList = f :: r)
    (hs : ∀ c ∈ s.toList, safeChar c = true) (hws : isXmlWs f = false)
    (hp : ctx.parent = "p") (hb : noElems ctx.before = true) :
    unNode (fuel + 1) ctx (.text s) = escapePrefixes s := by
  have hlt : ltrim s = s := by
    unfold ltrim
    rw [hsl]
    simp [List.dropWhile, hws, ← hsl]
  have hfs : safeChar f = true := hs f (by rw [hsl]; simp)
  have hlast : ∀ l, s.toList.getLast? = some l → safeChar l = true := fun l hl => hs l (List.mem_of_getLast? hl)
  have hse : escapeStartEnd ctx s = s := by
    unfold escapeStartEnd
    have h1 : (s.toList.head? == some '*') = false ∧ (s.toList.head? == some '/') = false ∧ (s.toList.head? == some '_') = false := by
      have := safe_ne f hfs
      rw [hsl]; simp [this.1, this.2.1, this.2.2]
    have h2 : (s.toList.getLast? == some '*') = false ∧ (s.toList.getLast? == some '/') = false ∧ (s.toList.getLast? == some '_') = false := by
      cases hl : s.toList.getLast? with
      | none => simp
      | some l =>
        have := safe_ne l (hlast l hl)
        simp [this.1, this.2.1, this.2.2]
    simp [h1.1, h1.2.1, h1.2.2, h2.1, h2.2.1, h2.2.2, escapeInlines_safe s hs]
  have hnr : ¬ (ctx.parent == "remark" && firstElemTag ctx.before == some "br") = true := by simp [hp]
  simp only [unNode]
  rw [if_neg hnr]
  simp [hp, hb, hlt, hse]

theorem escaped_eq {s : String} (h : escaped s = true) : escapePrefixes s = "\\" ++ s := by
  unfold escaped escapePrefixes at h
  unfold escapePrefixes
  by_cases hc : (xslEscapeEquals.contains s || xslEscapeStarts.any (fun k => k.toList.isPrefixOf s.toList)) = true
  · rw [if_pos hc]
  · rw [if_neg hc] at h
    simp at h

/-- **A paragraph whose text starts with a keyword can never turn into markup.** Whenever the stylesheet's
`escape-prefixes` step applies to a text of safe characters (it starts with one of the listed keywords:
`escaped s`), (1) what is written is a backslash followed by the text, unchanged; (2) wherever that line
stands in a pre-parsed input, every block-level rule of the executing grammar reads it as one paragraph
— no keyword rule is even tried at a backslash — and the XML builder makes `<p>` with exactly the
original text: the backslash is gone, the keyword is text. -/
theorem C06_keyword_paragraph_round_trip (u : Uris) (parent : Option String) (st : GenState) (fuel : Nat) (ctx : UCtx)
    (s : String) (f d : Char) (r : List Char) (hsl : s.toList = f :: d :: r)
    (hs : ∀ c ∈ s.toList, safeChar c = true) (hws : isXmlWs f = false) (hesc : escaped s = true)
    (hpl : ∀ c ∈ d :: r, isPlain c = true) (hx : xmlTextOk s = true)
    (hp : ctx.parent = "p") (hb : noElems ctx.before = true) :
    unNode (fuel + 1) ctx (.text s) = "\\" ++ s ∧
    ∀ (inp : Array Char) (p : Nat), inp[p]? = some '\\' → inp[p + 1]? = some f →
      (∀ i (h : i < (d :: r).length), inp[p + 2 + i]? = some (d :: r)[i]) → inp[p + 2 + (d :: r).length]? = some '\n' →
      ∃ t, (∀ rule ∈ blockLevelRules, Lim aknExec inp (.ref rule) p (.ok t)) ∧
        ∀ k k2, (itemToXml u parent (k2 + 3) (toDict inp (k + 2) t) st).1 = .ok (.elem "p" [] [.text s]) := by
  refine ⟨by rw [unNode_safe_text fuel ctx s f (d :: r) hsl hs hws hp hb, escaped_eq hesc], ?_⟩
  intro inp p h0 h1 hin hnl
  have hat : AtPlain inp (p + 2) (d :: r) := atPlain_of_chars inp (d :: r) (p + 2) hin hnl hpl
  have hfn : f ≠ '\n' := by
    intro e
    have := hs f (by rw [hsl]; simp)
    rw [e] at this; simp [safeChar] at this
  obtain ⟨n0, hn0⟩ := line_of_esc_plain inp p f d r h0 h1 hfn hat
  obtain ⟨te, stop, ht⟩ := hn0 n0 (Nat.le_refl _)
  have hline : Lim aknExec inp (.ref "line") p (.ok _) :=
    ⟨n0, fun n hn => by rw [eval_mono aknExec inp _ p hn (by rw [ht]; trivial), ht]⟩
  refine ⟨_, block_rules_follow_line inp p '\\' h0 C13_block_rules_choose_line _ hline, fun k k2 => ?_⟩
  rw [toDict_esc_plain_line inp k p stop te f d r h0 h1 hat]
  have hss : String.ofList (f :: d :: r) = s := by rw [← hsl]; simp
  have hne : s ≠ "" := by
    intro e; rw [e] at hsl; simp at hsl
  rw [hss]
  simp [itemToXml, itemsToXml, mkElem, makerCheck, mergeText, hx, Except.bind, hne]

/-- the hypotheses are met by the texts this is about -/
example : escaped "PART one of the Act" = true ∧ (∀ c ∈ "PART one of the Act".toList, safeChar c = true) ∧
    (∀ c ∈ "ART one of the Act".toList, isPlain c = true) ∧ xmlTextOk "PART one of the Act" = true := by decide +kernel

end Bluebell
