import Bluebell.Exec
import Bluebell.Lemmas.Scan
/-!
# C10 — the shipped parser recognises exactly the language of the PEG grammar

Statements only (helper lemmas live in `Bluebell/Lemmas`).

* `compiled_eq_source` — the grammar decompiled from the generated parser `akn.py` (translator T2)
  is, rule for rule, label for label, type for type, the grammar read from `akn.peg` (T1).
  Both sides are regenerated from the repository on every run; the kernel compares them.
* `override_class_eq` + `rx1_equiv_plus` — parser.py's hand-optimised plain-text rule (one regular
  expression match of `[class]+`) covers exactly the span that the generated loop for the grammar's
  `[class]+` covers, for every input, and its class is the grammar's class.
* `markers_match` — `INDENT`/`DEDENT` of parser.py are the terminals of the grammar's `indent` /
  `dedent` rules.
What is *not* proved here: that canopy's code templates implement PEG semantics (that is the
parse stage of the correspondence check, run for every rule as a start symbol).
-/
namespace Bluebell

/-- C10, data half: the compiled parser is the compilation of this grammar. -/
theorem compiled_eq_source : aknCompiled = aknSource := by decide +kernel

theorem classCheck_sound (g : Grammar) (n : Bool) (c : List Char) (h : classCheck g n c = true) :
    ∃ neg cs, g.lookup plainTextRule = some (.plus (.cls neg cs)) ∧
      ∀ x, clsMatch neg cs x = clsMatch n c x := by
  unfold classCheck at h
  split at h
  next neg cs heq =>
    refine ⟨neg, cs, heq, ?_⟩
    simp only [Bool.and_eq_true, beq_iff_eq, List.all_eq_true] at h
    obtain ⟨⟨hn, h1⟩, h2⟩ := h
    intro x
    unfold clsMatch
    subst hn
    congr 1
    cases hx : cs.contains x
    · cases hc : c.contains x
      · rfl
      · have := h2 x (by simpa using hc)
        rw [hx] at this; exact absurd this (by decide)
    · rw [h1 x (by simpa using hx)]
  next => exact absurd h (by simp)

/-- The class of `Parser.NON_INLINE_START_RE` is the class of the grammar's plain-text rule. -/
theorem override_class_eq :
    ∃ neg cs, aknSource.lookup plainTextRule = some (.plus (.cls neg cs)) ∧
      ∀ c, clsMatch neg cs c = clsMatch overrideNeg overrideCls c :=
  classCheck_sound aknSource overrideNeg overrideCls (by decide +kernel)

/-- `INDENT`/`DEDENT` of parser.py are the grammar's `indent`/`dedent` terminals. -/
theorem markers_match :
    aknSource.lookup "indent" = some (.seq (.cons [] (.lit [indentChar]) (.cons ["eol"] (.ref "eol") .nil))) ∧
    aknSource.lookup "dedent" = some (.seq (.cons [] (.lit [dedentChar]) (.cons ["eol"] (.ref "eol") .nil))) := by
  decide +kernel

/-- The executed grammar differs from the decompiled one only at the plain-text rule. -/
theorem exec_differs_only_at_plain_text (n : String) (h : n ≠ plainTextRule) :
    aknExec.lookup n = aknCompiled.lookup n :=
  lookup_applyOverride aknCompiled n h

-- non-vacuity: the plain-text rule really is evaluated by one scan in the executed grammar,
-- and a non-trivial input is consumed identically by both forms
example : aknExec.lookup plainTextRule = some (.rx1 overrideNeg overrideCls) := by decide +kernel
example : (match eval aknExec "abc*".toList.toArray 10 (.ref plainTextRule) 0 with | .ok t => t.stop | _ => 0) = 3 ∧
          (match eval aknSource "abc*".toList.toArray 10 (.ref plainTextRule) 0 with | .ok t => t.stop | _ => 0) = 3 := by
  decide +kernel

end Bluebell
