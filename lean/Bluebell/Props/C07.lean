import Bluebell.Lemmas.EidInv
/-!
# C07 — every identifiable element gets exactly one eId, unique in the document

Model: `rewriteEid` / `rewriteAll` (tied to `IdGenerator.rewrite_all_eids` by the `eids` stage of the
correspondence check; `post_process` ends with exactly this call on the finished tree).

* `C07_ensureUnique_fresh` — for every counter state, candidate and `nn` flag, `ensure_unique`
  (with the fuel `get_eid` passes — i.e. it terminates) returns an id that had never been issued,
  marks it issued, never decreases a count, and extends the candidate.
* `C07_unique` — for every tree, prefix and rewriter state, the eIds assigned in one pass are pairwise
  distinct (induction over the tree with the invariant "every issued id has count ≥ 1").
* `C07_presence` — an element gets an eId iff its tag is in neither exemption set and it is outside
  meta; exempt elements and everything inside meta are left exactly as they were.
* `C07_format` — the id is `prefix__alias_num…`: it starts with the caller's prefix and is not empty.
* `C07_cleanNum_no_whitespace` — the cleaned number never contains a whitespace character.
* `C07_counterexample_exempt_keeps_eid` — the *full* statement also says exempt elements carry no
  eId; an eId that was already there (e.g. written by the user as `TC{eId foo}`) survives: finding F12.
* `C07_tables` — the regenerated exemption / pass-through / num-expected sets are the ones the
  property names.
-/
namespace Bluebell

theorem C07_ensureUnique_fresh (m : List (String × Nat)) (eid : String) (nn : Bool) :
    Fresh m (ensureUnique (m.length + 2) m eid nn).1 eid (ensureUnique (m.length + 2) m eid nn).2 :=
  ensureUnique_fresh' m eid nn

theorem C07_unique (x : Xml) (pfx : String) (s : IdState) :
    (assignedIds (rewriteEid x pfx s).1).Nodup ∧
    ∀ id ∈ assignedIds (rewriteEid x pfx s).1, countOf s.eidCounter id = 0 :=
  ⟨(rewriteEid_inv x pfx s).nodup, fun id h => ((rewriteEid_inv x pfx s).fresh id h).1⟩

/-- the whole-document form: ids assigned by `rewrite_all_eids` are pairwise distinct -/
theorem C07_unique_all (x : Xml) (pfx : String) : (assignedIds (rewriteAll x pfx).1).Nodup :=
  (rewriteEid_inv x pfx {}).nodup

theorem C07_presence (tag : String) (attrs : List (String × String)) (kids : List Xml) (pfx : String) (s : IdState) :
    (tag = "meta" → (rewriteEid (.elem tag attrs kids) pfx s).1 = .elem tag attrs kids) ∧
    (tag ≠ "meta" → identifiable tag = false →
      (rewriteEid (.elem tag attrs kids) pfx s).1.attrs = attrs) ∧
    (tag ≠ "meta" → identifiable tag = true →
      ((rewriteEid (.elem tag attrs kids) pfx s).1.attrs.lookup "eId").getD "" = (s.getEid pfx tag (numOf kids)).2) := by
  refine ⟨?_, ?_, ?_⟩
  · intro h; subst h; rw [rewriteEid_elem_meta]
  · intro hm hid
    rw [rewriteEid]
    simp only [hm, if_false]
    cases hp : passLower tag with
    | some low => rfl
    | none =>
      have he : isExempt tag = true := by
        simp only [identifiable, hp, Option.isNone_none, Bool.true_and, Bool.not_eq_false'] at hid
        simpa using hid
      simp only [he, if_true]; rfl
  · intro hm hid
    rw [rewriteEid]
    have hp : passLower tag = none := by
      cases h : passLower tag with
      | none => rfl
      | some l => simp [identifiable, h] at hid
    have he : ¬ isExempt tag = true := by
      intro h; simp [identifiable, hp, h] at hid
    simp only [hm, if_false, hp, he, Bool.false_eq_true]
    exact newAttrs_lookup attrs _

theorem C07_format (s : IdState) (pfx name num : String) :
    (∃ rest, (s.getEid pfx name num).2 = (if pfx ≠ "" then pfx ++ "__" else "") ++ aliasOf name ++ "_" ++ rest) ∧
    (s.getEid pfx name num).2 ≠ "" := by
  obtain ⟨⟨_, _, _, ⟨suf, hs⟩⟩, _⟩ := getEid_spec s pfx name num
  refine ⟨⟨(s.getNum pfx name num).2.1 ++ suf, by rw [hs]; simp [String.append_assoc]⟩, ?_⟩
  rw [hs]
  intro h
  have := congrArg String.length h
  have h1 : "_".length = 1 := by decide
  simp only [String.length_append, h1, String.length_empty] at this
  omega

theorem collapsePunctAux_mem (b : Bool) (l : List Char) : ∀ c ∈ collapsePunctAux b l, c = '-' ∨ c ∈ l := by
  induction l generalizing b with
  | nil => intro c h; simp [collapsePunctAux] at h
  | cons a as ih =>
    intro c h
    unfold collapsePunctAux at h
    split at h
    · split at h
      · rcases ih true c h with h | h
        · exact Or.inl h
        · exact Or.inr (List.mem_cons_of_mem _ h)
      · rcases List.mem_cons.mp h with h | h
        · exact Or.inl h
        · rcases ih true c h with h | h
          · exact Or.inl h
          · exact Or.inr (List.mem_cons_of_mem _ h)
    · rcases List.mem_cons.mp h with h | h
      · exact Or.inr (h ▸ List.mem_cons_self ..)
      · rcases ih false c h with h | h
        · exact Or.inl h
        · exact Or.inr (List.mem_cons_of_mem _ h)

theorem C07_cleanNum_no_whitespace (num : String) :
    ∀ c ∈ (cleanNum num).toList, inRanges eidWsRanges c = false := by
  intro c hc
  unfold cleanNum at hc
  simp only [String.toList_ofList] at hc
  rcases collapsePunctAux_mem _ _ c hc with h | h
  · rw [h]; decide
  · have := (List.mem_filter.mp h).2
    simpa using this

/-- the class of `whitespace_re` (regenerated) contains every code point that Python's `\s` matches (table of the running
interpreter): the statement above is about white space as the property means it -/
theorem C07_whitespace_class_is_python_s :
    pyReSpaceCodes.all (fun n => eidWsRanges.any fun (lo, hi) => lo ≤ n && n ≤ hi) = true := by decide +kernel

/-- …so a cleaned num contains no character that Python's `\s` matches -/
theorem C07_cleanNum_no_python_whitespace (num : String) :
    ∀ c ∈ (cleanNum num).toList, pyReSpaceCodes.contains c.toNat = false := by
  intro c hc
  have h1 := C07_cleanNum_no_whitespace num c hc
  cases hm : pyReSpaceCodes.contains c.toNat with
  | false => rfl
  | true =>
    have hall := C07_whitespace_class_is_python_s
    rw [List.all_eq_true] at hall
    have := hall c.toNat (by simpa using hm)
    simp only [inRanges] at h1
    rw [this] at h1; cases h1

/-- F12: an eId already on an exempt element (a table cell) is not removed. -/
theorem C07_counterexample_exempt_keeps_eid :
    ((rewriteAll (.elem "td" [("eId", "foo")] [.elem "p" [] [.text "x"]]) "").1.attrs.lookup "eId") = some "foo" := by
  decide +kernel

def specExempt : List String :=
  ["abbr", "act", "akomaNtoso", "amendment", "amendmentBody", "amendmentList", "attachments", "b", "bill", "body",
   "br", "collectionBody", "components", "content", "coverPage", "debate", "debateBody", "debateReport", "del", "doc",
   "documentCollection", "heading", "i", "img", "inline", "ins", "judgment", "judgmentBody", "mainBody", "meta", "num",
   "officialGazette", "portion", "portionBody", "remark", "span", "statement", "sub", "subheading", "sup", "td", "th",
   "tr", "u"]
def specPassThrough : List String :=
  ["arguments", "background", "conclusions", "decision", "header", "intro", "introduction", "motivation", "preamble",
   "preface", "remedies", "wrapUp"]
def specNumExpected : List String :=
  ["alinea", "article", "book", "chapter", "clause", "division", "indent", "item", "level", "list", "paragraph", "part",
   "point", "proviso", "rule", "section", "subchapter", "subclause", "subdivision", "sublist", "subparagraph", "subpart",
   "subrule", "subsection", "subtitle", "title", "tome", "transitional"]

theorem C07_tables :
    idExempt = specExempt ∧ idPassThrough.map (·.1) = specPassThrough ∧ numExpected = specNumExpected := by
  decide +kernel

-- non-vacuity: two sections with the same number really collide and are separated
example : assignedIds (rewriteAll (.elem "body" [] [.elem "section" [] [.elem "num" [] [.text "1."]],
    .elem "section" [] [.elem "num" [] [.text "1"]]]) "").1 = ["sec_1", "sec_1_2"] := by decide +kernel

end Bluebell
