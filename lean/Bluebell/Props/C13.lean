import Bluebell.Convert
import Bluebell.Props.C01
import Bluebell.Lemmas.EscLine
import Bluebell.Lemmas.BlockLine
import Bluebell.Lemmas.MixedLine
/-!
# C13 — a backslash makes the next character literal, everywhere

* `C13_unescape_escapeAll` — for every string without a newline, removing escapes from the
  character-by-character escaped string gives the string back (this is what `num` goes through).
* `C13_escape_tried_first` — in the regenerated grammar, in each of the three rules that read text
  character by character (`inline`, `inline_nested`, `num_content`) the `escape` alternative comes
  before every alternative that could consume a backslash, and `escape` is `'\\' [^\n]`. A grammar
  edit that moves or drops `escape` (in `akn.peg`, and in `akn.py` by C10) fails this `decide`.
* `C13_merge_drops_backslash` — `InlineText.many_to_dict` turns a run of escape nodes into one text
  item holding exactly the escaped characters.
* kernel-evaluated instances of the end-to-end statement in several positions, and
  `C13_counterexample_trailing_space` (F14): an escaped space at the end of a line leaves a stray
  backslash because `pre_parse` strips the space first.
The general end-to-end statement (every escaped line is one paragraph with exactly that text) is
decided by the oracle on the real code in 22 text positions; it is not yet a theorem.
-/
namespace Bluebell

def escapeAll (w : List Char) : List Char := w.flatMap fun c => ['\\', c]

theorem C13_unescape_escapeAll (w : List Char) (h : '\n' ∉ w) : unescapeL (escapeAll w) = w := by
  induction w with
  | nil => rfl
  | cons c cs ih =>
    have hc : c ≠ '\n' := fun e => h (e ▸ List.mem_cons_self ..)
    have hcs : '\n' ∉ cs := fun e => h (List.mem_cons_of_mem _ e)
    simp only [escapeAll, List.flatMap_cons, List.cons_append, List.nil_append]
    rw [unescapeL]
    simp only [true_and, hc, ne_eq, not_false_eq_true, if_true]
    exact congrArg _ (ih hcs)

/-- can this alternative start by consuming a backslash? (conservative: `true` unless it is a negated
class excluding the backslash, or a reference to a rule that is a repetition of such a class) -/
def mayStartWithBackslash (g : Grammar) : PExp → Bool
  | .cls true cs => !cs.contains '\\'
  | .plus (.cls true cs) => !cs.contains '\\'
  | .rx1 true cs => !cs.contains '\\'
  | .ref n => match g.lookup n with
    | some (.plus (.cls true cs)) => !cs.contains '\\'
    | some (.rx1 true cs) => !cs.contains '\\'
    | _ => true
  | _ => true

/-- the alternatives of a rule, looking through a type annotation -/
def alternatives : PExp → List PExp
  | .choice es => es.toList
  | .typed _ e => alternatives e
  | e => [e]

/-- `escape` occurs among the alternatives and nothing before it can eat a backslash -/
def escapeFirst (g : Grammar) (rule : String) : Bool :=
  match g.lookup rule with
  | some e =>
    let alts := alternatives e
    let before := alts.takeWhile (fun a => a != PExp.ref "escape")
    before.length < alts.length && before.all (fun a => !mayStartWithBackslash g a)
  | none => false

instance : BEq PExp := ⟨fun a b => decide (a = b)⟩

theorem C13_escape_tried_first :
    escapeFirst aknSource "inline" = true ∧ escapeFirst aknSource "inline_nested" = true ∧
    escapeFirst aknSource "num_content" = true ∧
    aknSource.lookup "escape" = some (.seq (.cons [] (.lit ['\\']) (.cons [] (.cls true ['\n']) .nil))) := by
  decide +kernel

/-- a run of two-character escape nodes merges into one text item with the escaped characters -/
theorem C13_merge_drops_backslash (fuel : Nat) (w : List Char) (hw : w ≠ []) :
    let inp := (escapeAll w).toArray
    let nodes := (List.range w.length).map fun i => Tree.leaf (2 * i) (2 * i + 2)
    ∃ items, inlineMany inp (fuel + 1) nodes = items ∧ items.length = 1 := by
  intro inp nodes
  refine ⟨_, rfl, ?_⟩
  -- every node is untyped, so the fold never flushes; one text item at the end
  have key : ∀ (l : List Tree) (acc : List Item) (pend : List String), (∀ t ∈ l, kindOf t = "none") →
      (l.foldl (fun (st : List Item × List String) (item : Tree) =>
        if kindOf item = "dict" then (flushText st.2 st.1 ++ [toDict inp fuel item], [])
        else
          let s := item.textOf inp
          let s := if s.toList.head? = some '\\' then String.ofList (s.toList.drop 1) else s
          (st.1, st.2 ++ [s])) (acc, pend)).1 = acc ∧
      (l.foldl (fun (st : List Item × List String) (item : Tree) =>
        if kindOf item = "dict" then (flushText st.2 st.1 ++ [toDict inp fuel item], [])
        else
          let s := item.textOf inp
          let s := if s.toList.head? = some '\\' then String.ofList (s.toList.drop 1) else s
          (st.1, st.2 ++ [s])) (acc, pend)).2.length = pend.length + l.length := by
    intro l
    induction l with
    | nil => intro acc pend _; simp
    | cons t ts ih =>
      intro acc pend h
      have ht : kindOf t = "none" := h t (List.mem_cons_self ..)
      have hne : ¬ (kindOf t = "dict") := by rw [ht]; decide
      simp only [List.foldl_cons, hne, if_false]
      obtain ⟨a, b⟩ := ih acc _ (fun x hx => h x (List.mem_cons_of_mem _ hx))
      refine ⟨a, ?_⟩
      rw [b]; simp; omega
  have hk : ∀ t ∈ nodes, kindOf t = "none" := by
    intro t ht
    obtain ⟨i, _, rfl⟩ := List.mem_map.mp ht
    rfl
  obtain ⟨a, b⟩ := key nodes [] [] hk
  rw [inlineMany]
  simp only
  generalize hf : nodes.foldl _ ([], []) = r at a b
  obtain ⟨acc, pend⟩ := r
  simp only at a b ⊢
  subst a
  have hp : pend ≠ [] := by
    intro e; rw [e] at b; simp [nodes] at b; exact hw (List.length_eq_zero_iff.mp b.symm ▸ rfl)
  unfold flushText
  cases pend with
  | nil => exact absurd rfl hp
  | cons p ps => simp

mutual
def textOfTag (tag : String) : Xml → List String
  | .text _ => []
  | .elem t _ ks => (if t == tag then [iterTextL ks] else []) ++ textOfTagL tag ks
def textOfTagL (tag : String) : List Xml → List String
  | [] => []
  | k :: ks => textOfTag tag k ++ textOfTagL tag ks
end

def textsOf (tag : String) (r : Except Err Xml) : List String :=
  match r with | .ok x => textOfTag tag x | .error _ => ["<error>"]

/-- instances: a fully escaped keyword line / marker soup is one paragraph with exactly that text -/
theorem C13_escaped_line_examples :
    textsOf "p" (convert testUris "" "\\P\\A\\R\\T\\ \\1\\ \\-\\ \\*\\*\\x\\*\\*\\{\\{\\^\\y\\}\\}\n" "statement") = ["PART 1 - **x**{{^y}}"] ∧
    textsOf "num" (convert testUris "" "SEC \\1\\ \\-\\ \\2\n  x\n" "act") = ["1 - 2"] ∧
    textsOf "b" (convert testUris "" "a **\\*\\*\\/\\/** b\n" "statement") = ["**//"] ∧
    textsOf "sup" (convert testUris "" "a {{^\\}\\}\\{\\{}} b\n" "statement") = ["}}{{"] := by
  decide +kernel

/-- F14: an escaped space at the end of the line — the backslash survives. -/
theorem C13_counterexample_trailing_space :
    textsOf "p" (convert testUris "" "\\x\\ \n" "statement") = ["x\\"] := by decide +kernel

/-! ## The grammar-level theorem: for every text, every offset, every escaped string

`AtEsc inp p (c :: w)` says: the text at offset `p` reads `\c\w₁\w₂…` followed by a newline, none of
the escaped characters being a newline. Whatever those characters are — keywords, markers, braces,
backslashes, attribute syntax — rule `line` of the grammar that executes reads the line as exactly
that many escape nodes (`line_of_escapes`: no keyword, marker or attribute rule is ever consulted at
a backslash, and `inline_marker` cannot start at the newline by the first-character analysis of the
regenerated grammar), and `Line.to_dict` turns them into one paragraph whose only child is the text
`c w₁ w₂ …` with every escaping backslash gone. Fuel: for all sufficiently large fuel, which by
`eval_mono` is the meaning of "the result of parsing". -/
theorem C13_escaped_line_is_its_text (inp : Array Char) (p : Nat) (c : Char) (w : List Char)
    (h : AtEsc inp p (c :: w)) :
    ∃ n0, ∀ n, n0 ≤ n → ∃ t, eval aknExec inp n (.ref "line") p = .ok t ∧
      ∀ fuel, toDict inp (fuel + 2) t
        = .node "content" "p" none (some [Item.text (String.ofList (c :: w))]) none none none none none := by
  obtain ⟨n0, h0⟩ := line_of_escapes inp p c w h
  refine ⟨n0, fun n hn => ?_⟩
  obtain ⟨te, stop, ht⟩ := h0 n hn
  exact ⟨_, ht, fun fuel => toDict_line inp fuel p stop te c w h⟩

/-- the hypothesis is satisfiable: a line of escaped keywords and markers in the middle of a text -/
example : AtEsc "x\n\\P\\A\\R\\T\\ \\{\\{\\*\\*\nmore\n".toList.toArray 2 ['P', 'A', 'R', 'T', ' ', '{', '{', '*', '*'] := by
  simp [AtEsc]

/-! ## …and the block-level rules hand such a line to `line`

At a backslash none of the keyword-led block rules (lists, tables, LONGTITLE, FOOTNOTE, QUOTE, BLOCKS,
`P`, nested blocks, hierarchical elements, speech blocks) can start — decided on the regenerated
grammar by the first-character analysis — so each of the four block-level choices evaluates to
whatever `line` evaluates to: the paragraph of `C13_escaped_line_is_its_text`. -/

theorem C13_block_rules_choose_line : blockChoosesLine '\\' = true := by decide +kernel

theorem C13_block_level_reads_escaped_line (inp : Array Char) (p : Nat) (c : Char) (w : List Char)
    (h : AtEsc inp p (c :: w)) :
    ∃ t, (∀ fuel, toDict inp (fuel + 2) t
            = .node "content" "p" none (some [Item.text (String.ofList (c :: w))]) none none none none none) ∧
      ∀ r ∈ blockLevelRules, Lim aknExec inp (.ref r) p (.ok t) := by
  obtain ⟨n0, h0⟩ := line_of_escapes inp p c w h
  obtain ⟨te, stop, ht⟩ := h0 n0 (Nat.le_refl _)
  have hline : Lim aknExec inp (.ref "line") p (.ok _) :=
    ⟨n0, fun n hn => by rw [eval_mono aknExec inp _ p hn (by rw [ht]; trivial), ht]⟩
  exact ⟨_, fun fuel => toDict_line inp fuel p stop te c w h,
    block_rules_follow_line inp p '\\' h.1 C13_block_rules_choose_line _ hline⟩

/-! ## A backslash anywhere in a line of plain text -/

/-- first character of a mixed line: a backslash, or a plain character at which the block-level rules choose `line` -/
def segStartOK : List Seg → Prop
  | .esc _ :: _ => True
  | .run c _ :: _ => c ≠ Char.ofNat 15 ∧ blockChoosesLine c = true
  | [] => False

/-- **A backslash makes the next character literal wherever it stands in a line of plain text.** For every
line made of escapes `\c` (any `c` but a newline — keyword letters, stars, braces, backslashes) and runs of
plain characters in any arrangement, at every offset of every input: all block-level rules of the executing
grammar read the line as one paragraph whose text is the line with exactly the escaping backslashes
removed — every escaped character is there as itself, nothing became markup, no backslash is left. -/
theorem C13_escape_anywhere_in_plain_text (inp : Array Char) (p : Nat) (ss : List Seg)
    (h : AtSegs inp p ss) (hs : segStartOK ss) :
    ∃ t, (∀ fuel, toDict inp (fuel + 2) t
            = .node "content" "p" none (some [Item.text (String.ofList (segsTxt ss))]) none none none none none) ∧
      ∀ rule ∈ blockLevelRules, Lim aknExec inp (.ref rule) p (.ok t) := by
  cases ss with
  | nil => exact absurd hs (by simp [segStartOK])
  | cons s rest =>
    cases s with
    | esc c =>
      obtain ⟨te, stop, hl⟩ := mixed_line p (.esc c :: rest) (by simp) h '\\' h.1 (by decide)
      exact ⟨_, fun fuel => toDict_mixed_line fuel p stop te _ (by simp) h,
        block_rules_follow_line inp p '\\' h.1 C13_block_rules_choose_line _ hl⟩
    | run c r =>
      obtain ⟨te, stop, hl⟩ := mixed_line p (.run c r :: rest) (by simp) h c h.1.1 hs.1
      exact ⟨_, fun fuel => toDict_mixed_line fuel p stop te _ (by simp) h,
        block_rules_follow_line inp p c h.1.1 hs.2 _ hl⟩

/-- the hypotheses are met: `see \*\*this\*\* and \PART` in the middle of a text -/
example : AtSegs "x\nsee \\*\\*this\\*\\* and \\PART\nmore\n".toList.toArray 2
    [.run 's' "ee ".toList, .esc '*', .esc '*', .run 't' "his".toList, .esc '*', .esc '*', .run ' ' "and ".toList, .esc 'P',
     .run 'A' "RT".toList] ∧ blockChoosesLine 's' = true := by
  refine ⟨?_, by decide +kernel⟩
  simp [AtSegs, AtRun]
  decide +kernel

end Bluebell
