import Bluebell.Convert
import Bluebell.Props.C13
import Bluebell.Props.C07
/-!
# C18 — a provision parsed alone equals the provision parsed in context

* `C18_fragment_skips_wrapper` — for a tree whose class is not a document root, `xml_from_dict` adds
  neither the `akomaNtoso` wrapper nor a meta block, and needs no FRBR URI: the result is the
  post-processed element itself.
* `C18_prefix_seeds_ids` — the eId prefix handed to the parser is the prefix the rewriter starts with,
  and the id counters are keyed by it (C08's `C08_stability_step` then gives: a numbered, unclashed
  provision gets the same id alone and in context).
* `C18_examples` — kernel-evaluated: provisions at two depths cut out of a document, parsed alone with
  the enclosing eId as prefix, are equal (`Xml.beq`) to their subtrees in the whole document, including
  unnumbered children counted from 1 under the provision's own id.
The general statement (for every document and every uniquely numbered provision) needs a locality
theorem for the whole rewrite (the counters touched inside a subtree are keyed by ids unique to it);
it is not yet proved and is decided by the oracle on the real code.
-/
namespace Bluebell

mutual
def Xml.beq : Xml → Xml → Bool
  | .text a, .text b => a == b
  | .elem t a ks, .elem t2 a2 ks2 => t == t2 && a == a2 && Xml.beqL ks ks2
  | _, _ => false
def Xml.beqL : List Xml → List Xml → Bool
  | [], [] => true
  | a :: as, b :: bs => Xml.beq a b && Xml.beqL as bs
  | _, _ => false
end

theorem C18_fragment_skips_wrapper (u : Uris) (pfx : String) (item : Item) (st : GenState) (x : Xml) (st' : GenState)
    (h : itemToXml u none 100000 item { ids := {} } = (.ok x, st')) :
    (xmlFromDict u pfx item false st).1 =
      ((resolveDisplaced x >>= normalise).map fun y => titlesX (rewriteEid y pfx {}).1) := by
  unfold xmlFromDict
  simp only [h]
  cases hr : (resolveDisplaced x >>= normalise) with
  | error e => simp [hr, Except.map]
  | ok y => simp [hr, Except.map]

theorem C18_prefix_seeds_ids (tag : String) (attrs : List (String × String)) (kids : List Xml) (pfx : String)
    (hm : tag ≠ "meta") (hid : identifiable tag = true) :
    (((rewriteAll (.elem tag attrs kids) pfx).1.attrs.lookup "eId").getD "") = (({} : IdState).getEid pfx tag (numOf kids)).2 :=
  (C07_presence tag attrs kids pfx {}).2.2 hm hid

mutual
/-- the subtree with a given eId -/
def findEid (eid : String) : Xml → Option Xml
  | .text _ => none
  | .elem t a ks => if a.lookup "eId" = some eid then some (.elem t a ks) else findEidL eid ks
def findEidL (eid : String) : List Xml → Option Xml
  | [] => none
  | k :: ks => match findEid eid k with
    | some x => some x
    | none => findEidL eid ks
end

def sameAsSubtree (whole : Except Err Xml) (eid : String) (frag : Except Err Xml) : Bool :=
  match whole, frag with
  | .ok w, .ok f => match findEid eid w with
    | some s => Xml.beq s f
    | none => false
  | _, _ => false

def c18doc : String :=
  "PART 1 - Intro\n  intro text\n  SEC 1.\n    SUBSEC (a)\n      first\n      ITEMS\n        ITEM (i)\n          x\n    SUBSEC (b)\n      second {{^sup}}\n  SEC 2.\n    other\n"

theorem C18_examples :
    sameAsSubtree (convert testUris "" c18doc "act") "part_1__sec_1"
      (convert testUris "part_1" "SEC 1.\n  SUBSEC (a)\n    first\n    ITEMS\n      ITEM (i)\n        x\n  SUBSEC (b)\n    second {{^sup}}\n" "hier_element") = true ∧
    sameAsSubtree (convert testUris "" c18doc "act") "part_1__sec_1__subsec_a"
      (convert testUris "part_1__sec_1" "SUBSEC (a)\n  first\n  ITEMS\n    ITEM (i)\n      x\n" "hier_element") = true := by
  decide +kernel

end Bluebell
