import Bluebell.Convert
import Bluebell.Lemmas.Post
import Bluebell.Props.C13
/-!
# C14 — footnotes: every reference gets one note and no content vanishes

Model: `resolveDisplaced` (tied to `resolve_displaced_content` through the `convert` stage).
* `C14_no_placeholder_element` — whenever resolution succeeds, no `displaced` element is left.
* `C14_unreferenced_kept` — an unused block becomes a paragraph `FOOTNOTE <marker>` followed, in
  place, by the block's own (recursively processed) children: nothing of it is dropped.
* `C14_missing_content_visible` — a reference with no matching block in any enclosing element gets
  the visible paragraph `(content missing)`.
* `C14_match_is_nearest_first` — the block taken is the first matching one, in document order, of the
  nearest enclosing element that contains one (`List.findSome?` over the ancestors, nearest first).
* `C14_examples` — kernel-evaluated documents: nearest enclosing element wins over an earlier block
  further out; each block is used once; a surplus block stays; a missing one is flagged.
Not yet proved: that no `displaced` *attribute* survives and the one-note-per-reference count for
arbitrary trees (id-based updates); both are checked on the real outputs by the oracle.
-/
namespace Bluebell

theorem C14_no_placeholder_element (x y : Xml) (h : resolveDisplaced x = .ok y) : hasTag "displaced" y = false :=
  resolveDisplaced_no_placeholder x y h

theorem C14_unreferenced_kept (a : List (String × String)) (ks : List Xml) :
    inlineDisplaced (.elem "displaced" a ks) =
      .elem "p" [] [.text (asciiUpper ((a.lookup "name").getD "") ++ " " ++ (a.lookup "marker").getD "")]
        :: (inlineDisplacedL ks).filter Xml.isElem := by
  rw [inlineDisplaced]; simp

theorem C14_missing_content_visible (root ref : Xml) (rid : Nat) (ancestors : List Xml)
    (h1 : findById rid root = some ref) (h2 : ancestorsOf rid root = some ancestors)
    (h3 : ancestors.findSome? (fun p => firstDisplaced rid (ref.attrs.lookup "marker") ((ref.attrs.lookup "displaced").getD "") p) = none) :
    resolveRef root rid =
      .ok (modifyById rid (appendKids [.elem "p" [] [.text "(content missing)"]]) (modifyById rid (popAttr "displaced") root)) := by
  unfold resolveRef
  simp only [h1, h2, h3]

theorem C14_match_is_nearest_first (root ref content : Xml) (rid : Nat) (ancestors : List Xml)
    (h1 : findById rid root = some ref) (h2 : ancestorsOf rid root = some ancestors)
    (h3 : ancestors.findSome? (fun p => firstDisplaced rid (ref.attrs.lookup "marker") ((ref.attrs.lookup "displaced").getD "") p) = some content)
    (h4 : (elemKids content).any (containsId rid) = false) :
    resolveRef root rid =
      .ok (modifyById rid (appendKids (elemKids content))
            (removeById content.nid (modifyById rid (popAttr "displaced") root))) := by
  unfold resolveRef
  simp only [h1, h2, h3, h4]
  simp

/-- text of every authorial note of a converted document, in document order -/
def noteTexts (r : Except Err Xml) : List String := textsOf "authorialNote" r

theorem C14_examples :
    -- nearest enclosing element first: the block inside the section wins over the earlier one outside
    noteTexts (convert testUris "" "FOOTNOTE 1\n  outer\nSEC 1\n  x{{FOOTNOTE 1}}\n  FOOTNOTE 1\n    inner\n" "doc") = ["inner"] ∧
    -- each block used at most once, in document order; the third reference finds nothing
    noteTexts (convert testUris "" "a{{FOOTNOTE 1}} b{{FOOTNOTE 1}} c{{FOOTNOTE 1}}\nFOOTNOTE 1\n  one\nFOOTNOTE 1\n  two\n" "doc")
      = ["one", "two", "(content missing)"] ∧
    -- a surplus block stays in the document as ordinary content
    textsOf "p" (convert testUris "" "x\nFOOTNOTE 9\n  kept\n" "doc") = ["x", "FOOTNOTE 9", "kept"] := by
  decide +kernel

/-! ## A reference inside its own block (finding F23, repaired in 13653fd)

The candidate search skips a block that contains the reference, so moving content into a reference can
never move the reference's own ancestor: resolving a reference cannot fail. -/
mutual
theorem firstDisplaced_clean (rid : Nat) (m : Option String) (n : String) :
    ∀ (x c : Xml), firstDisplaced rid m n x = some c → containsIdL rid c.kids = false
  | .text _, c, h => by simp [firstDisplaced] at h
  | .elem t a ks, c, h => by
    rw [firstDisplaced] at h
    split at h
    · next hc => injection h with h; subst h; simpa [Xml.kids] using hc.2.2.2
    · exact firstDisplacedL_clean rid m n ks c h
theorem firstDisplacedL_clean (rid : Nat) (m : Option String) (n : String) :
    ∀ (l : List Xml) (c : Xml), firstDisplacedL rid m n l = some c → containsIdL rid c.kids = false
  | [], c, h => by simp [firstDisplacedL] at h
  | k :: ks, c, h => by
    rw [firstDisplacedL] at h
    split at h
    · next x hx => injection h with h; subst h; exact firstDisplaced_clean rid m n k x hx
    · exact firstDisplacedL_clean rid m n ks c h
end

theorem containsIdL_filter (rid : Nat) : ∀ (l : List Xml), containsIdL rid l = false →
    (l.filter Xml.isElem).any (containsId rid) = false
  | [], _ => rfl
  | k :: ks, h => by
    simp only [containsIdL, Bool.or_eq_false_iff] at h
    have ih := containsIdL_filter rid ks h.2
    by_cases hk : k.isElem = true
    · simp [List.filter_cons, hk, h.1, ih]
    · simp [List.filter_cons, hk, ih]

/-- resolving one reference always succeeds -/
theorem C14_resolve_ref_total (root : Xml) (rid : Nat) : ∃ r, resolveRef root rid = .ok r := by
  unfold resolveRef
  split
  · next ref ancestors _ _ =>
    simp only
    split
    · next content hfound =>
      obtain ⟨p, _, hp⟩ := List.exists_of_findSome?_eq_some hfound
      have hclean := firstDisplaced_clean rid _ _ p content hp
      have : (elemKids content).any (containsId rid) = false := containsIdL_filter rid _ hclean
      simp [this]
    · exact ⟨_, rfl⟩
  · exact ⟨_, rfl⟩


/-! ## Markers: a reference and a block are normalised by the same function -/

def markerOf (i : Item) : Option String := (i.attribs.getD []).lookup "marker"

/-- **Reference and block markers are trimmed alike.** Whatever the parse tree of a footnote reference or of a
FOOTNOTE block looks like, the marker that ends up in the dict tree is Python's `strip()` of the marker text — the same
function on both sides, so two markers that are equal up to surrounding white space (a no-break space pasted from a word
processor, the CR of a CRLF line ending) are equal in the dict tree, where `resolve_displaced_content` compares them. -/
theorem C14_markers_trimmed_alike (inp : Array Char) (fuel : Nat) (r b : Tree) (st sb : Nat) (lr lb : List (String × Nat))
    (kr kb : List Tree) (p q p' q' : Nat)
    (hr : r = .node p q ["FootnoteRef"] lr kr) (hb : b = .node p' q' ["Footnote"] lb kb)
    (heq : pyStripS ((r.child "marker").textOf inp) = pyStripS ((b.child "marker").textOf inp)) :
    markerOf (toDict inp (fuel + 1) r) = some (pyStripS ((r.child "marker").textOf inp)) ∧
    markerOf (toDict inp (fuel + 1) b) = markerOf (toDict inp (fuel + 1) r) := by
  have t1 : rootTable.lookup "FootnoteRef" = none := by decide +kernel
  have t2 : mainContentTable.lookup "FootnoteRef" = none := by decide +kernel
  have t3 : blockIndentTable.lookup "FootnoteRef" = none := by decide +kernel
  have u1 : rootTable.lookup "Footnote" = none := by decide +kernel
  have u2 : mainContentTable.lookup "Footnote" = none := by decide +kernel
  have u3 : blockIndentTable.lookup "Footnote" = none := by decide +kernel
  subst hr hb
  constructor
  · rw [toDict]
    simp [Tree.lastType, Tree.types, t1, t2, t3, markerOf, Item.attribs, List.lookup]
  · rw [toDict, toDict]
    simp only [Tree.lastType, Tree.types, List.getLast?_singleton, t1, t2, t3, u1, u2, u3]
    simp [markerOf, Item.attribs, List.lookup, heq]

end Bluebell
