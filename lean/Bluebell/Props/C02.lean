import Bluebell.Convert
import Bluebell.Lemmas.Post
import Bluebell.Props.C01
/-!
# C02 — output validates against the AKN 3.0 schema

Validity itself is judged by libxml2 against cobalt's XSD (a parameter; the oracle of the check).
What is proved on the model are the structural facts the schema needs from bluebell:
* `C02_no_placeholder_left` — after footnote resolution no `displaced` element is left;
* `C02_block_nonempty` — a block element (blockList, item, blockContainer, ul …) is never empty;
* `C02_required_containers` — the synthesised required containers are non-empty and a main-content
  container never has an empty child list;
* `C02_hier_content_wrapped` — a hierarchical element without hierarchical children gets exactly
  one `content` wrapper after its num/heading/subheading;
* `C02_keyword_tables` — every hierarchical keyword synonym maps to one of the 27 AKN hierarchical
  element names, every speech-container synonym to an AKN container name.
The full statement is false on the unchanged tree: `C02_counterexample_longtitle` (F4) is one
kernel-evaluated witness; the others (F5–F7, F17, F18, F21, F24–F26) are found and classified by the
check on the real code against the real XSD.
-/
namespace Bluebell

theorem C02_no_placeholder_left (x y : Xml) (h : resolveDisplaced x = .ok y) : hasTag "displaced" y = false :=
  resolveDisplaced_no_placeholder x y h

theorem C02_required_containers :
    (∀ tag ∈ ["body", "judgmentBody", "mainBody", "debateBody"],
      ∃ t n a k ks, makeEmpty tag = .node t n a (some (k :: ks)) none none none none none) ∧
    (∀ (b : Bool) (kids : List Item), (if (wrapChildren b kids).isEmpty then [emptyP] else wrapChildren b kids) ≠ []) := by
  constructor
  · intro tag h
    simp only [List.mem_cons, List.mem_nil_iff, or_false] at h
    rcases h with h | h | h | h <;> subst h <;> simp [makeEmpty]
  · intro b kids
    split
    · simp
    · next h => intro e; rw [e] at h; simp at h

theorem preNHS_none (u : Uris) (parent : Option String) (fuel : Nat) (st : GenState) :
    preNHS u parent (fuel + 2) none none none st = (.ok [], st) := by
  simp [preNHS, optList]

/-- a block item with no num, heading, subheading or children still gets a `<p/>` -/
theorem C02_block_nonempty (u : Uris) (fuel : Nat) (name : String) (st : GenState) :
    (itemToXml u none (fuel + 3) (.node "block" name none (some []) none none none none none) st).1 =
      .ok (.elem name [] [.elem "p" [] []]) := by
  simp [itemToXml, preNHS_none, itemsToXml, mkElem, makerCheck, mergeText]

/-- a hierarchical element whose children are all non-hierarchical: `content` wraps them all -/
theorem C02_hier_content_wrapped (u : Uris) (fuel : Nat) (name : String) (kids : List Item) (st : GenState)
    (h : kids.all (fun k => !checkHier k) = true) (ks : List Xml) (st' : GenState)
    (hk : itemsToXml u none (fuel + 2) kids st = (.ok ks, st')) (hs : makerCheck [] ks = none) :
    (itemToXml u none (fuel + 3) (.node "hier" name none (some kids) none none none none none) st).1 =
      mkElem name [] [.elem "content" [] (mergeText ks)] := by
  simp only [itemToXml, Option.getD, h, if_true, hk, preNHS_none, mkElem]
  simp only [Except.bind, hs, Except.map, List.nil_append]

def aknHierNames : List String :=
  ["alinea", "article", "book", "chapter", "clause", "division", "indent", "level", "list", "paragraph", "part",
   "point", "proviso", "rule", "section", "subchapter", "subclause", "subdivision", "sublist", "subparagraph", "subpart",
   "subrule", "subsection", "subtitle", "title", "tome", "transitional"]

def aknSpeechContainers : List String :=
  ["address", "adjournment", "administrationOfOath", "communication", "debateSection", "declarationOfVote",
   "ministerialStatements", "nationalInterest", "noticesOfMotion", "oralStatements", "papers", "personalStatements",
   "petitions", "pointOfOrder", "prayers", "proceduralMotions", "questions", "resolutions", "rollCall", "writtenStatements"]

def aknSpeechGroups : List String := ["speechGroup", "speech", "question", "answer"]

theorem C02_keyword_tables :
    hierSynonyms.all (fun p => aknHierNames.contains p.2) = true ∧
    speechSynonyms.all (fun p => aknSpeechContainers.contains p.2 || aknSpeechGroups.contains p.2) = true := by decide +kernel

mutual
def hasChildPair (parent child : String) : Xml → Bool
  | .text _ => false
  | .elem t _ ks => (t == parent && ks.any (fun k => k.isElem && k.tag == child)) || hasChildPairL parent child ks
def hasChildPairL (parent child : String) : List Xml → Bool
  | [] => false
  | k :: ks => hasChildPair parent child k || hasChildPairL parent child ks
end

/-- F4: `LONGTITLE foo` in a body puts `longTitle` inside `content`, which the schema forbids. -/
theorem C02_counterexample_longtitle :
    (match convert testUris "" "LONGTITLE foo\n" "act" with
     | .ok x => hasChildPair "content" "longTitle" x
     | .error _ => false) = true := by decide +kernel

end Bluebell
