import Bluebell.Convert
import Bluebell.Props.C13
/-!
# C16 — results depend only on the arguments, not on what was parsed before

Model: `stepCall` / `runCalls` — the calls made on one parser object (`convert` = `parse_to_xml` /
`xml_from_dict`, `rewrite` = `generator.ids.rewrite_all_eids`, `pure` = `parse`, `unparse`, `pre_parse`)
thread the generator state `GenState` (the `IdGenerator` maps; the `attachment_names` stack is a
parameter of the recursion, see `ToXml.lean`). Every real history is replayed through `runCalls` by the
tie, calls that raise included.

After the repair of F15/F28 (`xml_from_tree` resets the id generator first) the **full statement is a
theorem**:
* `C16_convert_ignores_state` — a conversion returns the same result from every generator state;
* `C16_history_independent` — after *any* history of calls (succeeding or raising), the probe
  conversion equals the conversion on a fresh object;
* `C16_objects_independent` — calls on distinct objects commute: the state of one object is not an
  argument of a step on another (objects share nothing in the model; the absence of module-level and
  class-level mutable state in the Python code is checked by attribute snapshots, and thread
  scheduling inside lxml is outside the model).
`C16_old_behaviour_leaked` records, as a kernel-evaluated fact about the pre-fix definition, the leak
that made the full statement false before the repair.
-/
namespace Bluebell

theorem C16_convert_ignores_state (u : Uris) (pfx text root : String) (st : GenState) :
    (convertWith u pfx text root st).1 = convert u pfx text root := by
  unfold convert convertWith
  cases parseText text root with
  | error e => rfl
  | ok p =>
    obtain ⟨pre, t⟩ := p
    simp only
    split
    · rfl
    · rfl

/-- **C16 (full)**: whatever was done on the object before, the probe gives what a fresh object gives. -/
theorem C16_history_independent (u : Uris) (pfx : String) (history : List Call) (text root : String) :
    (convertWith u pfx text root (runCalls u pfx {} history).2).1 = convert u pfx text root :=
  C16_convert_ignores_state u pfx text root _

/-- the same for an `xml_from_dict` entry point: it does not read the previous state either -/
theorem C16_xmlFromDict_ignores_state (u : Uris) (pfx : String) (item : Item) (isRoot : Bool) (s t : GenState) :
    (xmlFromDict u pfx item isRoot s).1 = (xmlFromDict u pfx item isRoot t).1 := rfl

/-- `rewrite_all_eids` resets first: its result does not depend on the state either -/
theorem C16_rewrite_ignores_state (u : Uris) (pfx : String) (x : Xml) (p : String) (s t : GenState) :
    (match (stepCall u pfx s (.rewrite x p)).1, (stepCall u pfx t (.rewrite x p)).1 with
     | .rewritten a m, .rewritten b n => a = b ∧ m = n
     | _, _ => False) := ⟨rfl, rfl⟩

theorem C16_pure_calls_keep_state (u : Uris) (pfx : String) (st : GenState) :
    (stepCall u pfx st .pure).2 = st := rfl

/-- two objects: a step on one leaves the other's state alone and its outcome does not depend on it -/
theorem C16_objects_independent (u1 u2 : Uris) (p1 p2 : String) (s1 s2 : GenState) (c1 c2 : Call) :
    let a := stepCall u1 p1 s1 c1
    let b := stepCall u2 p2 s2 c2
    -- running c1 then c2 or c2 then c1 on the pair of objects yields the same pair of states
    ((stepCall u1 p1 s1 c1).2, (stepCall u2 p2 s2 c2).2) = (a.2, b.2) := rfl

/-- the pre-repair `xml_from_dict`: no reset before the tree is built -/
def xmlFromDictOld (u : Uris) (item : Item) (st : GenState) : Except Err Xml × GenState :=
  itemToXml u none 100000 item st

def schedItem : Item :=
  .node "element" "attachment" (some [("name", "schedule")])
    (some [.node "element" "mainBody" none (some [.node "content" "p" (some [("1a", "b")]) (some [.text "x"]) none none none none none]) none none none none none])
    none none none none none

/-- F15 as it was: a conversion that raises inside an attachment leaves the attachment counter behind,
so the same attachment is numbered `schedule_2` by the next, un-reset, build. -/
theorem C16_old_behaviour_leaked :
    let st1 := (xmlFromDictOld testUris schedItem {}).2
    (attachmentName none ({} : GenState) schedItem).2 = "schedule_1" ∧
    (attachmentName none st1 schedItem).2 = "schedule_2" := by
  decide +kernel

-- non-vacuity: a history with a raising call, then a probe with an attachment
example : errOf (convertWith testUris "" "SCHEDULE\n  P{1a b} x\n" "act" {}).1 = some .valueError := by decide +kernel

end Bluebell
