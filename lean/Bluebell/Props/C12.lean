import Bluebell.Lemmas.Depth
import Bluebell.Lemmas.Trail
import Bluebell.Lemmas.BlankLines
import Bluebell.Convert
/-!
# C12 — nesting follows indentation order; layout noise is irrelevant

`handleIndent lvl st` is the model of `handle_indent` for a line with `lvl` leading spaces and
indentation stack `st` (top first); its `Prefix` is what is emitted before the line: nothing,
one INDENT, or `k` DEDENTs (`delta` = change of nesting depth).

Full statement (`C12_full`): for consecutive non-blank lines, more indentation ⇒ depth + 1,
equal ⇒ same depth, less ⇒ not deeper. It is **false** for the unchanged code at two corners —
see the two counterexample theorems — because the comparison is against the *top of the stack*,
which is not always the previous line's indentation:
* F13: the first line's own indentation is discarded by `strip()`;
* F20: a dedent over several levels that lands strictly between two open levels.
What is proved for every text is the statement relative to the stack top (`C12_depth_chain`), plus
`C12_top_is_indent`: the top *is* the previous line's indentation whenever that line was indented
more than / equal to the top, repaired a single over-indent, or dedented onto an open level.
Layout: scaling all indentation, writing a tab for `indent_size` spaces and whitespace around the
text leave the result unchanged (`C12_scale_invariant`, `C12_tab_is_spaces`, `C12_blank_around`);
trailing spaces at the end of any line are invisible to everything after `pre_parse`
(`C12_trailing_spaces`, `C12_trailing_spaces_same_document`: `Pad a b` is "b is a with blanks inserted
before newlines or at the end"); extra blank lines between lines leave the indentation stack, every marker and every non-empty line of the
pre-parsed form where they were (`C12_blank_lines_between`, `C12_newlines_are_blank_lines`); that the grammar then reads
the same document from it is covered by the metamorphic oracle, not yet by a theorem.
-/
namespace Bluebell

/-- C12 at full strength over the model's trace (indent as seen by the code, depth, stack). -/
def C12_full : Prop :=
  ∀ (n : Nat) (text : List Char),
    ∀ a b rest pre, traceLines (normLines n text) [-1] (-1) = pre ++ a :: b :: rest →
      (b.1 > a.1 → b.2.1 = a.2.1 + 1) ∧ (b.1 = a.1 → b.2.1 = a.2.1) ∧ (b.1 < a.1 → b.2.1 ≤ a.2.1)

theorem C12_more_indented_opens_one (lvl t : Int) (r : List Int) (h : lvl > t) :
    handleIndent lvl (t :: r) = (lvl :: t :: r, .indent) := handleIndent_more lvl t r h

theorem C12_same_indent_same_block (t : Int) (r : List Int) :
    handleIndent t (t :: r) = (t :: r, .same) := handleIndent_same t r

theorem C12_less_indented_not_deeper (lvl t : Int) (r : List Int) (h : lvl < t) :
    (handleIndent lvl (t :: r)).2.delta ≤ 0 ∧ (handleIndent lvl (t :: r)).2 ≠ .indent :=
  ⟨handleIndent_less_delta lvl t r h, handleIndent_less_not_indent lvl t r h⟩

/-- For every text: each line's depth relates to the previous depth as its indentation relates to
the top of the stack left by the previous line. -/
theorem C12_depth_chain (n : Nat) (text : List Char) :
    chainFrom [-1] (-1) (traceLines (normLines n text) [-1] (-1)) :=
  trace_chain _ _ _

theorem C12_top_is_indent (lvl t : Int) (r : List Int) (hp : (t :: r).Pairwise (· > ·))
    (h : lvl ≥ t ∨ lvl ∈ r ∨ (∃ t2 r2, r = t2 :: r2 ∧ lvl > t2)) :
    (handleIndent lvl (t :: r)).1.head? = some lvl := handleIndent_top lvl t r hp h

/-- Consistently indented text (indentation a multiple of `n`, never more than one level up at a
time): the depth of every line is its level. -/
theorem C12_consistent_depth_eq_level (n : Nat) (hn : 1 ≤ n) (items : List (Nat × List Char)) (cur : Nat)
    (hw : Walk cur (items.map (·.1))) (hb : ∀ it ∈ items, it.2 ≠ [] ∧ it.2.head? ≠ some ' ') :
    (traceLines (items.map fun it => List.replicate (n * it.1) ' ' ++ it.2) (levelStack n cur) cur).map (·.2.1)
      = items.map fun it => (it.1 : Int) :=
  consistent_depth n hn items cur hw hb

/-- Multiplying all indentation by a constant `c ≥ 1` gives the same marker/line tokens. -/
theorem C12_scale_invariant (c : Nat) (hc : 1 ≤ c) (ls : List (List Char)) (st : List Int) :
    (passT (ls.map (scaleLine c)) (st.map (scaleLevel c))).1 = (passT ls st).1 := by
  rw [passT_scale c hc]

/-- Writing a tab for `indent_size` spaces, anywhere, does not change the result. -/
theorem C12_tab_is_spaces (n : Nat) (a b : List Char) :
    preParse n (a ++ '\t' :: b) = preParse n (a ++ List.replicate n ' ' ++ b) := by
  unfold preParse
  rw [detab_tab]

/-- Blank lines / whitespace before and after the text do not change the result. -/
theorem C12_blank_around (n : Nat) (a y b : List Char)
    (ha : ∀ c ∈ a, isPySpace c = true) (hb : ∀ c ∈ b, isPySpace c = true) :
    preParse n (a ++ y ++ b) = preParse n y := by
  unfold preParse
  rw [detab_append, detab_append,
    pyStrip_around _ _ _ (detab_all_space n a ha) (detab_all_space n b hb)]

/-- F13: `" a\n b"` — both lines indented by one space, yet the second is nested. -/
theorem C12_counterexample_first_line :
    preParse 2 " a\n b\n".toList = "a\n\x0e\nb\n\x0f\n".toList := by decide +kernel

/-- F20: indentation 0,4,8,2,2 — the last two lines are equally indented, yet the last one is nested
one deeper; so the full statement is false for the code as it is. -/
theorem C12_counterexample_between_levels : ¬ C12_full := by
  intro h
  have := h 2 "a\n    b\n        c\n  d\n  e\n".toList (2, 0, [0, -1]) (2, 1, [2, 0, -1]) []
    [(0, 0, [0, -1]), (4, 1, [4, 0, -1]), (8, 2, [8, 4, 0, -1])] (by decide +kernel)
  have := this.2.1 rfl
  simp at this

/-- **Trailing spaces are irrelevant**: a text and the same text with any number of blanks added at the
end of any of its lines have the same pre-parsed form, for every text and every indent size. -/
theorem C12_trailing_spaces (n : Nat) (a b : List Char) (h : Pad a b) : preParse n b = preParse n a :=
  pad_preParse n h

/-- … hence the same document (or the same error), whatever the root, URIs, prefix and generator state. -/
theorem C12_trailing_spaces_same_document (u : Uris) (pfx root : String) (st : GenState) (a b : List Char) (h : Pad a b) :
    convertWith u pfx (String.ofList b) root st = convertWith u pfx (String.ofList a) root st := by
  unfold convertWith parseText
  simp only [String.toList_ofList]
  rw [pad_preParse indentSizeDefault h]

-- the relation is inhabited by the expected pairs
example : Pad "a\n  b\nc".toList "a  \n  b \nc   ".toList :=
  .cons 'a' (.nl 2 (.cons ' ' (.cons ' ' (.cons 'b' (.nl 1 (.cons 'c' (.done 3)))))))
example : preParse 2 "a  \n  b \nc   ".toList = preParse 2 "a\n  b\nc".toList := by decide +kernel

-- non-vacuity of `C12_top_is_indent` and the depth clauses on a concrete stack
example : (handleIndent 4 [8, 4, 0, -1]).1.head? = some 4 :=
  C12_top_is_indent 4 8 [4, 0, -1] (by decide) (Or.inr (Or.inl (by decide)))
example : (handleIndent 2 [8, 4, 0, -1]) = ([0, -1], .dedent 2) := by decide

/-- **Extra blank lines between lines**: `k` newline characters written after a newline are `k` empty lines
in the list `pre_parse` works on, and nothing else changes in that list … -/
theorem C12_newlines_are_blank_lines (k : Nat) (a b : List Char) :
    splitLines (a ++ '\n' :: (List.replicate k '\n' ++ b)) = splitLines a ++ List.replicate k [] ++ splitLines b :=
  splitLines_insert_newlines k a b

/-- … and `k` empty lines anywhere in the list change neither the indentation stack left behind nor the
sequence of markers and non-empty lines of the result (for every list of lines and every stack): the
pre-parsed forms differ by empty lines only. -/
theorem C12_blank_lines_between (k : Nat) (a b : List (List Char)) (st : List Int) :
    visible (passT (a ++ List.replicate k [] ++ b) st).1 = visible (passT (a ++ b) st).1 ∧
    (passT (a ++ List.replicate k [] ++ b) st).2 = (passT (a ++ b) st).2 :=
  passT_insert_blanks k a b st

/-- The two combined, on the text the indentation pass works on (after tab expansion, `strip()` and the removal of
trailing spaces): writing `k` extra newlines after any newline of the text changes neither the stack nor the
markers and non-empty lines of the pre-parsed form. -/
theorem C12_extra_newlines_between (k : Nat) (a b : List Char) (st : List Int) :
    visible (passT (linesOf (a ++ '\n' :: (List.replicate k '\n' ++ b))) st).1 = visible (passT (linesOf (a ++ '\n' :: b)) st).1 ∧
    (passT (linesOf (a ++ '\n' :: (List.replicate k '\n' ++ b))) st).2 = (passT (linesOf (a ++ '\n' :: b)) st).2 :=
  passT_text_insert_newlines k a b st

-- non-vacuity: a nested block split by two blank lines
example : visible (passT ["a".toList, [], [], "  b".toList, "c".toList] [-1]).1
    = [.ind, .line "a".toList, .ind, .line "b".toList, .ded, .line "c".toList] := by decide +kernel

end Bluebell
