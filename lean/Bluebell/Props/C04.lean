import Bluebell.Props.C06
import Bluebell.Props.C03
/-!
# C04 — documented markup yields the documented element tree

Finite-table theorems over data regenerated from the repository (grammar, types.py):
* `C04_hier_keyword_table` — the 27 hierarchical keywords and 7 synonyms of the grammar map, through
  lower-casing and the synonym table of types.py, to exactly the prescribed AKN element names;
* `C04_speech_keyword_table` — the 20 speech-container keywords, 4 speech-group keywords and 3 speech
  block keywords map to their camel-case AKN names;
* `C04_attachment_keywords` — the attachment keywords are ATTACHMENT, APPENDIX, SCHEDULE, ANNEXURE;
* `C04_inline_defaults`, `C04_table_cells` — inline element names and default attributes, TH/TC.
Kernel-evaluated instances:
* `C04_heading_split` — the five documented header forms (`num - heading`, `- heading`, `num`, `num -`,
  no header) and an escaped dash in a num;
* `C04_examples` — a document using hierarchy with intro / hcontainer / wrapUp grouping, lists, a table,
  inline forms with attributes and class syntax: the body equals the prescribed tree.
Grammar-level, for every text and offset (the first fragment of the structural induction):
* `C04_plain_line_is_a_p`, `C04_escaped_line_is_a_p` — a line of plain text, and a line written with every
  character escaped, are read by every block-level rule as the dict item of a paragraph holding exactly that
  text, and the XML generator turns that item into `<p>text</p>` (`C04_p_item_to_xml`).
The statement for every abstract document is decided on the real code by the specification oracle
(harness/absdoc.py: independent printer + prescribed tree, whole vocabulary, seven roots); the structural
induction over abstract documents is not yet a theorem.
-/
namespace Bluebell

def specHier : List (String × String) :=
  [("ALINEA", "alinea"), ("ARTICLE", "article"), ("BOOK", "book"), ("CHAPTER", "chapter"), ("CLAUSE", "clause"), ("DIVISION", "division"),
   ("INDENT", "indent"), ("LEVEL", "level"), ("LIST", "list"), ("PARAGRAPH", "paragraph"), ("PART", "part"), ("POINT", "point"),
   ("PROVISO", "proviso"), ("RULE", "rule"), ("SECTION", "section"), ("SUBCHAPTER", "subchapter"), ("SUBCLAUSE", "subclause"),
   ("SUBDIVISION", "subdivision"), ("SUBLIST", "sublist"), ("SUBPARAGRAPH", "subparagraph"), ("SUBPART", "subpart"), ("SUBRULE", "subrule"),
   ("SUBSECTION", "subsection"), ("SUBTITLE", "subtitle"), ("TITLE", "title"), ("TOME", "tome"), ("TRANSITIONAL", "transitional"),
   ("ART", "article"), ("CHAP", "chapter"), ("PARA", "paragraph"), ("SEC", "section"), ("SUBCHAP", "subchapter"), ("SUBPARA", "subparagraph"),
   ("SUBSEC", "subsection")]

def elementFor (syn : List (String × String)) (kw : String) : String := (syn.lookup (asciiLower kw)).getD (asciiLower kw)

theorem C04_hier_keyword_table :
    (ruleLits aknSource "hier_element_name").map (fun kw => (kw, elementFor hierSynonyms kw)) = specHier := by
  decide +kernel

def specSpeech : List (String × String) :=
  [("ADDRESS", "address"), ("ADJOURNMENT", "adjournment"), ("ADMINISTRATIONOFOATH", "administrationOfOath"), ("COMMUNICATION", "communication"),
   ("DEBATESECTION", "debateSection"), ("DECLARATIONOFVOTE", "declarationOfVote"), ("MINISTERIALSTATEMENTS", "ministerialStatements"),
   ("NATIONALINTEREST", "nationalInterest"), ("NOTICESOFMOTION", "noticesOfMotion"), ("ORALSTATEMENTS", "oralStatements"), ("PAPERS", "papers"),
   ("PERSONALSTATEMENTS", "personalStatements"), ("PETITIONS", "petitions"), ("POINTOFORDER", "pointOfOrder"), ("PRAYERS", "prayers"),
   ("PROCEDURALMOTIONS", "proceduralMotions"), ("QUESTIONS", "questions"), ("RESOLUTIONS", "resolutions"), ("ROLLCALL", "rollCall"),
   ("WRITTENSTATEMENTS", "writtenStatements")]

theorem C04_speech_keyword_table :
    (ruleLits aknSource "speech_container_name").map (fun kw => (kw, elementFor speechSynonyms kw)) = specSpeech ∧
    (ruleLits aknSource "speech_group_name").map (fun kw => (kw, elementFor speechGroupSynonyms kw)) =
      [("SPEECHGROUP", "speechGroup"), ("SPEECH", "speech"), ("QUESTION", "question"), ("ANSWER", "answer")] ∧
    (ruleLits aknSource "speech_block_name").map asciiLower = ["scene", "narrative", "summary"] := by
  decide +kernel

theorem C04_attachment_keywords :
    ruleLits aknSource "attachment_marker" = ["ATTACHMENT", "APPENDIX", "SCHEDULE", "ANNEXURE"] := by decide +kernel

theorem C04_inline_defaults :
    inlineTable = [("Bold", "b", []), ("Italics", "i", []), ("Ref", "ref", []), ("Remark", "remark", [("status", "editorial")]),
                   ("Sub", "sub", []), ("Sup", "sup", []), ("Underline", "u", [])] ∧
    stdInlineDefaults = [("abbr", [("title", "")]), ("term", [("refersTo", "")]), ("inline", [("name", "inline")])] ∧
    ruleLits aknSource "standard_inline_marker" = ["abbr", "def", "em", "inline", "term", "-", "+"] := by decide +kernel

theorem C04_table_cells : tableCellNames = [("TH", "th"), ("TC", "td")] := by decide +kernel

/-- body of a converted document with eIds dropped (`none` on error) -/
def bodyOf (r : Except Err Xml) : Option Xml :=
  match r with
  | .ok (.elem "akomaNtoso" _ [.elem _ _ (_ :: body :: _)]) => some (dropEids body)
  | _ => none

def eqBody (r : Except Err Xml) (x : Xml) : Bool := match bodyOf r with | some b => Xml.beq b x | none => false

theorem C04_heading_split :
    eqBody (convert testUris "" "SEC 1 - Heading\nSEC - Only heading\nSEC 2\nSEC 3 -\nSEC\nSEC 1\\-2 - x\n" "act")
      (.elem "body" [] [
        .elem "section" [] [.elem "num" [] [.text "1"], .elem "heading" [] [.text "Heading"]],
        .elem "section" [] [.elem "heading" [] [.text "Only heading"]],
        .elem "section" [] [.elem "num" [] [.text "2"]],
        .elem "section" [] [.elem "num" [] [.text "3"]],
        .elem "section" [] [],
        .elem "section" [] [.elem "num" [] [.text "1-2"], .elem "heading" [] [.text "x"]]]) = true := by
  decide +kernel

theorem C04_examples :
    eqBody (convert testUris "" "PART.a.b{status editorial} 1 - The Part\n  SUBHEADING Sub\n  intro text\n  SEC 1.\n    {{term{refersTo #t} Term}} and {{abbr{title Laws} LA}} {{em e}} {{+i}}{{-d}}\n  between\n  CHAP 2\n    ITEMS\n      lead\n      ITEM (a) - ih\n        x\n      tail\n  CROSSHEADING ch\n  TABLE\n    TR\n      TH{colspan 2}\n        h\n      TC\n        c\n" "act")
      (.elem "body" [] [
        .elem "part" [("status", "editorial"), ("class", "a b")] [
          .elem "num" [] [.text "1"], .elem "heading" [] [.text "The Part"], .elem "subheading" [] [.text "Sub"],
          .elem "intro" [] [.elem "p" [] [.text "intro text"]],
          .elem "section" [] [.elem "num" [] [.text "1."], .elem "content" [] [.elem "p" [] [
            .elem "term" [("refersTo", "#t")] [.text "Term"], .text " and ", .elem "abbr" [("title", "Laws")] [.text "LA"], .text " ",
            .elem "inline" [("name", "em")] [.text "e"], .text " ", .elem "ins" [] [.text "i"], .elem "del" [] [.text "d"]]]],
          .elem "hcontainer" [("name", "hcontainer")] [.elem "content" [] [.elem "p" [] [.text "between"]]],
          .elem "chapter" [] [.elem "num" [] [.text "2"], .elem "content" [] [.elem "blockList" [] [
            .elem "listIntroduction" [] [.text "lead"],
            .elem "item" [] [.elem "num" [] [.text "(a)"], .elem "heading" [] [.text "ih"], .elem "p" [] [.text "x"]],
            .elem "listWrapUp" [] [.text "tail"]]]],
          .elem "crossHeading" [] [.text "ch"],
          .elem "wrapUp" [] [.elem "table" [] [.elem "tr" [] [
            .elem "th" [("colspan", "2")] [.elem "p" [] [.text "h"]], .elem "td" [] [.elem "p" [] [.text "c"]]]]]]]) = true := by
  decide +kernel

/-! ## The first fragment at the grammar level: paragraphs -/

/-- the dict item of a paragraph becomes the element `<p>text</p>` whenever the text is XML-compatible -/
theorem C04_p_item_to_xml (u : Uris) (parent : Option String) (fuel : Nat) (s : String) (st : GenState)
    (hs : xmlTextOk s = true) (hne : s ≠ "") :
    (itemToXml u parent (fuel + 3) (.node "content" "p" none (some [Item.text s]) none none none none none) st).1
      = .ok (.elem "p" [] [.text s]) := by
  simp [itemToXml, itemsToXml, mkElem, makerCheck, mergeText, hs, Except.bind, hne]

theorem C04_plain_line_is_a_p (inp : Array Char) (p : Nat) (c : Char) (r : List Char)
    (h : AtPlain inp p (c :: r)) (hc : c ≠ Char.ofNat 15) (hb : blockChoosesLine c = true) :
    ∃ t, (∀ fuel, toDict inp (fuel + 2) t
            = .node "content" "p" none (some [Item.text (String.ofList (c :: r))]) none none none none none) ∧
      ∀ rule ∈ blockLevelRules, Lim aknExec inp (.ref rule) p (.ok t) :=
  C03_plain_line_is_its_text inp p c r h hc hb

theorem C04_escaped_line_is_a_p (inp : Array Char) (p : Nat) (c : Char) (w : List Char) (h : AtEsc inp p (c :: w)) :
    ∃ t, (∀ fuel, toDict inp (fuel + 2) t
            = .node "content" "p" none (some [Item.text (String.ofList (c :: w))]) none none none none none) ∧
      ∀ r ∈ blockLevelRules, Lim aknExec inp (.ref r) p (.ok t) :=
  C13_block_level_reads_escaped_line inp p c w h

end Bluebell
