import Bluebell.Lemmas.EidInv
/-!
# C09 — rewriting eIds is idempotent, history-free and touches nothing else

All statements are for every tree, every prefix and every pre-existing eIds.
`stripIds x` is `x` with the eId attribute of every identifiable element outside meta erased;
`assignedIds x` lists those eIds in document order.

* `C09_only_eids_change` — the rewrite changes nothing but eId attributes of identifiable elements
  outside meta (text, other attributes, exempt elements and everything inside meta are untouched).
* `C09_history_free` — the ids assigned are the ids the tree with all such eIds erased would get:
  they do not depend on what was there before.
* `C09_idempotent` / `C09_second_run_empty_mapping` — a second run returns the same tree and an
  empty mapping. Since `post_process` ends with this very call, a document fresh from the parser is
  a fixed point (that `post_process` does end with it is the parser-output stage of the tie).
* `C09_mapping_never_identity` — the mapping never sends an id to itself; `C09_mapping_records_change`
  — a changed, non-empty old id that is not yet a key is recorded with the new id (first writer wins).
* `C09_reset_makes_object_reuse_safe` — `rewrite_all_eids` starts by resetting counters, issued ids
  and mappings, so its result is independent of the generator's previous state.
-/
namespace Bluebell

theorem C09_only_eids_change (x : Xml) (pfx : String) : stripIds (rewriteAll x pfx).1 = stripIds x :=
  rewriteEid_stripIds x pfx {}

theorem C09_history_free (x : Xml) (pfx : String) :
    assignedIds (rewriteAll x pfx).1 = assignedIds (rewriteAll (stripIds x) pfx).1 :=
  (rewriteEid_history_free x pfx {} {} rfl rfl).1

/-- two trees that differ only in pre-existing eIds get the same ids -/
theorem C09_history_free_pair (x y : Xml) (pfx : String) (h : stripIds x = stripIds y) :
    assignedIds (rewriteAll x pfx).1 = assignedIds (rewriteAll y pfx).1 := by
  rw [C09_history_free x, C09_history_free y, h]

theorem C09_idempotent (x : Xml) (pfx : String) :
    (rewriteAll (rewriteAll x pfx).1 pfx).1 = (rewriteAll x pfx).1 :=
  (rewriteEid_idem x pfx {} {} rfl rfl).1

theorem C09_second_run_empty_mapping (x : Xml) (pfx : String) :
    (rewriteAll (rewriteAll x pfx).1 pfx).2 = [] :=
  (rewriteEid_idem x pfx {} {} rfl rfl).2.1

theorem C09_mapping_never_identity (x : Xml) (pfx : String) :
    ∀ p ∈ (rewriteAll x pfx).2, p.1 ≠ p.2 := by
  intro p hp
  rcases rewriteEid_mappings x pfx {} p hp with h | h
  · cases h
  · exact h

/-- a changed, non-empty old id that is not yet a key is recorded against the new id -/
theorem C09_mapping_records_change (m : List (String × String)) (old new : String) (h : m.lookup old = none) :
    (addMapping m old new).lookup old = some new := by
  unfold addMapping
  simp only [h, Option.isSome_none, Bool.false_eq_true, if_false]
  induction m with
  | nil => simp [List.lookup]
  | cons p m ih =>
    obtain ⟨k, v⟩ := p
    by_cases hk : old = k
    · subst hk; simp [List.lookup] at h
    · have hb : (old == k) = false := by simpa using hk
      simp only [List.lookup, hb] at h
      simp only [List.cons_append, List.lookup, hb]
      exact ih h

/-- first writer wins: an existing key is never overwritten -/
theorem C09_mapping_first_writer_wins (m : List (String × String)) (old new v : String) (h : m.lookup old = some v) :
    addMapping m old new = m := by
  unfold addMapping; simp [h]

/-- `rewrite_all_eids` on a generator in state `s`: reset, then rewrite -/
def rewriteAllOn (_s : IdState) (x : Xml) (pfx : String) : Xml × List (String × String) :=
  let r := rewriteEid x pfx ({} : IdState)
  (r.1, r.2.mappings)

theorem C09_reset_makes_object_reuse_safe (s t : IdState) (x : Xml) (pfx : String) :
    rewriteAllOn s x pfx = rewriteAllOn t x pfx ∧ rewriteAllOn s x pfx = rewriteAll x pfx := ⟨rfl, rfl⟩

-- non-vacuity: wrong, duplicated and missing eIds; the first run maps, the second does not
example : (rewriteAll (.elem "body" [] [.elem "section" [("eId", "x")] [.elem "num" [] [.text "1."]],
    .elem "section" [("eId", "x")] [.elem "num" [] [.text "2."]], .elem "p" [] []]) "").2 = [("x", "sec_1")] := by
  decide +kernel

end Bluebell
