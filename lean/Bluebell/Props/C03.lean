import Bluebell.Convert
import Bluebell.Lemmas.EidInv
import Bluebell.Props.C13
import Bluebell.Lemmas.ToXmlText
import Bluebell.Lemmas.PlainLine
import Bluebell.Lemmas.BlockLine
/-!
# C03 — no text is lost, duplicated or invented on the way to XML

`iterText x` is the concatenation of all text nodes of `x` in document order (lxml's `itertext`).
Proved for every dict tree: `C03_xml_building_keeps_text` — whenever the XML generator succeeds on an item
(any type, any nesting, any attachment context, any generator state) the in-order text of the element
it returns is exactly the text the item carries (`itemText`: num, heading, subheading, `from`, children,
in the order they are written).
Proved for every tree (the stages after XML building):
* `C03_merge_keeps_text` — merging adjacent text children (what the element maker does) keeps the text;
* `C03_normalise_keeps_text` — `normalise` removes only elements without child nodes: the text is unchanged;
* `C03_unreferenced_block_keeps_text` — turning unused footnote blocks into paragraphs keeps the text of
  every element child and adds exactly the marker line `FOOTNOTE <marker>`;
* `C03_eids_titles_keep_text` — eId generation and attachment titles change no text node.
`C03_examples` are kernel-evaluated end-to-end instances (text, num, heading, attribute value,
footnote moved to its reference). The end-to-end statement for every input (payload of the parse =
texts of the output) needs one lemma per `to_dict` and is not yet proved; it is decided by the word
oracle on the real code.
-/
namespace Bluebell

theorem iterTextL_append (a b : List Xml) : iterTextL (a ++ b) = iterTextL a ++ iterTextL b := by
  induction a with
  | nil => simp [iterTextL]
  | cons x xs ih => simp [iterTextL, ih, String.append_assoc]

theorem C03_merge_keeps_text : ∀ (ks : List Xml), iterTextL (mergeText ks) = iterTextL ks
  | [] => rfl
  | .elem t a k :: rest => by simp [mergeText, iterTextL, C03_merge_keeps_text rest]
  | .text s :: rest => by
    have ih := C03_merge_keeps_text rest
    rw [mergeText]
    split
    · next b rest' h =>
      rw [h] at ih
      simp only [iterTextL, iterText] at ih ⊢
      rw [← ih, String.append_assoc]
    · next h =>
      split
      · next he => subst he; simp [iterTextL, iterText, ih]
      · simp [iterTextL, iterText, ih]

mutual
theorem normaliseX_text : ∀ (x : Xml), iterText (normaliseX x) = iterText x
  | .text s => by simp [normaliseX]
  | .elem t a ks => by simp [normaliseX, iterText, normaliseL_text ks]
theorem normaliseL_text : ∀ (ks : List Xml), iterTextL (normaliseL ks) = iterTextL ks
  | [] => by simp [normaliseL]
  | k :: ks => by
    rw [normaliseL]
    split
    · next h =>
      have : iterText k = "" := by
        unfold isEmptyTarget at h
        split at h
        · simp [iterText, iterTextL]
        · cases h
      simp [iterTextL, this, normaliseL_text ks]
    · simp [iterTextL, normaliseX_text k, normaliseL_text ks]
end

theorem C03_normalise_keeps_text (x y : Xml) (h : normalise x = .ok y) : iterText y = iterText x := by
  unfold normalise at h
  split at h
  · cases h
  · simp only [Except.ok.injEq] at h; subst h; exact normaliseX_text x

theorem C03_unreferenced_block_keeps_text (a : List (String × String)) (ks : List Xml) (h : ks.all Xml.isElem = true) :
    iterTextL (inlineDisplaced (.elem "displaced" a ks)) =
      asciiUpper ((a.lookup "name").getD "") ++ " " ++ (a.lookup "marker").getD "" ++ iterTextL ((inlineDisplacedL ks).filter Xml.isElem) := by
  rw [inlineDisplaced]
  simp [iterTextL, iterText]

mutual
theorem stripIds_text : ∀ (x : Xml), iterText (stripIds x) = iterText x
  | .text s => by simp [stripIds]
  | .elem t a ks => by
    rw [stripIds]
    split
    · rfl
    · simp [iterText, stripIdsL_text ks]
theorem stripIdsL_text : ∀ (ks : List Xml), iterTextL (stripIdsL ks) = iterTextL ks
  | [] => by simp [stripIdsL]
  | k :: ks => by simp [stripIdsL, iterTextL, stripIds_text k, stripIdsL_text ks]
end

theorem setAliasInDoc_text (title : String) (doc : Xml) : iterText (setAliasInDoc title doc) = iterText doc := by
  cases doc with
  | text s => rfl
  | elem t a dk =>
    simp only [setAliasInDoc, iterText]
    induction dk with
    | nil => rfl
    | cons m ms ih =>
      simp only [List.map_cons, iterTextL]
      rw [ih]
      congr 1
      split <;> simp [iterText]

theorem setAliasFirst_text (title : String) : ∀ (ks : List Xml), iterTextL (setAliasFirst title ks) = iterTextL ks
  | [] => rfl
  | .text s :: ks => by simp [setAliasFirst, iterTextL, setAliasFirst_text title ks]
  | .elem t a dk :: ks => by
    by_cases ht : t = "doc"
    · subst ht
      simp only [setAliasFirst]
      split
      · simp [iterTextL, setAliasInDoc_text]
      · simp [iterTextL, setAliasFirst_text title ks]
    · simp [setAliasFirst, ht, iterTextL, setAliasFirst_text title ks]

mutual
theorem titlesX_text : ∀ (x : Xml), iterText (titlesX x) = iterText x
  | .text s => by simp [titlesX]
  | .elem t a ks => by
    rw [titlesX]
    have ih := titlesL_text ks
    split
    · split
      · simp [iterText, setAliasFirst_text, ih]
      · simp [iterText, ih]
    · simp [iterText, ih]
theorem titlesL_text : ∀ (ks : List Xml), iterTextL (titlesL ks) = iterTextL ks
  | [] => by simp [titlesL]
  | k :: ks => by simp [titlesL, iterTextL, titlesX_text k, titlesL_text ks]
end

theorem C03_eids_titles_keep_text (x : Xml) (pfx : String) :
    iterText (titlesX (rewriteAll x pfx).1) = iterText x := by
  rw [titlesX_text]
  have h := rewriteEid_stripIds x pfx {}
  have : iterText (stripIds (rewriteEid x pfx {}).1) = iterText (stripIds x) := by rw [h]
  rw [stripIds_text, stripIds_text] at this
  exact this

/-- body text of a converted document (meta blocks hold no text nodes in the model) -/
def bodyText (r : Except Err Xml) : String := match r with | .ok x => iterText x | .error _ => "<error>"

theorem C03_examples :
    bodyText (convert testUris "" "SEC 1. - Heading **bold**\n  SUBHEADING sub\n  text {{^sup}} more{{FOOTNOTE 1}} end\n  FOOTNOTE 1\n    note\n" "act")
      = "1.Heading boldsubtext sup morenote end" ∧
    bodyText (convert testUris "" "ITEMS\n  intro\n  ITEM (a) - h\n    x\n  wrap\n" "statement") = "intro(a)hxwrap" := by
  decide +kernel

/-- XML building (`item_to_xml_*`, all node types, heading/num/subheading/from handling, the
intro/hcontainer/wrapUp grouping, attachments) neither drops, duplicates nor invents text. -/
theorem C03_xml_building_keeps_text (u : Uris) (parent : Option String) (fuel : Nat) (item : Item)
    (st st' : GenState) (x : Xml) (h : itemToXml u parent fuel item st = (.ok x, st')) :
    iterText x = itemText item :=
  itemToXml_text u parent fuel item st st' x h

/-- non-vacuity: a hierarchical item with num, heading and mixed children is converted, and its text is as stated -/
example :
    let item := Item.node "hier" "section" none
      (some [.node "content" "p" none (some [.text "a ", .node "inline" "b" none (some [.text "b"]) none none none none none]) none none none none none,
             .node "hier" "subsection" none (some [.node "content" "p" none (some [.text "c"]) none none none none none]) (some "(1)") none none none none])
      (some "1.") (some [.text "Title"]) none none none
    (itemToXml testUris none 50 item {}).1.toOption.map iterText = some "1.Titlea b(1)c" ∧ itemText item = "1.Titlea b(1)c" := by
  decide +kernel

/-! ## Text the parser does not understand is kept as a paragraph — at the grammar level

For every text and offset: a line of plain characters (no `* / _ {` backslash; the regenerated class of
the plain-text rule) whose first character cannot start any keyword-led block rule
(`blockChoosesLine`, decided on the regenerated grammar) is read by every block-level rule as one
paragraph holding exactly those characters. `C03_ordinary_first_chars` shows the hypothesis holds for
lowercase letters, digits and common punctuation; uppercase letters that start a keyword are the
interesting exclusions (there the keyword rules get to try first, which is C04's subject). -/
theorem C03_plain_line_is_its_text (inp : Array Char) (p : Nat) (c : Char) (r : List Char)
    (h : AtPlain inp p (c :: r)) (hc : c ≠ Char.ofNat 15) (hb : blockChoosesLine c = true) :
    ∃ t, (∀ fuel, toDict inp (fuel + 2) t
            = .node "content" "p" none (some [Item.text (String.ofList (c :: r))]) none none none none none) ∧
      ∀ rule ∈ blockLevelRules, Lim aknExec inp (.ref rule) p (.ok t) := by
  obtain ⟨n0, h0⟩ := line_of_plain inp p c r h hc
  obtain ⟨te, stop, ht⟩ := h0 n0 (Nat.le_refl _)
  have hline : Lim aknExec inp (.ref "line") p (.ok _) :=
    ⟨n0, fun n hn => by rw [eval_mono aknExec inp _ p hn (by rw [ht]; trivial), ht]⟩
  exact ⟨_, fun fuel => toDict_plain_line inp fuel p stop te c r h,
    block_rules_follow_line inp p c h.1 hb _ hline⟩

theorem C03_ordinary_first_chars :
    ("abcdefghijklmnopqrstuvwxyz0123456789(\"'.,;:-é§".toList.all fun c => blockChoosesLine c && isPlain c) = true := by
  decide +kernel

/-- the hypotheses are satisfiable: the second line of this text -/
example : AtPlain "PART 1\n  the quick (brown) fox, 1.2 - jumps\nmore\n".toList.toArray 9
    "the quick (brown) fox, 1.2 - jumps".toList := by
  simp [AtPlain, isPlain, clsMatch, overrideNeg, overrideCls]


/-- **From the characters of a line to the element, nothing lost and nothing added**: for a line of plain
text with escapes anywhere (C13's `AtSegs`), every block-level rule reads it as an item from which the XML
builder makes `<p>` whose only content is the text of the line without its escaping backslashes — provided
that text is XML-compatible (otherwise the builder raises: F2). -/
theorem C03_mixed_line_to_element (u : Uris) (parent : Option String) (st : GenState)
    (inp : Array Char) (p : Nat) (ss : List Seg) (h : AtSegs inp p ss) (hs : segStartOK ss)
    (hx : xmlTextOk (String.ofList (segsTxt ss)) = true) :
    ∃ t, (∀ rule ∈ blockLevelRules, Lim aknExec inp (.ref rule) p (.ok t)) ∧
      ∀ k k2, (itemToXml u parent (k2 + 3) (toDict inp (k + 2) t) st).1
        = .ok (.elem "p" [] [.text (String.ofList (segsTxt ss))]) := by
  obtain ⟨t, hd, hl⟩ := C13_escape_anywhere_in_plain_text inp p ss h hs
  refine ⟨t, hl, fun k k2 => ?_⟩
  have hne : String.ofList (segsTxt ss) ≠ "" := by
    cases ss with
    | nil => exact absurd hs (by simp [segStartOK])
    | cons sg rest =>
      cases sg with
      | esc c => intro e; have := congrArg String.toList e; simp [segsTxt, Seg.txt] at this
      | run c r => intro e; have := congrArg String.toList e; simp [segsTxt, Seg.txt] at this
  rw [hd k]
  simp [itemToXml, itemsToXml, mkElem, makerCheck, mergeText, hx, Except.bind, hne]

end Bluebell
