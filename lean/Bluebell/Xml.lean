/-!
# XML trees (model of the lxml element trees bluebell builds)

Attribute lists are association lists in insertion order; `text` nodes carry a string.
Adjacent text children are kept merged by the smart constructors that need it.
-/
namespace Bluebell

inductive Xml where
  | elem (tag : String) (attrs : List (String × String)) (kids : List Xml)
  | text (s : String)
deriving Repr, Inhabited

namespace Xml

def tag : Xml → String
  | .elem t _ _ => t
  | .text _ => ""

def attrs : Xml → List (String × String)
  | .elem _ a _ => a
  | .text _ => []

def kids : Xml → List Xml
  | .elem _ _ k => k
  | .text _ => []

def isElem : Xml → Bool
  | .elem .. => true
  | .text _ => false

def getAttr (x : Xml) (k : String) : Option String := x.attrs.lookup k

/-- `element.set(k, v)`: replace in place if present, else append. -/
def setAttrList (k v : String) : List (String × String) → List (String × String)
  | [] => [(k, v)]
  | (k', v') :: rest => if k' = k then (k, v) :: rest else (k', v') :: setAttrList k v rest

def setAttr (x : Xml) (k v : String) : Xml :=
  match x with
  | .elem t a ks => .elem t (setAttrList k v a) ks
  | .text s => .text s

def eraseAttrList (k : String) : List (String × String) → List (String × String)
  | [] => []
  | (k', v') :: rest => if k' = k then eraseAttrList k rest else (k', v') :: eraseAttrList k rest

/-- `n.text` of lxml: the text before the first child element ("" when there is none) -/
def leadText : Xml → String
  | .elem _ _ (.text s :: _) => s
  | _ => ""

end Xml
end Bluebell
