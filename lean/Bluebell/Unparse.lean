import Bluebell.Xml
import Bluebell.Gen.Tables
/-!
# Model of `akn_text.xsl` (the unparser)

The stylesheet is modelled as a recursive function over element trees: one clause per template,
explicit template choice where several patterns match, the XPath axes used by the templates
(`preceding-sibling`, `following-sibling`, `parent`, ancestor counts) as explicit context, and
`strip-space`/`preserve-space` as a pass that removes whitespace-only text nodes whose parent is
not in the preserve list (libxslt does this to the caller's tree in place: `stripSpace` is also
what `unparse` leaves behind).
-/
namespace Bluebell

def isXmlWs (c : Char) : Bool := c == ' ' || c == '\t' || c == '\n' || c == '\r'
def wsOnly (s : String) : Bool := s.toList.all isXmlWs

mutual
/-- `xsl:strip-space elements="*"` with the `xsl:preserve-space` list -/
def stripSpace : Xml → Xml
  | .text s => .text s
  | .elem t a ks => .elem t a (stripSpaceL (xslPreserveSpace.contains t) ks)
def stripSpaceL (keep : Bool) : List Xml → List Xml
  | [] => []
  | .text s :: ks => if !keep && wsOnly s then stripSpaceL keep ks else .text s :: stripSpaceL keep ks
  | k :: ks => stripSpace k :: stripSpaceL keep ks
end

/-- `string-replace-all` (left to right, non-overlapping); `skip` = characters of a match still to drop -/
def replaceAllAux (value repl : List Char) : Nat → List Char → List Char
  | _, [] => []
  | skip + 1, _ :: cs => replaceAllAux value repl skip cs
  | 0, c :: cs =>
    if value ≠ [] ∧ value.isPrefixOf (c :: cs) then repl ++ replaceAllAux value repl (value.length - 1) cs
    else c :: replaceAllAux value repl 0 cs

def replaceAll (text value repl : String) : String :=
  String.ofList (replaceAllAux value.toList repl.toList 0 text.toList)

/-- `escape-inlines` -/
def escapeInlines (text : String) : String :=
  let t := String.ofList (text.toList.map fun c => if c == '\r' || c == '\n' then ' ' else c)
  let t := replaceAll t "\\" "\\\\"
  let t := replaceAll t "**" "\\*\\*"
  let t := replaceAll t "//" "\\/\\/"
  let t := replaceAll t "__" "\\_\\_"
  let t := replaceAll t "{{" "\\{\\{"
  replaceAll t "}}" "\\}\\}"

/-- `string-ltrim` (tab, LF, CR, space) -/
def ltrim (s : String) : String := String.ofList (s.toList.dropWhile isXmlWs)

def prefixRunLen (l : List Char) : Nat :=
  match l with
  | [] => 0
  | c :: _ => (l.takeWhile (· == c)).length

/-- context of a node: its parent's tag, preceding sibling nodes (nearest first), following sibling
nodes, the current indent and the number of `p` ancestors -/
structure UCtx where
  parent : String := ""
  before : List Xml := []
  after : List Xml := []
  indent : Nat := 0
  pDepth : Nat := 0

def firstElemTag (l : List Xml) : Option String := (l.find? Xml.isElem).map Xml.tag
def noElems (l : List Xml) : Bool := !(l.any Xml.isElem)

/-- `escape-inlines-start-end` for a text node in context -/
def escapeStartEnd (ctx : UCtx) (text : String) : String :=
  let l := text.toList
  let n := l.length
  let oddPrefix := prefixRunLen l % 2 == 1
  let oddSuffix := prefixRunLen l.reverse % 2 == 1
  let first := l.head?
  let last := l.getLast?
  let tagFor := fun (c : Option Char) =>
    if c == some '*' then "b" else if c == some '/' then "i" else if c == some '_' then "u" else ""
  let escP := oddPrefix && tagFor first != "" &&
    ((ctx.parent == tagFor first && noElems ctx.before) || firstElemTag ctx.before == some (tagFor first))
  let escS := oddSuffix && tagFor last != "" &&
    ((ctx.parent == tagFor last && noElems ctx.after) || firstElemTag ctx.after == some (tagFor last))
  if escP && escS then
    "\\" ++ String.ofList (l.take 1) ++
      (if n > 1 then escapeInlines (String.ofList ((l.drop 1).take (n - 2))) ++ "\\" ++ String.ofList (l.drop (n - 1)) else "")
  else if escP then "\\" ++ String.ofList (l.take 1) ++ escapeInlines (String.ofList (l.drop 1))
  else if escS then escapeInlines (String.ofList (l.take (n - 1))) ++ "\\" ++ String.ofList (l.drop (n - 1))
  else escapeInlines text

/-- `escape-prefixes` -/
def escapePrefixes (text : String) : String :=
  if xslEscapeEquals.contains text || xslEscapeStarts.any (fun k => k.toList.isPrefixOf text.toList) then "\\" ++ text else text

def asciiUpperS (s : String) : String :=
  String.ofList (s.toList.map fun c => if 'a' ≤ c ∧ c ≤ 'z' then Char.ofNat (c.toNat - 32) else c)

def indentStr (n : Nat) : String := String.ofList (List.replicate (2 * n) ' ')

/-- `block-attrs` -/
def blockAttrsText (tag : String) (a : List (String × String)) : String :=
  let cls := match a.lookup "class" with
    | some c => "." ++ String.ofList (c.toList.map fun ch => if ch == ' ' then '.' else ch)
    | none => ""
  let rest := a.filter fun (k, v) =>
    k != "eId" && k != "class" && k != "by" && (k != "name" || v != tag) && !(tag == "inline" && k == "name" && v == "em")
  cls ++ (if rest.isEmpty then "" else "{" ++ "|".intercalate (rest.map fun (k, v) => k ++ " " ++ v) ++ "}")

mutual
/-- string value of a node (all descendant text) -/
def strValue : Xml → String
  | .text s => s
  | .elem _ _ ks => strValueL ks
def strValueL : List Xml → String
  | [] => ""
  | k :: ks => strValue k ++ strValueL ks
end

mutual
/-- descendant `authorialNote` elements with the number of `p` elements strictly between (`pAbove` counts
the `p` ancestors below the starting node) -/
def notesBelow : Nat → Xml → List (Xml × Nat)
  | _, .text _ => []
  | d, .elem t a ks =>
    (if t == "authorialNote" then [(.elem t a ks, d)] else []) ++ notesBelowL (if t == "p" then d + 1 else d) ks
def notesBelowL : Nat → List Xml → List (Xml × Nat)
  | _, [] => []
  | d, k :: ks => notesBelow d k ++ notesBelowL d ks
end

def isElemTag (t : String) (x : Xml) : Bool := x.isElem && x.tag == t

mutual
/-- apply-templates to one node -/
def unNode : Nat → UCtx → Xml → String
  | 0, _, _ => ""
  | fuel + 1, ctx, .text s =>
    -- text templates, most specific first
    if ctx.parent == "remark" && firstElemTag ctx.before == some "br" then escapeInlines (ltrim s)
    else if (ctx.parent == "p" || ctx.parent == "listIntroduction" || ctx.parent == "listWrapUp") && noElems ctx.before then
      escapePrefixes (escapeStartEnd ctx (ltrim s))
    else escapeStartEnd ctx s
  | fuel + 1, ctx, .elem t a ks =>
    let ind := indentStr ctx.indent
    let kids := fun (i : Nat) => unKids fuel t i (if t == "p" then ctx.pDepth + 1 else ctx.pDepth) [] ks
    let notes := fun (xs : List Xml) (i : Nat) => unNotes fuel i xs
    let allNotes := (notesBelowL 0 ks).map (·.1)
    if t == "meta" || (t == "header" && ctx.parent == "judgment") then ""
    else if xslContainers.contains t then ind ++ asciiUpperS t ++ blockAttrsText t a ++ "\n\n" ++ kids (ctx.indent + 1)
    else if xslBodies.contains t then
      (if ctx.before.any (fun b => isElemTag "preface" b || isElemTag "preamble" b) then ind ++ "BODY\n\n" else "") ++ kids ctx.indent
    else if xslHier.contains t then
      let kw := (xslHierSynonyms.lookup t).getD (asciiUpperS t)
      let nums := ks.filter (isElemTag "num")
      let heads := ks.filter (isElemTag "heading")
      let subs := ks.filter (isElemTag "subheading")
      let froms := ks.filter (isElemTag "from")
      let numTxt := match nums with
        | n :: _ => " " ++ replaceAll (replaceAll (strValue n) "\\" "\\\\") "-" "\\-"
        | [] => ""
      let headTxt := if heads.isEmpty then "" else " - " ++ String.join (heads.map fun h => unNode fuel { parent := t, indent := ctx.indent, pDepth := ctx.pDepth } h)
      let subTxt := if subs.isEmpty then "" else "\n" ++ String.join (subs.map fun h => unNode fuel { parent := t, indent := ctx.indent + 1, pDepth := ctx.pDepth } h)
      let fromTxt := if froms.isEmpty then "" else "\n" ++ String.join (froms.map fun h => unNode fuel { parent := t, indent := ctx.indent + 1, pDepth := ctx.pDepth } h)
      let hnotes := (notesBelowL 0 (ks.filter fun k => isElemTag "heading" k || isElemTag "subheading" k)).map (·.1)
      let rest := ks.filter fun k => k.isElem && !(isElemTag "num" k || isElemTag "heading" k || isElemTag "subheading" k || isElemTag "from" k)
      ind ++ kw ++ blockAttrsText t a ++ numTxt ++ headTxt ++ subTxt ++ fromTxt ++ "\n" ++ (if t == "item" then "" else "\n")
        ++ notes hnotes (ctx.indent + 1) ++ unKids fuel t (ctx.indent + 1) ctx.pDepth [] rest
    else if xslInlines.contains t then
      let nm := if t == "inline" && a.lookup "name" == some "em" then "em" else if t == "ins" then "+" else if t == "del" then "-" else t
      "{{" ++ nm ++ blockAttrsText t a ++ " " ++ kids ctx.indent ++ "}}"
    else if xslSpeechBlocks.contains t then
      ind ++ asciiUpperS t ++ blockAttrsText t a ++ " " ++ kids ctx.indent ++ "\n\n" ++ notes allNotes ctx.indent
    else match t with
    | "blockList" => ind ++ "ITEMS" ++ blockAttrsText t a ++ "\n" ++ kids (ctx.indent + 1)
    | "listIntroduction" | "listWrapUp" => ind ++ kids ctx.indent ++ "\n\n" ++ notes allNotes ctx.indent
    | "ul" => ind ++ "BULLETS" ++ blockAttrsText t a ++ "\n" ++ kids (ctx.indent + 1) ++ "\n"
    | "li" => ind ++ "* " ++ kids (ctx.indent + 1)
    | "embeddedStructure" => ind ++ "QUOTE" ++ blockAttrsText t a ++ "\n" ++ kids (ctx.indent + 1)
    | "authorialNote" => "{{FOOTNOTE " ++ (a.lookup "marker").getD "" ++ "}}"
    | "blockContainer" => ind ++ "BLOCKS" ++ blockAttrsText t a ++ "\n" ++ kids (ctx.indent + 1)
    | "table" => ind ++ "TABLE" ++ blockAttrsText t a ++ "\n" ++ kids (ctx.indent + 1)
    | "tr" => ind ++ "TR\n" ++ kids (ctx.indent + 1)
    | "th" => ind ++ "TH" ++ blockAttrsText t a ++ "\n" ++ kids (ctx.indent + 1)
    | "td" => ind ++ "TC" ++ blockAttrsText t a ++ "\n" ++ kids (ctx.indent + 1)
    | "attachment" =>
      let docs := ks.filter (isElemTag "doc")
      let heads := ks.filter (isElemTag "heading")
      let subs := ks.filter (isElemTag "subheading")
      let nm := match docs with | d :: _ => (d.attrs.lookup "name").getD "" | [] => ""
      let hnotes := (notesBelowL 0 (ks.filter fun k => isElemTag "heading" k || isElemTag "subheading" k)).map (·.1)
      ind ++ asciiUpperS nm ++ blockAttrsText t a
        ++ (if heads.isEmpty then "" else " " ++ String.join (heads.map fun h => unNode fuel { parent := t, indent := ctx.indent, pDepth := ctx.pDepth } h))
        ++ (if subs.isEmpty then "" else "\n" ++ String.join (subs.map fun h => unNode fuel { parent := t, indent := ctx.indent + 1, pDepth := ctx.pDepth } h))
        ++ "\n\n" ++ notes hnotes (ctx.indent + 1)
        ++ String.join (docs.map fun d => unNode fuel { parent := t, indent := ctx.indent + 1, pDepth := ctx.pDepth } d)
    | "p" =>
      let firstInLi := ctx.parent == "li" && !(ctx.before.any (isElemTag "p"))
      let own := (notesBelowL 0 ks).filter (fun (p : Xml × Nat) => p.2 == 0) |>.map (·.1)
      (if firstInLi then "" else ind)
        ++ (if a.any (fun (k, _) => k != "eId") then "P" ++ blockAttrsText t a ++ " " else "")
        ++ kids ctx.indent ++ "\n" ++ (if ctx.parent == "li" then "" else "\n")
        ++ notes own ctx.indent
    | "subheading" => ind ++ "SUBHEADING " ++ kids ctx.indent
    | "crossHeading" => ind ++ "CROSSHEADING" ++ blockAttrsText t a ++ " " ++ kids ctx.indent ++ "\n\n" ++ notes allNotes ctx.indent
    | "from" => ind ++ "FROM " ++ kids ctx.indent
    | "longTitle" => ind ++ "LONGTITLE " ++ kids 0 ++ "\n\n"
    | "remark" => "{{*" ++ kids ctx.indent ++ "}}"
    | "br" => if ctx.parent == "remark" then "\n" ++ ind else kids ctx.indent
    | "ref" => "{{>" ++ replaceAll ((a.lookup "href").getD "") " " "%20" ++ " " ++ kids ctx.indent ++ "}}"
    | "img" => "{{IMG " ++ replaceAll ((a.lookup "src").getD "") " " "%20" ++
        (match a.lookup "alt" with | some alt => " " ++ alt | none => "") ++ "}}"
    | "i" => "//" ++ kids ctx.indent ++ "//"
    | "b" => "**" ++ kids ctx.indent ++ "**"
    | "u" => "__" ++ kids ctx.indent ++ "__"
    | "sup" => "{{^" ++ kids ctx.indent ++ "}}"
    | "sub" => "{{_" ++ kids ctx.indent ++ "}}"
    | "eol" => "\n" ++ ind
    | _ => kids ctx.indent
/-- apply-templates to a list of sibling nodes (`before` = already processed siblings, nearest first) -/
def unKids : Nat → String → Nat → Nat → List Xml → List Xml → String
  | 0, _, _, _, _, _ => ""
  | _ + 1, _, _, _, _, [] => ""
  | fuel + 1, parent, indent, pDepth, before, k :: ks =>
    unNode fuel { parent := parent, before := before, after := ks, indent := indent, pDepth := pDepth } k
      ++ unKids fuel parent indent pDepth (k :: before) ks
/-- `mode="content"` for authorial notes -/
def unNotes : Nat → Nat → List Xml → String
  | 0, _, _ => ""
  | _ + 1, _, [] => ""
  | fuel + 1, indent, n :: ns =>
    indentStr indent ++ "FOOTNOTE " ++ (n.attrs.lookup "marker").getD "" ++ "\n"
      ++ unKids fuel "authorialNote" (indent + 1) 0 [] n.kids ++ unNotes fuel indent ns
end

/-- `AkomaNtosoParser.unparse(xml)`: the text, and the caller's tree as it is left behind.
The transform runs on a deep copy (it is the copy that `xsl:strip-space` strips), so the caller's
tree is returned as it was. -/
def unparse (x : Xml) : String × Xml :=
  let s := stripSpace x
  (unNode 100000 {} s, x)

end Bluebell
