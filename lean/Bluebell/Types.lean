import Bluebell.Peg.Eval
import Bluebell.Gen.Tables
/-!
# Model of `types.py`: parse tree → intermediate dict tree (`to_dict`)

`Item` mirrors the dicts `to_dict` returns, including which keys are present.
All functions take the input (for node text) and a fuel bound (recursion depth); running out of
fuel yields the marker item `oofItem`, which never equals anything the real code produces.
-/
namespace Bluebell

abbrev Attrs := List (String × String)

inductive Item where
  | text (value : String)
  | node (type name : String) (attribs : Option Attrs) (children : Option (List Item))
      (num : Option String) (heading subheading frm : Option (List Item)) (attAttribs : Option Attrs)
deriving Repr, Inhabited

namespace Item
def mk' (type name : String) (children : List Item) : Item :=
  .node type name none (some children) none none none none none
def typ : Item → String | .text _ => "text" | .node t .. => t
def name? : Item → Option String | .text _ => none | .node _ n .. => some n
def attribs : Item → Option Attrs | .node _ _ a .. => a | _ => none
def children : Item → Option (List Item) | .node _ _ _ c .. => c | _ => none
def setAttribs (i : Item) (a : Option Attrs) : Item :=
  match i with | .node t n _ c nu h s f aa => .node t n a c nu h s f aa | x => x
def setChildren (i : Item) (c : List Item) : Item :=
  match i with | .node t n a _ nu h s f aa => .node t n a (some c) nu h s f aa | x => x
def setName (i : Item) (n : String) : Item :=
  match i with | .node t _ a c nu h s f aa => .node t n a c nu h s f aa | x => x
def setNum (i : Item) (v : String) : Item :=
  match i with | .node t n a c _ h s f aa => .node t n a c (some v) h s f aa | x => x
def setHeading (i : Item) (v : List Item) : Item :=
  match i with | .node t n a c nu _ s f aa => .node t n a c nu (some v) s f aa | x => x
def setSubheading (i : Item) (v : List Item) : Item :=
  match i with | .node t n a c nu h _ f aa => .node t n a c nu h (some v) f aa | x => x
def setFrom (i : Item) (v : List Item) : Item :=
  match i with | .node t n a c nu h s _ aa => .node t n a c nu h s (some v) aa | x => x
def setAttAttribs (i : Item) (v : Attrs) : Item :=
  match i with | .node t n a c nu h s f _ => .node t n a c nu h s f (some v) | x => x
end Item

def oofItem : Item := .text "\u0000<<out-of-fuel>>"

/-- dict `d[k] = v` -/
def attrSet (a : Attrs) (k v : String) : Attrs :=
  match a with
  | [] => [(k, v)]
  | (k', v') :: rest => if k' = k then (k, v) :: rest else (k', v') :: attrSet rest k v

def attrUpdate (a b : Attrs) : Attrs := b.foldl (fun acc (k, v) => attrSet acc k v) a

def emptyP : Item := .node "content" "p" none (some []) none none none none none
def emptyHcontainer : Item :=
  .node "element" "hcontainer" (some [("name", "hcontainer")])
    (some [.node "element" "content" none (some [emptyP]) none none none none none]) none none none none none

/-! ### tree accessors -/
namespace Tree
def textOf (inp : Array Char) (t : Tree) : String := String.ofList (inp.extract t.start t.stop).toList
def isEmpty (t : Tree) : Bool := t.stop ≤ t.start
/-- `getattr(node, label)`; a later assignment of the same attribute wins -/
def child? (t : Tree) (l : String) : Option Tree :=
  match (t.labels.filter (fun p => p.1 == l)).getLast? with
  | some (_, i) => t.kids[i]?
  | none => none
def child (t : Tree) (l : String) : Tree := (t.child? l).getD (.leaf 0 0)
def has (t : Tree) (l : String) : Bool := (t.child? l).isSome
def lastType (t : Tree) : Option String := t.types.getLast?
end Tree

def kindOf (t : Tree) : String :=
  match t.lastType with
  | some ty => (typeKinds.lookup ty).getD "none"
  | none => "none"

def asciiLower (s : String) : String :=
  String.ofList (s.toList.map fun c => if 'A' ≤ c ∧ c ≤ 'Z' then Char.ofNat (c.toNat + 32) else c)

/-- `ESCAPE_RE.sub('\\1', s)` with `ESCAPE_RE = \\(.)` -/
def unescapeL : List Char → List Char
  | [] => []
  | [c] => [c]
  | c :: d :: rest => if c = '\\' ∧ d ≠ '\n' then d :: unescapeL rest else c :: unescapeL (d :: rest)
def unescape (s : String) : String := String.ofList (unescapeL s.toList)

def isPySpaceC (c : Char) : Bool := pyIsSpaceCodes.contains c.toNat
/-- `str.strip()` -/
def pyStripS (s : String) : String :=
  String.ofList ((s.toList.dropWhile isPySpaceC).reverse.dropWhile isPySpaceC).reverse

def inRangesN (rs : List (Nat × Nat)) (c : Char) : Bool := rs.any fun (lo, hi) => lo ≤ c.toNat && c.toNat ≤ hi

/-- groupby on a key -/
def groupByKey {α} (key : α → String) : List α → List (String × List α)
  | [] => []
  | x :: xs =>
    match groupByKey key xs with
    | (k, g) :: rest => if k = key x then (k, x :: g) :: rest else (key x, [x]) :: (k, g) :: rest
    | [] => [(key x, [x])]

/-- `MainContentElement.wrap_children`; `bodyMode` = `Body.classify` -/
def wrapChildren (bodyMode : Bool) (kids : List Item) : List Item :=
  let classify (i : Item) : String :=
    if bodyMode then
      (if i.typ = "hier" then "hier" else if i.name? = some "crossHeading" then "crossHeading" else "content")
    else (if i.name? = some "crossHeading" then "crossHeading" else "")
  (groupByKey classify kids).flatMap fun (cls, group) =>
    if cls = "crossHeading" then
      [.node "element" "hcontainer" (some [("name", "hcontainer")]) (some group) none none none none none]
    else if cls = "content" then
      [.node "element" "hcontainer" (some [("name", "hcontainer")])
        (some [.node "element" "content" none (some group) none none none none none]) none none none none none]
    else group

/-- merge helper of `InlineText.many_to_dict`: flush pending text -/
def flushText (pending : List String) (acc : List Item) : List Item :=
  if pending.isEmpty then acc else acc ++ [.text (String.join pending)]

def makeEmpty (tag : String) : Item :=
  match tag with
  | "body" => .node "element" "body" none (some [emptyHcontainer]) none none none none none
  | "judgmentBody" => .node "element" "judgmentBody" none
      (some [.node "element" "introduction" none (some [emptyP]) none none none none none]) none none none none none
  | "mainBody" => .node "element" "mainBody" none (some [emptyP]) none none none none none
  | "debateBody" => .node "element" "debateBody" none
      (some [.node "element" "debateSection" (some [("name", "debateSection")]) (some [emptyP]) none none none none none])
      none none none none none
  | tag => .node "element" tag none none none none none none none

mutual
/-- `node.to_dict()` for a node whose class defines `to_dict` -/
def toDict (inp : Array Char) : Nat → Tree → Item
  | 0, _ => oofItem
  | fuel + 1, t =>
    let tx := fun (n : Tree) => n.textOf inp
    let attrsOf := fun (n : Tree) => blockAttrs inp fuel n
    let withAttrs := fun (i : Item) (n : Tree) =>
      if (n.child "attrs").isEmpty then i else i.setAttribs (some (attrsOf (n.child "attrs")))
    match t.lastType with
    | none => oofItem
    | some ty =>
      match rootTable.lookup ty with
      | some (name, children, required, _) =>
        let kids := children.foldl (fun (acc : List Item) tag =>
          match t.child? tag with
          | some node =>
            if !node.isEmpty then acc ++ [toDict inp fuel node]
            else if required.contains tag then acc ++ [makeEmpty tag] else acc
          | none => if required.contains tag then acc ++ [makeEmpty tag] else acc) []
        .node "element" name (some [("name", name)]) (some kids) none none none none none
      | none =>
      match mainContentTable.lookup ty with
      | some (name, contentElement) =>
        if ty = "Attachment" then toDictAttachment inp fuel t
        else
          let kids := manyToDict inp fuel ((t.child "content").kids.map fun c => c.child contentElement)
          let kids := wrapChildren (ty = "Body") kids
          let empty := if ty = "Body" then emptyHcontainer else emptyP
          .node "element" name none (some (if kids.isEmpty then [empty] else kids)) none none none none none
      | none =>
      match blockIndentTable.lookup ty with
      | some name =>
        let kids := manyToDict inp fuel ((t.child "content").kids.map fun c => c.child "block_element")
        let i : Item := .node "element" name none (some kids) none none none none none
        if t.has "attrs" && !(t.child "attrs").isEmpty then i.setAttribs (some (attrsOf (t.child "attrs"))) else i
      | none =>
      match ty with
      | "JudgmentBody" =>
        let parts := ["introduction", "background", "arguments", "remedies", "motivation", "decision"].map t.child
        .node "element" "judgmentBody" none (some ((parts.filter (fun c => !c.isEmpty)).map (toDict inp fuel))) none none none none none
      | "Longtitle" =>
        let body := t.child "body"
        let kids := if body.isEmpty then []
          else [Item.node "content" "p" none (some (inlineMany inp fuel (body.child "content").kids)) none none none none none]
        .node "element" "longTitle" none (some kids) none none none none none
      | "Crossheading" =>
        let body := t.child "body"
        let kids := if body.isEmpty then [] else inlineMany inp fuel (body.child "content").kids
        withAttrs (.node "element" "crossHeading" none (some kids) none none none none none) t
      | "HierElement" => hierToDict inp fuel t hierTypeName "hier_element_name" hierSynonyms
      | "SpeechContainer" =>
        let info := hierToDict inp fuel t speechTypeName "speech_container_name" speechSynonyms
        if info.name? = some "debateSection" then
          let a := info.attribs.getD []
          if (a.lookup "name").isSome then info else info.setAttribs (some (attrSet a "name" "debateSection"))
        else info
      | "SpeechGroup" =>
        let info := hierToDict inp fuel t speechTypeName "speech_group_name" speechGroupSynonyms
        let info := if info.name? = some "debateSection" then
            (let a := info.attribs.getD []
             if (a.lookup "name").isSome then info else info.setAttribs (some (attrSet a "name" "debateSection")))
          else info
        let sf := (t.child "body").child "speech_from"
        let info := info.setFrom (toDictList inp fuel sf)
        let a := info.attribs.getD []
        if (a.lookup "by").isSome then info
        else info.setAttribs (some (attrSet a "by"
          ("#" ++ String.ofList ((tx sf).toList.filter (inRangesN pyWordRanges)))))
      | "Attachments" =>
        .node "element" "attachments" none (some (t.kids.map (toDict inp fuel))) none none none none none
      | "BlockList" =>
        let intro := t.child "intro"
        let wrapup := t.child "wrapup"
        let kids := (if intro.isEmpty then [] else [toDict inp fuel intro]) ++
          (t.child "items").kids.map (toDict inp fuel) ++
          (if wrapup.isEmpty then [] else [toDict inp fuel wrapup])
        withAttrs (.node "block" "blockList" none (some kids) none none none none none) t
      | "BlockListIntro" => listIntroLike inp fuel t "listIntroduction"
      | "BlockListWrapUp" => listIntroLike inp fuel t "listWrapUp"
      | "BlockListItem" =>
        let content := t.child "content"
        let kids := if !content.isEmpty && !(content.child "children").isEmpty
          then manyToDict inp fuel (content.child "children").kids else [emptyP]
        let info : Item := .node "block" "item" none (some kids) none none none none none
        let info := if (t.child "heading").isEmpty then info else headingUpdate inp fuel (t.child "heading") info
        if !content.isEmpty && !(content.child "subheading").isEmpty
        then info.setSubheading (toDictList inp fuel (content.child "subheading")) else info
      | "BulletList" =>
        withAttrs (.node "block" "ul" none (some ((t.child "items").kids.map (toDict inp fuel))) none none none none none) t
      | "BulletListItem" =>
        let initial := t.child "initial"
        let kids := if kindOf initial = "dict" then [toDict inp fuel initial] else []
        let kids := if kids.isEmpty then [emptyP] else kids
        let content := t.child "content"
        let kids := if content.isEmpty then kids else
          kids ++ (content.child "siblings").kids.flatMap fun kid =>
            if kindOf kid = "dict" then [toDict inp fuel kid] else toChildren inp fuel kid
        .node "element" "li" none (some kids) none none none none none
      | "BlockContainer" =>
        let content := t.child "content"
        let kids := if content.isEmpty then [emptyP] else manyToDict inp fuel content.kids
        withAttrs (.node "block" "blockContainer" none (some kids) none none none none none) t
      | "Table" =>
        withAttrs (.node "element" "table" none (some ((t.child "rows").kids.map (toDict inp fuel))) none none none none none) t
      | "TableRow" =>
        .node "element" "tr" none (some ((t.child "cells").kids.map (toDict inp fuel))) none none none none none
      | "TableCell" =>
        let content := t.child "content"
        let kids := if content.isEmpty then [emptyP] else manyToDict inp fuel (content.child "content").kids
        withAttrs (.node "element" ((tableCellNames.lookup (tx (t.child "name"))).getD "?") none (some kids) none none none none none) t
      | "SpeechBlock" =>
        withAttrs (.node "element" (asciiLower (tx (t.child "speech_block_name"))) none
          (some (inlineMany inp fuel (t.child "content").kids)) none none none none none) t
      | "P" =>
        withAttrs (.node "content" "p" none (some (inlineMany inp fuel (t.child "content").kids)) none none none none none) t
      | "Line" => .node "content" "p" none (some (inlineMany inp fuel (t.child "content").kids)) none none none none none
      | "BlockQuote" =>
        let info := withAttrs (.node "element" "embeddedStructure" none (some (manyToDict inp fuel (t.child "content").kids)) none none none none none) t
        .node "element" "block" (some [("name", "quote")]) (some [info]) none none none none none
      | "FootnoteRef" =>
        .node "element" "authorialNote" (some [("marker", pyStripS (tx (t.child "marker"))), ("placement", "bottom"),
          ("displaced", "footnote")]) none none none none none none
      | "Footnote" =>
        .node "element" "displaced" (some [("marker", pyStripS (tx (t.child "marker"))), ("name", "footnote")])
          (some (manyToDict inp fuel (t.child "content").kids)) none none none none none
      | "InlineText" =>
        if t.has "inline_marker" then toDict inp fuel (t.child "inline_marker")
        else .text (match t.kids with | k :: _ => tx k | [] => tx t)
      | "Bold" => symInline inp fuel t "b"
      | "Italics" => symInline inp fuel t "i"
      | "Underline" => symInline inp fuel t "u"
      | "Sup" => nestedInline inp fuel t "sup" []
      | "Sub" => nestedInline inp fuel t "sub" []
      | "Ref" => nestedInline inp fuel t "ref" [("href", tx (t.child "href"))]
      | "Remark" =>
        -- newlines become <br>; the pieces between them are merged like any inline run
        let step := fun (st : List Item × List Tree) (kid : Tree) =>
          if tx kid = "\n" then
            (st.1 ++ inlineMany inp fuel st.2 ++ [Item.node "element" "br" none none none none none none none], [])
          else (st.1, st.2 ++ [kid.child "content"])
        let (kids, batch) := (t.child "content").kids.foldl step ([], [])
        let kids := if batch.isEmpty then kids else kids ++ inlineMany inp fuel batch
        let defaults := ((inlineTable.lookup "Remark").map (·.2)).getD []
        .node "inline" "remark" (if defaults.isEmpty then none else some defaults) (some kids) none none none none none
      | "Image" =>
        let a : Attrs := [("src", tx (t.child "href"))]
        let a := if (t.child "content").isEmpty then a else attrSet a "alt" (pyStripS (tx (t.child "content")))
        .node "marker" "img" (some a) none none none none none none
      | "StandardInline" =>
        let tag := tx (t.child "tag")
        let a : Attrs := if (t.child "attrs").isEmpty then [] else attrsOf (t.child "attrs")
        let a := ((stdInlineDefaults.lookup tag).getD []).foldl
          (fun acc (k, v) => if (acc.lookup k).isSome then acc else attrSet acc k v) a
        let kids := inlineMany inp fuel ((t.child "content").kids.map fun x => x.child "inline_nested")
        let info : Item := .node "inline" tag (if a.isEmpty then none else some a) (some kids) none none none none none
        if tag = "em" then (info.setName "inline").setAttribs (some (attrSet (info.attribs.getD []) "name" "em"))
        else if tag = "+" then info.setName "ins"
        else if tag = "-" then info.setName "del"
        else info
      | _ => oofItem

/-- to_dict for node classes whose `to_dict` returns a *list* (`Subheading`, `From`) -/
def toDictList (inp : Array Char) : Nat → Tree → List Item
  | 0, _ => [oofItem]
  | fuel + 1, t =>
    match t.lastType with
    | some "Subheading" =>
      let body := t.child "body"
      if body.isEmpty then [] else inlineMany inp fuel (body.child "content").kids
    | some "From" => inlineMany inp fuel (t.child "content").kids
    | _ => [oofItem]

/-- `HierElement.to_dict` and its subclasses -/
def hierToDict (inp : Array Char) : Nat → Tree → String → String → List (String × String) → Item
  | 0, _, _, _, _ => oofItem
  | fuel + 1, t, typ, nameElement, synonyms =>
    let name0 := asciiLower ((t.child nameElement).textOf inp)
    let name := (synonyms.lookup name0).getD name0
    let body := t.child "body"
    let kids := if body.isEmpty then [] else manyToDict inp fuel (body.child "content").kids
    let info : Item := .node typ name none (some kids) none none none none none
    let info := if (t.child "heading").isEmpty then info else headingUpdate inp fuel (t.child "heading") info
    let info := if !body.isEmpty && !(body.child "subheading").isEmpty
      then info.setSubheading (toDictList inp fuel (body.child "subheading")) else info
    if (t.child "attrs").isEmpty then info else info.setAttribs (some (blockAttrs inp fuel (t.child "attrs")))

/-- `HierElementHeading.update_dict` (the heading is known to be non-empty) -/
def headingUpdate (inp : Array Char) : Nat → Tree → Item → Item
  | 0, _, i => i
  | fuel + 1, h, info =>
    let numNode := h.child "num"
    let info := if numNode.has "content" then
        let num := unescape ((numNode.child "content").textOf inp)
        if num ≠ "" then info.setNum num else info
      else info
    let hh := h.child "heading"
    if hh.has "heading_content" && !(hh.child "heading_content").isEmpty then
      let hd := inlineMany inp fuel ((hh.child "heading_content").child "content").kids
      if hd.isEmpty then info else info.setHeading hd
    else info

def toDictAttachment (inp : Array Char) : Nat → Tree → Item
  | 0, _ => oofItem
  | fuel + 1, t =>
    let indented := t.child "indented"
    let kids := if indented.has "content"
      then manyToDict inp fuel ((indented.child "content").kids.map fun c => c.child "hier_block_element") else []
    let kids := kids ++ manyToDict inp fuel ((t.child "content").kids.map fun c => c.child "hier_block_indent")
    let kids := wrapChildren false kids
    let main : Item := .node "element" "mainBody" none (some (if kids.isEmpty then [emptyP] else kids)) none none none none none
    let atts := if indented.has "attachments" && !(indented.child "attachments").isEmpty
      then [toDict inp fuel (indented.child "attachments")] else []
    let info : Item := .node "element" "attachment" (some [("name", asciiLower ((t.child "attachment_marker").textOf inp))])
      (some (main :: atts)) none none none none none
    let info := if (t.child "attrs").isEmpty then info else info.setAttAttribs (blockAttrs inp fuel (t.child "attrs"))
    let heading := t.child "heading"
    let info := if heading.isEmpty then info else
      (if (heading.child "content").isEmpty then info else
        let hd := inlineMany inp fuel (heading.child "content").kids
        if hd.isEmpty then info else info.setHeading hd)
    if !indented.isEmpty && !(indented.child "subheading").isEmpty
    then info.setSubheading (toDictList inp fuel (indented.child "subheading")) else info

def listIntroLike (inp : Array Char) : Nat → Tree → String → Item
  | 0, _, _ => oofItem
  | fuel + 1, t, name =>
    let info := (toDict inp fuel (t.child "line")).setName name
    let fns := (t.child "footnotes").kids
    if fns.isEmpty then info else info.setChildren ((info.children.getD []) ++ fns.map (toDict inp fuel))

def symInline (inp : Array Char) : Nat → Tree → String → Item
  | 0, _, _ => oofItem
  | fuel + 1, t, name =>
    .node "inline" name none (some (inlineMany inp fuel ((t.child "content").kids.map fun x => x.child "inline")))
      none none none none none

def nestedInline (inp : Array Char) : Nat → Tree → String → Attrs → Item
  | 0, _, _, _ => oofItem
  | fuel + 1, t, name, a =>
    .node "inline" name (if a.isEmpty then none else some a)
      (some (inlineMany inp fuel ((t.child "content").kids.map fun x => x.child "inline_nested"))) none none none none none

/-- `to_children()` of nested block wrappers -/
def toChildren (inp : Array Char) : Nat → Tree → List Item
  | 0, _ => [oofItem]
  | fuel + 1, t => manyToDict inp fuel (t.child "content").kids

/-- module-level `many_to_dict` -/
def manyToDict (inp : Array Char) : Nat → List Tree → List Item
  | 0, _ => [oofItem]
  | fuel + 1, items =>
    items.flatMap fun item =>
      match kindOf item with
      | "dict" => [toDict inp fuel item]
      | "children" => toChildren inp fuel item
      | _ => manyToDict inp fuel (item.child "content").kids

/-- `InlineText.many_to_dict`: untyped pieces are text (an escape loses its backslash) and merge;
typed pieces are converted and break the run -/
def inlineMany (inp : Array Char) : Nat → List Tree → List Item
  | 0, _ => [oofItem]
  | fuel + 1, items =>
    let step := fun (st : List Item × List String) (item : Tree) =>
      if kindOf item = "dict" then (flushText st.2 st.1 ++ [toDict inp fuel item], [])
      else
        let s := item.textOf inp
        let s := if s.toList.head? = some '\\' then String.ofList (s.toList.drop 1) else s
        (st.1, st.2 ++ [s])
    let (acc, pending) := items.foldl step ([], [])
    flushText pending acc

/-- `BlockAttrs.to_dict` -/
def blockAttrs (inp : Array Char) : Nat → Tree → Attrs
  | 0, _ => []
  | _ + 1, t =>
    let pairs := t.child "pairs"
    let one : Tree → Attrs := fun a =>
      [((a.child "attr_name").textOf inp, pyStripS ((a.child "value").textOf inp))]
    let attrs : Attrs := if pairs.isEmpty then [] else
      let a0 : Attrs := if (pairs.child "first").isEmpty then [] else one (pairs.child "first")
      (pairs.child "rest").kids.foldl (fun acc el =>
        if (el.child "attr").isEmpty then acc else attrUpdate acc (one (el.child "attr"))) a0
    let classes := if (t.child "classes").isEmpty then [] else
      ((t.child "classes").kids.filter (fun c => (c.textOf inp).length > 1)).map fun c => String.ofList ((c.textOf inp).toList.drop 1)
    if classes.isEmpty then attrs
    else match attrs.lookup "class" with
      | some c => attrSet attrs "class" (c ++ " " ++ " ".intercalate classes)
      | none => attrSet attrs "class" (" ".intercalate classes)
end

end Bluebell
