import Bluebell.Convert
/-!
# Model of `bluebell.cli.main` (decision logic only)

The library functions are parameters: `parse`, the JSON rendering of `to_dict`, and the XML
serialisation of `tree_to_xml`. argparse, file reading, stdout encoding are runtime behaviour outside
the model; the correspondence check runs the real script as a subprocess.
-/
namespace Bluebell

structure CliArgs where
  uri : String
  root : String
  json : Bool := false
  pretty : Bool := false

structure CliResult where
  stdout : String
  exitOk : Bool
deriving Repr, DecidableEq

/-- `main()`: parse; on `ParseError` re-raise (nothing printed to stdout); else print the JSON of the
dict, or the serialised XML (pretty-printed on request), followed by a newline. An exception from
the XML stage propagates too. -/
def cliMain {T : Type} (parse : String → String → Except Err T) (renderJson : T → String)
    (renderXml : T → Bool → Except Err String) (a : CliArgs) (text : String) : CliResult :=
  match parse text a.root with
  | .error _ => { stdout := "", exitOk := false }
  | .ok tree =>
    if a.json then { stdout := renderJson tree ++ "\n", exitOk := true }
    else match renderXml tree a.pretty with
      | .ok s => { stdout := s ++ "\n", exitOk := true }
      | .error _ => { stdout := "", exitOk := false }

end Bluebell
