import Bluebell.Xml
import Bluebell.Gen.Tables
/-!
# Model of `IdGenerator` (xml.py)

State: `counters` ((prefix, name) ↦ n), `eidCounter` (eid ↦ times issued), `mappings` (old ↦ new,
first writer wins).  `ensureUnique` takes fuel; `ensureUnique_fuel` (Lemmas) shows
`eidCounter.length + 2` always suffices, which is what `getEid` passes.
-/
namespace Bluebell

def inRanges (rs : List (Nat × Nat)) (c : Char) : Bool := rs.any fun (lo, hi) => lo ≤ c.toNat && c.toNat ≤ hi

/-- `punct_re.sub('-', s)`: every maximal run of punctuation becomes one hyphen
(`inRun`: the previous character was punctuation). -/
def collapsePunctAux : Bool → List Char → List Char
  | _, [] => []
  | inRun, c :: cs =>
    if inRanges eidPunctRanges c then
      (if inRun then collapsePunctAux true cs else '-' :: collapsePunctAux true cs)
    else c :: collapsePunctAux false cs

def collapsePunct (s : List Char) : List Char := collapsePunctAux false s

/-- `IdGenerator.clean_num` -/
def cleanNum (num : String) : String :=
  let s1 := num.toList.dropWhile (inRanges eidLeadRanges)
  let s2 := (s1.reverse.dropWhile (inRanges eidTrailRanges)).reverse
  let s3 := s2.filter (fun c => !inRanges eidWsRanges c)
  String.ofList (collapsePunct s3)

structure IdState where
  counters : List ((String × String) × Nat) := []
  eidCounter : List (String × Nat) := []
  mappings : List (String × String) := []
deriving Repr, Inhabited

def countOf (m : List (String × Nat)) (k : String) : Nat := (m.lookup k).getD 0

def bump (m : List (String × Nat)) (k : String) : List (String × Nat) :=
  match m with
  | [] => [(k, 1)]
  | (k', n) :: rest => if k' = k then (k', n + 1) :: rest else (k', n) :: bump rest k

def bumpC (m : List ((String × String) × Nat)) (k : String × String) : List ((String × String) × Nat) :=
  match m with
  | [] => [(k, 1)]
  | (k', n) :: rest => if k' = k then (k', n + 1) :: rest else (k', n) :: bumpC rest k

/-- `incr(prefix, name)` -/
def IdState.incr (s : IdState) (pfx name : String) : IdState × Nat :=
  let c := bumpC s.counters (pfx, name)
  ({ s with counters := c }, (c.lookup (pfx, name)).getD 0)

/-- `ensure_unique(eid, nn)` with explicit fuel (returns the candidate when fuel runs out). -/
def ensureUnique : Nat → List (String × Nat) → String → Bool → List (String × Nat) × String
  | 0, m, eid, _ => (m, eid)
  | fuel + 1, m, eid, nn =>
    let m' := bump m eid
    let count := countOf m' eid
    if count = 1 && !nn then (m', eid)
    else ensureUnique fuel m' (eid ++ "_" ++ toString count) false

def aliasOf (name : String) : String := (eidAliases.lookup name).getD name

/-- the cleaned `num` (`if num: num = self.clean_num(num)`) -/
def cleanedNum (num : String) : String := if num ≠ "" then cleanNum num else num

/-- `get_num` given the cleaned num -/
def IdState.getNumC (s : IdState) (pfx name n1 : String) : IdState × String × Bool :=
  if n1 = "" then
    if numExpected.contains name then (s, "nn", true)
    else ((s.incr pfx name).1, toString (s.incr pfx name).2, false)
  else (s, n1, false)

/-- `get_num` -/
def IdState.getNum (s : IdState) (pfx name num : String) : IdState × String × Bool :=
  s.getNumC pfx name (cleanedNum num)

/-- `get_eid` for a tag that is in neither exemption set -/
def IdState.getEid (s : IdState) (pfx name num : String) : IdState × String :=
  let base := (if pfx ≠ "" then pfx ++ "__" else "") ++ aliasOf name
  let (s1, n, nn) := s.getNum pfx name num
  let (m, eid) := ensureUnique (s1.eidCounter.length + 2) s1.eidCounter (base ++ "_" ++ n) nn
  ({ s1 with eidCounter := m }, eid)

def isExempt (tag : String) : Bool := idExempt.contains tag
def passLower (tag : String) : Option String := idPassThrough.lookup tag

/-- the `num` used for an element: text at the start of its first `num` child -/
def numOf (kids : List Xml) : String :=
  match kids.find? (fun k => k.isElem && k.tag == "num") with
  | some n => n.leadText
  | none => ""

def addMapping (m : List (String × String)) (old new : String) : List (String × String) :=
  if (m.lookup old).isSome then m else m ++ [(old, new)]

mutual
/-- `rewrite_eid(element, prefix)` -/
def rewriteEid : Xml → String → IdState → Xml × IdState
  | .text t, _, s => (.text t, s)
  | .elem tag attrs kids, pfx, s =>
    if tag = "meta" then (.elem tag attrs kids, s)
    else
      match passLower tag with
      | some low =>
        let pfx' := if pfx ≠ "" then pfx ++ "__" ++ low else low
        let (kids', s') := rewriteKids kids pfx' s
        (.elem tag attrs kids', s')
      | none =>
        if isExempt tag then
          let (kids', s') := rewriteKids kids pfx s
          (.elem tag attrs kids', s')
        else
          let old := (attrs.lookup "eId").getD ""
          let (s1, new) := s.getEid pfx tag (numOf kids)
          let attrs' := if old ≠ new then Xml.setAttrList "eId" new attrs else attrs
          let s2 := if old ≠ new ∧ old ≠ "" then { s1 with mappings := addMapping s1.mappings old new } else s1
          let (kids', s') := rewriteKids kids new s2
          (.elem tag attrs' kids', s')
def rewriteKids : List Xml → String → IdState → List Xml × IdState
  | [], _, s => ([], s)
  | k :: ks, pfx, s =>
    let (k', s1) := rewriteEid k pfx s
    let (ks', s2) := rewriteKids ks pfx s1
    (k' :: ks', s2)
end

/-- `rewrite_all_eids(element, prefix)` on a generator in any state: reset first. -/
def rewriteAll (x : Xml) (pfx : String) : Xml × List (String × String) :=
  let (x', s) := rewriteEid x pfx {}
  (x', s.mappings)

end Bluebell
