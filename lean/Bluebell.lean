import Bluebell.Peg.Syntax
import Bluebell.Peg.Eval
