import Lean.Data.Json
import Bluebell.Driver
open Lean

/-- Line-protocol driver: one JSON request per line on stdin, one JSON response per line. -/
partial def loop (h : IO.FS.Stream) (out : IO.FS.Stream) : IO Unit := do
  let line ← h.getLine
  if line.isEmpty then return ()
  let resp : Json :=
    match Json.parse line with
    | .error e => Json.mkObj [("error", Json.str s!"bad-json: {e}")]
    | .ok j => Bluebell.Driver.handle j
  out.putStrLn resp.compress
  out.flush
  loop h out

def main : IO Unit := do
  loop (← IO.getStdin) (← IO.getStdout)
