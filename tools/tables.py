"""T3: constants and tables read from the repository's sources with `ast` (data only, no control flow).

generate(repo) -> (lean_text, info). Every value is read from the working tree at `repo`.
"""
import ast, os, re
from peggrammar import lean_str, lean_chars, lean_strs, class_of_body, TranslateError


def _module(path):
    return ast.parse(open(path, encoding='utf-8').read())


def _assigns(body):
    """name -> value node for simple `name = value` statements in a body."""
    out = {}
    for st in body:
        if isinstance(st, ast.Assign) and len(st.targets) == 1 and isinstance(st.targets[0], ast.Name):
            out[st.targets[0].id] = st.value
        elif isinstance(st, ast.AnnAssign) and isinstance(st.target, ast.Name) and st.value is not None:
            out[st.target.id] = st.value
    return out


def _classes(mod):
    return {st.name: st for st in mod.body if isinstance(st, ast.ClassDef)}


def _re_pattern(node):
    """Pattern and flags of a `re.compile(<literal>[, flags])` call node."""
    if not (isinstance(node, ast.Call) and isinstance(node.func, ast.Attribute) and node.func.attr == 'compile'):
        raise TranslateError('expected re.compile(...)')
    pat = ast.literal_eval(node.args[0])
    flags = ast.unparse(node.args[1]) if len(node.args) > 1 else ''
    return pat, flags


def lean_pairs(pairs):
    return '[' + ', '.join(f'({lean_str(a)}, {lean_str(b)})' for a, b in pairs) + ']'


def parser_consts(repo, info):
    mod = _module(os.path.join(repo, 'bluebell', 'parser.py'))
    top = _assigns(mod.body)
    cls = _classes(mod)
    indent = ast.literal_eval(top['INDENT'])
    dedent = ast.literal_eval(top['DEDENT'])
    aliases = ast.literal_eval(top['ROOT_ALIASES'])
    pa = _assigns(cls['Parser'].body)
    pat, flags = _re_pattern(pa['NON_INLINE_START_RE'])
    if flags:
        raise TranslateError(f'NON_INLINE_START_RE has flags {flags}')
    m = re.fullmatch(r'\[((?:[^\]\\]|\\.)*)\]\+', pat, re.S)
    if not m:
        raise TranslateError(f'NON_INLINE_START_RE {pat!r} is not of the form [class]+')
    oc = class_of_body(m.group(1))
    ap = _assigns(cls['AkomaNtosoParser'].body)
    indent_size = ast.literal_eval(ap['indent_size'])
    line_re, line_flags = _re_pattern(ap['line_re'])
    tw_re, tw_flags = _re_pattern(ap['trailing_ws_re'])
    for name, v in (('indent', ap.get('indent')), ('dedent', ap.get('dedent'))):
        if not (isinstance(v, ast.Name) and v.id == name.upper()):
            raise TranslateError(f'AkomaNtosoParser.{name} is not {name.upper()}')
    if len(indent) != 1 or len(dedent) != 1:
        raise TranslateError('INDENT/DEDENT are not single characters')
    info['parser'] = {'indent': ord(indent), 'dedent': ord(dedent), 'indent_size': indent_size, 'aliases': aliases,
                      'override_class': oc, 'line_re': [line_re, line_flags], 'trailing_ws_re': [tw_re, tw_flags]}
    L = []
    L.append('/-- `INDENT` / `DEDENT` of parser.py -/')
    L.append(f'def indentChar : Char := Char.ofNat {ord(indent)}')
    L.append(f'def dedentChar : Char := Char.ofNat {ord(dedent)}')
    L.append(f'def indentSizeDefault : Nat := {int(indent_size)}')
    L.append(f'def rootAliases : List (String × String) := {lean_pairs(sorted(aliases.items()))}')
    L.append('/-- character class of `Parser.NON_INLINE_START_RE` (`[class]+`) -/')
    L.append(f'def overrideNeg : Bool := {"true" if oc[1] else "false"}')
    L.append(f'def overrideCls : List Char := {lean_chars(oc[2])}')
    L.append(f'def lineRePattern : String := {lean_str(line_re)}')
    L.append(f'def lineReFlags : String := {lean_str(line_flags)}')
    L.append(f'def trailingWsRePattern : String := {lean_str(tw_re)}')
    L.append(f'def trailingWsReFlags : String := {lean_str(tw_flags)}')
    return '\n'.join(L) + '\n'


def runtime_tables(info):
    """Tables of the running interpreter (the one the library runs under): str.isspace, re \\s."""
    import re as _re
    import sys
    isspace = [cp for cp in range(sys.maxunicode + 1) if chr(cp).isspace()]
    ws = _re.compile(r'\s')
    re_s = [cp for cp in range(sys.maxunicode + 1) if ws.match(chr(cp))]
    info['runtime'] = {'isspace': isspace, 're_s': re_s}
    L = ['/-- code points for which the running interpreter\'s `str.isspace` is true -/',
         'def pyIsSpaceCodes : List Nat := [' + ', '.join(map(str, isspace)) + ']',
         '/-- code points matched by the running interpreter\'s regular-expression class `\\s` (str patterns) -/',
         'def pyReSpaceCodes : List Nat := [' + ', '.join(map(str, re_s)) + ']']
    return '\n'.join(L) + '\n'


def generate(repo):
    info = {}
    parts = ['import Bluebell.Peg.Syntax\nnamespace Bluebell\n']
    parts.append(parser_consts(repo, info))
    parts.append(runtime_tables(info))
    parts.append('end Bluebell\n')
    return '\n'.join(parts), info
