"""T3: constants and tables read from the repository's sources with `ast` (data only, no control flow).

generate(repo) -> (lean_text, info). Every value is read from the working tree at `repo`.
"""
import ast, os, re
from peggrammar import lean_str, lean_chars, lean_strs, class_of_body, TranslateError


def _module(path):
    return ast.parse(open(path, encoding='utf-8').read())


def _assigns(body):
    """name -> value node for simple `name = value` statements in a body."""
    out = {}
    for st in body:
        if isinstance(st, ast.Assign) and len(st.targets) == 1 and isinstance(st.targets[0], ast.Name):
            out[st.targets[0].id] = st.value
        elif isinstance(st, ast.AnnAssign) and isinstance(st.target, ast.Name) and st.value is not None:
            out[st.target.id] = st.value
    return out


def _classes(mod):
    return {st.name: st for st in mod.body if isinstance(st, ast.ClassDef)}


def _re_pattern(node):
    """Pattern and flags of a `re.compile(<literal>[, flags])` call node."""
    if not (isinstance(node, ast.Call) and isinstance(node.func, ast.Attribute) and node.func.attr == 'compile'):
        raise TranslateError('expected re.compile(...)')
    pat = ast.literal_eval(node.args[0])
    flags = ast.unparse(node.args[1]) if len(node.args) > 1 else ''
    return pat, flags


def lean_pairs(pairs):
    return '[' + ', '.join(f'({lean_str(a)}, {lean_str(b)})' for a, b in pairs) + ']'


def _import_repo(repo, name):
    """Import `bluebell.<name>` from the working tree at `repo` (this process imports bluebell from nowhere else)."""
    import sys, importlib
    if sys.path[0] != repo:
        sys.path.insert(0, repo)
    m = importlib.import_module('bluebell.' + name)
    f = os.path.realpath(getattr(m, '__file__', ''))
    if not f.startswith(os.path.realpath(repo) + os.sep):
        raise TranslateError(f'bluebell.{name} was imported from {f}, not from {repo}')
    return m


_FLAG_NAMES = [(re.I, 're.I'), (re.M, 're.M'), (re.S, 're.S'), (re.X, 're.X'), (re.A, 're.A'), (re.L, 're.L')]


def _compiled(p):
    """(pattern, flags-as-written) of a compiled regular expression object; re.UNICODE is implicit for str patterns."""
    if not isinstance(p, re.Pattern):
        raise TranslateError(f'expected a compiled regular expression, got {type(p).__name__}')
    return p.pattern, '|'.join(n for f, n in _FLAG_NAMES if p.flags & f)


def parser_consts(repo, info):
    """Constants of parser.py, read from the imported module (so moving a constant, or building it differently,
    is not a change; a different value is)."""
    P = _import_repo(repo, 'parser')
    indent, dedent, aliases = P.INDENT, P.DEDENT, dict(P.ROOT_ALIASES)
    pat, flags = _compiled(P.Parser.NON_INLINE_START_RE)
    m = None if flags else re.fullmatch(r'\[((?:[^\]\\]|\\.)*)\]\+', pat, re.S)
    if m:
        oc = class_of_body(m.group(1))
    else:
        # not written as `[class]+`: read the class off the compiled expression's behaviour on single characters (that the
        # expression matches maximal runs of that class is then validated by the rule-level tie of C10 on every run)
        import sys
        rx = P.Parser.NON_INLINE_START_RE
        out_ = [chr(cp) for cp in range(sys.maxunicode + 1) if not 0xD800 <= cp <= 0xDFFF and not rx.fullmatch(chr(cp))]
        if len(out_) > 64:
            raise TranslateError(f'NON_INLINE_START_RE {pat!r} is not of the form [class]+ and does not behave like a small negated class')
        if rx.fullmatch('ab' * 40) is None or any(rx.match(c + 'a') for c in out_):
            raise TranslateError(f'NON_INLINE_START_RE {pat!r} does not match runs of a negated class')
        oc = ['class', True, ''.join(out_)]
    A = P.AkomaNtosoParser
    indent_size = A.indent_size
    line_re, line_flags = _compiled(A.line_re)
    tw_re, tw_flags = _compiled(A.trailing_ws_re)
    if A.indent != indent or A.dedent != dedent:
        raise TranslateError('AkomaNtosoParser.indent/dedent are not INDENT/DEDENT')
    if not (isinstance(indent, str) and isinstance(dedent, str) and len(indent) == 1 and len(dedent) == 1):
        raise TranslateError('INDENT/DEDENT are not single characters')
    if not (isinstance(indent_size, int) and indent_size >= 1):
        raise TranslateError(f'indent_size {indent_size!r} is not a positive integer')
    info['parser'] = {'indent': ord(indent), 'dedent': ord(dedent), 'indent_size': indent_size, 'aliases': aliases,
                      'override_class': oc, 'line_re': [line_re, line_flags], 'trailing_ws_re': [tw_re, tw_flags]}
    L = []
    L.append('/-- `INDENT` / `DEDENT` of parser.py -/')
    L.append(f'def indentChar : Char := Char.ofNat {ord(indent)}')
    L.append(f'def dedentChar : Char := Char.ofNat {ord(dedent)}')
    L.append(f'def indentSizeDefault : Nat := {int(indent_size)}')
    L.append(f'def rootAliases : List (String × String) := {lean_pairs(sorted(aliases.items()))}')
    L.append('/-- character class of `Parser.NON_INLINE_START_RE` (`[class]+`) -/')
    L.append(f'def overrideNeg : Bool := {"true" if oc[1] else "false"}')
    L.append(f'def overrideCls : List Char := {lean_chars(oc[2])}')
    L.append(f'def lineRePattern : String := {lean_str(line_re)}')
    L.append(f'def lineReFlags : String := {lean_str(line_flags)}')
    L.append(f'def trailingWsRePattern : String := {lean_str(tw_re)}')
    L.append(f'def trailingWsReFlags : String := {lean_str(tw_flags)}')
    return '\n'.join(L) + '\n'


def _runtime_cache(out_dir):
    """Tables of the running interpreter / lxml (not of the repository): cached by version."""
    import sys, json
    try:
        import lxml.etree as ET
        lv = ET.__version__ + '/' + '.'.join(map(str, ET.LIBXML_VERSION))
    except Exception:
        ET, lv = None, 'none'
    key = sys.version + '|' + lv
    path = os.path.join(out_dir, 'runtime_cache.json')
    try:
        c = json.load(open(path))
        if c.get('key') == key:
            return c
    except Exception:
        pass
    import re as _re
    c = {'key': key}
    c['isspace'] = [cp for cp in range(sys.maxunicode + 1) if chr(cp).isspace()]
    ws = _re.compile(r'\s')
    c['re_s'] = [cp for cp in range(sys.maxunicode + 1) if ws.match(chr(cp))]
    w = _re.compile(r'\w')
    c['re_w'] = _ranges([cp for cp in range(sys.maxunicode + 1) if w.match(chr(cp))])
    start, namec, textok = [], [], []
    if ET is not None:
        for cp in range(sys.maxunicode + 1):
            if 0xD800 <= cp <= 0xDFFF:
                continue
            ch = chr(cp)
            e = ET.Element('a')
            try:
                e.set(ch, '')
                start.append(cp)
            except ValueError:
                pass
            try:
                e.set('a' + ch, '')
                namec.append(cp)
            except ValueError:
                pass
            try:
                e.text = ch
                textok.append(cp)
            except ValueError:
                pass
    c['name_start'] = _ranges(start)
    c['name_char'] = _ranges(namec)
    c['text_ok'] = _ranges(textok)
    with open(path, 'w') as f:
        json.dump(c, f)
    return c


def runtime_tables(info, out_dir):
    """Tables of the running interpreter (the one the library runs under): str.isspace, re whitespace and word classes,
    and lxml's acceptance of attribute-name and text characters."""
    c = _runtime_cache(out_dir)
    info['runtime'] = {'key': c['key'], 'isspace': c['isspace'], 're_s': c['re_s']}
    L = ["/-- code points for which the running interpreter's `str.isspace` is true -/",
         'def pyIsSpaceCodes : List Nat := [' + ', '.join(map(str, c['isspace'])) + ']',
         "/-- code points matched by the running interpreter's regular-expression class `\\s` (str patterns) -/",
         'def pyReSpaceCodes : List Nat := [' + ', '.join(map(str, c['re_s'])) + ']',
         '/-- `\\w` of the running interpreter -/',
         f'def pyWordRanges : List (Nat × Nat) := {lean_ranges(c["re_w"])}',
         '/-- lxml: characters accepted as first / later character of an attribute name, and in text -/',
         f'def xmlNameStartRanges : List (Nat × Nat) := {lean_ranges(c["name_start"])}',
         f'def xmlNameCharRanges : List (Nat × Nat) := {lean_ranges(c["name_char"])}',
         f'def xmlTextOkRanges : List (Nat × Nat) := {lean_ranges(c["text_ok"])}']
    return '\n'.join(L) + '\n'


def _ranges(codes):
    out = []
    for c in codes:
        if out and out[-1][1] == c - 1:
            out[-1][1] = c
        else:
            out.append([c, c])
    return out


def lean_ranges(r):
    return '[' + ', '.join(f'({a}, {b})' for a, b in r) + ']'


def _class_shape(pat, flags, begin, end):
    """Check with the interpreter's own regex parser that `pat` is `^?[class]+$?` and return the
    code points of the class (computed by matching every code point with the running `re`)."""
    import re as _re
    import sys
    if flags:
        raise TranslateError(f'regex {pat!r} has flags {flags}')
    try:
        tree = list(_re._parser.parse(pat))
    except Exception as ex:
        raise TranslateError(f'cannot parse regex {pat!r}: {ex}')
    ops = [str(op) for op, _ in tree]
    want = (['AT'] if begin else []) + ['MAX_REPEAT'] + (['AT'] if end else [])
    if ops != want:
        raise TranslateError(f'regex {pat!r} has shape {ops}, expected {want}')
    rep = tree[1 if begin else 0][1]
    if rep[0] != 1 or str(rep[1]) != 'MAXREPEAT' or [str(o) for o, _ in rep[2]] not in (['IN'], ['LITERAL'], ['NOT_LITERAL']):
        raise TranslateError(f'regex {pat!r}: repetition is not class+')
    c = _re.compile(pat)
    return [cp for cp in range(sys.maxunicode + 1) if c.fullmatch(chr(cp))]


def _str_set(node):
    """`set("a b c".split())`, a set/list/tuple literal of strings."""
    if isinstance(node, ast.Call) and isinstance(node.func, ast.Name) and node.func.id in ('set', 'frozenset') and len(node.args) == 1:
        node = node.args[0]
    if isinstance(node, ast.Call) and isinstance(node.func, ast.Attribute) and node.func.attr == 'split' and not node.args:
        return sorted(set(ast.literal_eval(node.func.value).split()))
    return sorted(set(ast.literal_eval(node)))


def _clean_num_classes_by_behaviour(G):
    """Fallback when the four regular expressions of clean_num are not written in the shape `^[c]+`, `[c]+$`, `[c]`,
    `[c]+`: take the classes from what the compiled expressions *do* to every single code point, then check on many
    strings that clean_num behaves as the model assumes for those classes (strip leading run, strip trailing run, delete
    whitespace, collapse each remaining run of punctuation into one hyphen). Any disagreement is a translator error."""
    import sys, random
    cps = [chr(cp) for cp in range(sys.maxunicode + 1) if not 0xD800 <= cp <= 0xDFFF]
    lead = [ord(c) for c in cps if G.leading_punct_re.sub('', c) == '']
    trail = [ord(c) for c in cps if G.trailing_punct_re.sub('', c) == '']
    ws = [ord(c) for c in cps if G.whitespace_re.sub('', c) == '']
    punct = [ord(c) for c in cps if G.punct_re.sub('-', c) == '-' and c != '-'] + ([ord('-')] if G.punct_re.sub('x', '-') == 'x' else [])
    punct = sorted(set(punct))
    L, T, W, P = set(lead), set(trail), set(ws), set(punct)

    def ref(s):
        cs = [ord(c) for c in s]
        while cs and cs[0] in L:
            cs.pop(0)
        while cs and cs[-1] in T:
            cs.pop()
        cs = [c for c in cs if c not in W]
        out = []
        for c in cs:
            if c in P:
                if not (out and out[-1] == -1):
                    out.append(-1)
            else:
                out.append(c)
        return ''.join('-' if c == -1 else chr(c) for c in out)
    rnd = random.Random(12345)
    alpha = [chr(c) for c in (lead[:6] + trail[-6:] + ws[:6] + punct[:6] + punct[-6:])] + list('aZ1-_.() \t\n') + ['\u2014', '\u00a0', '\u3000']
    g = G()
    for _ in range(6000):
        s_ = ''.join(rnd.choice(alpha) for _ in range(rnd.randint(0, 8)))
        if g.clean_num(s_) != ref(s_):
            raise TranslateError(f'clean_num({s_!r}) = {g.clean_num(s_)!r}, the modelled shape gives {ref(s_)!r}')
    return lead, trail, ws, punct


def xml_consts(repo, info):
    import re as _re
    import sys
    X = _import_repo(repo, 'xml')
    G = X.IdGenerator
    try:
        lead = _class_shape(*_compiled(G.leading_punct_re), True, False)
        trail = _class_shape(*_compiled(G.trailing_punct_re), False, True)
        punct = _class_shape(*_compiled(G.punct_re), False, False)
        wpat, wflags = _compiled(G.whitespace_re)
        if wflags:
            raise TranslateError('whitespace_re has flags')
        wtree = [str(op) for op, _ in _re._parser.parse(wpat)]
        if wtree != ['IN'] and wtree != ['LITERAL']:
            raise TranslateError(f'whitespace_re {wpat!r} is not a single character class')
        wc = _re.compile(wpat)
        ws = [cp for cp in range(sys.maxunicode + 1) if wc.fullmatch(chr(cp))]
        info['clean_num_classes'] = 'read from the regular expressions'
    except (TranslateError, AttributeError) as ex:
        lead, trail, ws, punct = _clean_num_classes_by_behaviour(G)
        info['clean_num_classes'] = f'by behaviour (syntactic reading failed: {ex})'
    exempt = sorted(set(G.id_exempt))
    passthru = sorted(set(G.id_exempt_but_pass_to_children))
    numexp = sorted(set(G.num_expected))
    aliases = dict(G.aliases)
    info['xml'] = {'id_exempt': exempt, 'pass_through': passthru, 'num_expected': numexp, 'aliases': aliases,
                   'lead': _ranges(lead), 'trail': _ranges(trail), 'punct': _ranges(punct), 'ws': _ranges(ws)}
    L = ['/-- `IdGenerator.id_exempt` -/',
         f'def idExempt : List String := {lean_strs(exempt)}',
         '/-- `IdGenerator.id_exempt_but_pass_to_children`, each with its `str.lower()` -/',
         f'def idPassThrough : List (String × String) := {lean_pairs([(x, x.lower()) for x in passthru])}',
         f'def numExpected : List String := {lean_strs(numexp)}',
         f'def eidAliases : List (String × String) := {lean_pairs(sorted(aliases.items()))}',
         '/-- code point ranges matched by leading_punct_re / trailing_punct_re / whitespace_re / punct_re (single characters) -/',
         f'def eidLeadRanges : List (Nat × Nat) := {lean_ranges(_ranges(lead))}',
         f'def eidTrailRanges : List (Nat × Nat) := {lean_ranges(_ranges(trail))}',
         f'def eidWsRanges : List (Nat × Nat) := {lean_ranges(_ranges(ws))}',
         f'def eidPunctRanges : List (Nat × Nat) := {lean_ranges(_ranges(punct))}']
    return '\n'.join(L) + '\n'


def lean_attr_table(t):
    """{key: {a: v}} -> Lean List (String × List (String × String))"""
    return '[' + ', '.join(f'({lean_str(k)}, {lean_pairs(list(v.items()))})' for k, v in t.items()) + ']'


def types_consts(repo, info):
    """Class-level tables of types.py, read from the module itself (imported by path; attribute
    lookup follows Python's own MRO, so moving a table to a base class is not a change)."""
    import importlib.util
    path = os.path.join(repo, 'bluebell', 'types.py')
    spec = importlib.util.spec_from_file_location('_bluebell_types_under_test', path)
    T = importlib.util.module_from_spec(spec)
    spec.loader.exec_module(T)
    # the type annotations of the parsed grammar (not a regex over the file: comments may mention <b> and the like)
    from peggrammar import read_peg

    def _types(e, acc):
        if isinstance(e, (list, tuple)):
            if e and e[0] == 'type':
                acc.add(e[1])
            for x in e:
                _types(x, acc)
        return acc
    grammar_types = sorted(_types(list(read_peg(os.path.join(repo, 'bluebell', 'akn.peg')).values()), set()))
    missing = [t for t in grammar_types if not hasattr(T, t)]
    if missing:
        raise TranslateError(f'types.py lacks classes used by the grammar: {missing}')
    roots, mains, blockind, inl, kinds = [], [], [], [], []
    for t in grammar_types:
        c = getattr(T, t)
        kinds.append((t, 'dict' if hasattr(c, 'to_dict') else 'children' if hasattr(c, 'to_children') else 'none'))
        if issubclass(c, T.DocumentRoot):
            roots.append((t, c.name, list(c.children), sorted(c.required_children), bool(getattr(c, 'is_root', False))))
        if issubclass(c, T.MainContentElement):
            mains.append((t, str(c.name), c.content_element))
        if issubclass(c, T.BlockIndentElement):
            blockind.append((t, c.name))
        if issubclass(c, T.Inline) and not issubclass(c, T.StandardInline):
            inl.append((t, c.name, dict(c.default_attribs)))
    info['types'] = {'kinds': kinds, 'roots': roots}
    L = []
    L.append('/-- grammar type ↦ has `to_dict` / `to_children` / neither -/')
    L.append(f'def typeKinds : List (String × String) := {lean_pairs(kinds)}')
    L.append('/-- document roots: type ↦ (element name, children in order, required children, is_root) -/')
    L.append('def rootTable : List (String × String × List String × List String × Bool) := ['
             + ', '.join(f'({lean_str(t)}, {lean_str(n)}, {lean_strs(ch)}, {lean_strs(rq)}, {"true" if ir else "false"})' for t, n, ch, rq, ir in roots) + ']')
    L.append('def mainContentTable : List (String × String × String) := ['
             + ', '.join(f'({lean_str(t)}, {lean_str(n)}, {lean_str(ce)})' for t, n, ce in mains) + ']')
    L.append(f'def blockIndentTable : List (String × String) := {lean_pairs(blockind)}')
    L.append('def inlineTable : List (String × String × List (String × String)) := ['
             + ', '.join(f'({lean_str(t)}, {lean_str(n)}, {lean_pairs(list(d.items()))})' for t, n, d in inl) + ']')
    L.append(f'def hierSynonyms : List (String × String) := {lean_pairs(list(T.HierElement.synonyms.items()))}')
    L.append(f'def speechSynonyms : List (String × String) := {lean_pairs(list(T.SpeechContainer.synonyms.items()))}')
    L.append(f'def speechGroupSynonyms : List (String × String) := {lean_pairs(list(T.SpeechGroup.synonyms.items()))}')
    L.append(f'def tableCellNames : List (String × String) := {lean_pairs(list(T.TableCell.names.items()))}')
    L.append(f'def stdInlineDefaults : List (String × List (String × String)) := {lean_attr_table(T.StandardInline.default_attribs)}')
    L.append(f'def hierTypeName : String := {lean_str(T.HierElement.type)}')
    L.append(f'def speechTypeName : String := {lean_str(T.SpeechContainer.type)}')
    L.append(f'def escapeRePattern : String := {lean_str(T.ESCAPE_RE.pattern)}')
    L.append(f'def byNonLettersPattern : String := {lean_str(T.SpeechGroup.non_letters_re.pattern)}')
    # str.lower / upper on the keyword alphabet is the ASCII map (checked, not assumed)
    import string
    ok = all(c.lower() == chr(ord(c) + 32) for c in string.ascii_uppercase) and all(c.upper() == chr(ord(c) - 32) for c in string.ascii_lowercase)
    L.append(f'def asciiCaseMapOk : Bool := {"true" if ok else "false"}')
    return '\n'.join(L) + '\n'


def xsl_consts(repo, info):
    """Tables of akn_text.xsl: preserve-space list, the escape-prefixes keyword list (equals / starts-with),
    the match lists of the container, hierarchical and generic-inline templates, the synonym keywords."""
    import xml.etree.ElementTree as ET
    XSL = '{http://www.w3.org/1999/XSL/Transform}'
    root = ET.parse(os.path.join(repo, 'bluebell', 'akn_text.xsl')).getroot()

    def names(s):
        return [x.strip().replace('a:', '') for x in re.split(r'[\s|]+', s.strip()) if x.strip()]
    pres = root.find(XSL + 'preserve-space')
    strip = root.find(XSL + 'strip-space')
    if pres is None or strip is None or strip.get('elements').strip() != '*':
        raise TranslateError('akn_text.xsl: expected strip-space * and a preserve-space list')
    preserve = names(pres.get('elements'))
    esc = next((t for t in root.findall(XSL + 'template') if t.get('name') == 'escape-prefixes'), None)
    if esc is None:
        raise TranslateError('akn_text.xsl: no escape-prefixes template')
    tests = [i.get('test') for i in esc.iter(XSL + 'if')]
    if len(tests) != 1:
        raise TranslateError('escape-prefixes: expected a single xsl:if')
    test = tests[0]
    equals = re.findall(r"\$text\s*=\s*'([^']*)'", test)
    starts = re.findall(r"starts-with\(\$text,\s*'([^']*)'\)", test)
    rest = re.sub(r"\$text\s*=\s*'[^']*'|starts-with\(\$text,\s*'[^']*'\)|\bor\b|\s", '', test)
    if rest:
        raise TranslateError(f'escape-prefixes: unrecognised condition parts {rest[:60]!r}')
    tm = {}
    for t in root.findall(XSL + 'template'):
        m = t.get('match')
        if not m:
            continue
        ns = names(m)
        if 'arguments' in ns and 'preface' in ns:
            tm['containers'] = ns
        elif 'body' in ns and 'mainBody' in ns:
            tm['bodies'] = ns
        elif 'article' in ns and 'section' in ns:
            tm['hier'] = ns
            syn = []
            for w in t.iter(XSL + 'when'):
                mm = re.fullmatch(r'self::a:(\w+)', w.get('test', ''))
                txt = w.find(XSL + 'text')
                if mm and txt is not None:
                    syn.append((mm.group(1), txt.text))
            tm['hier_synonyms'] = syn
        elif 'abbr' in ns and 'term' in ns:
            tm['inlines'] = ns
        elif 'scene' in ns and 'narrative' in ns:
            tm['speech_blocks'] = ns
        elif 'meta' in ns:
            tm['ignored'] = ns
    for k in ('containers', 'bodies', 'hier', 'inlines', 'speech_blocks', 'ignored', 'hier_synonyms'):
        if k not in tm:
            raise TranslateError(f'akn_text.xsl: template for {k} not found')
    info['xsl'] = {'preserve': preserve, 'equals': equals, 'starts': starts, **{k: v for k, v in tm.items()}}
    L = [f'def xslPreserveSpace : List String := {lean_strs(preserve)}',
         f'def xslEscapeEquals : List String := {lean_strs(equals)}',
         f'def xslEscapeStarts : List String := {lean_strs(starts)}',
         f'def xslContainers : List String := {lean_strs(tm["containers"])}',
         f'def xslBodies : List String := {lean_strs(tm["bodies"])}',
         f'def xslHier : List String := {lean_strs(tm["hier"])}',
         f'def xslHierSynonyms : List (String × String) := {lean_pairs(tm["hier_synonyms"])}',
         f'def xslInlines : List String := {lean_strs(tm["inlines"])}',
         f'def xslSpeechBlocks : List String := {lean_strs(tm["speech_blocks"])}',
         f'def xslIgnored : List String := {lean_strs(tm["ignored"])}']
    return '\n'.join(L) + '\n'


def readme_consts(repo, info):
    """The published contract of the intermediate tree: the node types listed under 'Valid types:' and the keys named in
    the section 'Intermediate output structure' of README.md (keys of the first code block and back-quoted identifiers
    at the start of a bullet)."""
    text = open(os.path.join(repo, 'README.md'), encoding='utf-8').read()
    m = re.search(r'^## Intermediate output structure\n(.*?)(?=^## )', text, re.S | re.M)
    if not m:
        raise TranslateError('README.md: section "Intermediate output structure" not found')
    sec = m.group(1)
    vt = re.search(r'^Valid types:\n\n((?:\* [^\n]*\n)+)', sec, re.M)
    if not vt:
        raise TranslateError('README.md: "Valid types:" list not found')
    types_ = re.findall(r'^\* `(\w+)`', vt.group(1), re.M)
    code = re.search(r'```\n(.*?)```', sec, re.S)
    keys = set(re.findall(r'^\s*(\w+):', code.group(1), re.M)) if code else set()
    keys -= {'key1', 'key2'}
    rest = sec.replace(vt.group(1), '')
    keys |= set(re.findall(r'^\* `(\w+)`:', rest, re.M))
    keys |= set(re.findall(r'`(value|text)` attribute', rest))
    info['readme'] = {'types': types_, 'keys': sorted(keys)}
    return (f'/-- README.md, "Intermediate output structure": documented node types and keys -/\n'
            f'def readmeTypes : List String := {lean_strs(types_)}\n'
            f'def readmeKeys : List String := {lean_strs(sorted(keys))}\n')


def generate(repo, out_dir=None):
    info = {}
    out_dir = out_dir or os.path.join(os.path.dirname(os.path.abspath(__file__)), '..', 'lean', 'Bluebell', 'Gen')
    parts = ['import Bluebell.Peg.Syntax\nnamespace Bluebell\n']
    parts.append(parser_consts(repo, info))
    parts.append(runtime_tables(info, out_dir))
    parts.append(xml_consts(repo, info))
    parts.append(types_consts(repo, info))
    parts.append(xsl_consts(repo, info))
    parts.append(readme_consts(repo, info))
    parts.append('end Bluebell\n')
    return '\n'.join(parts), info
