"""T3: constants and tables read from the repository's sources with `ast` (data only, no control flow).

generate(repo) -> (lean_text, info). Every value is read from the working tree at `repo`.
"""
import ast, os, re
from peggrammar import lean_str, lean_chars, lean_strs, class_of_body, TranslateError


def _module(path):
    return ast.parse(open(path, encoding='utf-8').read())


def _assigns(body):
    """name -> value node for simple `name = value` statements in a body."""
    out = {}
    for st in body:
        if isinstance(st, ast.Assign) and len(st.targets) == 1 and isinstance(st.targets[0], ast.Name):
            out[st.targets[0].id] = st.value
        elif isinstance(st, ast.AnnAssign) and isinstance(st.target, ast.Name) and st.value is not None:
            out[st.target.id] = st.value
    return out


def _classes(mod):
    return {st.name: st for st in mod.body if isinstance(st, ast.ClassDef)}


def _re_pattern(node):
    """Pattern and flags of a `re.compile(<literal>[, flags])` call node."""
    if not (isinstance(node, ast.Call) and isinstance(node.func, ast.Attribute) and node.func.attr == 'compile'):
        raise TranslateError('expected re.compile(...)')
    pat = ast.literal_eval(node.args[0])
    flags = ast.unparse(node.args[1]) if len(node.args) > 1 else ''
    return pat, flags


def lean_pairs(pairs):
    return '[' + ', '.join(f'({lean_str(a)}, {lean_str(b)})' for a, b in pairs) + ']'


def parser_consts(repo, info):
    mod = _module(os.path.join(repo, 'bluebell', 'parser.py'))
    top = _assigns(mod.body)
    cls = _classes(mod)
    indent = ast.literal_eval(top['INDENT'])
    dedent = ast.literal_eval(top['DEDENT'])
    aliases = ast.literal_eval(top['ROOT_ALIASES'])
    pa = _assigns(cls['Parser'].body)
    pat, flags = _re_pattern(pa['NON_INLINE_START_RE'])
    if flags:
        raise TranslateError(f'NON_INLINE_START_RE has flags {flags}')
    m = re.fullmatch(r'\[((?:[^\]\\]|\\.)*)\]\+', pat, re.S)
    if not m:
        raise TranslateError(f'NON_INLINE_START_RE {pat!r} is not of the form [class]+')
    oc = class_of_body(m.group(1))
    ap = _assigns(cls['AkomaNtosoParser'].body)
    indent_size = ast.literal_eval(ap['indent_size'])
    line_re, line_flags = _re_pattern(ap['line_re'])
    tw_re, tw_flags = _re_pattern(ap['trailing_ws_re'])
    for name, v in (('indent', ap.get('indent')), ('dedent', ap.get('dedent'))):
        if not (isinstance(v, ast.Name) and v.id == name.upper()):
            raise TranslateError(f'AkomaNtosoParser.{name} is not {name.upper()}')
    if len(indent) != 1 or len(dedent) != 1:
        raise TranslateError('INDENT/DEDENT are not single characters')
    info['parser'] = {'indent': ord(indent), 'dedent': ord(dedent), 'indent_size': indent_size, 'aliases': aliases,
                      'override_class': oc, 'line_re': [line_re, line_flags], 'trailing_ws_re': [tw_re, tw_flags]}
    L = []
    L.append('/-- `INDENT` / `DEDENT` of parser.py -/')
    L.append(f'def indentChar : Char := Char.ofNat {ord(indent)}')
    L.append(f'def dedentChar : Char := Char.ofNat {ord(dedent)}')
    L.append(f'def indentSizeDefault : Nat := {int(indent_size)}')
    L.append(f'def rootAliases : List (String × String) := {lean_pairs(sorted(aliases.items()))}')
    L.append('/-- character class of `Parser.NON_INLINE_START_RE` (`[class]+`) -/')
    L.append(f'def overrideNeg : Bool := {"true" if oc[1] else "false"}')
    L.append(f'def overrideCls : List Char := {lean_chars(oc[2])}')
    L.append(f'def lineRePattern : String := {lean_str(line_re)}')
    L.append(f'def lineReFlags : String := {lean_str(line_flags)}')
    L.append(f'def trailingWsRePattern : String := {lean_str(tw_re)}')
    L.append(f'def trailingWsReFlags : String := {lean_str(tw_flags)}')
    return '\n'.join(L) + '\n'


def runtime_tables(info):
    """Tables of the running interpreter (the one the library runs under): str.isspace, re \\s."""
    import re as _re
    import sys
    isspace = [cp for cp in range(sys.maxunicode + 1) if chr(cp).isspace()]
    ws = _re.compile(r'\s')
    re_s = [cp for cp in range(sys.maxunicode + 1) if ws.match(chr(cp))]
    info['runtime'] = {'isspace': isspace, 're_s': re_s}
    L = ['/-- code points for which the running interpreter\'s `str.isspace` is true -/',
         'def pyIsSpaceCodes : List Nat := [' + ', '.join(map(str, isspace)) + ']',
         '/-- code points matched by the running interpreter\'s regular-expression class `\\s` (str patterns) -/',
         'def pyReSpaceCodes : List Nat := [' + ', '.join(map(str, re_s)) + ']']
    return '\n'.join(L) + '\n'


def _ranges(codes):
    out = []
    for c in codes:
        if out and out[-1][1] == c - 1:
            out[-1][1] = c
        else:
            out.append([c, c])
    return out


def lean_ranges(r):
    return '[' + ', '.join(f'({a}, {b})' for a, b in r) + ']'


def _class_shape(pat, flags, begin, end):
    """Check with the interpreter's own regex parser that `pat` is `^?[class]+$?` and return the
    code points of the class (computed by matching every code point with the running `re`)."""
    import re as _re
    import sys
    if flags:
        raise TranslateError(f'regex {pat!r} has flags {flags}')
    try:
        tree = list(_re._parser.parse(pat))
    except Exception as ex:
        raise TranslateError(f'cannot parse regex {pat!r}: {ex}')
    ops = [str(op) for op, _ in tree]
    want = (['AT'] if begin else []) + ['MAX_REPEAT'] + (['AT'] if end else [])
    if ops != want:
        raise TranslateError(f'regex {pat!r} has shape {ops}, expected {want}')
    rep = tree[1 if begin else 0][1]
    if rep[0] != 1 or str(rep[1]) != 'MAXREPEAT' or [str(o) for o, _ in rep[2]] not in (['IN'], ['LITERAL'], ['NOT_LITERAL']):
        raise TranslateError(f'regex {pat!r}: repetition is not class+')
    c = _re.compile(pat)
    return [cp for cp in range(sys.maxunicode + 1) if c.fullmatch(chr(cp))]


def _str_set(node):
    """`set("a b c".split())`, a set/list/tuple literal of strings."""
    if isinstance(node, ast.Call) and isinstance(node.func, ast.Name) and node.func.id in ('set', 'frozenset') and len(node.args) == 1:
        node = node.args[0]
    if isinstance(node, ast.Call) and isinstance(node.func, ast.Attribute) and node.func.attr == 'split' and not node.args:
        return sorted(set(ast.literal_eval(node.func.value).split()))
    return sorted(set(ast.literal_eval(node)))


def xml_consts(repo, info):
    import re as _re
    import sys
    mod = _module(os.path.join(repo, 'bluebell', 'xml.py'))
    cls = _classes(mod)
    ia = _assigns(cls['IdGenerator'].body)
    lead = _class_shape(*_re_pattern(ia['leading_punct_re']), True, False)
    trail = _class_shape(*_re_pattern(ia['trailing_punct_re']), False, True)
    punct = _class_shape(*_re_pattern(ia['punct_re']), False, False)
    wpat, wflags = _re_pattern(ia['whitespace_re'])
    if wflags:
        raise TranslateError('whitespace_re has flags')
    wtree = [str(op) for op, _ in _re._parser.parse(wpat)]
    if wtree != ['IN'] and wtree != ['LITERAL']:
        raise TranslateError(f'whitespace_re {wpat!r} is not a single character class')
    wc = _re.compile(wpat)
    ws = [cp for cp in range(sys.maxunicode + 1) if wc.fullmatch(chr(cp))]
    exempt = _str_set(ia['id_exempt'])
    passthru = _str_set(ia['id_exempt_but_pass_to_children'])
    numexp = _str_set(ia['num_expected'])
    aliases = ast.literal_eval(ia['aliases'])
    info['xml'] = {'id_exempt': exempt, 'pass_through': passthru, 'num_expected': numexp, 'aliases': aliases,
                   'lead': _ranges(lead), 'trail': _ranges(trail), 'punct': _ranges(punct), 'ws': _ranges(ws)}
    L = ['/-- `IdGenerator.id_exempt` -/',
         f'def idExempt : List String := {lean_strs(exempt)}',
         '/-- `IdGenerator.id_exempt_but_pass_to_children`, each with its `str.lower()` -/',
         f'def idPassThrough : List (String × String) := {lean_pairs([(x, x.lower()) for x in passthru])}',
         f'def numExpected : List String := {lean_strs(numexp)}',
         f'def eidAliases : List (String × String) := {lean_pairs(sorted(aliases.items()))}',
         '/-- code point ranges matched by leading_punct_re / trailing_punct_re / whitespace_re / punct_re (single characters) -/',
         f'def eidLeadRanges : List (Nat × Nat) := {lean_ranges(_ranges(lead))}',
         f'def eidTrailRanges : List (Nat × Nat) := {lean_ranges(_ranges(trail))}',
         f'def eidWsRanges : List (Nat × Nat) := {lean_ranges(_ranges(ws))}',
         f'def eidPunctRanges : List (Nat × Nat) := {lean_ranges(_ranges(punct))}']
    return '\n'.join(L) + '\n'


def generate(repo):
    info = {}
    parts = ['import Bluebell.Peg.Syntax\nnamespace Bluebell\n']
    parts.append(parser_consts(repo, info))
    parts.append(runtime_tables(info))
    parts.append(xml_consts(repo, info))
    parts.append('end Bluebell\n')
    return '\n'.join(parts), info
