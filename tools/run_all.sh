#!/bin/bash
# run every registered quick check on the current /repo (clean tree expected); summary line per property
cd /verif
for pid in $(python3 -c "import json;print(' '.join(c['property_id'] for c in json.load(open('MANIFEST.json'))['checks']))"); do
  out=$(./check $pid --tier ${VERIF_TIER:-quick} 2>&1); rc=$?
  echo "$pid rc=$rc $(echo "$out" | grep -c '^KNOWN-FINDING') known | $(echo "$out" | tail -1 | cut -c1-150)"
done
