#!/bin/bash
# tools/harmless.sh <patch.diff> — apply a behaviour-preserving patch to a scratch copy of /repo and run every quick check
# against it (VERIF_REPO); every check must exit 0. Evidence files are restored afterwards.
patch=$(realpath "$1"); cd /verif
scratch=$(mktemp -d /var/tmp/bbhl.XXXXXX); rsync -a --exclude .git --exclude '*.egg-info' --exclude OUT /repo/ $scratch/
patch -s -p1 -d $scratch < $patch || { echo "patch does not apply"; rm -rf $scratch; exit 3; }
mkdir -p .work/evbak && cp evidence/*.json .work/evbak/
for pid in $(python3 -c "import json;print(' '.join(c['property_id'] for c in json.load(open('MANIFEST.json'))['checks']))"); do
  out=$(VERIF_REPO=$scratch ./check $pid --tier quick 2>&1); rc=$?
  echo "$pid rc=$rc $(echo "$out" | grep -m1 '^VIOLATION' | cut -c1-160)"
  [ $rc -ne 0 ] && echo "$out" | grep -A3 '^VIOLATION' | tail -3 | cut -c1-400
done
cp .work/evbak/*.json evidence/; rm -rf $scratch
/venv/bin/python tools/translate.py >/dev/null; (cd lean && lake build drv >/dev/null 2>&1)
