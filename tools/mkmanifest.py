#!/usr/bin/env python3
"""Writes /verif/MANIFEST.json from the table below (kept in one place so it stays valid)."""
import json, os
V = os.path.dirname(os.path.dirname(os.path.abspath(__file__)))
props = [json.loads(l) for l in open(os.path.join(V, 'properties.jsonl'))]
CLAIMED = json.load(open(os.path.join(V, 'tools', 'claims.json')))
checks, na = [], []
for p in props:
    pid = p['id']
    c = CLAIMED.get(pid)
    if not c or c.get('not_applicable'):
        na.append({'property_id': pid, 'reason': (c or {}).get('not_applicable', 'check not built yet in this round; see DESIGN.md section 6 for the planned design')})
        continue
    checks.append({
        'property_id': pid,
        'quick_cmd': f'./check {pid} --tier quick',
        'thorough_cmd': f'./check {pid} --tier thorough',
        'evidence_file': f'evidence/{pid}.json',
        'replay_cmd_template': f'./check {pid} --replay {{path}}',
        'engine': 'lean4-model+tie',
        'level_claimed': {'category': 'proof', 'text': c['text'], 'design_ref': f'DESIGN.md section 6 ({pid})'},
        'level_note': c['note'],
        'technique': c['technique'],
    })
m = {
    'version': 1,
    'setup_cmd': './setup.sh',
    'hooks': {'guard': 'BLUEBELL_VERIF', 'enable': 'no hooks are needed: every observation point is reachable through the public API and Parser._read_<rule>; the variable is reserved and unused',
              'baseline_off_cmd': 'cd /repo && /venv/bin/python -m pytest -ra -q -p no:cacheprovider --timeout=900 --continue-on-collection-errors',
              'source_commits': [], 'add_only': True},
    'engines': [{'name': 'lean4-model+tie', 'path': 'lean/ harness/ tools/', 'serves_properties': [c['property_id'] for c in checks],
                 'kind_free_text': 'Lean 4 theorems about an executable model of bluebell; tables and both grammars regenerated from /repo on every run (translators), hand-written model parts tied by a differential correspondence check against the real code through a line-protocol driver'}],
    'checks': checks,
    'not_applicable': na,
    'notes': 'See DESIGN.md. VERIF_REPO selects the repository under test (default /repo); VERIF_SEED seeds all random choices.',
}
json.dump(m, open(os.path.join(V, 'MANIFEST.json'), 'w'), indent=1)
print(len(checks), 'checks;', len(na), 'not claimed')
