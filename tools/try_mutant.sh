#!/bin/bash
# tools/try_mutant.sh <patch.diff> <property id> [extra check args]  — apply a patch to /repo, run the check, undo.
set -u
patch="$1"; pid="$2"; shift 2
git -C /repo apply "$(realpath "$patch")" || { echo "patch does not apply"; exit 3; }
trap 'git -C /repo checkout -- . ; cd /verif && /venv/bin/python tools/translate.py >/dev/null' EXIT
cd /verif && ./check "$pid" "$@"
echo "exit=$?"
