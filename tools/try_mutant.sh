#!/bin/bash
# tools/try_mutant.sh <patch.diff> <property id> [extra check args]  — apply a patch to /repo, run the check, undo.
# The evidence file of the property is saved and restored: evidence committed must come from the clean tree.
set -u
patch="$1"; pid="$2"; shift 2
git -C /repo apply "$(realpath "$patch")" || { echo "patch does not apply"; exit 3; }
cp /verif/evidence/$pid.json /verif/.work/evidence.$pid.bak 2>/dev/null
trap 'git -C /repo checkout -- . ; cd /verif && /venv/bin/python tools/translate.py >/dev/null; (cd /verif/lean && lake build drv >/dev/null 2>&1); cp /verif/.work/evidence.$pid.bak /verif/evidence/$pid.json 2>/dev/null' EXIT
cd /verif && ./check "$pid" "$@"
echo "exit=$?"
