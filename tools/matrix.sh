#!/bin/bash
# tools/matrix.sh [ids...] — for each seeded change: copy /repo to a scratch directory outside /repo and /verif, apply the
# patch there, run every registered quick check with VERIF_REPO pointing at the copy, remove the copy. Prints one line per
# (change, check). Meant for `vp run` (it rebuilds .lake in the snapshot first); sequential because the Lean workspace is shared.
cd "$(dirname "$0")/.." || exit 2
[ -x lean/.lake/build/bin/drv ] || ./setup.sh >/dev/null 2>&1
props=$(python3 -c "import json;print(' '.join(c['property_id'] for c in json.load(open('MANIFEST.json'))['checks']))")
ids=${@:-$(ls seeded | grep "^C[0-9]")}
for id in $ids; do
  scratch=$(mktemp -d /var/tmp/bbmx.XXXXXX)
  rsync -a --exclude .git --exclude '*.egg-info' /repo/ $scratch/
  if ! patch -s -p1 -d $scratch < seeded/$id/patch.diff; then
    echo "$id PATCH-DOES-NOT-APPLY"; rm -rf $scratch; continue
  fi
  for pid in ${MATRIX_PROPS:-$props}; do
    out=$(VERIF_REPO=$scratch timeout 1800 ./check $pid --tier quick 2>&1); rc=$?
    echo "$id $pid rc=$rc $(echo "$out" | grep -m1 '^VIOLATION' | cut -c1-140)"
  done
  rm -rf $scratch
done
VERIF_REPO=/repo /venv/bin/python tools/translate.py >/dev/null 2>&1
echo matrix-done
