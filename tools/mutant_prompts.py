#!/usr/bin/env python3
"""tools/mutant_prompts.py <round> — write the by-file prompts for independent sub-agents that seed breaking changes
(each agent gets only its prompt and a scratch worktree /tmp/m<round>-<key>; nothing from /verif)."""
import json, sys
rnd = sys.argv[1]
props = [json.loads(l) for l in open('/verif/properties.jsonl')]
plist = '\n'.join(f"  {p['id']}: {p['title']} — {p['statement']}" for p in props)
AREAS = {
 '5': {},
 '15': {k: ('any file of the package (bluebell/*.py, bluebell/akn.peg with bluebell/akn.py, bluebell/akn_text.xsl)', 'whatever code the property %s depends on; the change must break property %s specifically (others may break too); prefer something that needs an unusual but legal input' % (k, k)) for k in ['C05', 'C06', 'C08', 'C11']},
 '14': {k: ('any file of the package (bluebell/*.py, bluebell/akn.peg with bluebell/akn.py, bluebell/akn_text.xsl)', 'whatever code the property %s depends on; the change must break property %s specifically (others may break too); prefer a change made of two cooperating edits that each look fine alone' % (k, k)) for k in ['C09', 'C13', 'C16', 'C17']},
 '13': {k: ('any file of the package (bluebell/*.py, bluebell/akn.peg with bluebell/akn.py, bluebell/akn_text.xsl)', 'whatever code the property %s depends on; the change must break property %s specifically (others may break too)' % (k, k)) for k in ['C02', 'C03', 'C15', 'C19']},
 '12': {k: ('any file of the package (bluebell/*.py, bluebell/akn.peg with bluebell/akn.py, bluebell/akn_text.xsl)', 'whatever code the property %s depends on; the change must break property %s specifically (others may break too)' % (k, k)) for k in ['C01', 'C04', 'C07', 'C18']},
 '11': {'xslF': ('bluebell/akn_text.xsl', 'the templates for attachments, the preface / preamble / conclusions containers, the BODY marker, judgment and debate containers, long titles and crossheadings'),
        'typesG': ('bluebell/types.py', 'BlockAttrs / BlockAttr (attribute pairs and classes), table and cell classes, P, Line, Longtitle, Crossheading, the preface / preamble / conclusions containers'),
        'xmlD': ('bluebell/xml.py', 'add_meta, wrap_akn, attachment_frbr_uri, set_attachment_titles, item_to_xml_element_attachment, xml_from_dict / xml_from_tree / to_xml'),
        'parserC': ('bluebell/parser.py and bluebell/cli.py', 'parse, parse_with_failure, the root aliases, unparse, and the command-line tool'),
        'pegE': ('bluebell/akn.peg together with the matching hand edit in the generated bluebell/akn.py', 'block attributes (classes, attribute pairs), table / row / cell rules, bullet list rules, block quote and blocks rules'),
        'idgenB': ('bluebell/xml.py', 'IdGenerator: rewrite_eid / rewrite_all_eids / rewrite_id_prefix, the mapping it returns, the exempt and pass-through element sets, incr / reset')},
 '10': {'nums': ('any file of the package', 'numbers: the num of hierarchical elements and items, its escaping, clean_num, counters for unnumbered elements, clash suffixes, attachment numbering'),
        'esc': ('any file of the package', 'backslash escaping across the pipeline: pre_parse, the grammar escape rule, unescape in types.py, the escaping helpers of the stylesheet'),
        'att': ('any file of the package', 'attachments: nesting, component names and FRBR URIs, headings / subheadings / titles, attributes, what may follow an attachment'),
        'tbl': ('any file of the package', 'tables, block lists, bullet lists and block containers: grammar rules, to_dict, XML building, unparsing'),
        'debate': ('any file of the package', 'the debate and judgment document types: their structure rules, speech containers / groups / blocks, FROM lines, the by attribute, judgment parts'),
        'json': ('any file of the package', 'the intermediate dict tree and its JSON form, the command-line tool (arguments, output, exit status)')},
 '9': {'apiA': ('any file of the package', 'behaviour that only shows with less common but legal API use: a non-empty eid_prefix, fragment roots (hier_element, block_element, table, ...), the same parser object used for several calls, parse() + to_dict() + tree_to_xml() called separately, unparse of a sub-element, the debate and judgment roots'),
       'wsA': ('any file of the package', 'the handling of white space and Unicode: tabs, no-break and other Unicode spaces, CR/CRLF, combining characters, astral characters, case mapping (lower()/upper() on non-ASCII), characters that XML or regexes treat specially'),
       'orderA': ('any file of the package', 'ordering and positions: the order of children, of attributes, of footnotes, of attachments; first/last element special cases; off-by-one at the start or end of a list, line or document'),
       'xslE': ('bluebell/akn_text.xsl', 'tables, lists (blockList, ul), quotes (embeddedStructure), blockContainer, speech elements (scene, narrative, summary, from) and the indentation they give their children'),
       'typesF': ('bluebell/types.py', 'inline classes: Ref, Image, Remark, Sup/Sub, StandardInline and their attributes; InlineText.many_to_dict; unescape'),
       'pegD': ('bluebell/akn.peg together with the matching hand edit in the generated bluebell/akn.py', 'the structure rules: preface / preamble / body / conclusions / attachments, judgment and debate structures, hier_block_indent, nested block elements, footnote blocks, tables')},
 '8': {k: ('any file of the package (bluebell/*.py, bluebell/akn.peg with bluebell/akn.py, bluebell/akn_text.xsl)', 'whatever code the property %s depends on; the change must break property %s specifically (others may break too)' % (k, k)) for k in ['C08', 'C09', 'C10', 'C11', 'C12', 'C16', 'C17', 'C18']},
 '7': {'typesD': ('bluebell/types.py', 'hierarchical elements and their parts: HierElement, headings, nums, subheadings, crossheadings, longtitle, the wrapping of children into intro / content / wrapUp'),
       'typesE': ('bluebell/types.py', 'judgment and debate structures, speech containers / groups / speeches (from, by), and the document root classes'),
       'xmlC': ('bluebell/xml.py', 'XmlGenerator.item_to_xml for inline and marker elements (ref href, img, br inside remarks, sup/sub, abbr/term/def), text merging between inline elements, make_element / attribute handling'),
       'xslD': ('bluebell/akn_text.xsl', 'the template for hierarchical elements and attachments: keyword (and synonyms), num, heading, subheading output, the escaping of hyphens / backslashes in nums, block-attrs'),
       'pegB': ('bluebell/akn.peg together with the matching hand edit in the generated bluebell/akn.py', 'the inline rules: bold / italics / underline, ref, img, remark, sup / sub, standard inlines, footnote references, escape, symbol'),
       'pegC': ('bluebell/akn.peg together with the matching hand edit in the generated bluebell/akn.py', 'hier_element, hier_element_heading, num, heading, subheading, crossheading, speech rules, block attribute rules')},
 '6': {'parserA': ('bluebell/parser.py', 'pre_parse and its helpers (indent handling, tabs, trailing spaces, the line regex), parse, and the hand-optimised plain-text rule override in Parser'),
       'parserB': ('bluebell/parser.py and bluebell/cli.py', 'parse_to_xml, tree_to_xml, unparse (the XSLT driver), the FRBR URI / root handling, and the command-line tool'),
       'idgen': ('bluebell/xml.py', 'IdGenerator (eId generation: clean_num, counters, ensure_unique, rewrite_all_eids, rewrite_id_prefix, the tables of exempt / pass-through / alias elements)'),
       'typesC': ('bluebell/types.py', 'attachments, tables, lists (BlockList, BulletList, items), speech containers and groups, and the classes that compute attributes (BlockAttrs, classes, synonyms)'),
       'xmlB': ('bluebell/xml.py', 'XmlGenerator.item_to_xml* for attachments and documents (FRBR URIs of attachments, component names, titles/aliases, meta blocks), resolve_displaced_content, post_process / normalise'),
       'xslC': ('bluebell/akn_text.xsl', 'the escaping helpers (escape-inlines, escape-prefixes, escape-inlines-start-end, string-replace-all, prefix/suffix runs), the text() templates, and the preserve-space / strip-space declarations')},
}
for k, (f, area) in AREAS[rnd].items():
    wt = f'/tmp/m{rnd}-{k}'
    prompt = f"""You are helping to evaluate a verification suite by producing a realistic, HARD-TO-DETECT *breaking change* (a seeded bug) in the Python library laws-africa/bluebell (a PEG-based parser turning indented plain text into Akoma Ntoso 3 XML, with eId generation and an XSLT unparser).

Work ONLY inside the git worktree {wt} (a scratch checkout of the library). Do not touch /repo, and do not read or write anything under /verif. Run Python as /venv/bin/python from inside {wt} (`cd {wt}`); check that `/venv/bin/python -c "import bluebell; print(bluebell.__file__)"` run there prints a path under {wt} (otherwise prefix commands with PYTHONPATH={wt}).
IMPORTANT: never use `git stash` (shared by all worktrees). To test the unmodified library, save your diff (`git -C {wt} diff -- bluebell > /tmp/{k}-m{rnd}.diff`), reverse it (`git -C {wt} apply -R /tmp/{k}-m{rnd}.diff`), run, and re-apply (`git -C {wt} apply /tmp/{k}-m{rnd}.diff`). Name any scratch file you create under /tmp with the prefix `{k}-m{rnd}` and delete it when done.

The library is supposed to satisfy these semantic properties (for ALL inputs):
{plist}

Your task: make ONE small, plausible source change in {f}, in this area: {area}. It should be the kind of thing a maintainer might do as a refactor, optimisation, clean-up, bug "fix" or feature tweak, with an innocent-looking rationale, such that
  1. the library still imports/compiles,
  2. the whole existing test suite still passes: `cd {wt} && /venv/bin/python -m pytest -q -p no:cacheprovider --timeout=900` must report 155 passed (1 xfailed is normal) — run it and confirm,
  3. it BREAKS at least one of the properties above (say which), but only for RARE inputs: the violation should need a conjunction of at least two or three specific, individually unremarkable conditions in the input, so that a random document generator is unlikely to hit it by chance. The unmodified library must satisfy the property on your demonstration input; the modified one must violate it.
(The grammar compiler canopy is not installed: if you change bluebell/akn.peg you must hand-edit the generated bluebell/akn.py consistently.)

Deliverables (write them to {wt}/OUT/, create the directory):
  - {wt}/OUT/patch.diff : output of `git -C {wt} diff -- bluebell` (source change only; do not commit),
  - {wt}/OUT/demo.py : a self-contained script run as `cd <checkout> && /venv/bin/python OUT/demo.py` (put `import sys; sys.path.insert(0, '.')` first) that prints what the property requires and what happens, and exits 0 when the property HOLDS on its input(s) and 1 when it is VIOLATED. It must exit 0 on the unmodified library and 1 with your change.
  - {wt}/OUT/meta.json : {{"property": "<id of the property you break, e.g. C05>", "summary": "<what you changed and why it breaks the property, 3-6 sentences>", "needs": "<the conjunction of conditions an input needs>", "files": [...]}}.
Finish by replying with the summary and the confirmation of the three runs (tests pass; demo exits 0 unmodified; demo exits 1 modified). Leave the change applied (uncommitted) in the worktree."""
    open(f'/tmp/m{rnd}-prompts/{k}.txt', 'w').write(prompt)
    print(k)
