#!/bin/bash
# tools/take_mutant.sh <Cxx> <suffix> [check ids...] — confirm a sub-agent's seeded change (its OUT/patch.diff applied to a fresh
# scratch copy of /repo outside /repo and /verif), store it as seeded/<Cxx>-<suffix>/, run checks against the copy (VERIF_REPO)
# with the evidence files restored afterwards, remove the copy.
pid=$1; suf=$2; shift 2; wt=${WT:-${MDIR:-/tmp/m2}-$pid}; dst=/verif/seeded/$pid-$suf
[ -f $wt/OUT/patch.diff ] || { echo "no patch in $wt/OUT"; exit 2; }
scratch=$(mktemp -d /var/tmp/bbtm.XXXXXX)
rsync -a --exclude .git --exclude '*.egg-info' --exclude OUT /repo/ $scratch/
patch -s -p1 -d $scratch < $wt/OUT/patch.diff || { echo "patch does not apply"; rm -rf $scratch; exit 3; }
mkdir -p $scratch/OUT; cp $wt/OUT/demo.py $scratch/OUT/
(cd $scratch && /venv/bin/python OUT/demo.py >/tmp/m2-demo-mod.txt 2>&1); rm_=$?
(cd /repo && /venv/bin/python $wt/OUT/demo.py >/tmp/m2-demo-orig.txt 2>&1); ro=$?
echo "demo: modified exit=$rm_ unmodified exit=$ro"
mkdir -p $dst; cp $wt/OUT/patch.diff $wt/OUT/demo.py $wt/OUT/meta.json $dst/
for c in ${@:-$pid}; do
  cp /verif/evidence/$c.json /verif/.work/evidence.$c.bak
  (cd /verif && VERIF_REPO=$scratch ./check $c --tier quick 2>&1 | grep -v "^KNOWN-FINDING" | tail -4 | cut -c1-400)
  cp /verif/.work/evidence.$c.bak /verif/evidence/$c.json
done
rm -rf $scratch
/venv/bin/python /verif/tools/translate.py >/dev/null; (cd /verif/lean && lake build drv >/dev/null 2>&1)
