#!/bin/bash
# tools/matrix_target.sh <seed> [ids...] — every seeded change against the check of the property it targets (and any further
# property named in its meta.json is left to tools/matrix.sh), with the given seed, on a scratch copy of /repo (VERIF_REPO).
# Meant for `vp run` (own snapshot of /verif, so several can run side by side). One line per change.
cd "$(dirname "$0")/.." || exit 2
[ -x lean/.lake/build/bin/drv ] || ./setup.sh >/dev/null 2>&1
seed=$1; shift
ids=${@:-$(ls seeded | grep "^C[0-9]")}
for id in $ids; do
  pid=${id%%-*}
  scratch=$(mktemp -d /var/tmp/bbmt.XXXXXX)
  rsync -a --exclude .git --exclude '*.egg-info' /repo/ $scratch/
  if ! patch -s -p1 -d $scratch < seeded/$id/patch.diff; then
    echo "$id PATCH-DOES-NOT-APPLY"; rm -rf $scratch; continue
  fi
  out=$(VERIF_SEED=$seed VERIF_REPO=$scratch timeout 1800 ./check $pid --tier quick 2>&1); rc=$?
  echo "$id $pid seed=$seed rc=$rc $(echo "$out" | grep -m1 '^VIOLATION' | cut -c1-160)"
  rm -rf $scratch
done
echo matrix-target-done
