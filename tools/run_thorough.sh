#!/bin/bash
# run every registered thorough check (in a `vp run` snapshot: builds .lake first); one summary line per property
cd "$(dirname "$0")/.." || exit 2
[ -x lean/.lake/build/bin/drv ] || ./setup.sh >/dev/null 2>&1
for pid in $(python3 -c "import json;print(' '.join(c['property_id'] for c in json.load(open('MANIFEST.json'))['checks']))"); do
  s=$(date +%s); out=$(timeout 7200 ./check $pid --tier thorough 2>&1); rc=$?
  echo "$pid rc=$rc $(( $(date +%s) - s ))s $(echo "$out" | grep -c '^KNOWN-FINDING') known | $(echo "$out" | grep -m1 '^VIOLATION\|^OK' | cut -c1-200)"
  echo "$out" | grep -A3 '^VIOLATION' | tail -3 | cut -c1-300
done
echo thorough-done
