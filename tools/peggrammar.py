"""T1/T2: read bluebell's grammar from its two sources.

T1 `read_peg(path)`      parses canopy's PEG syntax (akn.peg).
T2 `decompile(path)`     rebuilds parsing expressions from the canopy-generated recursive-descent
                         parser (akn.py) by matching canopy's fixed code templates, after the file
                         has been normalised with ast.unparse (so comments, blank lines and spacing
                         do not matter).
Both return {rule: expr} in one normal form:
  ['lit', s] ['class', neg, chars] ['ref', name] ['seq', [[labels, expr], ...]] ['choice', [expr...]]
  ['opt'|'star'|'plus'|'not'|'and', expr] ['type', T, expr]
where `labels` is the sorted list of attribute names the sequence node gives that element.
Only the standard library is used.
"""
import re, ast, json


class TranslateError(Exception):
    pass


# --------------------------------------------------------------------------- T1
class _Peg:
    def __init__(s, text):
        s.t = text
        s.i = 0

    def ws(s):
        while s.i < len(s.t):
            c = s.t[s.i]
            if c in ' \t\r\n':
                s.i += 1
            elif c == '#':
                while s.i < len(s.t) and s.t[s.i] != '\n':
                    s.i += 1
            else:
                break

    def peek(s, k=1):
        return s.t[s.i:s.i + k]

    _id = re.compile(r'[A-Za-z_][A-Za-z0-9_]*')

    def ident(s):
        m = s._id.match(s.t, s.i)
        if not m:
            return None
        s.i = m.end()
        return m.group()

    def grammar(s):
        s.ws()
        if not s.t.startswith('grammar', s.i):
            raise TranslateError('akn.peg: missing grammar header')
        s.i += 7
        s.ws()
        name = s.ident()
        rules = []
        while True:
            s.ws()
            if s.i >= len(s.t):
                break
            rn = s.ident()
            s.ws()
            if rn is None or s.peek(2) != '<-':
                raise TranslateError(f'akn.peg: expected rule at {s.t[s.i:s.i+30]!r}')
            s.i += 2
            rules.append((rn, s.choice()))
        return name, rules

    def choice(s):
        alts = [s.seq()]
        while True:
            s.ws()
            if s.peek() == '/':
                s.i += 1
                alts.append(s.seq())
            else:
                break
        return alts[0] if len(alts) == 1 else ['choice', alts]

    _rs = re.compile(r'[A-Za-z_][A-Za-z0-9_]*\s*<-')

    def seq(s):
        items = []
        while True:
            s.ws()
            if s.i >= len(s.t) or s.peek() in '/)' or s._rs.match(s.t, s.i):
                break
            if s.peek() == '<' and s.peek(2) != '<-':
                m = re.compile(r'<([A-Za-z_.][A-Za-z0-9_.]*)>').match(s.t, s.i)
                if not m:
                    raise TranslateError(f'akn.peg: bad type annotation at {s.t[s.i:s.i+30]!r}')
                s.i = m.end()
                e = items[0] if len(items) == 1 and items[0][0] != 'label' else ['seq', items]
                return ['type', m.group(1), e]
            items.append(s.labelled())
        if not items:
            raise TranslateError(f'akn.peg: empty sequence at {s.t[max(0,s.i-30):s.i+30]!r}')
        return items[0] if len(items) == 1 and items[0][0] != 'label' else ['seq', items]

    def labelled(s):
        j = s.i
        idn = s.ident()
        if idn and s.peek() == ':':
            s.i += 1
            return ['label', idn, s.prefix()]
        s.i = j
        return s.prefix()

    def prefix(s):
        c = s.peek()
        if c == '!':
            s.i += 1
            return ['not', s.suffix()]
        if c == '&':
            s.i += 1
            return ['and', s.suffix()]
        return s.suffix()

    def suffix(s):
        e = s.atom()
        c = s.peek()
        if c == '?':
            s.i += 1
            return ['opt', e]
        if c == '*':
            s.i += 1
            return ['star', e]
        if c == '+':
            s.i += 1
            return ['plus', e]
        return e

    def atom(s):
        c = s.peek()
        if c == '(':
            s.i += 1
            e = s.choice()
            s.ws()
            if s.peek() != ')':
                raise TranslateError(f'akn.peg: expected ) at {s.t[s.i-30:s.i+10]!r}')
            s.i += 1
            return ['group', e]
        if c in '\'"':
            q = c
            j = s.i + 1
            out = []
            while s.t[j] != q:
                if s.t[j] == '\\':
                    n = s.t[j + 1]
                    if n == 'x':
                        out.append(chr(int(s.t[j + 2:j + 4], 16)))
                        j += 4
                    elif n == 'u':
                        out.append(chr(int(s.t[j + 2:j + 6], 16)))
                        j += 6
                    elif n == 'n':
                        out.append('\n')
                        j += 2
                    elif n == 't':
                        out.append('\t')
                        j += 2
                    elif n == 'r':
                        out.append('\r')
                        j += 2
                    else:
                        out.append(n)
                        j += 2
                else:
                    out.append(s.t[j])
                    j += 1
            s.i = j + 1
            return ['lit', ''.join(out)]
        if c == '[':
            j = s.i + 1
            while s.t[j] != ']':
                j += 2 if s.t[j] == '\\' else 1
            body = s.t[s.i + 1:j]
            s.i = j + 1
            return class_of_body(body)
        idn = s.ident()
        if not idn:
            raise TranslateError(f'akn.peg: unexpected {s.t[s.i-30:s.i+30]!r}')
        return ['ref', idn]


def class_of_body(body):
    """Character class body (between [ and ]) -> ['class', neg, chars]. Ranges are not used by
    bluebell's grammar; one appearing is a translator failure, never silently misread."""
    neg = body.startswith('^')
    if neg:
        body = body[1:]
    out = []
    i = 0
    while i < len(body):
        if body[i] == '\\':
            n = body[i + 1]
            if n in 'dDwWsSbB':
                raise TranslateError(f'class escape \\{n} not supported')
            if n == 'x':
                out.append(chr(int(body[i + 2:i + 4], 16)))
                i += 4
                continue
            out.append({'n': '\n', 't': '\t', 'r': '\r'}.get(n, n))
            i += 2
        else:
            if body[i] == '-' and 0 < i < len(body) - 1:
                raise TranslateError(f'character range in class [{body}] not supported')
            out.append(body[i])
            i += 1
    return ['class', neg, ''.join(out)]


def _norm(e):
    k = e[0]
    if k in ('lit', 'ref'):
        return e
    if k == 'class':
        return ['class', e[1], e[2]]
    if k == 'group':
        return _norm(e[1])
    if k == 'label':
        raise TranslateError('label outside sequence')
    if k == 'type':
        return ['type', e[1], _norm(e[2])]
    if k in ('opt', 'star', 'plus', 'not', 'and'):
        return [k, _norm(e[1])]
    if k == 'choice':
        return ['choice', [_norm(x) for x in e[1]]]
    if k == 'seq':
        items = []
        for it in e[1]:
            labs = []
            if it[0] == 'label':
                labs.append(it[1])
                it = it[2]
            inner = it
            while inner[0] == 'group':
                inner = inner[1]
            # canopy: a bare rule reference is also available under the rule's name
            if inner[0] == 'ref' and inner[1] not in labs:
                labs.append(inner[1])
            items.append([sorted(labs), _norm(it)])
        return ['seq', items]
    raise TranslateError(f'unknown node {k}')


def read_peg(path):
    name, rules = _Peg(open(path, encoding='utf-8').read()).grammar()
    out = {}
    for r, e in rules:
        if r in out:
            raise TranslateError(f'akn.peg: duplicate rule {r}')
        out[r] = _norm(e)
    return out


# --------------------------------------------------------------------------- T2
class _Dec:
    def __init__(s, name, body, tn, regex):
        s.name = name
        s.L = [l for l in body if l.strip() != '']
        s.i = 0
        s.tn = tn
        s.regex = regex

    def peek(s, k=0):
        return s.L[s.i + k] if s.i + k < len(s.L) else ''

    def ind(s, k=0):
        l = s.peek(k)
        return len(l) - len(l.lstrip())

    def expect(s, pat, ind=None):
        l = s.peek()
        m = re.fullmatch(pat, l.strip())
        if not m or (ind is not None and s.ind() != ind):
            raise TranslateError(f'_read_{s.name}: expected {pat!r} at indent {ind}, got {l!r} (statement {s.i})')
        s.i += 1
        return m

    def at(s, pat, ind=None, k=0):
        l = s.peek(k)
        return bool(re.fullmatch(pat, l.strip())) and (ind is None or s.ind(k) == ind)

    def func(s):
        I = 8
        s.expect(r'address0, index0 = \(FAILURE, self\._offset\)', I)
        s.expect(rf"cached = self\._cache\['{s.name}'\]\.get\(index0\)", I)
        s.expect(r'if cached:', I)
        s.expect(r'self\._offset = cached\[1\]', I + 4)
        s.expect(r'return cached\[0\]', I + 4)
        e = s.expr('address0', I)
        s.expect(rf"self\._cache\['{s.name}'\]\[index0\] = \(address0, self\._offset\)", I)
        s.expect(r'return address0', I)
        if s.i != len(s.L):
            raise TranslateError(f'_read_{s.name}: trailing statements {s.L[s.i:s.i+3]!r}')
        return e

    def fail_block(s, I):
        s.expect(r'else:', I)
        s.expect(r'(address\d+) = FAILURE', I + 4)
        s.expect(r'if self\._offset > self\._failure:', I + 4)
        s.expect(r'self\._failure = self\._offset', I + 8)
        s.expect(r'self\._expected = \[\]', I + 8)
        s.expect(r'if self\._offset == self\._failure:', I + 4)
        s.expect(r'self\._expected\.append\(.*\)', I + 8)

    def expr(s, addr, I):
        e = s.expr0(addr, I)
        if s.at(rf'if {addr} is not FAILURE:', I) and s.at(rf'cls\d+ = type\({addr}\)', I + 4, 1):
            s.i += 2
            m = s.expect(rf"{addr}\.__class__ = type\(cls\d+\.__name__ \+ '(\w+)', \(cls\d+, self\._types\.(\w+)\), \{{\}}\)", I + 4)
            if m.group(1) != m.group(2):
                raise TranslateError(f'_read_{s.name}: mixin name mismatch')
            e = ['type', m.group(1), e]
        return e

    def expr0(s, addr, I):
        m = re.fullmatch(rf'{addr} = self\._read_(\w+)\(\)', s.peek().strip())
        if m and s.ind() == I:
            s.i += 1
            return ['ref', m.group(1)]
        m = re.fullmatch(r'(chunk\d+), (max\d+) = \(None, self\._offset \+ (\d+)\)', s.peek().strip())
        if m and s.ind() == I:
            ch, mx, n = m.groups()
            n = int(n)
            s.i += 1
            s.expect(rf'if {mx} <= self\._input_size:', I)
            s.expect(rf'{ch} = self\._input\[self\._offset:{mx}\]', I + 4)
            l = s.peek().strip()
            m1 = re.fullmatch(rf'if {ch} == (.+):', l)
            m2 = re.fullmatch(rf'if {ch} is not None and Grammar\.(REGEX_\d+)\.search\({ch}\):', l)
            if s.ind() != I or not (m1 or m2):
                raise TranslateError(f'_read_{s.name}: unrecognised terminal test {l!r}')
            s.i += 1
            if m1:
                lit = ast.literal_eval(m1.group(1))
                if len(lit) != n:
                    raise TranslateError(f'_read_{s.name}: literal {lit!r} length != {n}')
                e = ['lit', lit]
            else:
                if n != 1:
                    raise TranslateError(f'_read_{s.name}: class terminal of width {n}')
                pat = s.regex[m2.group(1)]
                if not (pat.startswith('^[') and pat.endswith(']')):
                    raise TranslateError(f'regex {pat!r} is not an anchored single class')
                e = class_of_body(pat[2:-1])
            s.expect(rf'{addr} = TreeNode\(self\._input\[self\._offset:self\._offset \+ {n}\], self\._offset, \[\]\)', I + 4)
            s.expect(rf'self\._offset = self\._offset \+ {n}', I + 4)
            s.fail_block(I)
            return e
        m = re.fullmatch(r'(index\d+), (elements\d+) = \(self\._offset, \[\]\)', s.peek().strip())
        if m and s.ind() == I:
            ix, el = m.groups()
            s.i += 1
            items = s.seq_items(ix, el, I)
            s.expect(rf'if {el} is None:', I)
            s.expect(rf'{addr} = FAILURE', I + 4)
            s.expect(r'else:', I)
            m = s.expect(rf'{addr} = (TreeNode\d*)\(self\._input\[{ix}:self\._offset\], {ix}, {el}\)', I + 4)
            s.expect(r'self\._offset = self\._offset', I + 4)
            labels = s.tn.get(m.group(1), {}) if m.group(1) != 'TreeNode' else {}
            if m.group(1) != 'TreeNode' and m.group(1) not in s.tn:
                raise TranslateError(f'_read_{s.name}: unknown node class {m.group(1)}')
            if any(i >= len(items) for i in labels):
                raise TranslateError(f'_read_{s.name}: {m.group(1)} labels an element that does not exist')
            return ['seq', [[sorted(labels.get(i, [])), it] for i, it in enumerate(items)]]
        m = re.fullmatch(r'(index\d+), (elements\d+), (address\d+) = \(self\._offset, \[\], None\)', s.peek().strip())
        if m and s.ind() == I:
            ix, el, a = m.groups()
            s.i += 1
            s.expect(r'while True:', I)
            e = s.expr(a, I + 4)
            s.expect(rf'if {a} is not FAILURE:', I + 4)
            s.expect(rf'{el}\.append\({a}\)', I + 8)
            s.expect(r'else:', I + 4)
            s.expect(r'break', I + 8)
            m = s.expect(rf'if len\({el}\) >= (\d+):', I)
            s.expect(rf'{addr} = TreeNode\(self\._input\[{ix}:self\._offset\], {ix}, {el}\)', I + 4)
            s.expect(r'self\._offset = self\._offset', I + 4)
            s.expect(r'else:', I)
            s.expect(rf'{addr} = FAILURE', I + 4)
            k = int(m.group(1))
            if k not in (0, 1):
                raise TranslateError(f'_read_{s.name}: repetition minimum {k}')
            return [{0: 'star', 1: 'plus'}[k], e]
        m = re.fullmatch(r'(index\d+) = self\._offset', s.peek().strip())
        if m and s.ind() == I:
            ix = m.group(1)
            s.i += 1
            e = s.expr(addr, I)
            if s.at(rf'self\._offset = {ix}', I):
                s.i += 1
                if s.at(rf'if {addr} is FAILURE:', I):
                    kind = 'not'
                elif s.at(rf'if {addr} is not FAILURE:', I):
                    kind = 'and'
                else:
                    raise TranslateError(f'_read_{s.name}: unrecognised lookahead at {s.peek()!r}')
                s.i += 1
                s.expect(rf'{addr} = TreeNode\(self\._input\[self\._offset:self\._offset\], self\._offset, \[\]\)', I + 4)
                s.expect(r'self\._offset = self\._offset', I + 4)
                s.expect(r'else:', I)
                s.expect(rf'{addr} = FAILURE', I + 4)
                return [kind, e]
            s.expect(rf'if {addr} is FAILURE:', I)
            if s.at(rf'{addr} = TreeNode\(self\._input\[{ix}:{ix}\], {ix}, \[\]\)', I + 4):
                s.i += 1
                s.expect(rf'self\._offset = {ix}', I + 4)
                return ['opt', e]
            alts = [e]
            J = I + 4
            while True:
                s.expect(rf'self\._offset = {ix}', J)
                if s.ind() != J or not s.peek().strip():
                    break
                save = s.i
                try:
                    e2 = s.expr(addr, J)
                except TranslateError:
                    s.i = save
                    break
                alts.append(e2)
                if s.at(rf'if {addr} is FAILURE:', J):
                    s.i += 1
                    J += 4
                else:
                    break
            if len(alts) < 2:
                raise TranslateError(f'_read_{s.name}: choice with a single alternative')
            return ['choice', alts]
        raise TranslateError(f'_read_{s.name}: unrecognised template at {s.peek()!r}')

    def seq_items(s, ix, el, I):
        m = s.expect(r'(address\d+) = FAILURE', I)
        a = m.group(1)
        e = s.expr(a, I)
        s.expect(rf'if {a} is not FAILURE:', I)
        s.expect(rf'{el}\.append\({a}\)', I + 4)
        rest = []
        if s.at(r'address\d+ = FAILURE', I + 4):
            rest = s.seq_items(ix, el, I + 4)
        s.expect(r'else:', I)
        s.expect(rf'{el} = None', I + 4)
        s.expect(rf'self\._offset = {ix}', I + 4)
        return [e] + rest


def decompile(path):
    """Returns ({rule: expr}, {rule: error message}) for the generated parser at `path`."""
    raw = open(path, encoding='utf-8').read()
    try:
        src = ast.unparse(ast.parse(raw))
    except SyntaxError as ex:
        raise TranslateError(f'akn.py does not parse: {ex}')
    tn = {}
    for m in re.finditer(r'class (TreeNode\d+)\(TreeNode\):\n\n?    def __init__\(self, text, offset, elements\):\n        super\((?:\1, self)?\)\.__init__\(text, offset, elements\)\n((?:        self\.\w+ = elements\[\d+\]\n)*)', src):
        d = {}
        for a, i in re.findall(r'self\.(\w+) = elements\[(\d+)\]', m.group(2)):
            # a later assignment to the same attribute wins in Python
            for lst in d.values():
                if a in lst:
                    lst.remove(a)
            d.setdefault(int(i), []).append(a)
        tn[m.group(1)] = d
    regex = {}
    for k, v in re.findall(r"    (REGEX_\d+) = re\.compile\((.*)\)\n", src):
        regex[k] = ast.literal_eval(v)
    funcs = {}
    cur = None
    in_grammar = False
    for ln in src.split('\n'):
        if re.match(r'class \w+', ln):
            in_grammar = ln.startswith('class Grammar')
            cur = None
            continue
        if not in_grammar:
            continue
        m = re.match(r'    def _read_(\w+)\(self\):', ln)
        if m:
            cur = m.group(1)
            if cur in funcs:
                raise TranslateError(f'akn.py: duplicate _read_{cur}')
            funcs[cur] = []
            continue
        if re.match(r'    \S', ln):
            cur = None
        if cur is not None:
            funcs[cur].append(ln)
    out, bad = {}, {}
    for name, body in funcs.items():
        try:
            out[name] = _Dec(name, body, tn, regex).func()
        except TranslateError as ex:
            bad[name] = str(ex)
    return out, bad


# --------------------------------------------------------------------------- Lean emission
def lean_str(s):
    out = ['"']
    for c in s:
        o = ord(c)
        if c == '"':
            out.append('\\"')
        elif c == '\\':
            out.append('\\\\')
        elif c == '\n':
            out.append('\\n')
        elif c == '\t':
            out.append('\\t')
        elif c == '\r':
            out.append('\\r')
        elif 32 <= o < 127:
            out.append(c)
        else:
            out.append('\\u{%x}' % o)
    out.append('"')
    return ''.join(out)


def lean_chars(st):
    return '[' + ', '.join('Char.ofNat %d' % ord(c) for c in st) + ']'


def lean_strs(l):
    return '[' + ', '.join(lean_str(x) for x in l) + ']'


def lean_expr(e):
    k = e[0]
    if k == 'lit':
        return f'(.lit {lean_chars(e[1])})'
    if k == 'class':
        return f'(.cls {"true" if e[1] else "false"} {lean_chars(e[2])})'
    if k == 'ref':
        return f'(.ref {lean_str(e[1])})'
    if k == 'seq':
        s = '.nil'
        for labs, x in reversed(e[1]):
            s = f'(.cons {lean_strs(labs)} {lean_expr(x)} {s})'
        return f'(.seq {s})'
    if k == 'choice':
        s = '.nil'
        for x in reversed(e[1]):
            s = f'(.cons {lean_expr(x)} {s})'
        return f'(.choice {s})'
    if k in ('opt', 'star', 'plus'):
        return f'(.{k} {lean_expr(e[1])})'
    if k == 'not':
        return f'(.notP {lean_expr(e[1])})'
    if k == 'and':
        return f'(.andP {lean_expr(e[1])})'
    if k == 'type':
        return f'(.typed {lean_str(e[1])} {lean_expr(e[2])})'
    raise TranslateError(k)


def wf_certificate(rules):
    """Well-formedness certificate for `peg_terminates` (computed here, *checked* in Lean by `wfG`):
    the nullable rule set (least fixed point) and a rank per rule such that every rule reference on the
    left edge of a rule body has a smaller rank.  With left recursion no such ranks exist; the ranks
    emitted then fail the Lean check, which is the point."""
    N = set()

    def null(e):
        k = e[0]
        if k == 'lit':
            return e[1] == ''
        if k == 'class':
            return False
        if k == 'ref':
            return e[1] in N
        if k == 'seq':
            return all(null(x) for _, x in e[1])
        if k == 'choice':
            return any(null(x) for x in e[1])
        if k in ('opt', 'star', 'not', 'and'):
            return True
        if k == 'plus':
            return null(e[1])
        if k == 'type':
            return null(e[2])
        raise TranslateError(k)
    changed = True
    while changed:
        changed = False
        for r, e in rules.items():
            if r not in N and null(e):
                N.add(r)
                changed = True

    def left(e):
        k = e[0]
        if k in ('lit', 'class'):
            return set()
        if k == 'ref':
            return {e[1]}
        if k == 'seq':
            out = set()
            for _, x in e[1]:
                out |= left(x)
                if not null(x):
                    break
            return out
        if k == 'choice':
            return set().union(*[left(x) for x in e[1]]) if e[1] else set()
        if k in ('opt', 'star', 'plus', 'not', 'and'):
            return left(e[1])
        if k == 'type':
            return left(e[2])
        raise TranslateError(k)
    L = {r: left(e) for r, e in rules.items()}
    rank = {r: 0 for r in rules}
    for _ in range(len(rules) + 1):
        changed = False
        for r in rules:
            v = max([rank.get(x, 0) + 1 for x in L[r]], default=0)
            v = min(v, len(rules) + 1)
            if v != rank[r]:
                rank[r] = v
                changed = True
        if not changed:
            break
    return sorted(N), rank, len(rules) + 2


def lean_certificate(prefix, rules):
    N, rank, top = wf_certificate(rules)
    return (f'/-- certificate for `peg_terminates`: nullable rules, ranks, bound (computed by the translator, checked by `wfG`) -/\n'
            f'def {prefix}Nullable : List String := {lean_strs(N)}\n'
            f'def {prefix}Ranks : List (String × Nat) := [' + ', '.join(f'({lean_str(r)}, {rank[r]})' for r in rules) + ']\n'
            f'def {prefix}RankTop : Nat := {top}\n')


def lean_grammar(defname, rules, order, doc):
    lines = [f'/-- {doc} -/', f'def {defname} : Grammar := [']
    lines.append(',\n'.join(f'  ({lean_str(r)}, {lean_expr(rules[r])})' for r in order))
    lines.append(']')
    return '\n'.join(lines) + '\n'
