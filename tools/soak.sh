#!/bin/bash
# tools/soak.sh "<seeds>" [tier] — run the tie+oracle part of every check for each seed (no evidence written); prints non-discharged obligations
cd /verif; mkdir -p .work/soak; rm -f .work/soak/*.log
tier=${2:-quick}
for sd in $1; do for pid in $(python3 -c "import json;print(' '.join(c['property_id'] for c in json.load(open('MANIFEST.json'))['checks']))"); do echo "$sd $pid"; done; done |
 xargs -P 5 -L 1 bash -c 'VERIF_TIER='$tier' VERIF_SEED=$0 tools/try_run.sh none $1 > .work/soak/$1.$0.'$tier'.log 2>&1'
grep -l "^False\|Traceback" .work/soak/*.$tier.log | while read f; do echo "== $f"; grep "^False\|FAIL\|Error" $f | cut -c1-500 | head -12; done
echo soak-done
