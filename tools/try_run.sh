#!/bin/bash
# tools/try_run.sh <patch.diff|none> <property id>: run only the Python tie+oracle part of a check (no Lean build) against /repo with a patch applied
patch="$1"; pid="$2"
if [ "$patch" != none ]; then git -C /repo apply "$(realpath "$patch")" || exit 3; trap 'git -C /repo checkout -- .' EXIT; fi
cd /verif && /venv/bin/python - "$pid" <<'PY'
import sys, time; sys.path.insert(0,'/verif')
from harness import core, real
import importlib
pid=sys.argv[1]
real.use_repo('/repo')
mod=importlib.import_module('harness.props.'+pid)
import os
ctx=core.Ctx(pid,os.environ.get('VERIF_TIER','quick'),int(os.environ.get('VERIF_SEED','0')),'/repo')
t=time.time()
import json
res=mod.run(ctx,{"driver":True,"translate":json.load(open("/verif/lean/Bluebell/Gen/status.json"))})
print('time %.1f'%(time.time()-t))
for o in ctx.obligations: print(o['ok'], o['name'][:80], '|', o['detail'][:160])
for f in [x for x in res['failures'] if not x.get('finding')][:8]: print('  FAIL', f['kind'], f.get('finding'), f['summary'][:300])
PY
